import BddVerif.Lemmas.AlgoEqNestedInner
/-!
`nested_apply`: the function GENERATED from the Rust text (`B.Gen.Algo.nested_apply`: outer task stack, three caches, calls
the generated `inner_apply` on triggered variables, ends with the generated `fix_bdd_alignment`) computes the hand-written
recursive model `B.nestedApply`.

* `nested_desugar`: the generated `do` block is `loopN (oStep …) fuel` of a hand-written step function followed by the
  generated `fix_bdd_alignment`.
* `oloop_all`: simulation of the outer recursion by the outer loop (each triggered decision runs the generated `inner_apply`,
  discharged by `inner_apply_eq_model`).
* `nested_apply_eq_model`, `nested_apply_panic`, `nested_apply_eq_canon`.
-/
namespace B.AlgoEq
open B B.Gen Std
attribute [local instance 10000] Rust.monadOutcomeInline

/-- loop state of `nested_apply`: `result`, `output`, `node_cache`, `outer_cache`, `inner_cache`, `outer_stack` -/
abbrev OS := Arr × Nat × HashMap Node Nat × HashMap Task Nat × HashMap Task Nat × Array Task

/-- L330-L365 on the loop state `(result, node_cache, inner_cache)`: the pointer for a task whose two sub-results are
    known; on a triggered variable this is the GENERATED `inner_apply`, run with the same fuel -/
def oFinishL (fuel : Nat) (trigger : Nat → Bool) (inner : Op2) (res : Arr) (nc : HashMap Node Nat)
    (ic : HashMap Task Nat) (d lo hi : Nat) : Outcome (Arr × HashMap Node Nat × HashMap Task Nat × Nat) :=
  if lo = hi then .ok (res, nc, ic, lo)
  else if trigger d then
    Outcome.bind (Algo.inner_apply fuel res lo hi nc ic inner) fun ir => .ok (ir.2.1, ir.2.2.1, ir.2.2.2, ir.1)
  else .ok ((finishL res nc d lo hi).1, (finishL res nc d lo hi).2.1, ic, (finishL res nc d lo hi).2.2)

/-- one iteration of the outer loop of `nested_apply` (L287-L375), written by hand -/
def oStep (fuel : Nat) (L R : Arr) (trigger : Nat → Bool) (outer inner : Op2) (σ : OS) : Outcome (ForInStep OS) :=
  match σ.2.2.2.2.2.back? with
  | none => .ok (.done σ)
  | some t =>
    match σ.2.2.2.1[t]? with
    | some saved => .ok (.yield (σ.1, saved, σ.2.2.1, σ.2.2.2.1, σ.2.2.2.2.1, σ.2.2.2.2.2.pop))
    | none =>
      Outcome.bind (Rust.idx L t.1) fun nl =>
      Outcome.bind (Rust.idx R t.2) fun nr =>
      let d := min nl.var nr.var
      let kl := kidsOf t.1 nl d
      let kr := kidsOf t.2 nr d
      let lo := lookup outer σ.2.2.2.1 kl.1 kr.1
      let hi := lookup outer σ.2.2.2.1 kl.2 kr.2
      match lo, hi with
      | some lo, some hi =>
        Outcome.bind (oFinishL fuel trigger inner σ.1 σ.2.2.1 σ.2.2.2.2.1 d lo hi) fun f =>
        .ok (.yield (f.1, f.2.2.2, f.2.1, σ.2.2.2.1.insert t f.2.2.2, f.2.2.1, σ.2.2.2.2.2.pop))
      | _, _ =>
        .ok (.yield (σ.1, σ.2.1, σ.2.2.1, σ.2.2.2.1, σ.2.2.2.2.1,
          pushMissing σ.2.2.2.2.2 lo hi (kl.1, kr.1) (kl.2, kr.2)))

/-- initial loop state (L259-L285) -/
def oInit (L R : Arr) (n rl rr : Nat) : OS :=
  (mkTrue n, 0,
    ((HashMap.emptyWithCapacity (max L.size R.size)).insert (zeroN n) 0).insert (oneN n) 1,
    HashMap.emptyWithCapacity (max L.size R.size), HashMap.emptyWithCapacity (max L.size R.size), #[(rl, rr)])

theorem nested_desugar (fuel : Nat) (L R : Arr) (trigger : Nat → Bool) (outer inner : Op2) :
    Algo.nested_apply fuel L R trigger outer inner =
      (Algo.Bdd_num_vars L).bind fun n =>
      (Algo.Bdd_num_vars R).bind fun nR =>
      if nR != n then .panic "Var count mismatch: BDDs are not compatible. {} != {}"
      else
        (Algo.Bdd_root_pointer L).bind fun rl =>
        (Algo.Bdd_root_pointer R).bind fun rr =>
        (loopN (oStep fuel L R trigger outer inner) fuel (oInit L R n rl rr)).bind fun σ =>
        match σ.2.2.2.2.2.back? with
        | some _ => .panic "fuel"
        | none => Algo.fix_bdd_alignment fuel σ.1 σ.2.1 := by
  unfold Algo.nested_apply
  simp only []
  cases hn : Algo.Bdd_num_vars L with
  | err m => rfl
  | panic m => rfl
  | ok n =>
    cases hn' : Algo.Bdd_num_vars R with
    | err m => rfl
    | panic m => rfl
    | ok nR =>
      simp only [bind_ok, Outcome.bind]
      by_cases hne : (nR != n) = true
      · simp only [hne, if_true]; rfl
      simp only [hne, if_false, Bool.false_eq_true]
      cases hrl : Algo.Bdd_root_pointer L with
      | err m => rfl
      | panic m => rfl
      | ok rl =>
        cases hrr : Algo.Bdd_root_pointer R with
        | err m => rfl
        | panic m => rfl
        | ok rr =>
          simp only [bind_ok]
          rw [forIn_range_eq_loopN _ _ _ (oStep fuel L R trigger outer inner)]
          · have ei : ((Algo.Bdd_mk_true n, Algo.BddPointer_zero,
                ((Rust.hashMapWithCapacity (max (Algo.Bdd_size L) (Algo.Bdd_size R))).insert (Algo.BddNode_mk_zero n)
                    Algo.BddPointer_zero).insert (Algo.BddNode_mk_one n) Algo.BddPointer_one,
                Rust.hashMapWithCapacity (max (Algo.Bdd_size L) (Algo.Bdd_size R)),
                Rust.hashMapWithCapacity (max (Algo.Bdd_size L) (Algo.Bdd_size R)),
                (Rust.vecWithCapacity (max (Algo.Bdd_size L) (Algo.Bdd_size R))).push (rl, rr)) : OS) =
                oInit L R n rl rr := rfl
            rw [ei]
            cases loopN (oStep fuel L R trigger outer inner) fuel (oInit L R n rl rr) with
            | err m => rfl
            | panic m => rfl
            | ok σ =>
              simp only [bind_ok]
              cases σ.2.2.2.2.2.back? with
              | none => rfl
              | some _ => rfl
          · intro i σ
            obtain ⟨res, out, nc, oc, ic, st⟩ := σ
            unfold oStep
            simp only []
            cases hb : st.back? with
            | none => rfl
            | some t =>
              simp only []
              cases hc : oc[t]? with
              | some saved => rfl
              | none =>
                simp only [Algo.BddPointer_to_index, Algo.Bdd_low_link_of, Algo.Bdd_high_link_of, Algo.Bdd_var_of]
                cases h1 : Rust.idx L t.1 with
                | err m => rfl
                | panic m => rfl
                | ok nl =>
                  cases h2 : Rust.idx R t.2 with
                  | err m => rfl
                  | panic m => rfl
                  | ok nr =>
                    simp only [bind_ok, pure_eq, Outcome.bind, lookup_eq]
                    have hrp : ∀ nd', Algo.Bdd_root_pointer (Array.push res nd') = .ok (Rust.asU32 res.size) := by
                      intro nd'
                      simp [Algo.Bdd_root_pointer, Rust.sub, Algo.BddPointer_from_index, pure_eq, bind_ok]
                    generalize min nl.var nr.var = d
                    by_cases c1 : nl.var = d <;> by_cases c2 : nr.var = d
                    all_goals
                      simp only [kidsOf, oFinishL, finishL, pushMissing, bne_iff_ne, ne_eq, c1, c2, not_true_eq_false, not_false_eq_true,
                        if_true, if_false, hrp, bind_ok, Algo.BddNode_mk_node, Algo.Bdd_push_node, beq_iff_eq]
                    · generalize lookup outer oc nl.low nr.low = lo
                      generalize lookup outer oc nl.high nr.high = hi
                      cases lo <;> cases hi <;> simp only [Option.isNone_none, Option.isNone_some, if_true, if_false, Bool.false_eq_true]
                      try (
                        rename_i lo hi
                        by_cases he : lo = hi
                        · simp only [he, if_true]
                        · simp only [he, if_false]
                          by_cases htr : trigger d = true
                          · simp only [htr, if_true]
                            cases Algo.inner_apply fuel res lo hi nc ic inner <;> rfl
                          · simp only [htr, if_false, Bool.false_eq_true]
                            cases nc[(⟨d, lo, hi⟩ : Node)]? <;> rfl)
                    · generalize lookup outer oc nl.low t.2 = lo
                      generalize lookup outer oc nl.high t.2 = hi
                      cases lo <;> cases hi <;> simp only [Option.isNone_none, Option.isNone_some, if_true, if_false, Bool.false_eq_true]
                      try (
                        rename_i lo hi
                        by_cases he : lo = hi
                        · simp only [he, if_true]
                        · simp only [he, if_false]
                          by_cases htr : trigger d = true
                          · simp only [htr, if_true]
                            cases Algo.inner_apply fuel res lo hi nc ic inner <;> rfl
                          · simp only [htr, if_false, Bool.false_eq_true]
                            cases nc[(⟨d, lo, hi⟩ : Node)]? <;> rfl)
                    · generalize lookup outer oc t.1 nr.low = lo
                      generalize lookup outer oc t.1 nr.high = hi
                      cases lo <;> cases hi <;> simp only [Option.isNone_none, Option.isNone_some, if_true, if_false, Bool.false_eq_true]
                      try (
                        rename_i lo hi
                        by_cases he : lo = hi
                        · simp only [he, if_true]
                        · simp only [he, if_false]
                          by_cases htr : trigger d = true
                          · simp only [htr, if_true]
                            cases Algo.inner_apply fuel res lo hi nc ic inner <;> rfl
                          · simp only [htr, if_false, Bool.false_eq_true]
                            cases nc[(⟨d, lo, hi⟩ : Node)]? <;> rfl)
                    · generalize lookup outer oc t.1 t.2 = lo
                      cases lo <;> simp only [Option.isNone_none, if_true]

theorem oStep_cached (fuel : Nat) (L R : Arr) (trigger : Nat → Bool) (outer inner : Op2) (res : Arr) (out : Nat)
    (nc : HashMap Node Nat) (oc ic : HashMap Task Nat) (rest : Array Task) (t : Task) (v : Nat) (h : oc[t]? = some v) :
    oStep fuel L R trigger outer inner (res, out, nc, oc, ic, rest.push t) = .ok (.yield (res, v, nc, oc, ic, rest)) := by
  unfold oStep
  simp [h]

theorem oStep_uncached (fuel : Nat) (L R : Arr) (trigger : Nat → Bool) (outer inner : Op2) (res : Arr) (out : Nat)
    (nc : HashMap Node Nat) (oc ic : HashMap Task Nat) (rest : Array Task) (l r : Nat)
    (hl : l < L.size) (hr : r < R.size) (hc : oc[(l, r)]? = none) :
    oStep fuel L R trigger outer inner (res, out, nc, oc, ic, rest.push (l, r)) =
      match lookup outer oc (kids L l (min (nodeAt L l).var (nodeAt R r).var) none).1
              (kids R r (min (nodeAt L l).var (nodeAt R r).var) none).1,
            lookup outer oc (kids L l (min (nodeAt L l).var (nodeAt R r).var) none).2
              (kids R r (min (nodeAt L l).var (nodeAt R r).var) none).2 with
      | some lo, some hi =>
        Outcome.bind (oFinishL fuel trigger inner res nc ic (min (nodeAt L l).var (nodeAt R r).var) lo hi) fun f =>
        .ok (.yield (f.1, f.2.2.2, f.2.1, oc.insert (l, r) f.2.2.2, f.2.2.1, rest))
      | lo, hi =>
        .ok (.yield (res, out, nc, oc, ic, pushMissing (rest.push (l, r)) lo hi
          ((kids L l (min (nodeAt L l).var (nodeAt R r).var) none).1,
            (kids R r (min (nodeAt L l).var (nodeAt R r).var) none).1)
          ((kids L l (min (nodeAt L l).var (nodeAt R r).var) none).2,
            (kids R r (min (nodeAt L l).var (nodeAt R r).var) none).2))) := by
  unfold oStep
  simp only [Array.back?_push, hc, idx_eq _ _ hl, idx_eq _ _ hr, Outcome.bind, kidsOf_eq, nodeAt_eq _ _ hl,
    nodeAt_eq _ _ hr, Array.pop_push]
  split <;> simp_all

/-- loop state against model state -/
structure OLRel (res : Arr) (nc : HashMap Node Nat) (oc ic : HashMap Task Nat) (s : NSt) : Prop where
  res : res = s.res
  nodes : nc.Equiv s.nodes
  outer : oc.Equiv s.outer
  inner : ic.Equiv s.inner

theorem nestedFinish_res_size (Γ : NCtx) (s : NSt) (l r d lo hi : Nat) (hp : Prefix s.res (innerApply Γ.inner lo hi s).1.res) :
    s.res.size ≤ (nestedFinish Γ s l r d lo hi).1.res.size := by
  unfold nestedFinish
  split
  · exact Nat.le_refl _
  · split
    · exact hp.1
    · unfold nFindOrPush; split
      · exact Nat.le_refl _
      · simp

section
variable {Γ : NCtx} {n : Nat} {c dop : Bool → Bool → Bool}

/-- the finishing step against `nestedFinish` -/
theorem ofinish_rel (ok : NOk Γ n c dop) (fuel : Nat) (s2 : NSt) (hs2 : NInv Γ n c dop s2) (res : Arr)
    (nc : HashMap Node Nat) (oc ic : HashMap Task Nat) (hrel : OLRel res nc oc ic s2) (l r d lo hi : Nat)
    (hlo : lo < s2.res.size) (hhi : hi < s2.res.size)
    (h32 : (nestedFinish Γ s2 l r d lo hi).1.res.size ≤ 4294967296)
    (hfuel : 3 * (nestedFinish Γ s2 l r d lo hi).1.inner.size + 1 ≤ fuel) :
    ∃ (nc' : HashMap Node Nat) (ic' : HashMap Task Nat),
      oFinishL fuel Γ.trigger Γ.inner res nc ic d lo hi =
        .ok ((nestedFinish Γ s2 l r d lo hi).1.res, nc', ic', (nestedFinish Γ s2 l r d lo hi).2) ∧
      OLRel (nestedFinish Γ s2 l r d lo hi).1.res nc' (oc.insert (l, r) (nestedFinish Γ s2 l r d lo hi).2) ic'
        (nestedFinish Γ s2 l r d lo hi).1 := by
  obtain ⟨hres, hn, ho, hi'⟩ := hrel
  subst hres
  unfold oFinishL nestedFinish at *
  by_cases he : lo = hi
  · simp only [he, if_true]
    exact ⟨nc, ic, rfl, rfl, hn, ho.insert _ _, hi'⟩
  · simp only [he, if_false] at h32 hfuel ⊢
    by_cases htr : Γ.trigger d = true
    · simp only [htr, if_true] at h32 hfuel ⊢
      obtain ⟨nc', ic', e, rn, ri⟩ := inner_apply_eq_model ok s2 hs2 lo hi hlo hhi nc ic hn hi' h32 fuel (by omega)
      rw [e]
      have hio : (innerApply Γ.inner lo hi s2).1.outer = s2.outer := by unfold innerApply; exact innerRec_outer _ _ _ _ _
      refine ⟨nc', ic', rfl, rfl, rn, ?_, ri⟩
      show (oc.insert _ _).Equiv ((innerApply Γ.inner lo hi s2).1.outer.insert _ _)
      rw [hio]; exact ho.insert _ _
    · simp only [htr, if_false, Bool.false_eq_true] at h32 hfuel ⊢
      unfold finishL nFindOrPush at *
      simp only [he, if_false]
      rw [hn.getElem?_eq]
      cases hc : s2.nodes[(⟨d, lo, hi⟩ : Node)]? with
      | some i =>
        simp only
        exact ⟨nc, ic, rfl, rfl, hn, ho.insert _ _, hi'⟩
      | none =>
        simp only [hc, Array.size_push] at h32 ⊢
        rw [asU32_of_lt _ (by omega)]
        exact ⟨_, ic, rfl, rfl, hn.insert _ _, ho.insert _ _, hi'⟩


theorem nestedRec_cached (Γ : NCtx) (f : Nat) (hf : 0 < f) (x y : Nat) (s : NSt) (v : Nat)
    (h : s.outer[(x, y)]? = some v) : nestedRec Γ f x y s = (s, v) := by
  obtain ⟨f', rfl⟩ : ∃ f', f = f' + 1 := ⟨f - 1, by omega⟩
  show nestedStep Γ (nestedRec Γ f') x y s = (s, v)
  unfold nestedStep
  simp [h]

/-- model-side facts about one sub-task `(x, y)` of an outer task with decision level `d` -/
theorem osolve_model (ok : NOk Γ n c dop) (f d x y : Nat) (s : NSt) (hs : NInv Γ n c dop s)
    (hv : Γ.outer (asBool x) (asBool y) = none →
      x < Γ.L.size ∧ y < Γ.R.size ∧ d + 1 ≤ varOf Γ.L n x ∧ d + 1 ≤ varOf Γ.R n y ∧ n - (d + 1) < f) :
    NInv Γ n c dop (nSolve Γ.outer (nestedRec Γ f) x y s).1 ∧
    Prefix s.res (nSolve Γ.outer (nestedRec Γ f) x y s).1.res ∧
    (nSolve Γ.outer (nestedRec Γ f) x y s).2 < (nSolve Γ.outer (nestedRec Γ f) x y s).1.res.size ∧
    OOut2 Γ n s x y (d + 1) (nSolve Γ.outer (nestedRec Γ f) x y s) ∧
    lookup Γ.outer (nSolve Γ.outer (nestedRec Γ f) x y s).1.outer x y =
      some (nSolve Γ.outer (nestedRec Γ f) x y s).2 := by
  unfold nSolve
  cases hop : Γ.outer (asBool x) (asBool y) with
  | some cc =>
    simp only
    exact ⟨hs, Prefix.refl _, ofBool_lt hs.rt.red cc, OOut2.refl_of_term s x y _ cc hop, by unfold lookup; rw [hop]⟩
  | none =>
    simp only
    obtain ⟨hx, hy, hlx, hly, hf⟩ := hv hop
    have S := nestedRec_spec ok f (d + 1) hf x y s hs hx hy hlx hly
    have T := nestedRec_spec2 ok f (d + 1) hf x y s hs hx hy hlx hly
    exact ⟨S.inv, S.pre, S.lt, T, by unfold lookup; rw [hop]; exact T.cached hop⟩

variable (Γ n c dop) in
/-- the simulation statement of the outer loop at model fuel `f`; `fuel` is what the loop hands to `inner_apply` -/
def OLoop (fuel f : Nat) : Prop :=
  ∀ k, n - k < f → ∀ (l r : Nat) (s : NSt) (res : Arr) (nc : HashMap Node Nat) (oc ic : HashMap Task Nat),
    NInv Γ n c dop s → OLRel res nc oc ic s → l < Γ.L.size → r < Γ.R.size →
    k ≤ varOf Γ.L n l → k ≤ varOf Γ.R n r →
    (nestedRec Γ f l r s).1.res.size ≤ 4294967296 →
    3 * (nestedRec Γ f l r s).1.inner.size + 1 ≤ fuel →
    ∃ (t : Nat) (nc' : HashMap Node Nat) (oc' ic' : HashMap Task Nat),
      OLRel (nestedRec Γ f l r s).1.res nc' oc' ic' (nestedRec Γ f l r s).1 ∧
      t + 3 * s.outer.size ≤ 3 * (nestedRec Γ f l r s).1.outer.size + 1 ∧
      ∀ (e out : Nat) (rest : Array Task),
        loopN (oStep fuel Γ.L Γ.R Γ.trigger Γ.outer Γ.inner) (t + e) (res, out, nc, oc, ic, rest.push (l, r)) =
          loopN (oStep fuel Γ.L Γ.R Γ.trigger Γ.outer Γ.inner) e
            ((nestedRec Γ f l r s).1.res, (nestedRec Γ f l r s).2, nc', oc', ic', rest)

/-- loop-side run of one outer sub-task: it is on the stack iff `pushed` -/
theorem osub_call {fuel f : Nat} (ih : OLoop Γ n c dop fuel f) (d x y : Nat) (s : NSt)
    (res : Arr) (nc : HashMap Node Nat) (oc ic : HashMap Task Nat) (hs : NInv Γ n c dop s) (hrel : OLRel res nc oc ic s)
    (hv : Γ.outer (asBool x) (asBool y) = none →
      x < Γ.L.size ∧ y < Γ.R.size ∧ d + 1 ≤ varOf Γ.L n x ∧ d + 1 ≤ varOf Γ.R n y ∧ n - (d + 1) < f)
    (pushed : Bool) (hp : pushed = false → ∃ v, lookup Γ.outer s.outer x y = some v)
    (hp' : pushed = true → Γ.outer (asBool x) (asBool y) = none)
    (h32 : (nSolve Γ.outer (nestedRec Γ f) x y s).1.res.size ≤ 4294967296)
    (hfi : 3 * (nSolve Γ.outer (nestedRec Γ f) x y s).1.inner.size + 1 ≤ fuel) :
    ∃ (t : Nat) (nc' : HashMap Node Nat) (oc' ic' : HashMap Task Nat),
      OLRel (nSolve Γ.outer (nestedRec Γ f) x y s).1.res nc' oc' ic' (nSolve Γ.outer (nestedRec Γ f) x y s).1 ∧
      t + 3 * s.outer.size ≤ 3 * (nSolve Γ.outer (nestedRec Γ f) x y s).1.outer.size + (if pushed then 1 else 0) ∧
      ∀ (e out : Nat) (stack : Array Task), ∃ out' : Nat,
        loopN (oStep fuel Γ.L Γ.R Γ.trigger Γ.outer Γ.inner) (t + e)
            (res, out, nc, oc, ic, if pushed then stack.push (x, y) else stack) =
          loopN (oStep fuel Γ.L Γ.R Γ.trigger Γ.outer Γ.inner) e
            ((nSolve Γ.outer (nestedRec Γ f) x y s).1.res, out', nc', oc', ic', stack) := by
  have hres := hrel.res
  unfold nSolve at *
  cases hop : Γ.outer (asBool x) (asBool y) with
  | some cc =>
    simp only
    have hpf : pushed = false := by
      cases pushed with
      | false => rfl
      | true => have := hp' rfl; rw [hop] at this; cases this
    subst hpf
    exact ⟨0, nc, oc, ic, hres ▸ hrel, by simp, fun e out stack => ⟨out, by simp [hres]⟩⟩
  | none =>
    simp only [hop] at h32 hfi ⊢
    obtain ⟨hx, hy, hlx, hly, hf⟩ := hv hop
    cases pushed with
    | true =>
      obtain ⟨t, nc', oc', ic', h1, h2, h3⟩ := ih (d + 1) hf x y s res nc oc ic hs hrel hx hy hlx hly h32 hfi
      exact ⟨t, nc', oc', ic', h1, by simpa using h2, fun e out stack => ⟨_, by simpa using h3 e out stack⟩⟩
    | false =>
      obtain ⟨v, hv'⟩ := hp rfl
      have hcv : s.outer[(x, y)]? = some v := by unfold lookup at hv'; rw [hop] at hv'; exact hv'
      rw [nestedRec_cached Γ f (by omega) x y s v hcv]
      exact ⟨0, nc, oc, ic, hres ▸ hrel, by simp, fun e out stack => ⟨out, by simp [hres]⟩⟩


theorem oloop_succ (ok : NOk Γ n c dop) (fuel f : Nat) (ih : OLoop Γ n c dop fuel f) : OLoop Γ n c dop fuel (f + 1) := by
  intro k hk l r s res nc oc ic hs hrel hl hr hkl hkr h32 hfi
  have hres := hrel.res
  subst hres
  have hstep : nestedRec Γ (f + 1) l r s = nestedStep Γ (nestedRec Γ f) l r s := rfl
  rw [hstep] at h32 hfi ⊢
  unfold nestedStep at h32 hfi ⊢
  cases hfin : s.outer[(l, r)]? with
  | some p =>
    simp only
    have hc : oc[(l, r)]? = some p := by rw [hrel.outer.getElem?_eq]; exact hfin
    refine ⟨1, nc, oc, ic, hrel, by omega, fun e out rest => ?_⟩
    rw [Nat.add_comm, loopN_yield (oStep_cached fuel Γ.L Γ.R Γ.trigger Γ.outer Γ.inner s.res out nc oc ic rest (l, r) p hc)]
  | none =>
    simp only [hfin] at h32 hfi ⊢
    have hc : oc[(l, r)]? = none := by rw [hrel.outer.getElem?_eq]; exact hfin
    have hstepL := fun out rest =>
      oStep_uncached fuel Γ.L Γ.R Γ.trigger Γ.outer Γ.inner s.res out nc oc ic rest l r hl hr hc
    have hdv : min (nodeAt Γ.L l).var (nodeAt Γ.R r).var = olvl Γ n l r := by
      rw [nodeAt_var ok.wfL l hl, nodeAt_var ok.wfR r hr]; rfl
    generalize hd : min (nodeAt Γ.L l).var (nodeAt Γ.R r).var = d at h32 hfi hstepL hdv ⊢
    have hdk : k ≤ d := by rw [hdv]; unfold olvl; omega
    have hkids : ∀ bb : Bool,
        Γ.outer (asBool (sel bb (kids Γ.L l d none))) (asBool (sel bb (kids Γ.R r d none))) = none →
        sel bb (kids Γ.L l d none) < Γ.L.size ∧ sel bb (kids Γ.R r d none) < Γ.R.size ∧
        d + 1 ≤ varOf Γ.L n (sel bb (kids Γ.L l d none)) ∧ d + 1 ≤ varOf Γ.R n (sel bb (kids Γ.R r d none)) ∧
        n - (d + 1) < f := by
      intro bb hnone
      by_cases hdn : d < n
      · have kl := evW_kids ok.wfL l hl d (by rw [hdv]; unfold olvl; omega) hdn none (fun _ => false) bb
        have kr := evW_kids ok.wfR r hr d (by rw [hdv]; unfold olvl; omega) hdn none (fun _ => false) bb
        exact ⟨kl.2.1, kr.2.1, kl.2.2, kr.2.2, by omega⟩
      · exfalso
        have hvl := ok.wfL.varOf_le l
        have hvr := ok.wfR.varOf_le r
        have hde : d = n := by rw [hdv] at hdn ⊢; unfold olvl at *; omega
        have hl2 := ok.wfL.terminal_of_varOf l hl (by rw [hdv] at hde; unfold olvl at hde; omega)
        have hr2 := ok.wfR.terminal_of_varOf r hr (by rw [hdv] at hde; unfold olvl at hde; omega)
        rw [kids_terminal ok.wfL l hl hl2, kids_terminal ok.wfR r hr hr2] at hnone
        obtain ⟨x, hx, _⟩ := asBool_terminal l hl2
        obtain ⟨y, hy, _⟩ := asBool_terminal r hr2
        have : sel bb (l, l) = l := by cases bb <;> rfl
        rw [this] at hnone
        have : sel bb (r, r) = r := by cases bb <;> rfl
        rw [this, hx, hy, ok.consO.total] at hnone
        cases hnone
    have hk1 := hkids true
    have hk2 := hkids false
    simp only [sel_true, sel_false] at hk1 hk2
    clear hkids
    generalize hkl2 : (kids Γ.L l d none).1 = l2 at *
    generalize hkl1 : (kids Γ.L l d none).2 = l1 at *
    generalize hkr2 : (kids Γ.R r d none).1 = r2 at *
    generalize hkr1 : (kids Γ.R r d none).2 = r1 at *
    -- model facts
    obtain ⟨I1, P1, Lt1, T1, L1⟩ := osolve_model ok f d l1 r1 s hs hk1
    obtain ⟨I2, P2, Lt2, T2, L2⟩ := osolve_model ok f d l2 r2 _ I1 hk2
    have hsz1 := P1.1
    have hsz2 := P2.1
    have hlo : (nSolve Γ.outer (nestedRec Γ f) l2 r2 (nSolve Γ.outer (nestedRec Γ f) l1 r1 s).1).2 <
        (nSolve Γ.outer (nestedRec Γ f) l2 r2 (nSolve Γ.outer (nestedRec Γ f) l1 r1 s).1).1.res.size := Lt2
    have hhi : (nSolve Γ.outer (nestedRec Γ f) l1 r1 s).2 <
        (nSolve Γ.outer (nestedRec Γ f) l2 r2 (nSolve Γ.outer (nestedRec Γ f) l1 r1 s).1).1.res.size := by omega
    have hIA := innerApply_out ok _ _ 0 _ I2 hlo hhi (Nat.zero_le _) (Nat.zero_le _)
    have hfs := nestedFinish_res_size Γ (nSolve Γ.outer (nestedRec Γ f) l2 r2 (nSolve Γ.outer (nestedRec Γ f) l1 r1 s).1).1
      l r d (nSolve Γ.outer (nestedRec Γ f) l2 r2 (nSolve Γ.outer (nestedRec Γ f) l1 r1 s).1).2
      (nSolve Γ.outer (nestedRec Γ f) l1 r1 s).2 hIA.pre
    have hfi2 := nestedFinish_isz Γ (nSolve Γ.outer (nestedRec Γ f) l2 r2 (nSolve Γ.outer (nestedRec Γ f) l1 r1 s).1).1
      l r d (nSolve Γ.outer (nestedRec Γ f) l2 r2 (nSolve Γ.outer (nestedRec Γ f) l1 r1 s).1).2
      (nSolve Γ.outer (nestedRec Γ f) l1 r1 s).2
    have hi12 := T2.isz
    clear hIA
    -- loop runs of the two sub-tasks
    obtain ⟨t1, nc1, oc1, ic1, R1, c1, l1'⟩ := osub_call ih d l1 r1 s s.res nc oc ic hs hrel hk1
      (lookup Γ.outer oc l1 r1).isNone
      (by
        intro hf
        cases hx : lookup Γ.outer oc l1 r1 with
        | none => rw [hx] at hf; cases hf
        | some v => exact ⟨v, by rw [← lookup_equiv _ hrel.outer]; exact hx⟩)
      (by
        intro hf
        cases hop : Γ.outer (asBool l1) (asBool r1) with
        | none => rfl
        | some cc => unfold lookup at hf; rw [hop] at hf; cases hf)
      (by omega) (by omega)
    obtain ⟨t2, nc2, oc2, ic2, R2, c2, l2'⟩ := osub_call ih d l2 r2 _ _ nc1 oc1 ic1 I1 R1 hk2
      (lookup Γ.outer oc l2 r2).isNone
      (by
        intro hf
        cases hx : lookup Γ.outer oc l2 r2 with
        | none => rw [hx] at hf; cases hf
        | some v =>
          exact ⟨v, lookup_mono _ T1.mono _ _ _ (by rw [← lookup_equiv _ hrel.outer]; exact hx)⟩)
      (by
        intro hf
        cases hop : Γ.outer (asBool l2) (asBool r2) with
        | none => rfl
        | some cc => unfold lookup at hf; rw [hop] at hf; cases hf)
      (by omega) (by omega)
    have L1' := lookup_mono Γ.outer T2.mono _ _ _ L1
    generalize nSolve Γ.outer (nestedRec Γ f) l1 r1 s = o1 at *
    generalize nSolve Γ.outer (nestedRec Γ f) l2 r2 o1.1 = o2 at *
    have hmono : ∀ (key : Nat × Nat) (q : Nat), s.outer[key]? = some q → o2.1.outer[key]? = some q :=
      fun key q h => T2.mono key q (T1.mono key q h)
    have hframe : ∀ (l' r' : Nat), olvl Γ n l' r' < d + 1 → o2.1.outer[(l', r')]? = s.outer[(l', r')]? := by
      intro l' r' hl'
      rw [T2.frame l' r' hl']
      exact T1.frame l' r' hl'
    obtain ⟨_, hsize⟩ := nestedFinish_out2 (Γ := Γ) (n := n) (s := s) (s2 := o2.1) l r d o2.2 o1.2 k hdv hdk hfin
      hmono hframe (Nat.le_trans T1.osz T2.osz) (Nat.le_trans T1.isz T2.isz)
    have hc2 : oc2[(l, r)]? = none := by
      rw [R2.outer.getElem?_eq, hframe l r (by rw [hdv]; omega)]; exact hfin
    have hfinL := fun out rest =>
      oStep_uncached fuel Γ.L Γ.R Γ.trigger Γ.outer Γ.inner o2.1.res out nc2 oc2 ic2 rest l r hl hr hc2
    rw [hd] at hfinL
    simp only [hkl1, hkl2, hkr1, hkr2, lookup_equiv Γ.outer R2.outer, L2, L1'] at hfinL
    have hlo' : o2.2 < o2.1.res.size := Lt2
    have hhi' : o1.2 < o2.1.res.size := by omega
    obtain ⟨ncF, icF, hfp, hfrel⟩ := ofinish_rel ok fuel o2.1 I2 o2.1.res nc2 oc2 ic2 R2 l r d o2.2 o1.2 hlo' hhi' h32 hfi
    rw [hfp] at hfinL
    simp only [Outcome.bind] at hfinL
    generalize nestedFinish Γ o2.1 l r d o2.2 o1.2 = o at *
    by_cases hboth : (lookup Γ.outer oc l2 r2).isNone = false ∧ (lookup Γ.outer oc l1 r1).isNone = false
    · obtain ⟨hb2', hb1'⟩ := hboth
      rw [hb1'] at l1' c1; rw [hb2'] at l2' c2
      simp only [Bool.false_eq_true, if_false] at l1' l2' c1 c2
      refine ⟨t1 + t2 + 1, ncF, oc2.insert (l, r) o.2, icF, hfrel, by omega, fun e out rest => ?_⟩
      obtain ⟨out1, e1⟩ := l1' (t2 + 1 + e) out (rest.push (l, r))
      obtain ⟨out2, e2⟩ := l2' (1 + e) out1 (rest.push (l, r))
      rw [show t1 + t2 + 1 + e = t1 + (t2 + 1 + e) by omega, e1, show t2 + 1 + e = t2 + (1 + e) by omega, e2,
        Nat.add_comm, loopN_yield (hfinL out2 rest)]
    · have hpush : ∀ (out : Nat) (rest : Array Task),
          oStep fuel Γ.L Γ.R Γ.trigger Γ.outer Γ.inner (s.res, out, nc, oc, ic, rest.push (l, r)) =
          Outcome.ok (ForInStep.yield (s.res, out, nc, oc, ic,
            if (lookup Γ.outer oc l1 r1).isNone = true then
              (if (lookup Γ.outer oc l2 r2).isNone = true then (rest.push (l, r)).push (l2, r2) else rest.push (l, r)).push (l1, r1)
            else (if (lookup Γ.outer oc l2 r2).isNone = true then (rest.push (l, r)).push (l2, r2) else rest.push (l, r)))) := by
        intro out rest
        rw [hstepL out rest]
        cases hlo : lookup Γ.outer oc l2 r2 <;> cases hhi : lookup Γ.outer oc l1 r1
        · simp [pushMissing]
        · simp [pushMissing]
        · simp [pushMissing]
        · exfalso; apply hboth; simp [hlo, hhi]
      refine ⟨1 + t1 + t2 + 1, ncF, oc2.insert (l, r) o.2, icF, hfrel, ?_, fun e out rest => ?_⟩
      · have : (if (lookup Γ.outer oc l1 r1).isNone = true then 1 else 0) +
            (if (lookup Γ.outer oc l2 r2).isNone = true then 1 else 0) ≤ 2 := by
          split <;> split <;> omega
        omega
      obtain ⟨out1, e1⟩ := l1' (t2 + 1 + e) out
        (if (lookup Γ.outer oc l2 r2).isNone = true then (rest.push (l, r)).push (l2, r2) else rest.push (l, r))
      obtain ⟨out2, e2⟩ := l2' (1 + e) out1 (rest.push (l, r))
      rw [show 1 + t1 + t2 + 1 + e = (t1 + t2 + 1 + e) + 1 by omega, loopN_yield (hpush out rest),
        show t1 + t2 + 1 + e = t1 + (t2 + 1 + e) by omega, e1, show t2 + 1 + e = t2 + (1 + e) by omega, e2,
        Nat.add_comm, loopN_yield (hfinL out2 rest)]


theorem oloop_all (ok : NOk Γ n c dop) (fuel : Nat) : ∀ f, OLoop Γ n c dop fuel f
  | 0 => fun k hk => by omega
  | f + 1 => oloop_succ ok fuel f (oloop_all ok fuel f)

end

theorem oStep_empty (fuel : Nat) (L R : Arr) (trigger : Nat → Bool) (outer inner : Op2) (res : Arr) (out : Nat)
    (nc : HashMap Node Nat) (oc ic : HashMap Task Nat) :
    oStep fuel L R trigger outer inner (res, out, nc, oc, ic, #[]) = .ok (.done (res, out, nc, oc, ic, #[])) := rfl

theorem root_pointer_eq (A : Arr) (h : 0 < A.size) (h32 : A.size ≤ 4294967296) :
    Algo.Bdd_root_pointer A = .ok (root A) := by
  have : 1 ≤ A.size := h
  simp only [Algo.Bdd_root_pointer, Rust.sub, this, if_true, bind_ok, pure_eq, Algo.BddPointer_from_index, root]
  rw [asU32_of_lt _ (by omega)]

theorem wfo_size_pos {L : Arr} {n : Nat} (h : WFo L n) : 0 < L.size := by
  rcases Nat.lt_or_ge 0 L.size with h' | h'
  · exact h'
  · have := h.zero; simp [Array.getElem?_eq_none h'] at this

theorem olrel_init (L R : Arr) (n : Nat) :
    OLRel (oInit L R n (root L) (root R)).1 (oInit L R n (root L) (root R)).2.2.1 (oInit L R n (root L) (root R)).2.2.2.1
      (oInit L R n (root L) (root R)).2.2.2.2.1 (nestedInit n) := by
  refine ⟨rfl, ?_, ?_, ?_⟩
  · apply HashMap.Equiv.of_forall_getElem?_eq
    intro k
    simp only [oInit, nestedInit, HashMap.getElem?_insert, HashMap.getElem?_emptyWithCapacity]
  · apply HashMap.Equiv.of_forall_getElem?_eq
    intro k
    simp only [oInit, nestedInit, HashMap.getElem?_emptyWithCapacity]
  · apply HashMap.Equiv.of_forall_getElem?_eq
    intro k
    simp only [oInit, nestedInit, HashMap.getElem?_emptyWithCapacity]

/-- fuel that suffices for the generated `nested_apply`: three times the largest of the final outer cache, inner cache
    and result array of the model's run, plus one -/
def nestedFuel (L R : Arr) (trig : Nat → Bool) (outer inner : Op2) : Nat :=
  3 * max (max (nestedRun L R trig outer inner).1.outer.size (nestedRun L R trig outer inner).1.inner.size)
    (nestedRun L R trig outer inner).1.res.size + 1

/-- **`nested_apply` = `nestedApply`** -/
theorem nested_apply_eq_model (L R : Arr) (n : Nat) (trig : Nat → Bool) (outer inner : Op2) (c d : Bool → Bool → Bool)
    (hL : WFo L n) (hR : WFo R n) (hc : Consistent outer c) (hd : Consistent inner d) (hid : ∀ a, d a a = a)
    (hL32 : L.size ≤ 4294967296) (hR32 : R.size ≤ 4294967296)
    (h32 : (nestedRun L R trig outer inner).1.res.size ≤ 4294967296)
    (fuel : Nat) (hfuel : nestedFuel L R trig outer inner ≤ fuel) :
    Algo.nested_apply fuel L R trig outer inner = .ok (nestedApply L R trig outer inner) := by
  have ok : NOk ⟨L, R, trig, outer, inner⟩ n c d := ⟨hL, hR, hc, hd, hid⟩
  have hLp := wfo_size_pos hL
  have hRp := wfo_size_pos hR
  unfold nestedFuel at hfuel
  unfold nestedApply
  unfold nestedRun at *
  simp only [] at hfuel h32 ⊢
  rw [numVars_of_wf hL] at *
  have O := nestedRec_spec ok (n + 2) 0 (by omega) (root L) (root R) (nestedInit n)
    (ninv_init _ n c d) (root_lt hL) (root_lt hR) (Nat.zero_le _) (Nat.zero_le _)
  obtain ⟨t, nc', oc', ic', Rl, cst, run⟩ := oloop_all ok fuel (n + 2) 0 (by omega) (root L) (root R) (nestedInit n)
    _ _ _ _ (ninv_init _ n c d) (olrel_init L R n) (root_lt hL) (root_lt hR) (Nat.zero_le _) (Nat.zero_le _) h32
    (by omega)
  rw [nested_desugar, num_vars_eq L hLp, num_vars_eq R hRp, numVars_of_wf hL, numVars_of_wf hR,
    root_pointer_eq L hLp hL32, root_pointer_eq R hRp hR32]
  simp only [Outcome.bind, bne_self_eq_false, Bool.false_eq_true, if_false]
  have hz : (nestedInit n).outer.size = 0 := by simp [nestedInit]
  obtain ⟨e, rfl⟩ : ∃ e, fuel = t + e := ⟨fuel - t, by omega⟩
  have hrun := run e 0 #[]
  simp only [] at hrun
  rw [show oInit L R n (root L) (root R) = ((oInit L R n (root L) (root R)).1, 0, (oInit L R n (root L) (root R)).2.2.1,
      (oInit L R n (root L) (root R)).2.2.2.1, (oInit L R n (root L) (root R)).2.2.2.2.1, (#[] : Array Task).push (root L, root R))
      from rfl, hrun, loopN_fix (oStep_empty _ _ _ _ _ _ _ _ _ _ _)]
  simp only []
  exact fix_bdd_alignment_eq_model _ n _ O.inv.rt.red O.inv.rt.numVars O.lt h32 _ (by omega)


/-- chained with L6 (`nestedApply_eq_canon`, the content of `nested_canon`): the generated `nested_apply` returns the
    canonical array of the projection `Qn trig d n` of the outer connective of the operands -/
theorem nested_apply_eq_canon (L R : Arr) (n : Nat) (trig : Nat → Bool) (outer inner : Op2) (c d : Bool → Bool → Bool)
    (hL : WFo L n) (hR : WFo R n) (hc : Consistent outer c) (hd : Consistent inner d) (hid : ∀ a, d a a = a)
    (hL32 : L.size ≤ 4294967296) (hR32 : R.size ≤ 4294967296)
    (h32 : (nestedRun L R trig outer inner).1.res.size ≤ 4294967296)
    (fuel : Nat) (hfuel : nestedFuel L R trig outer inner ≤ fuel) :
    Algo.nested_apply fuel L R trig outer inner =
      .ok (canon n (Qn trig d n (fun v => c (evW L n v (root L)) (evW R n v (root R))))) := by
  rw [nested_apply_eq_model L R n trig outer inner c d hL hR hc hd hid hL32 hR32 h32 fuel hfuel,
    nestedApply_eq_canon L R n trig outer inner c d hL hR hc hd hid]

/-- the panic of L251-L257: operands with different variable counts (any fuel, any tables); the model's `nestedApplyO`
    is `none` exactly then -/
theorem nested_apply_panic (L R : Arr) (trig : Nat → Bool) (outer inner : Op2) (fuel : Nat)
    (hL : 0 < L.size) (hR : 0 < R.size) (hne : numVars L ≠ numVars R) :
    Algo.nested_apply fuel L R trig outer inner = .panic "Var count mismatch: BDDs are not compatible. {} != {}" ∧
    nestedApplyO L R trig outer inner = none := by
  refine ⟨?_, by simp [nestedApplyO, hne]⟩
  rw [nested_desugar, num_vars_eq L hL, num_vars_eq R hR]
  have : (numVars R != numVars L) = true := by simp; exact fun e => hne e.symm
  simp only [Outcome.bind, this, if_true]

/-- both cases at once, against `nestedApplyO` -/
theorem nested_apply_eq_modelO (L R : Arr) (n : Nat) (trig : Nat → Bool) (outer inner : Op2) (c d : Bool → Bool → Bool)
    (hL : WFo L n) (hR : WFo R n) (hc : Consistent outer c) (hd : Consistent inner d) (hid : ∀ a, d a a = a)
    (hL32 : L.size ≤ 4294967296) (hR32 : R.size ≤ 4294967296)
    (h32 : (nestedRun L R trig outer inner).1.res.size ≤ 4294967296)
    (fuel : Nat) (hfuel : nestedFuel L R trig outer inner ≤ fuel) :
    (Algo.nested_apply fuel L R trig outer inner).toOption = nestedApplyO L R trig outer inner := by
  rw [nested_apply_eq_model L R n trig outer inner c d hL hR hc hd hid hL32 hR32 h32 fuel hfuel]
  simp [nestedApplyO, numVars_of_wf hL, numVars_of_wf hR, Outcome.toOption]

/-- `Bdd::binary_op_nested` (the public entry point) is the same call -/
theorem binary_op_nested_eq_model (L R : Arr) (n : Nat) (trig : Nat → Bool) (outer inner : Op2) (c d : Bool → Bool → Bool)
    (hL : WFo L n) (hR : WFo R n) (hc : Consistent outer c) (hd : Consistent inner d) (hid : ∀ a, d a a = a)
    (hL32 : L.size ≤ 4294967296) (hR32 : R.size ≤ 4294967296)
    (h32 : (nestedRun L R trig outer inner).1.res.size ≤ 4294967296)
    (fuel : Nat) (hfuel : nestedFuel L R trig outer inner ≤ fuel) :
    Algo.Bdd_binary_op_nested fuel L R trig outer inner = .ok (nestedApply L R trig outer inner) := by
  unfold Algo.Bdd_binary_op_nested
  rw [nested_apply_eq_model L R n trig outer inner c d hL hR hc hd hid hL32 hR32 h32 fuel hfuel]

end B.AlgoEq
