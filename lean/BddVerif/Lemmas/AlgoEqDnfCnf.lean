import BddVerif.Lemmas.AlgoEqIterBase
import BddVerif.Lemmas.IterRedB
import BddVerif.Props.C10
/-!
Translated `Bdd::to_cnf` (`B.Gen.Algo.Bdd_to_cnf`, `B.Gen.Algo.Bdd_to_cnf__build_recursive`, generated from
src/_impl_bdd/_impl_cnf.rs:140-187) = hand-written model `B.NF.toCnf` / `B.NF.cnfRec` (`Model/NormalForm.lean`).

Both sides recurse on the same fuel (= recursion depth), so the simulation is with THE SAME fuel: the model's
`none` (fuel exhausted) is the generated `Outcome.panic "fuel"`.

Representation: `BddPartialValuation` is `Array (Option Bool)` ↦ `.toList` (`PVal`), the result vector
`Vec<BddPartialValuation>` is `Array (Array (Option Bool))` ↦ `.toList.map Array.toList`.

The only difference between the two sides: the translated accessors (`var_of`, `low_link_of`, `high_link_of`)
panic on an index out of bounds while the model reads a default node (`nodeAt`).  `Closed A` (all links of the
decision nodes point into the array) excludes that; every `Red` array is `Closed`.
-/
namespace B.AlgoEqIt
open B B.Gen B.Gen.Algo B.NF
attribute [local instance 10000] Rust.monadOutcomeInline

/-! ### representation -/

/-- clause list of the model ↦ result vector of the translated code -/
def clArr (cs : List PVal) : Array (Array (Option Bool)) := (cs.map List.toArray).toArray

/-- state `(path, results)` of the model ↦ the pair of `&mut` arguments returned by the translated code -/
def cnfRep (r : PVal × List PVal) : Array (Option Bool) × Array (Array (Option Bool)) :=
  (r.1.toArray, clArr r.2)

/-- the model's `Option` (`none` = fuel exhausted) as an `Outcome` of the translated code -/
def cnfOut (o : Option (PVal × List PVal)) : Outcome (Array (Option Bool) × Array (Array (Option Bool))) :=
  match o with
  | some r => .ok (cnfRep r)
  | none => .panic "fuel"

@[simp] theorem cnfOut_some (r : PVal × List PVal) : cnfOut (some r) = .ok (cnfRep r) := rfl
@[simp] theorem cnfOut_none : cnfOut none = .panic "fuel" := rfl

theorem clArr_nil : clArr [] = #[] := rfl

theorem clArr_push (cs : List PVal) (c : PVal) : (clArr cs).push c.toArray = clArr (cs ++ [c]) := by
  unfold clArr; simp

theorem clArr_toList (cs : List PVal) : (clArr cs).toList.map Array.toList = cs := by
  unfold clArr
  simp [List.map_map, Function.comp_def]

theorem clArr_of_toList (a : Array (Array (Option Bool))) : clArr (a.toList.map Array.toList) = a := by
  unfold clArr
  apply Array.toList_inj.mp
  simp [List.map_map, Function.comp_def]

theorem mem_clArr {cs : List PVal} {c : Array (Option Bool)} (h : c ∈ (clArr cs).toList) : c.toList ∈ cs := by
  unfold clArr at h
  simp only [List.mem_map] at h
  obtain ⟨l, hl, rfl⟩ := h
  exact hl

theorem pvSet_some_eq (c : PVal) (i : Nat) (b : Bool) : Iter.pvSet c i (some b) = PVal.set c i b := rfl
theorem pvSet_none_eq (c : PVal) (i : Nat) : Iter.pvSet c i none = pvUnset c i := rfl

theorem setValue_toArray (c : PVal) (i : Nat) (b : Bool) :
    Rust.pvalSetValue c.toArray i b = (PVal.set c i b).toArray := by
  apply Array.toList_inj.mp
  rw [pvalSetValue_toList]; rfl

theorem unsetValue_toArray (c : PVal) (i : Nat) :
    Rust.pvalUnsetValue c.toArray i = (pvUnset c i).toArray := by
  apply Array.toList_inj.mp
  rw [pvalUnsetValue_toList]; rfl

/-! ### closure of the links -/

/-- the links of every decision node point into the array (no accessor of the translated code can fail) -/
def Closed (A : Arr) : Prop := ∀ p nd, 2 ≤ p → A[p]? = some nd → nd.low < A.size ∧ nd.high < A.size

theorem Closed.of_red {A : Arr} {n : Nat} (h : Red A n) : Closed A := by
  intro p nd hp hA
  obtain ⟨_, hl, hh, _⟩ := h.inner p nd hp hA
  have : p < A.size := by
    apply Classical.byContradiction
    intro hlt
    rw [Array.getElem?_eq_none (by omega)] at hA
    cases hA
  omega

theorem closed_mkFalse (n : Nat) : Closed (mkFalse n) := by
  intro p nd hp hA
  rw [Array.getElem?_eq_none (by rw [mkFalse_size]; omega)] at hA
  cases hA

theorem closed_mkTrue (n : Nat) : Closed (mkTrue n) := Closed.of_red (red_mkTrue n)

theorem getElem?_nodeAt (A : Arr) (p : Nat) (h : p < A.size) : A[p]? = some (nodeAt A p) := by
  unfold nodeAt
  rw [Array.getElem?_eq_getElem h]; rfl

/-! ### the recursion -/

theorem build_recursive_zero (A : Arr) (path : Array (Option Bool)) (node : Nat)
    (results : Array (Array (Option Bool))) :
    Bdd_to_cnf__build_recursive 0 A path node results = .panic "fuel" := by
  rw [Bdd_to_cnf__build_recursive]

/-- **`build_recursive` = `cnfRec`, same fuel** (model-side arguments) -/
theorem build_recursive_eq_list (A : Arr) (hc : Closed A) :
    ∀ (fuel node : Nat) (path : PVal) (res : List PVal), node < A.size →
      Bdd_to_cnf__build_recursive fuel A path.toArray node (clArr res) = cnfOut (cnfRec A fuel node path res) := by
  intro fuel
  induction fuel with
  | zero =>
    intro node path res _
    rw [build_recursive_zero]; rfl
  | succ fuel ih =>
    intro node path res hnode
    rw [Bdd_to_cnf__build_recursive, cnfRec]
    simp only [pure_eq, is_terminal_eq, is_zero_eq, is_one_eq]
    by_cases h0 : node = 0
    · subst h0
      simp [cnfRep, clArr_push]
    · by_cases h1 : node = 1
      · subst h1
        simp [cnfRep]
      · have h2 : ¬ node < 2 := by omega
        have hA := getElem?_nodeAt A node hnode
        obtain ⟨hlo, hhi⟩ := hc node _ (by omega) hA
        simp only [h0, h1, h2, decide_false, if_false, Bool.false_eq_true,
          var_of_some _ _ _ hA, low_link_of_some _ _ _ hA, high_link_of_some _ _ _ hA, ok_bind]
        by_cases hl : (nodeAt A node).low = 1
        · by_cases hh : (nodeAt A node).high = 1
          · simp [hl, hh, cnfRep]
          · simp only [hl, hh, decide_true, decide_false, Bool.not_true, Bool.not_false, if_true, if_false,
              Bool.false_eq_true, ne_eq, not_true_eq_false, not_false_eq_true]
            rw [setValue_toArray, ih _ _ _ hhi]
            cases cnfRec A fuel (nodeAt A node).high (PVal.set path (nodeAt A node).var false) res with
            | none => rfl
            | some r => simp [cnfRep, unsetValue_toArray]
        · simp only [hl, decide_false, Bool.not_false, if_true, ne_eq, not_false_eq_true]
          rw [setValue_toArray, ih _ _ _ hlo]
          cases cnfRec A fuel (nodeAt A node).low (PVal.set path (nodeAt A node).var true) res with
          | none => rfl
          | some r =>
            simp only [cnfOut_some, ok_bind, Option.map_some, cnfRep]
            by_cases hh : (nodeAt A node).high = 1
            · simp [hh, cnfRep, unsetValue_toArray]
            · simp only [hh, decide_false, Bool.not_false, if_true, not_false_eq_true]
              rw [unsetValue_toArray, setValue_toArray, ih _ _ _ hhi]
              cases cnfRec A fuel (nodeAt A node).high
                  (PVal.set (pvUnset r.1 (nodeAt A node).var) (nodeAt A node).var false) r.2 with
              | none => rfl
              | some r' => simp [cnfRep, unsetValue_toArray]

/-- **`build_recursive` = `cnfRec`, same fuel** (arguments of the translated code) -/
theorem build_recursive_eq (A : Arr) (hc : Closed A) (fuel node : Nat) (path : Array (Option Bool))
    (results : Array (Array (Option Bool))) (hnode : node < A.size) :
    Bdd_to_cnf__build_recursive fuel A path node results =
      match cnfRec A fuel node path.toList (results.toList.map Array.toList) with
      | some r => .ok (r.1.toArray, (r.2.map List.toArray).toArray)
      | none => .panic "fuel" := by
  have h := build_recursive_eq_list A hc fuel node path.toList (results.toList.map Array.toList) hnode
  rw [clArr_of_toList] at h
  exact h

/-! ### the model is monotone in its fuel -/

theorem cnfRec_mono (A : Arr) : ∀ f node path res r,
    cnfRec A f node path res = some r → cnfRec A (f + 1) node path res = some r := by
  intro f
  induction f with
  | zero => intro node path res r h; simp [cnfRec] at h
  | succ f ih =>
    intro node path res r h
    rw [cnfRec] at h ⊢
    by_cases h0 : node = 0
    · simpa [h0] using h
    · by_cases h1 : node = 1
      · simpa [h0, h1] using h
      · simp only [h0, h1, if_false] at h ⊢
        by_cases hl : (nodeAt A node).low = 1
        · simp only [hl, ne_eq, not_true_eq_false, if_false] at h ⊢
          by_cases hh : (nodeAt A node).high = 1
          · simpa [hh] using h
          · simp only [hh, not_false_eq_true, if_true] at h ⊢
            cases h' : cnfRec A f (nodeAt A node).high (PVal.set path (nodeAt A node).var false) res with
            | none => simp [h'] at h
            | some r' => rw [h'] at h; rw [ih _ _ _ _ h']; exact h
        · simp only [hl, ne_eq, not_false_eq_true, if_true] at h ⊢
          cases h' : cnfRec A f (nodeAt A node).low (PVal.set path (nodeAt A node).var true) res with
          | none => simp [h'] at h
          | some r' =>
            rw [h'] at h; rw [ih _ _ _ _ h']
            simp only [Option.map_some] at h ⊢
            by_cases hh : (nodeAt A node).high = 1
            · simpa [hh] using h
            · simp only [hh, not_false_eq_true, if_true] at h ⊢
              cases h'' : cnfRec A f (nodeAt A node).high
                  (PVal.set (pvUnset r'.1 (nodeAt A node).var) (nodeAt A node).var false) r'.2 with
              | none => simp [h''] at h
              | some r'' => rw [h''] at h; rw [ih _ _ _ _ h'']; exact h

theorem cnfRec_mono_le (A : Arr) (f f' : Nat) (hf : f ≤ f') (node : Nat) (path : PVal) (res : List PVal)
    (r : PVal × List PVal) (h : cnfRec A f node path res = some r) : cnfRec A f' node path res = some r := by
  induction hf with
  | refl => exact h
  | step _ ih => exact cnfRec_mono A _ _ _ _ _ ih

/-! ### `to_cnf` -/

/-- `to_cnf` with an arbitrary fuel, in terms of the model's recursion with the same fuel -/
theorem to_cnf_eq_cnfRec (A : Arr) (hc : Closed A) (h1 : 1 ≤ A.size) (h32 : A.size ≤ 4294967296) (fuel : Nat) :
    Bdd_to_cnf fuel A =
      match cnfRec A fuel (root A) [] [] with
      | some r => .ok (clArr r.2)
      | none => .panic "fuel" := by
  unfold Bdd_to_cnf
  have hroot : root A < A.size := by unfold root; omega
  have h := build_recursive_eq_list A hc fuel (root A) [] [] hroot
  rw [clArr_nil] at h
  simp only [root_pointer_eq A h1 h32, ok_bind, BddPartialValuation_empty]
  rw [h]
  cases cnfRec A fuel (root A) [] [] with
  | none => rfl
  | some r => rfl

/-- **`Bdd::to_cnf` = `toCnf`**: where the model returns a clause list, the translated function returns the same
    list (as a vector of vectors) for every fuel `≥ num_vars + 2` -/
theorem to_cnf_eq_model (A : Arr) (hc : Closed A) (h1 : 1 ≤ A.size) (h32 : A.size ≤ 4294967296)
    (cs : List PVal) (h : toCnf A = .ok cs) (fuel : Nat) (hfuel : numVars A + 2 ≤ fuel) :
    Bdd_to_cnf fuel A = .ok ((cs.map List.toArray).toArray) := by
  rw [to_cnf_eq_cnfRec A hc h1 h32]
  unfold toCnf at h
  cases h' : cnfRec A (numVars A + 2) (root A) [] [] with
  | none => rw [h'] at h; cases h
  | some r =>
    rw [h'] at h
    rw [cnfRec_mono_le A _ fuel hfuel _ _ _ _ h']
    cases h
    rfl

/-- the fuel the driver passes (`genCnf` of `Drive/Algo.lean`: `numVars A + 8`) -/
theorem to_cnf_eq_model_driver (A : Arr) (hc : Closed A) (h1 : 1 ≤ A.size) (h32 : A.size ≤ 4294967296)
    (cs : List PVal) (h : toCnf A = .ok cs) :
    Bdd_to_cnf (numVars A + 8) A = .ok ((cs.map List.toArray).toArray) :=
  to_cnf_eq_model A hc h1 h32 cs h _ (by omega)

/-- the model never disagrees the other way round: with the model's own fuel the two functions are the same
    function (including the fuel panic) -/
theorem to_cnf_eq_toCnf (A : Arr) (hc : Closed A) (h1 : 1 ≤ A.size) (h32 : A.size ≤ 4294967296) :
    Bdd_to_cnf (numVars A + 2) A = (toCnf A).map clArr := by
  rw [to_cnf_eq_cnfRec A hc h1 h32]
  unfold toCnf
  cases cnfRec A (numVars A + 2) (root A) [] [] <;> rfl

/-- no fuel: the translated function panics (for every non-empty array) -/
theorem to_cnf_fuel_zero (A : Arr) (h1 : 1 ≤ A.size) (h32 : A.size ≤ 4294967296) :
    Bdd_to_cnf 0 A = .panic "fuel" := by
  unfold Bdd_to_cnf
  simp only [root_pointer_eq A h1 h32, ok_bind, build_recursive_zero, panic_bind]

/-- the empty array (not a `Bdd` of the library): `root_pointer` underflows -/
theorem to_cnf_empty (A : Arr) (h : A.size = 0) (fuel : Nat) : ∃ m, Bdd_to_cnf fuel A = .panic m := by
  obtain ⟨m, hm⟩ := root_pointer_empty A h
  refine ⟨m, ?_⟩
  unfold Bdd_to_cnf
  simp only [hm, panic_bind]

/-! ### chained with the property theorems of C10: statements about the TRANSLATED code -/

/-- **`to_cnf` of a reduced array, translated code**: no panic, every clause is over the variable set, and the
    conjunction of the disjunctive clauses is the function of the array -/
theorem to_cnf_sem_translated (A : Arr) (n : Nat) (h : Red A n) (hn : numVars A = n)
    (h32 : A.size ≤ 4294967296) (fuel : Nat) (hfuel : n + 2 ≤ fuel) :
    ∃ cs, Bdd_to_cnf fuel A = .ok cs ∧ (∀ c ∈ cs.toList, InRange n c.toList) ∧
      ∀ v, cnfFn (cs.toList.map Array.toList) v = den A v := by
  obtain ⟨cs, hcs, hr, hsem⟩ := B.Props.C10.to_cnf_sem A n h hn
  have h1 : 1 ≤ A.size := by have := h.size2; omega
  refine ⟨clArr cs, to_cnf_eq_model A (Closed.of_red h) h1 h32 cs hcs fuel (by omega), ?_, ?_⟩
  · intro c hc
    exact hr _ (mem_clArr hc)
  · intro v
    rw [clArr_toList]
    exact hsem v

/-- … with the fuel of the driver -/
theorem to_cnf_sem_translated_driver (A : Arr) (n : Nat) (h : Red A n) (hn : numVars A = n)
    (h32 : A.size ≤ 4294967296) :
    ∃ cs, Bdd_to_cnf (numVars A + 8) A = .ok cs ∧ (∀ c ∈ cs.toList, InRange n c.toList) ∧
      ∀ v, cnfFn (cs.toList.map Array.toList) v = den A v :=
  to_cnf_sem_translated A n h hn h32 _ (by omega)

/-- the one-node `false` Bdd: one empty clause, for every positive fuel -/
theorem to_cnf_false_translated (n fuel : Nat) (hfuel : 1 ≤ fuel) : Bdd_to_cnf fuel (mkFalse n) = .ok #[#[]] := by
  rw [to_cnf_eq_cnfRec (mkFalse n) (closed_mkFalse n) (by rw [mkFalse_size]; omega)
    (by rw [mkFalse_size]; omega)]
  obtain ⟨g, rfl⟩ : ∃ g, fuel = g + 1 := ⟨fuel - 1, by omega⟩
  have : root (mkFalse n) = 0 := rfl
  rw [this]
  simp [cnfRec, clArr]

/-- the two-node `true` Bdd: no clause -/
theorem to_cnf_true_translated (n fuel : Nat) (hfuel : 1 ≤ fuel) : Bdd_to_cnf fuel (mkTrue n) = .ok #[] := by
  rw [to_cnf_eq_cnfRec (mkTrue n) (closed_mkTrue n) (by rw [mkTrue_size]; omega)
    (by rw [mkTrue_size]; omega)]
  obtain ⟨g, rfl⟩ : ∃ g, fuel = g + 1 := ⟨fuel - 1, by omega⟩
  have : root (mkTrue n) = 1 := rfl
  rw [this]
  simp [cnfRec, clArr]

/-! ### the fuel bound is sharp up to the constant: too little fuel is a `panic "fuel"`, not a wrong answer -/

/-- whatever the fuel, the translated function either returns the model's clauses or panics with `"fuel"` -/
theorem to_cnf_ok_or_fuel (A : Arr) (hc : Closed A) (h1 : 1 ≤ A.size) (h32 : A.size ≤ 4294967296) (fuel : Nat) :
    Bdd_to_cnf fuel A = .panic "fuel" ∨
      ∃ r, cnfRec A fuel (root A) [] [] = some r ∧ Bdd_to_cnf fuel A = .ok (clArr r.2) := by
  rw [to_cnf_eq_cnfRec A hc h1 h32]
  cases h : cnfRec A fuel (root A) [] [] with
  | none => exact .inl rfl
  | some r => exact .inr ⟨r, rfl, rfl⟩

/-! ### non-vacuity -/

/-- `(x0 ∧ ¬x2) ∨ ¬x1`, the 6-node diagram of the examples of `Props/C10.lean` -/
def exCnf : Arr := #[⟨3, 0, 0⟩, ⟨3, 1, 1⟩, ⟨2, 1, 0⟩, ⟨1, 1, 2⟩, ⟨1, 1, 0⟩, ⟨0, 4, 3⟩]

theorem exCnf_red : Red exCnf 3 := B.Iter.redB_sound (by decide)

/-- the hypotheses of the chained theorem are satisfiable -/
example : ∃ cs, Bdd_to_cnf (numVars exCnf + 8) exCnf = .ok cs ∧ (∀ c ∈ cs.toList, InRange 3 c.toList) ∧
    ∀ v, cnfFn (cs.toList.map Array.toList) v = den exCnf v :=
  to_cnf_sem_translated_driver exCnf 3 exCnf_red rfl (by decide)

/-- the model on the example: `(x0 ∨ ¬x1) ∧ (¬x0 ∨ ¬x1 ∨ ¬x2)` -/
theorem exCnf_model : toCnf exCnf = .ok [[some true, some false], [some false, some false, some false]] := by rfl

/-- the translated function on the example, through the theorem -/
example : Bdd_to_cnf (numVars exCnf + 8) exCnf =
    .ok #[#[some true, some false], #[some false, some false, some false]] :=
  to_cnf_eq_model_driver exCnf (Closed.of_red exCnf_red) (by decide) (by decide) _ exCnf_model

/-- … and directly, by kernel reduction of the GENERATED definition -/
example : Bdd_to_cnf (numVars exCnf + 8) exCnf =
    .ok #[#[some true, some false], #[some false, some false, some false]] := by rfl

/-- too little fuel for the example (depth 4 needed: three decision levels and the terminal) -/
example : Bdd_to_cnf 3 exCnf = .panic "fuel" := by rfl
example : cnfRec exCnf 3 (root exCnf) [] [] = none := by decide
example : Bdd_to_cnf 4 exCnf = .ok #[#[some true, some false], #[some false, some false, some false]] := by rfl

example : Bdd_to_cnf 1 (mkFalse 5) = .ok #[#[]] := to_cnf_false_translated 5 1 (by omega)
example : Bdd_to_cnf 1 (mkFalse 5) = .ok #[#[]] := by rfl
example : Bdd_to_cnf 0 (mkFalse 5) = .panic "fuel" := to_cnf_fuel_zero _ (by decide) (by decide)

end B.AlgoEqIt
