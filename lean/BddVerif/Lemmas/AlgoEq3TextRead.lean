import BddVerif.Lemmas.AlgoEq3TextIO
import BddVerif.Lemmas.AlgoEq3TextWrite
/-!
# Translated `read_as_string` / `from_string` (`Gen/Algo3.lean`) = hand model (`Model/Serial.lean`)

* `recOf` — one `var,low,high` record as the translated loop body computes it; `recOf_rel`: it is
  `Serial.parseRecord` (same node, or an `Err` of the same class) on EVERY string;
* `read_as_string_desugar` — the translated function is `read_to_string`, `retain`, `split('|')`, `filter`, then the
  loop `pstep` over the pieces (proved by unfolding the generated definition);
* `Bdd_read_as_string_eq_model` — EVERY reader whose data are bytes, every script, every plan of buffer sizes: never
  a panic; `Ok(A)` iff `Serial.readTextIO` says `ok A`; `Err(msg)` iff the model says `err`, where the message of
  the translated code is determined by the model's error class (`RelText`: the model keeps only the class — I/O
  error, invalid UTF-8, wrong field count, unparsable number); the reader afterwards is the model's;
* `Bdd_from_string_eq_model` — every string: the array of `Serial.parseText`, and a panic exactly when the model
  reports an error (`expect("Invalid BDD string.")`).
-/
namespace B.AlgoEq3Text
open B B.Gen B.AlgoEqUtil B.AlgoEq2Bytes
attribute [local instance 10000] Rust.monadOutcomeInline

/-! ### one record -/

theorem getD_of_lt' {α} (b : Array α) (i : Nat) (d : α) (h : i < b.size) : b.getD i d = b[i] := by
  simp [Array.getD, h]

/-- the body of the `for node_string in …` loop, as a function of the piece -/
def recOf (s : String) : Except String Node :=
  if ((Rust.strSplit s ',').size != 3) = true then
    .error ("Expected `var,low,high`, but found `" ++ s ++ "`.")
  else
    match Algo3.lift_err (Rust.parseU16 ((Rust.strSplit s ',').getD 0 "")) with
    | .error e => .error e
    | .ok v =>
      match Algo3.lift_err (Rust.parseU32 ((Rust.strSplit s ',').getD 1 "")) with
      | .error e => .error e
      | .ok l =>
        match Algo3.lift_err (Rust.parseU32 ((Rust.strSplit s ',').getD 2 "")) with
        | .error e => .error e
        | .ok h => .ok (Algo.BddNode_mk_node v l h)

/-- result of the translated reader vs. result of the model: same array, or an error of the same class (the model
    keeps the class only; the translated code produces the message of the Rust code) -/
inductive RelText : Except String Arr → Outcome Arr → Prop
  | ok (A : Arr) : RelText (.ok A) (.ok A)
  | io : RelText (.error "io error") (.err "io error")
  | utf8 : RelText (.error "io error") (.err "stream did not contain valid UTF-8")
  | fields (s : String) :
      RelText (.error ("Expected `var,low,high`, but found `" ++ s ++ "`.")) (.err "Expected `var,low,high`")
  | parse (e : Rust.ParseIntError) : RelText (.error (toString e)) (.err "parse error")

inductive RelRec (s : String) : Except String Node → Outcome Node → Prop
  | ok (nd : Node) : RelRec s (.ok nd) (.ok nd)
  | fields : RelRec s (.error ("Expected `var,low,high`, but found `" ++ s ++ "`.")) (.err "Expected `var,low,high`")
  | parse (e : Rust.ParseIntError) : RelRec s (.error (toString e)) (.err "parse error")

theorem liftOpt_parse (max : Nat) (x : String) :
    (∃ v, Rust.parseUnsigned max x = .ok v ∧ Serial.liftOpt (Serial.parseUInt max x.toList) = .ok v) ∨
    (∃ e, Rust.parseUnsigned max x = .error e ∧ Serial.liftOpt (Serial.parseUInt max x.toList) = .err "parse error") := by
  have h := parseUnsigned_eq max x
  cases hp : Rust.parseUnsigned max x with
  | ok v => left; rw [hp] at h; exact ⟨v, rfl, by rw [← h]; rfl⟩
  | error e => right; rw [hp] at h; exact ⟨e, rfl, by rw [← h]; rfl⟩

/-- **one record: translated loop body = `Serial.parseRecord`**, every string -/
theorem recOf_rel (s : String) : RelRec s (recOf s) (Serial.parseRecord s.toList) := by
  have hsz := strSplit_size s ','
  have hl := strSplit_toList s ','
  unfold recOf Serial.parseRecord
  generalize Rust.strSplit s ',' = items at hsz hl
  generalize Serial.splitOn ',' s.toList = L at hsz hl
  by_cases h3 : L.length = 3
  · have hs3 : items.size = 3 := by rw [hsz]; exact h3
    obtain ⟨il⟩ := items
    match il, hs3, hl with
    | [x, y, z], _, hl =>
      subst hl
      have g0 : (Array.mk [x, y, z]).getD 0 "" = x := rfl
      have g1 : (Array.mk [x, y, z]).getD 1 "" = y := rfl
      have g2 : (Array.mk [x, y, z]).getD 2 "" = z := rfl
      have gs : ((Array.mk [x, y, z]).size != 3) = false := rfl
      simp only [g0, g1, g2, gs, Bool.false_eq_true, if_false, List.length_cons, List.length_nil,
        List.map_cons, List.map_nil, ne_eq, not_true_eq_false, Serial.idx, List.getElem?_cons_zero,
        List.getElem?_cons_succ]
      unfold Rust.parseU16 Rust.parseU32 Serial.u16Max Serial.u32Max
      rcases liftOpt_parse 65535 x with ⟨v, a1, a2⟩ | ⟨e, a1, a2⟩
      · rw [a1, a2]
        simp only [lift_err_ok]
        rcases liftOpt_parse 4294967295 y with ⟨l, b1, b2⟩ | ⟨e, b1, b2⟩
        · rw [b1, b2]
          simp only [lift_err_ok]
          rcases liftOpt_parse 4294967295 z with ⟨h, c1, c2⟩ | ⟨e, c1, c2⟩
          · rw [c1, c2]; exact .ok _
          · rw [c1, c2]; exact .parse e
        · rw [b1, b2]; exact .parse e
      · rw [a1, a2]; exact .parse e
  · have hs3 : ¬ items.size = 3 := by rw [hsz]; exact h3
    have : (items.size != 3) = true := by simpa using hs3
    simp only [this, if_true, ne_eq, h3, not_false_eq_true]
    exact .fields

/-! ### the loop over the pieces -/

abbrev PSt := Option (Except String Arr × Rust.Reader) × Arr

def pstep (rd : Rust.Reader) (s : String) (st : PSt) : Outcome (ForInStep PSt) :=
  match recOf s with
  | .ok nd => .ok (.yield (none, st.2.push nd))
  | .error m => .ok (.done (some (.error m, rd), st.2))

/-- what `read_as_string` returns after the loop -/
def pfinal (rd : Rust.Reader) (st : PSt) : Except String Arr × Rust.Reader :=
  match st.1 with
  | some r => r
  | none => (.ok st.2, rd)

theorem ploop (rd : Rust.Reader) : ∀ (ps : List String) (acc : Arr),
    ∃ st : PSt, iterL (pstep rd) ps (none, acc) = .ok st ∧ (pfinal rd st).2 = rd ∧
      RelText (pfinal rd st).1 (Serial.parseRecords (ps.map String.toList) acc) := by
  intro ps
  induction ps with
  | nil => intro acc; exact ⟨(none, acc), rfl, rfl, .ok acc⟩
  | cons s ps ih =>
    intro acc
    rw [iterL_cons, List.map_cons, Serial.parseRecords]
    have hr := recOf_rel s
    simp only [pstep]
    revert hr
    generalize recOf s = a
    generalize Serial.parseRecord s.toList = b
    intro hr
    cases hr with
    | ok nd => exact ih (acc.push nd)
    | fields => exact ⟨_, rfl, rfl, .fields s⟩
    | parse e => exact ⟨_, rfl, rfl, .parse e⟩

/-- the pieces the loop runs over, as lists of characters -/
theorem pieces_eq (data : String) :
    ((Rust.strSplit (Rust.strRetain data fun c => !Rust.charIsWhitespace c) '|').filter
        (fun s => !s.isEmpty)).toList.map String.toList =
      (Serial.splitOn '|' (data.toList.filter fun c => !Serial.isWhitespace c)).filter fun p => !p.isEmpty := by
  rw [Array.toList_filter, ← strRetain_toList, ← strSplit_toList, List.filter_map]
  congr 1
  apply List.filter_congr
  intro s _
  simp only [Function.comp, isEmpty_eq]

/-! ### `read_as_string` -/

/-- desugaring: the translated `read_as_string` -/
theorem read_as_string_desugar (r : Rust.Reader) :
    Algo3.Bdd_read_as_string r =
      match Algo3.lift_err (Rust.readToString r "").1 with
      | .error e => .ok (.error e, (Rust.readToString r "").2.1)
      | .ok _ =>
        (iterL (pstep (Rust.readToString r "").2.1)
          ((Rust.strSplit (Rust.strRetain (Rust.readToString r "").2.2 fun c => !Rust.charIsWhitespace c) '|').filter
            (fun s => !s.isEmpty)).toList (none, #[])) >>= fun st => .ok (pfinal (Rust.readToString r "").2.1 st) := by
  unfold Algo3.Bdd_read_as_string
  simp only [forIn_array_eq_iterL]
  rw [iterL_congr _ (pstep (Rust.readToString r "").2.1) _ (by
    intro s _ st
    simp only [pstep, recOf]
    generalize Rust.strSplit s ',' = items
    by_cases h3 : items.size = 3
    · obtain ⟨il⟩ := items
      match il, h3 with
      | [x, y, z], _ =>
        have g0 : (Array.mk [x, y, z]).getD 0 "" = x := rfl
        have g1 : (Array.mk [x, y, z]).getD 1 "" = y := rfl
        have g2 : (Array.mk [x, y, z]).getD 2 "" = z := rfl
        have i0 : Rust.idx (Array.mk [x, y, z]) 0 = .ok x := rfl
        have i1 : Rust.idx (Array.mk [x, y, z]) 1 = .ok y := rfl
        have i2 : Rust.idx (Array.mk [x, y, z]) 2 = .ok z := rfl
        have gs : ((Array.mk [x, y, z]).size != 3) = false := rfl
        simp only [g0, g1, g2, i0, i1, i2, gs, Bool.false_eq_true, if_false, bind_ok, pure_eq]
        generalize Algo3.lift_err (Rust.parseU16 x) = a
        cases a with
        | error e => rfl
        | ok v =>
          simp only
          generalize Algo3.lift_err (Rust.parseU32 y) = b
          cases b with
          | error e => rfl
          | ok l =>
            simp only
            generalize Algo3.lift_err (Rust.parseU32 z) = c
            cases c with
            | error e => rfl
            | ok h => rfl
    · have hne : (items.size != 3) = true := by simpa using h3
      simp only [hne, if_true, pure_eq])]
  cases Algo3.lift_err (Rust.readToString r "").1 with
  | error e => rfl
  | ok u =>
    simp only [pure_eq, bind_ok]
    cases iterL (pstep (Rust.readToString r "").2.1) _ (none, #[]) with
    | ok st =>
      simp only [bind_ok, pfinal]
      obtain ⟨o, acc⟩ := st
      cases o <;> rfl
    | err m => rfl
    | panic m => rfl

/-- **read_as_string, translated code = hand model** for EVERY reader whose data are bytes (any bytes: malformed
    records, wrong field counts, non-numeric fields, overflowing numbers, invalid UTF-8, empty input), every script
    and every plan of buffer sizes: the call never panics; it returns `Ok(A)` iff `Serial.readTextIO` returns
    `ok A`, and `Err(msg)` iff the model returns `err` — `RelText` says which message goes with which error class
    of the model; the reader is left in the state of the model -/
theorem Bdd_read_as_string_eq_model (r : Rust.Reader) (hb : ∀ b ∈ r.data, b < 256) :
    ∃ (res : Except String Arr) (r' : Rust.Reader), Algo3.Bdd_read_as_string r = .ok (res, r') ∧
      RelText res (Serial.readTextIO (rdOf r) r.plan).1 ∧
      rdOf r' = (Serial.readTextIO (rdOf r) r.plan).2 ∧
      r'.sp + r'.script.length = r.sp + r.script.length := by
  obtain ⟨h1, h2, h3⟩ := readToString_repr r "" hb
  rw [read_as_string_desugar]
  unfold Serial.readTextIO
  rcases hy : Serial.readToEnd (rdOf r) r.plan [] with ⟨sres, sr⟩
  rw [hy] at h1 h3
  simp only at h1 h3 ⊢
  cases sres with
  | none =>
    obtain ⟨e1, _⟩ := h3
    rw [e1]
    exact ⟨_, _, rfl, .io, h1, h2⟩
  | some bytes =>
    simp only [Serial.readText] at h3 ⊢
    cases hd : Serial.utf8Decode bytes with
    | none =>
      rw [hd] at h3
      obtain ⟨e1, _⟩ := h3
      rw [e1]
      exact ⟨_, _, rfl, .utf8, h1, h2⟩
    | some cs =>
      rw [hd] at h3
      obtain ⟨e1, e2⟩ := h3
      rw [e1, e2]
      simp only [lift_err_ok]
      obtain ⟨st, hst, hrd, hrel⟩ := ploop (Rust.readToString r "").2.1
        ((Rust.strSplit (Rust.strRetain ("" ++ String.ofList cs) fun c => !Rust.charIsWhitespace c) '|').filter
          (fun s => !s.isEmpty)).toList #[]
      rw [hst]
      rw [pieces_eq] at hrel
      have hcs : ("" ++ String.ofList cs).toList = cs := by simp
      rw [hcs] at hrel
      refine ⟨(pfinal (Rust.readToString r "").2.1 st).1, (pfinal (Rust.readToString r "").2.1 st).2, rfl, hrel, ?_, ?_⟩
      · rw [hrd]; exact h1
      · rw [hrd]; exact h2

/-- the three outcome kinds separately -/
theorem Bdd_read_as_string_ok_iff (r : Rust.Reader) (hb : ∀ b ∈ r.data, b < 256) (A : Arr) :
    (∃ r', Algo3.Bdd_read_as_string r = .ok (.ok A, r')) ↔ (Serial.readTextIO (rdOf r) r.plan).1 = .ok A := by
  obtain ⟨res, r', h0, h1, _, _⟩ := Bdd_read_as_string_eq_model r hb
  rw [h0]
  revert h1
  generalize (Serial.readTextIO (rdOf r) r.plan).1 = m
  intro h1
  cases h1 <;> simp

theorem Bdd_read_as_string_err_iff (r : Rust.Reader) (hb : ∀ b ∈ r.data, b < 256) :
    (∃ msg r', Algo3.Bdd_read_as_string r = .ok (.error msg, r')) ↔ (Serial.readTextIO (rdOf r) r.plan).1.isErr = true := by
  obtain ⟨res, r', h0, h1, _, _⟩ := Bdd_read_as_string_eq_model r hb
  rw [h0]
  revert h1
  generalize (Serial.readTextIO (rdOf r) r.plan).1 = m
  intro h1
  cases h1 <;> simp [Outcome.isErr]

theorem Bdd_read_as_string_never_panics (r : Rust.Reader) (hb : ∀ b ∈ r.data, b < 256) :
    ∀ m, Algo3.Bdd_read_as_string r ≠ .panic m := by
  obtain ⟨res, r', h0, _⟩ := Bdd_read_as_string_eq_model r hb
  intro m h; rw [h0] at h; cases h

/-! ### a slice as reader; `from_string` -/

theorem sReadToEnd_plain : ∀ (n : Nat) (data acc : List UInt8), data.length ≤ n →
    Serial.readToEnd ⟨data, []⟩ [] acc = (some (acc ++ data), ⟨[], []⟩) := by
  intro n
  induction n with
  | zero =>
    intro data acc h
    have : data = [] := List.eq_nil_of_length_eq_zero (by omega)
    subst this
    rw [sReadToEnd_eq]; simp [Serial.Reader.read]
  | succ n ih =>
    intro data acc h
    rw [sReadToEnd_eq]
    simp only [Serial.Reader.read, List.headD_nil, List.tail_nil]
    by_cases hz : (data.take 32).length = 0
    · have : data = [] := by
        cases data with
        | nil => rfl
        | cons b bs => simp at hz
      subst this; simp
    · simp only [hz, if_false]
      have hl : (data.drop 32).length ≤ n := by
        simp only [List.length_take, List.length_drop] at hz ⊢; omega
      rw [ih (data.drop 32) _ hl, List.append_assoc, List.take_append_drop]

/-- the text of a string read through `&mut s.as_bytes()` -/
theorem readTextIO_slice (s : String) :
    (Serial.readTextIO (rdOf (Rust.Reader.ofSlice (Rust.utf8Bytes s))) []).1 = Serial.parseText s.toList := by
  unfold Serial.readTextIO Rust.Reader.ofSlice rdOf
  simp only [List.map_nil]
  rw [sReadToEnd_plain _ _ [] (Nat.le_refl _)]
  simp only [List.nil_append, Serial.readText]
  rw [utf8Bytes_model, Serial.utf8Decode_encode]

/-- **from_string, translated code = hand model** on EVERY string: the array the model parses, and the panic of
    `expect("Invalid BDD string.")` exactly when the model reports an error (any class) -/
theorem Bdd_from_string_eq_model (s : String) :
    match Serial.parseText s.toList with
    | .ok A => Algo3.Bdd_from_string s = .ok A
    | .err _ => ∃ m, Algo3.Bdd_from_string s = .panic m
    | .panic _ => False := by
  obtain ⟨res, r', h0, h1, _, _⟩ := Bdd_read_as_string_eq_model (Rust.Reader.ofSlice (Rust.utf8Bytes s))
    (fun b hb => utf8Bytes_lt s b hb)
  have hp : (Rust.Reader.ofSlice (Rust.utf8Bytes s)).plan = [] := rfl
  rw [hp, readTextIO_slice] at h1
  unfold Algo3.Bdd_from_string
  rw [h0]
  revert h1
  generalize Serial.parseText s.toList = m
  intro h1
  cases h1 with
  | ok A => rfl
  | io => exact ⟨_, rfl⟩
  | utf8 => exact ⟨_, rfl⟩
  | fields t => exact ⟨_, rfl⟩
  | parse e => exact ⟨_, rfl⟩

theorem Bdd_from_string_ok (s : String) (A : Arr) (h : Serial.parseText s.toList = .ok A) :
    Algo3.Bdd_from_string s = .ok A := by
  have := Bdd_from_string_eq_model s
  rw [h] at this; exact this

theorem Bdd_from_string_panics (s : String) (m : String) (h : Serial.parseText s.toList = .err m) :
    ∃ m', Algo3.Bdd_from_string s = .panic m' := by
  have := Bdd_from_string_eq_model s
  rw [h] at this; exact this

/-- **round trip entirely in translated code**: `Bdd::from_string(&bdd.to_string()) == bdd` for every array whose
    fields fit their integer types -/
theorem Bdd_from_string_to_string (A : Arr) (h : Props.C12.Fits A) :
    ∃ s, Algo3.Bdd_fmt A "" = .ok (.ok (), s) ∧ Algo3.Bdd_from_string s = .ok A := by
  refine ⟨_, Bdd_to_string_eq_model A, Bdd_from_string_ok _ A ?_⟩
  rw [String.toList_ofList]
  exact Props.C12.text_roundtrip_chars A h

end B.AlgoEq3Text
