import BddVerif.Core.ApplyCanon
import BddVerif.Model.Nested
/-!
Basic facts used by the C03 proofs: result arrays (`Red` + exact terminals) are well-formed operands,
both denotations (`ev` by index, `evW` by level) agree on them, the regenerated `or`/`and` tables are
consistent and idempotent, and the specification of `var_exists` / `var_for_all`.
-/
namespace B
open Std

/-- a post-order reduced array whose two terminals are the exact terminal nodes: the shape of every
    result array with at least two nodes -/
structure RedT (A : Arr) (n : Nat) : Prop where
  red : Red A n
  t0 : A[0]? = some ⟨n, 0, 0⟩
  t1 : A[1]? = some ⟨n, 1, 1⟩

theorem RedT.wfo {A : Arr} {n : Nat} (h : RedT A n) : WFo A n := by
  refine ⟨h.t0, fun _ => h.t1, ?_⟩
  intro p nd hp hnd
  have hps : p < A.size := by
    rcases Nat.lt_or_ge p A.size with h' | h'
    · exact h'
    · simp [Array.getElem?_eq_none h'] at hnd
  obtain ⟨a, b, c, _, e, f⟩ := h.red.inner p nd hp hnd
  exact ⟨a, by omega, by omega, e, f⟩

theorem RedT.numVars {A : Arr} {n : Nat} (h : RedT A n) : numVars A = n := numVars_of_wf h.wfo

theorem redT_mkTrue (n : Nat) : RedT (mkTrue n) n := ⟨red_mkTrue n, rfl, rfl⟩

theorem RedT.prefix {A A' : Arr} {n : Nat} (h : RedT A n) (hr : Red A' n) (hp : Prefix A A') : RedT A' n := by
  have hs := h.red.size2
  exact ⟨hr, by rw [hp.2 0 (by omega)]; exact h.t0, by rw [hp.2 1 (by omega)]; exact h.t1⟩

/-- on result arrays the two denotations agree -/
theorem ev_eq_evW {A : Arr} {n : Nat} (h : RedT A n) (v : Nat → Bool) :
    ∀ p, p < A.size → ev A v p = evW A n v p := by
  intro p
  induction p using Nat.strongRecOn with
  | _ p ih =>
    intro hp
    by_cases h0 : p = 0
    · subst h0; rw [ev_zero, evW_zero]
    by_cases h1 : p = 1
    · subst h1; rw [ev_one, evW_one]
    have hp2 : 2 ≤ p := by omega
    have hnd : A[p]? = some A[p] := by simp [hp]
    obtain ⟨_, hl, hh, _, _, _⟩ := h.red.inner p A[p] hp2 hnd
    rw [ev_node h.red v p hp2 _ hnd, evW_node h.wfo v p hp2 _ hnd]
    rw [ih _ hl (by omega), ih _ hh (by omega)]

/-- the whole-array denotation of a result array is the operand denotation of its root -/
theorem den_eq_evW {A : Arr} {n : Nat} (h : RedT A n) (v : Nat → Bool) :
    den A v = evW A n v (root A) :=
  ev_eq_evW h v _ (root_lt h.wfo)

theorem wfo_mkFalse (n : Nat) : WFo (mkFalse n) n := by
  refine ⟨rfl, ?_, ?_⟩
  · intro h; rw [mkFalse_size] at h; omega
  · intro p nd hp hnd
    have : (mkFalse n)[p]? = none := Array.getElem?_eq_none (by rw [mkFalse_size]; omega)
    rw [this] at hnd; cases hnd

/-- the canonical array of a function of the first `n` variables is a well-formed operand, and its
    operand denotation is the function -/
theorem canon_wfo (n : Nat) (f : (Nat → Bool) → Bool)
    (hdep : ∀ v w : Nat → Bool, (∀ i, i < n → v i = w i) → f v = f w) :
    WFo (canon n f) n ∧ ∀ v, evW (canon n f) n v (root (canon n f)) = f v := by
  rcases canon_spec n f hdep with ⟨e, hf⟩ | ⟨hred, e, _, hev⟩
  · rw [e]
    refine ⟨wfo_mkFalse n, ?_⟩
    intro v; rw [hf v]; exact evW_zero _ _ _
  · have hdep' : ∀ v w : Nat → Bool, (∀ i, 0 ≤ i → i < n → v i = w i) → f v = f w :=
      fun v w h => hdep v w (fun i hi => h i (Nat.zero_le _) hi)
    obtain ⟨_, hpre, _, _, _⟩ := ins_spec n 0 f (mkTrue n) (red_mkTrue n) (by omega) hdep'
    rw [← e] at hpre
    have hT : RedT (canon n f) n := (redT_mkTrue n).prefix hred hpre
    refine ⟨hT.wfo, ?_⟩
    intro v
    rw [← ev_eq_evW hT v _ (root_lt hT.wfo)]
    exact hev v

/-! ### the regenerated `or` / `and` tables -/

theorem or_consistent : Consistent Gen.or_ (fun a b => a || b) := by constructor <;> decide
theorem and_consistent : Consistent Gen.and_ (fun a b => a && b) := by constructor <;> decide

/-! ### `var_exists` / `var_for_all` -/

theorem inv_some_eq (x : Nat) (v : Nat → Bool) : inv (some x) v = upd v x (!(v x)) := by
  funext j
  by_cases h : j = x
  · subst h; simp [inv, upd]
  · simp [inv, upd, h]

theorem upd_self (v : Nat → Bool) (x : Nat) : upd v x (v x) = v := by
  funext j
  by_cases h : j = x
  · subst h; simp [upd]
  · simp [upd, h]

/-- `c (f v) (f (flip x v)) = c (f v[x:=1]) (f v[x:=0])` for a commutative connective -/
theorem flip_pair (c : Bool → Bool → Bool) (hc : ∀ a b, c a b = c b a) (f : (Nat → Bool) → Bool)
    (x : Nat) (v : Nat → Bool) :
    c (f v) (f (inv (some x) v)) = c (f (upd v x true)) (f (upd v x false)) := by
  rw [inv_some_eq]
  cases hvx : v x
  · have : v = upd v x false := by rw [← hvx, upd_self]
    rw [Bool.not_false, hc, ← this]
  · have : v = upd v x true := by rw [← hvx, upd_self]
    rw [Bool.not_true, ← this]

/-- the model of `fused_binary_flip_op((A, None), (A, Some(x)), None, op)` for a commutative connective:
    exactly the canonical array of `v ↦ c (A v[x:=1]) (A v[x:=0])` -/
theorem selfFlip_eq_canon (A : Arr) (n x : Nat) (op : Op2) (c : Bool → Bool → Bool)
    (hA : WFo A n) (hx : x < n) (hop : Consistent op c) (hc : ∀ a b, c a b = c b a) :
    applyWithFlip A A op none (some x) none =
      canon n (fun v => c (evW A n (upd v x true) (root A)) (evW A n (upd v x false) (root A))) := by
  rw [applyWithFlip_eq_canon A A n op c none (some x) none hA hA (numVars_of_wf hA) hop
    (fun _ h => by cases h) (fun y h => by cases h; exact hx) (fun _ h => by cases h)]
  apply canon_congr
  intro v
  exact flip_pair c hc (fun w => evW A n w (root A)) x v

theorem proj_dep (A : Arr) (n x : Nat) (c : Bool → Bool → Bool) (hA : WFo A n) (v w : Nat → Bool)
    (h : ∀ i, i < n → v i = w i) :
    c (evW A n (upd v x true) (root A)) (evW A n (upd v x false) (root A)) =
    c (evW A n (upd w x true) (root A)) (evW A n (upd w x false) (root A)) := by
  have key : ∀ b, evW A n (upd v x b) (root A) = evW A n (upd w x b) (root A) := by
    intro b
    apply evW_indep hA n _ (root_lt hA) (by omega)
    intro i _ hin
    by_cases hi : i = x
    · simp [upd, hi]
    · simp [upd, hi, h i hin]
  rw [key true, key false]

end B
