import BddVerif.Lemmas.AlgoEqUtilNot
import BddVerif.Lemmas.AlgoEqUtilSelect
import BddVerif.Lemmas.AlgoEqUtilEval
import BddVerif.Lemmas.AlgoEqUtilSupport
import BddVerif.Lemmas.AlgoEqUtilFromNodes
import BddVerif.Lemmas.AlgoEqUtilValidate
import BddVerif.Lemmas.AlgoEqUtilCount
import BddVerif.Props.C02
import BddVerif.Props.C09
import BddVerif.Props.C11
import BddVerif.Props.C13
import BddVerif.Drive.Algo
/-!
# The `_impl_util.rs` / `_impl_bdd_valuation.rs` functions: statements about the TRANSLATED code

For every function of `AlgoEqUtil*.lean` this file
* restates the equivalence "translated Rust (`B.Gen.Algo.<fn>`) = hand model" for the fuel the driver passes
  (`B.Drive.Algo.fuel1 A = 8·(len + num_vars + 8)`): `<fn>_eq_model_driver`;
* chains it with the hand-level specification theorem (Props/C02, C09, C11, C13), so that the specification is a
  statement about the code that is regenerated from the Rust source on every run: `<fn>_spec`;
* ends with non-vacuity examples: concrete arrays on which the hypotheses hold, with the value computed on the
  specification side by `decide`.
-/
namespace B.AlgoEqUtil
open B B.Gen B.Count B.Serial B.Select B.Drive.Algo

theorem fuel1_ge (A : Arr) : 3 * A.size + 1 ≤ fuel1 A ∧ 2 * A.size + 1 ≤ fuel1 A ∧ A.size ≤ fuel1 A ∧
    numVars A + 1 ≤ fuel1 A := by
  unfold fuel1; omega

/-! ## exact_cardinality / exact_clause_cardinality (C09) -/

theorem Bdd_exact_cardinality_eq_model_driver {A : Arr} {n : Nat} (h : WFo A n) (hs : A.size ≤ 4294967296) :
    Algo.Bdd_exact_cardinality (fuel1 A) A = exactCardO A :=
  Bdd_exact_cardinality_eq_model h hs _ (fuel1_ge A).1

theorem Bdd_exact_clause_cardinality_eq_model_driver {A : Arr} {n : Nat} (h : WFo A n) (hs : A.size ≤ 4294967296) :
    Algo.Bdd_exact_clause_cardinality (fuel1 A) A = clauseCardO A :=
  Bdd_exact_clause_cardinality_eq_model h hs _ (fuel1_ge A).1

/-- the TRANSLATED `exact_cardinality` returns the number of satisfying valuations of the `n` variables, on every
    level-well-formed array (any numbering of the nodes, reduced or not) -/
theorem Bdd_exact_cardinality_spec {A : Arr} {n : Nat} (h : WFo A n) (hs : A.size ≤ 4294967296)
    (fuel : Nat) (hfuel : 3 * A.size + 1 ≤ fuel) :
    Algo.Bdd_exact_cardinality fuel A = .ok (cnt n (fun v => evW A n v (root A))) := by
  rw [Bdd_exact_cardinality_eq_model h hs fuel hfuel]; exact Props.C09.exact_card_spec h

/-- the TRANSLATED `exact_clause_cardinality` returns the number of root-to-one paths -/
theorem Bdd_exact_clause_cardinality_spec {A : Arr} {n : Nat} (h : WFo A n) (hs : A.size ≤ 4294967296)
    (fuel : Nat) (hfuel : 3 * A.size + 1 ≤ fuel) :
    Algo.Bdd_exact_clause_cardinality fuel A = .ok (pathsF A (n + 1) (root A)).length := by
  rw [Bdd_exact_clause_cardinality_eq_model h hs fuel hfuel]; exact Props.C09.clause_card_spec h

/-! ## support_set (C09) -/

/-- the TRANSLATED `support_set` returns exactly the variables stored in decision nodes (every array) -/
theorem Bdd_support_set_spec (A : Arr) :
    ∃ s : Std.HashSet Nat, Algo.Bdd_support_set A = .ok s ∧
      ∀ x, x ∈ s ↔ ∃ p nd, 2 ≤ p ∧ A[p]? = some nd ∧ nd.var = x := by
  obtain ⟨s, hs, hm, _⟩ := Bdd_support_set_eq_model A
  exact ⟨s, hs, fun x => (hm x).trans ((Props.C09.support_set_nodes A).1 x)⟩

/-- … and on a canonical array these are exactly the variables the function depends on -/
theorem Bdd_support_set_exact {A : Arr} (h : Canonical A) :
    ∃ s : Std.HashSet Nat, Algo.Bdd_support_set A = .ok s ∧
      ∀ x, x ∈ s ↔ ∃ v : Nat → Bool, den A (upd v x true) ≠ den A (upd v x false) := by
  obtain ⟨s, hs, hm, _⟩ := Bdd_support_set_eq_model A
  exact ⟨s, hs, fun x => (hm x).trans (Props.C09.support_exact h x)⟩

/-! ## from_nodes / validate (C13) -/

/-- the TRANSLATED `from_nodes` returns `Ok(b)` exactly when `b` is the input and the input is well-formed by level -/
theorem Bdd_from_nodes_spec (d b : Arr) :
    Algo.Bdd_from_nodes d = .ok (.ok b) ↔ b = d ∧ WFo d (numVars d) :=
  (Bdd_from_nodes_ok_iff d b).trans (Props.C13.from_nodes_wf d b)

/-- the TRANSLATED `from_nodes` never panics, whatever the input -/
theorem Bdd_from_nodes_total (d : Arr) : ∃ r, Algo.Bdd_from_nodes d = .ok r := by
  have hr := Bdd_from_nodes_eq_model d
  have hp := Props.C13.from_nodes_total d
  generalize Algo.Bdd_from_nodes d = x at hr ⊢
  generalize fromNodes d = y at hr hp
  cases hr with
  | ok a => exact ⟨_, rfl⟩
  | err m m' => exact ⟨_, rfl⟩
  | panic m m' => simp [Outcome.isPanic] at hp

theorem Bdd_validate_eq_model_driver (A : Arr) (hs : A.size < 4294967296) :
    ∃ o, validate A = some o ∧ o.isPanic = false ∧ RelE (Algo.Bdd_validate (fuel1 A) A) o :=
  Bdd_validate_eq_model A hs _ (fuel1_ge A).2.1

/-- whatever the TRANSLATED `validate` accepts is well-formed by level and has no unreachable node -/
theorem Bdd_validate_spec (A : Arr) (hs : A.size < 4294967296) (fuel : Nat) (hfuel : 2 * A.size + 1 ≤ fuel)
    (h : Algo.Bdd_validate fuel A = .ok (.ok ())) : WFo A (numVars A) ∧ AllReachable A :=
  Props.C13.validate_wf A ((Bdd_validate_ok_iff A hs fuel hfuel).1 h)

/-! ## eval_in (C13 / C01) -/

/-- the TRANSLATED `eval_in` on a level-well-formed array and a long enough valuation: no panic, terminates within
    `n + 1` iterations, computes the denotation -/
theorem Bdd_eval_in_spec (A : Arr) (n : Nat) (val : Array Bool) (h : WFo A n) (hv : n ≤ val.size)
    (hs : A.size ≤ 4294967296) (fuel : Nat) (hfuel : n + 1 ≤ fuel) :
    Algo.Bdd_eval_in fuel A val = .ok (evW A n (fun i => val.getD i false) (root A)) :=
  Bdd_eval_in_of_model A val hs (n + 1) _ (Props.C13.wf_eval_terminates A n val h hv) fuel hfuel

/-- … for the fuel of the driver, and in the driver's own vocabulary (`Drive.evalArr`, `valOfBits`) -/
theorem Bdd_eval_in_eq_model_driver (A : Arr) (n : Nat) (val : Array Bool) (h : WFo A n) (hv : n ≤ val.size)
    (hs : A.size ≤ 4294967296) :
    Algo.Bdd_eval_in (fuel1 A) A val = .ok (Drive.evalArr A (Drive.valOfBits val.toList)) := by
  have hn : numVars A = n := numVars_of_wf h
  rw [Bdd_eval_in_spec A n val h hv hs (fuel1 A) (by rw [← hn]; exact (fuel1_ge A).2.2.2)]
  unfold Drive.evalArr evW
  rw [hn]
  congr 2
  funext k
  simp [Drive.valOfBits, Array.getD_eq_getD_getElem?, List.getD_eq_getElem?_getD]

/-! ## is_clause / is_valuation / sat_witness (C11) -/

theorem Bdd_is_clause_eq_model_driver (A : Arr) (b : Bool) (h : isClause A = some b) (hs : A.size ≤ 4294967296) :
    Algo.Bdd_is_clause (fuel1 A) A = .ok b :=
  Bdd_is_clause_eq_model A b h hs _ (fuel1_ge A).2.2.1

theorem Bdd_is_valuation_eq_model_driver (A : Arr) (b : Bool) (h : isValuation A = some b)
    (hs : A.size ≤ 4294967296) : Algo.Bdd_is_valuation (fuel1 A) A = .ok b :=
  Bdd_is_valuation_eq_model A b h hs _ (fuel1_ge A).2.2.1

/-- the TRANSLATED `is_clause` answers `true` exactly when the function is a single cube -/
theorem Bdd_is_clause_spec {A : Arr} {n : Nat} (h : Can A n) (hs : A.size ≤ 4294967296)
    (fuel : Nat) (hfuel : A.size ≤ fuel) :
    ∃ b, Algo.Bdd_is_clause fuel A = .ok b ∧
      (b = true ↔ ∃ c : Clause, ∀ w : Nat → Bool, den A w = true ↔ ∀ k v, getC c k = some v → w k = v) := by
  obtain ⟨b, hb, hiff⟩ := Props.C11.is_clause_spec h
  exact ⟨b, Bdd_is_clause_eq_model A b hb hs fuel hfuel, hiff⟩

/-- the TRANSLATED `is_valuation` answers `true` exactly when one valuation of the `n` variables satisfies the function -/
theorem Bdd_is_valuation_spec {A : Arr} {n : Nat} (h : Can A n) (hs : A.size ≤ 4294967296)
    (fuel : Nat) (hfuel : A.size ≤ fuel) :
    ∃ b, Algo.Bdd_is_valuation fuel A = .ok b ∧
      (b = true ↔ ∃ u : List Bool, u.length = n ∧
        ∀ w : Nat → Bool, den A w = true ↔ ∀ k, k < n → w k = fn u k) := by
  obtain ⟨b, hb, hiff⟩ := Props.C11.is_valuation_spec h
  exact ⟨b, Bdd_is_valuation_eq_model A b hb hs fuel hfuel, hiff⟩

/-- the TRANSLATED `sat_witness` returns a satisfying valuation of length `n` -/
theorem Bdd_sat_witness_spec {A : Arr} {n : Nat} (h : Can A n) (hno : NoOrphan A) (hs : A.size ≤ 4294967296) :
    ∃ v : Array Bool, Algo.Bdd_sat_witness A = .ok (some v) ∧ v.size = n ∧ den A (fn v.toList) = true := by
  obtain ⟨v, hv, hlen, hden⟩ := Props.C11.witness_sat h hno
  have heq := Bdd_sat_witness_eq_model A (by have := h.size2; omega) hs
  rw [hv] at heq
  generalize Algo.Bdd_sat_witness A = x at heq ⊢
  match x, heq with
  | .ok (some u), heq =>
    simp only [selOf, Sel.some.injEq] at heq
    subst heq
    exact ⟨u, rfl, by simpa using hlen, hden⟩

/-! ## not (C02) -/

/-- the TRANSLATED `not` maps canonical arrays to canonical arrays -/
theorem Bdd_not_canonical {A : Arr} (h : Canonical A) : ∃ R, Algo.Bdd_not A = .ok R ∧ Canonical R :=
  ⟨bddNot A, Bdd_not_eq_model A, Props.C02.not_canonical h⟩

/-! ## non-vacuity: the hypotheses hold on concrete non-trivial arrays and the theorems compute there -/

/-- `(x0 ∧ x2) ∨ (¬x0 ∧ x3)` over five variables (not in post-order numbering is fine for `WFo`) -/
example : WFo exGap 5 := wfoB_sound (by decide)

example : Algo.Bdd_exact_cardinality (fuel1 exGap) exGap = .ok 16 := by
  rw [Bdd_exact_cardinality_eq_model_driver (n := 5) (wfoB_sound (by decide)) (by decide)]; rfl

example : Algo.Bdd_exact_clause_cardinality (fuel1 exGap) exGap = .ok 2 := by
  rw [Bdd_exact_clause_cardinality_eq_model_driver (n := 5) (wfoB_sound (by decide)) (by decide)]; rfl

example : Algo.Bdd_exact_cardinality 100 Props.C09.exPermuted = exactCardO Props.C09.exPermuted :=
  Bdd_exact_cardinality_eq_model (n := 3) (wfoB_sound (by decide)) (by decide) 100 (by decide)

example : ∃ s, Algo.Bdd_support_set exGap = .ok s ∧
    s.toList.mergeSort (fun x y => decide (x ≤ y)) = [0, 2, 3] := by
  obtain ⟨s, h1, _, h3⟩ := Bdd_support_set_eq_model exGap
  exact ⟨s, h1, by rw [h3]; decide⟩

example : Algo.Bdd_from_nodes Props.C13.exOk = .ok (.ok Props.C13.exOk) :=
  (Bdd_from_nodes_ok_iff _ _).2 rfl

example : ∃ m, Algo.Bdd_from_nodes Props.C13.exLoop = .ok (.error m) :=
  (Bdd_from_nodes_err_iff _).2 ⟨"Low link breaks ordering", rfl⟩

example : Algo.Bdd_validate (fuel1 Props.C13.exOk) Props.C13.exOk = .ok (.ok ()) :=
  (Bdd_validate_ok_iff _ (by decide) _ (by decide)).2 Props.C13.exOk_valid

example : Algo.Bdd_eval_in (fuel1 exGap) exGap #[true, false, true, false, false] = .ok true := by
  rw [Bdd_eval_in_eq_model_driver exGap 5 _ (wfoB_sound (by decide)) (by decide) (by decide)]; rfl

example : Algo.Bdd_is_clause (fuel1 exVal) exVal = .ok true :=
  Bdd_is_clause_eq_model_driver exVal true (by decide) (by decide)

example : Algo.Bdd_is_valuation (fuel1 exVal) exVal = .ok true :=
  Bdd_is_valuation_eq_model_driver exVal true (by decide) (by decide)

example : Algo.Bdd_is_clause (fuel1 exGap) exGap = .ok false :=
  Bdd_is_clause_eq_model_driver exGap false (by decide) (by decide)

example : selOf (Algo.Bdd_sat_witness exGap) = Sel.some [true, false, true, false, false] := by
  rw [Bdd_sat_witness_eq_model exGap (by decide) (by decide)]; decide

example : Can exGap 5 ∧ NoOrphan exGap := ⟨exGap_can, exGap_noOrphan⟩

end B.AlgoEqUtil
