import BddVerif.Lemmas.AlgoEq2RelBool
import BddVerif.Lemmas.AlgoEqNestedDriver
/-!
Equivalence "translated Rust = hand-written model", second generated file (`Gen/Algo2.lean`), part 2:
the wrappers over `nested_apply`

* `Bdd::binary_op_with_exists`, `Bdd::binary_op_with_for_all` (src/_impl_bdd/_impl_nested_ops.rs:10-42),
* `Bdd::exists`, `Bdd::for_all`, `Bdd::project` (src/_impl_bdd/_impl_relation_ops.rs:44-66)

versus `B.binaryOpWithExists`, `B.binaryOpWithForAll`, `B.bddExists`, `B.bddForAll` (Model/Nested.lean).
The only content beyond the engine theorem `B.AlgoEq.binary_op_nested_eq_model` is that the closure
`|var| set.contains(&var)` over `HashSet::from_iter(variables)` is the model's `trigOfList`.

Fuel: the wrapper hands its fuel to `nested_apply`, whose sufficient bound `nestedFuel L R trig outer inner`
(3·max(outer cache, inner cache, result array of the model's own run) + 1) is NOT polynomial in the operand sizes in
general (see Lemmas/AlgoEqNestedDriver.lean); it is kept as an explicit, per-case checkable hypothesis.
-/
namespace B.AlgoEq2Rel
open B B.Gen Std
attribute [local instance 10000] Rust.monadOutcomeInline

/-! ### `HashSet::from_iter(variables)` + `contains` = `trigOfList` -/

theorem foldl_insert_contains (l : List Nat) : ∀ (s : HashSet Nat) (y : Nat),
    (l.foldl (fun s x => s.insert x) s).contains y = (s.contains y || l.contains y) := by
  induction l with
  | nil => intro s y; simp
  | cons a t ih =>
    intro s y
    rw [List.foldl_cons, ih, HashSet.contains_insert, List.contains_cons]
    have : (a == y) = (y == a) := BEq.comm
    rw [this]
    cases s.contains y <;> cases (y == a) <;> simp

theorem hashSet_trigger (vars : Array Nat) :
    (fun var => (Rust.hashSetFromArr vars).contains var) = trigOfList vars.toList := by
  funext y
  unfold Rust.hashSetFromArr trigOfList
  rw [← Array.foldl_toList, foldl_insert_contains]
  simp

/-! ### `binary_op_with_exists`, `binary_op_with_for_all` -/

section nested
variable (L R : Arr) (n : Nat) (op : Op2) (c : Bool → Bool → Bool) (vars : Array Nat)
  (hL : WFo L n) (hR : WFo R n) (hc : Consistent op c)
  (hL32 : L.size ≤ 4294967296) (hR32 : R.size ≤ 4294967296)
include hL hR hc hL32 hR32

/-- **`Bdd::binary_op_with_exists` as translated = `B.binaryOpWithExists`** -/
theorem Bdd_binary_op_with_exists_eq_model
    (h32 : (nestedRun L R (trigOfList vars.toList) op Gen.or_).1.res.size ≤ 4294967296)
    (fuel : Nat) (hfuel : AlgoEq.nestedFuel L R (trigOfList vars.toList) op Gen.or_ ≤ fuel) :
    Algo2.Bdd_binary_op_with_exists fuel L R op vars = .ok (binaryOpWithExists L R op vars.toList) := by
  unfold Algo2.Bdd_binary_op_with_exists
  simp only [hashSet_trigger]
  rw [AlgoEq.binary_op_nested_eq_model L R n _ op Gen.or_ c _ hL hR hc Rel.or_consistent Bool.or_self
    hL32 hR32 h32 fuel hfuel]
  rfl

/-- **`Bdd::binary_op_with_for_all` as translated = `B.binaryOpWithForAll`** -/
theorem Bdd_binary_op_with_for_all_eq_model
    (h32 : (nestedRun L R (trigOfList vars.toList) op Gen.and_).1.res.size ≤ 4294967296)
    (fuel : Nat) (hfuel : AlgoEq.nestedFuel L R (trigOfList vars.toList) op Gen.and_ ≤ fuel) :
    Algo2.Bdd_binary_op_with_for_all fuel L R op vars = .ok (binaryOpWithForAll L R op vars.toList) := by
  unfold Algo2.Bdd_binary_op_with_for_all
  simp only [hashSet_trigger]
  rw [AlgoEq.binary_op_nested_eq_model L R n _ op Gen.and_ c _ hL hR hc Rel.and_consistent Bool.and_self
    hL32 hR32 h32 fuel hfuel]
  rfl

/-- chained with `Props.C03.binary_op_with_exists_canon` / `binary_op_with_exists_spec`: the translated code returns
    the canonical array of the existential projection, i.e. an array satisfied exactly by the valuations that have a
    re-assignment of the listed variables satisfying the outer connective -/
theorem Bdd_binary_op_with_exists_spec
    (h32 : (nestedRun L R (trigOfList vars.toList) op Gen.or_).1.res.size ≤ 4294967296)
    (fuel : Nat) (hfuel : AlgoEq.nestedFuel L R (trigOfList vars.toList) op Gen.or_ ≤ fuel) :
    ∃ r, Algo2.Bdd_binary_op_with_exists fuel L R op vars = .ok r ∧
      r = canon n (Qn (trigOfList vars.toList) (fun a b => a || b) n (Props.C03.outerFn L R n c)) ∧
      ∀ v, den r v = true ↔ ∃ w : Nat → Bool, (∀ i, ¬ (i < n ∧ i ∈ vars.toList) → w i = v i) ∧
        c (evW L n w (root L)) (evW R n w (root R)) = true :=
  ⟨_, Bdd_binary_op_with_exists_eq_model L R n op c vars hL hR hc hL32 hR32 h32 fuel hfuel,
    Props.C03.binary_op_with_exists_canon L R n op c vars.toList hL hR hc,
    Props.C03.binary_op_with_exists_spec L R n op c vars.toList hL hR hc⟩

theorem Bdd_binary_op_with_for_all_spec
    (h32 : (nestedRun L R (trigOfList vars.toList) op Gen.and_).1.res.size ≤ 4294967296)
    (fuel : Nat) (hfuel : AlgoEq.nestedFuel L R (trigOfList vars.toList) op Gen.and_ ≤ fuel) :
    ∃ r, Algo2.Bdd_binary_op_with_for_all fuel L R op vars = .ok r ∧
      r = canon n (Qn (trigOfList vars.toList) (fun a b => a && b) n (Props.C03.outerFn L R n c)) ∧
      ∀ v, den r v = true ↔ ∀ w : Nat → Bool, (∀ i, ¬ (i < n ∧ i ∈ vars.toList) → w i = v i) →
        c (evW L n w (root L)) (evW R n w (root R)) = true :=
  ⟨_, Bdd_binary_op_with_for_all_eq_model L R n op c vars hL hR hc hL32 hR32 h32 fuel hfuel,
    Props.C03.binary_op_with_for_all_canon L R n op c vars.toList hL hR hc,
    Props.C03.binary_op_with_for_all_spec L R n op c vars.toList hL hR hc⟩

end nested

/-- **panic case**: operands over different variable counts — both wrappers panic, for every fuel, table and list -/
theorem Bdd_binary_op_with_quant_panics (L R : Arr) (op : Op2) (vars : Array Nat) (fuel : Nat)
    (hL : 0 < L.size) (hR : 0 < R.size) (hne : numVars L ≠ numVars R) :
    Algo2.Bdd_binary_op_with_exists fuel L R op vars =
      .panic "Var count mismatch: BDDs are not compatible. {} != {}" ∧
    Algo2.Bdd_binary_op_with_for_all fuel L R op vars =
      .panic "Var count mismatch: BDDs are not compatible. {} != {}" := by
  unfold Algo2.Bdd_binary_op_with_exists Algo2.Bdd_binary_op_with_for_all Algo.Bdd_binary_op_nested
  simp only [(AlgoEq.nested_apply_panic L R _ op _ fuel hL hR hne).1]
  exact ⟨trivial, trivial⟩

/-! ### `exists`, `for_all`, `project` -/

section quant
variable (A : Arr) (n : Nat) (vars : Array Nat) (hA : WFo A n) (hA32 : A.size ≤ 4294967296)
include hA hA32

/-- **`Bdd::exists` as translated = `B.bddExists`** -/
theorem Bdd_exists_eq_model
    (h32 : (nestedRun A A (trigOfList vars.toList) Gen.and_ Gen.or_).1.res.size ≤ 4294967296)
    (fuel : Nat) (hfuel : AlgoEq.nestedFuel A A (trigOfList vars.toList) Gen.and_ Gen.or_ ≤ fuel) :
    Algo2.Bdd_exists fuel A vars = .ok (bddExists A vars.toList) := by
  unfold Algo2.Bdd_exists
  rw [Bdd_binary_op_with_exists_eq_model A A n Gen.and_ _ vars hA hA Rel.and_consistent hA32 hA32 h32 fuel hfuel]
  rfl

/-- **`Bdd::project`** (deprecated alias of `exists`) -/
theorem Bdd_project_eq_model
    (h32 : (nestedRun A A (trigOfList vars.toList) Gen.and_ Gen.or_).1.res.size ≤ 4294967296)
    (fuel : Nat) (hfuel : AlgoEq.nestedFuel A A (trigOfList vars.toList) Gen.and_ Gen.or_ ≤ fuel) :
    Algo2.Bdd_project fuel A vars = .ok (bddExists A vars.toList) := by
  unfold Algo2.Bdd_project
  rw [Bdd_exists_eq_model A n vars hA hA32 h32 fuel hfuel]

/-- **`Bdd::for_all` as translated = `B.bddForAll`** -/
theorem Bdd_for_all_eq_model
    (h32 : (nestedRun A A (trigOfList vars.toList) Gen.and_ Gen.and_).1.res.size ≤ 4294967296)
    (fuel : Nat) (hfuel : AlgoEq.nestedFuel A A (trigOfList vars.toList) Gen.and_ Gen.and_ ≤ fuel) :
    Algo2.Bdd_for_all fuel A vars = .ok (bddForAll A vars.toList) := by
  unfold Algo2.Bdd_for_all
  rw [Bdd_binary_op_with_for_all_eq_model A A n Gen.and_ _ vars hA hA Rel.and_consistent hA32 hA32 h32 fuel hfuel]
  rfl

/-- chained with `Props.C03.exists_spec` / `exists_for_all_canon`: THE TRANSLATED `exists` returns the canonical array
    of the existential projection of the operand onto the complement of `vars` -/
theorem Bdd_exists_spec
    (h32 : (nestedRun A A (trigOfList vars.toList) Gen.and_ Gen.or_).1.res.size ≤ 4294967296)
    (fuel : Nat) (hfuel : AlgoEq.nestedFuel A A (trigOfList vars.toList) Gen.and_ Gen.or_ ≤ fuel) :
    ∃ r, Algo2.Bdd_exists fuel A vars = .ok r ∧
      r = canon n (Qn (trigOfList vars.toList) (fun a b => a || b) n (fun v => evW A n v (root A))) ∧
      ∀ v, den r v = true ↔
        ∃ w : Nat → Bool, (∀ i, ¬ (i < n ∧ i ∈ vars.toList) → w i = v i) ∧ evW A n w (root A) = true :=
  ⟨_, Bdd_exists_eq_model A n vars hA hA32 h32 fuel hfuel, (Props.C03.exists_for_all_canon A n vars.toList hA).1,
    Props.C03.exists_spec A n vars.toList hA⟩

theorem Bdd_for_all_spec
    (h32 : (nestedRun A A (trigOfList vars.toList) Gen.and_ Gen.and_).1.res.size ≤ 4294967296)
    (fuel : Nat) (hfuel : AlgoEq.nestedFuel A A (trigOfList vars.toList) Gen.and_ Gen.and_ ≤ fuel) :
    ∃ r, Algo2.Bdd_for_all fuel A vars = .ok r ∧
      r = canon n (Qn (trigOfList vars.toList) (fun a b => a && b) n (fun v => evW A n v (root A))) ∧
      ∀ v, den r v = true ↔
        ∀ w : Nat → Bool, (∀ i, ¬ (i < n ∧ i ∈ vars.toList) → w i = v i) → evW A n w (root A) = true :=
  ⟨_, Bdd_for_all_eq_model A n vars hA hA32 h32 fuel hfuel, (Props.C03.exists_for_all_canon A n vars.toList hA).2,
    Props.C03.for_all_spec A n vars.toList hA⟩

end quant

/-! ### with the driver's fuel (`fuelN L R = 8·((|L|·|R| + 2)² + numVars L + 8)`)

As for `nested_apply` itself the unconditional statement is not expected to hold for all operands (the intermediate
result array may be exponentially larger than the operands); the corollaries carry the decidable hypothesis
`nestedFuel … ≤ fuelN L R`, and the unconditional statement is recorded as a `Prop`. -/

theorem Bdd_binary_op_with_exists_eq_model_driver (L R : Arr) (n : Nat) (op : Op2) (c : Bool → Bool → Bool)
    (vars : Array Nat) (hL : WFo L n) (hR : WFo R n) (hc : Consistent op c)
    (hL32 : L.size ≤ 4294967296) (hR32 : R.size ≤ 4294967296)
    (h32 : (nestedRun L R (trigOfList vars.toList) op Gen.or_).1.res.size ≤ 4294967296)
    (hdrv : AlgoEq.nestedFuel L R (trigOfList vars.toList) op Gen.or_ ≤ Drive.Algo.fuelN L R) :
    Algo2.Bdd_binary_op_with_exists (Drive.Algo.fuelN L R) L R op vars = .ok (binaryOpWithExists L R op vars.toList) :=
  Bdd_binary_op_with_exists_eq_model L R n op c vars hL hR hc hL32 hR32 h32 _ hdrv

theorem Bdd_binary_op_with_for_all_eq_model_driver (L R : Arr) (n : Nat) (op : Op2) (c : Bool → Bool → Bool)
    (vars : Array Nat) (hL : WFo L n) (hR : WFo R n) (hc : Consistent op c)
    (hL32 : L.size ≤ 4294967296) (hR32 : R.size ≤ 4294967296)
    (h32 : (nestedRun L R (trigOfList vars.toList) op Gen.and_).1.res.size ≤ 4294967296)
    (hdrv : AlgoEq.nestedFuel L R (trigOfList vars.toList) op Gen.and_ ≤ Drive.Algo.fuelN L R) :
    Algo2.Bdd_binary_op_with_for_all (Drive.Algo.fuelN L R) L R op vars =
      .ok (binaryOpWithForAll L R op vars.toList) :=
  Bdd_binary_op_with_for_all_eq_model L R n op c vars hL hR hc hL32 hR32 h32 _ hdrv

theorem Bdd_exists_eq_model_driver (A : Arr) (n : Nat) (vars : Array Nat) (hA : WFo A n) (hA32 : A.size ≤ 4294967296)
    (h32 : (nestedRun A A (trigOfList vars.toList) Gen.and_ Gen.or_).1.res.size ≤ 4294967296)
    (hdrv : AlgoEq.nestedFuel A A (trigOfList vars.toList) Gen.and_ Gen.or_ ≤ Drive.Algo.fuelN A A) :
    Algo2.Bdd_exists (Drive.Algo.fuelN A A) A vars = .ok (bddExists A vars.toList) ∧
    Algo2.Bdd_project (Drive.Algo.fuelN A A) A vars = .ok (bddExists A vars.toList) :=
  ⟨Bdd_exists_eq_model A n vars hA hA32 h32 _ hdrv, Bdd_project_eq_model A n vars hA hA32 h32 _ hdrv⟩

theorem Bdd_for_all_eq_model_driver (A : Arr) (n : Nat) (vars : Array Nat) (hA : WFo A n) (hA32 : A.size ≤ 4294967296)
    (h32 : (nestedRun A A (trigOfList vars.toList) Gen.and_ Gen.and_).1.res.size ≤ 4294967296)
    (hdrv : AlgoEq.nestedFuel A A (trigOfList vars.toList) Gen.and_ Gen.and_ ≤ Drive.Algo.fuelN A A) :
    Algo2.Bdd_for_all (Drive.Algo.fuelN A A) A vars = .ok (bddForAll A vars.toList) :=
  Bdd_for_all_eq_model A n vars hA hA32 h32 _ hdrv

/-- NOT PROVED (and not expected to hold for all operands): the driver's fuel always suffices for `exists` -/
def Bdd_exists_eq_model_driver_statement : Prop :=
  ∀ (A : Arr) (n : Nat) (vars : Array Nat), WFo A n → A.size ≤ 4294967296 →
    (nestedRun A A (trigOfList vars.toList) Gen.and_ Gen.or_).1.res.size ≤ 4294967296 →
    Algo2.Bdd_exists (Drive.Algo.fuelN A A) A vars = .ok (bddExists A vars.toList)

/-! ### non-vacuity -/

/-- the model's run of `∃ x0. (x0 ∧ x2)`: evaluated with the hash-map lemmas (the kernel cannot reduce `Std.HashMap`) -/
theorem ex_run_exists : (nestedRun exX0X2 exX0X2 (trigOfList [0, 0]) and_ or_).1.res.size ≤ 6 ∧
    (nestedRun exX0X2 exX0X2 (trigOfList [0, 0]) and_ or_).1.outer.size ≤ 6 ∧
    (nestedRun exX0X2 exX0X2 (trigOfList [0, 0]) and_ or_).1.inner.size ≤ 6 := by
  simp [nestedRun, nestedRec, nestedStep, nestedFinish, nSolve, innerApply, innerRec, innerStep, innerFinish,
    nFindOrPush, nestedInit, exX0X2, numVars, root, nodeAt, kids, asBool, ofBool, and_, or_, mkTrue, zeroN, oneN,
    HashMap.size_insert, trigOfList]

/-- the GENERATED `exists` with the driver's fuel on `x0 ∧ x2`, list `[0, 0]`: the array of `x2` -/
example : Algo2.Bdd_exists (Drive.Algo.fuelN exX0X2 exX0X2) exX0X2 #[0, 0] = .ok #[⟨3, 0, 0⟩, ⟨3, 1, 1⟩, ⟨2, 0, 1⟩] := by
  obtain ⟨h1, h2, h3⟩ := ex_run_exists
  have hf : AlgoEq.nestedFuel exX0X2 exX0X2 (trigOfList [0, 0]) and_ or_ ≤ Drive.Algo.fuelN exX0X2 exX0X2 := by
    unfold AlgoEq.nestedFuel
    have : Drive.Algo.fuelN exX0X2 exX0X2 = 2680 := by decide
    rw [this]; omega
  rw [(Bdd_exists_eq_model_driver exX0X2 3 #[0, 0] exX0X2_wf (by decide) (by show (nestedRun exX0X2 exX0X2 (trigOfList [0, 0]) and_ or_).1.res.size ≤ _; omega) hf).1]
  exact congrArg Outcome.ok (((Props.C03.exists_for_all_canon exX0X2 3 [0, 0] exX0X2_wf).1).trans (by decide))

/-- 3 vs 2 variables: panic whatever the fuel -/
example (fuel : Nat) : Algo2.Bdd_binary_op_with_exists fuel exX0X2 exY0 and_ #[0] =
    .panic "Var count mismatch: BDDs are not compatible. {} != {}" :=
  (Bdd_binary_op_with_quant_panics exX0X2 exY0 and_ #[0] fuel (by decide) (by decide) (by decide)).1

end B.AlgoEq2Rel
