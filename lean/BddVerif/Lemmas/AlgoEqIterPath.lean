import BddVerif.Lemmas.AlgoEqIterBase
import BddVerif.Lemmas.IterPathIter
/-!
Translated path iterator (`B.Gen.Algo.continue_path`, `make_clause`, `BddPathIterator_new`, `BddPathIterator_next`,
generated from src/_impl_bdd_path_iterator.rs) = hand-written step functions of `Model/Iter.lean`
(`continuePath`, `makeClause`, `pathInit`, `pathNext`).

Representation: the model keeps the stack as a list whose head is the top; the translated code keeps a `Vec`
whose last element is the top: `stkArr S = S.reverse.toArray`. Clauses: `Array (Option Bool)` ↦ `.toList`.
-/
namespace B.AlgoEqIt
open B B.Gen B.Gen.Algo B.Iter
attribute [local instance 10000] Rust.monadOutcomeInline

/-! ## `continue_path` -/

/-- loop state of `continue_path`: the pending `return` value and `path` -/
abbrev CpSt := Option (Array Nat) × Array Nat

/-- one iteration of the `loop` of `continue_path` (hand-written; tied to the generated body in
    `continue_path_desugar`) -/
def cpStep (A : Arr) (s : CpSt) : Outcome (ForInStep CpSt) :=
  match s.2.back? with
  | none => .panic "called `Option::unwrap()` on a `None` value"
  | some top =>
    if top = 1 then .ok (.done (some s.2, s.2))
    else match A[top]? with
      | none => .panic "index out of bounds"
      | some nd =>
        if nd.low ≠ 0 then .ok (.yield (none, s.2.push nd.low))
        else if nd.high ≠ 0 then .ok (.yield (none, s.2.push nd.high))
        else .panic "The given BDD is not canonical."

/-- after the loop: the `return` value, or fuel exhaustion -/
def cpPost (s : CpSt) : Outcome (Array Nat) :=
  match s.1 with
  | some r => .ok r
  | none => .panic "fuel"

/-- desugaring: the generated `continue_path` is the assertion followed by `fuel` iterations of `cpStep` -/
theorem continue_path_desugar (fuel : Nat) (A : Arr) (path : Array Nat) :
    continue_path fuel A path =
      if path.isEmpty then .panic "assertion failed: assert!(!path.is_empty());"
      else loopI (fun _ s => cpStep A s) 0 fuel (none, path) >>= cpPost := by
  unfold continue_path
  simp only [forIn_range_eq_loopI, Nat.sub_zero]
  by_cases he : path.isEmpty
  · simp [he]
  · simp only [he]
    rw [loopI_congr _ (fun _ s => cpStep A s)]
    · apply bind_congr
      intro s
      obtain ⟨o, p⟩ := s
      cases o <;> rfl
    · intro i s
      unfold cpStep
      cases hb : s.2.back? with
      | none => simp [Rust.unwrap]
      | some top =>
        simp only [Rust.unwrap, ok_bind, is_one_eq, is_zero_eq, low_link_of_eq, high_link_of_eq]
        by_cases h1 : top = 1
        · simp [h1]
        · cases hA : A[top]? with
          | none => simp [h1]
          | some nd =>
            by_cases hl : nd.low = 0 <;> by_cases hh : nd.high = 0 <;> simp [h1, hl, hh]

theorem cpStep_cons (A : Arr) (o : Option (Array Nat)) (top : Nat) (rest : List Nat) :
    cpStep A (o, stkArr (top :: rest)) =
      if top = 1 then .ok (.done (some (stkArr (top :: rest)), stkArr (top :: rest)))
      else match A[top]? with
        | none => .panic "index out of bounds"
        | some nd =>
          if nd.low ≠ 0 then .ok (.yield (none, stkArr (nd.low :: top :: rest)))
          else if nd.high ≠ 0 then .ok (.yield (none, stkArr (nd.high :: top :: rest)))
          else .panic "The given BDD is not canonical." := by
  unfold cpStep
  simp only [stkArr_back?, List.head?_cons, stkArr_push]

/-- the loop of `continue_path` with `f + 1` iterations against the model with fuel `f` (the model tests
    `top = 1` before it consumes fuel, the loop needs an iteration for it) -/
theorem cpLoop_sim (A : Arr) : ∀ f top rest,
    OSim (fun a l => a = stkArr l)
      (loopI (fun _ s => cpStep A s) 0 (f + 1) (none, stkArr (top :: rest)) >>= cpPost)
      (continuePath A f (top :: rest)) := by
  intro f
  induction f with
  | zero =>
    intro top rest
    rw [loopI_succ, cpStep_cons]
    unfold continuePath
    by_cases h1 : top = 1
    · simp [h1, cpPost, OSim]
    · simp only [h1, if_false]
      cases hA : A[top]? with
      | none => simp [OSim]
      | some nd =>
        by_cases hl : nd.low = 0 <;> by_cases hh : nd.high = 0 <;> simp [hl, hh, loopI_zero, cpPost, OSim]
  | succ f ih =>
    intro top rest
    rw [loopI_succ, cpStep_cons]
    unfold continuePath
    by_cases h1 : top = 1
    · simp [h1, cpPost, OSim]
    · simp only [h1, if_false]
      cases hA : A[top]? with
      | none => simp [OSim]
      | some nd =>
        by_cases hl : nd.low = 0
        · by_cases hh : nd.high = 0
          · simp [hl, hh, OSim]
          · simp only [hl, hh, ne_eq, not_true_eq_false, not_false_eq_true, if_true, if_false]
            rw [loopI_shift _ (0 + 1) 0]
            exact ih _ _
        · simp only [hl, ne_eq, not_false_eq_true, if_true]
          rw [loopI_shift _ (0 + 1) 0]
          exact ih _ _

/-- **`continue_path` = `continuePath`** (all inputs, up to the panic message): `fuel + 1` loop iterations
    correspond to model fuel `fuel` -/
theorem continue_path_sim (A : Arr) (fuel : Nat) (S : List Nat) :
    OSim (fun a l => a = stkArr l) (continue_path (fuel + 1) A (stkArr S)) (continuePath A fuel S) := by
  rw [continue_path_desugar]
  cases S with
  | nil => simp [continuePath, OSim]
  | cons top rest =>
    simp only [stkArr_isEmpty, List.isEmpty_cons, Bool.false_eq_true, if_false]
    exact cpLoop_sim A fuel top rest

/-- no fuel at all: the translated loop cannot even test the top -/
theorem continue_path_zero (A : Arr) (S : List Nat) : ∃ m, continue_path 0 A (stkArr S) = .panic m := by
  rw [continue_path_desugar]
  cases S with
  | nil => simp
  | cons top rest => simp [stkArr_isEmpty, loopI_zero, cpPost]

/-- the model is monotone in its fuel -/
theorem continuePath_mono (A : Arr) : ∀ f S R, continuePath A f S = .ok R → continuePath A (f + 1) S = .ok R := by
  intro f
  induction f with
  | zero =>
    intro S R h
    cases S with
    | nil => simp [continuePath] at h
    | cons top rest =>
      unfold continuePath at h ⊢
      by_cases h1 : top = 1
      · simpa [h1] using h
      · simp [h1] at h
  | succ f ih =>
    intro S R h
    cases S with
    | nil => simp [continuePath] at h
    | cons top rest =>
      rw [continuePath] at h ⊢
      by_cases h1 : top = 1
      · simpa [h1] using h
      · simp only [h1, if_false] at h ⊢
        cases hA : A[top]? with
        | none => simp [hA] at h
        | some nd =>
          simp only [hA] at h ⊢
          by_cases hl : nd.low = 0
          · by_cases hh : nd.high = 0
            · simp [hl, hh] at h
            · simp only [hl, hh, ne_eq, not_true_eq_false, not_false_eq_true, if_true, if_false] at h ⊢
              exact ih _ _ h
          · simp only [hl, ne_eq, not_false_eq_true, if_true] at h ⊢
            exact ih _ _ h

theorem continuePath_mono_le (A : Arr) (f f' : Nat) (hf : f ≤ f') (S R : List Nat)
    (h : continuePath A f S = .ok R) : continuePath A f' S = .ok R := by
  induction hf with
  | refl => exact h
  | step _ ih => exact continuePath_mono A _ S R ih

/-- domain form: where the model succeeds with fuel `f`, the translated function succeeds with every fuel `> f`
    and returns the same stack -/
theorem continue_path_eq_model (A : Arr) (f : Nat) (S R : List Nat) (h : continuePath A f S = .ok R)
    (fuel : Nat) (hfuel : f + 1 ≤ fuel) : continue_path fuel A (stkArr S) = .ok (stkArr R) := by
  obtain ⟨g, rfl⟩ : ∃ g, fuel = g + 1 := ⟨fuel - 1, by omega⟩
  have hs := continue_path_sim A g S
  rw [continuePath_mono_le A f g (by omega) S R h] at hs
  obtain ⟨a, ha, rfl⟩ := hs.ok_right
  exact ha

/-! ## `make_clause` -/

/-- one iteration of the `for i in 0..(path.len() - 1)` loop of `make_clause` (without the `ForInStep` wrapper) -/
def mcStep (A : Arr) (path : Array Nat) (i : Nat) (r : Array (Option Bool)) : Outcome (Array (Option Bool)) :=
  match path[i]? with
  | none => .panic "index out of bounds"
  | some this =>
    match path[i + 1]? with
    | none => .panic "index out of bounds"
    | some next =>
      match A[this]? with
      | none => .panic "index out of bounds"
      | some nd =>
        if nd.low = next then .ok (Rust.pvalSetValue r nd.var false)
        else if nd.high = next then .ok (Rust.pvalSetValue r nd.var true)
        else .panic "Path {:?} is not valid in BDD {:?}"

theorem make_clause_desugar (A : Arr) (path : Array Nat) :
    make_clause A path =
      Rust.sub path.size 1 >>= fun k =>
        loopI (fun i r => mcStep A path i r >>= fun r' => .ok (.yield r')) 0 k BddPartialValuation_empty := by
  unfold make_clause
  simp only [forIn_range_eq_loopI, Nat.sub_zero]
  apply bind_congr
  intro k
  rw [loopI_congr _ (fun i r => mcStep A path i r >>= fun r' => .ok (.yield r'))]
  · simp
  · intro i r
    unfold mcStep
    simp only [idx_eq, var_of_eq, low_link_of_eq, high_link_of_eq]
    cases h1 : path[i]? with
    | none => simp
    | some this =>
      cases h2 : path[i + 1]? with
      | none => simp
      | some next =>
        cases hA : A[this]? with
        | none => simp [hA]
        | some nd =>
          by_cases hl : nd.low = next <;> by_cases hh : nd.high = next <;> simp [hA, hl, hh]

theorem mcLoop_sim (A : Arr) : ∀ (S : List Nat), S ≠ [] → ∀ path : Array Nat,
    (∀ j, j < S.length → path[j]? = S.reverse[j]?) →
    OSim (fun c pv => c.toList = pv)
      (loopI (fun i r => mcStep A path i r >>= fun r' => .ok (.yield r')) 0 (S.length - 1) BddPartialValuation_empty)
      (makeClause A S) := by
  intro S
  induction S with
  | nil => intro h; exact absurd rfl h
  | cons next S ih =>
    intro _ path hpre
    cases S with
    | nil => simp [loopI_zero, makeClause, OSim, BddPartialValuation_empty]
    | cons this rest =>
      have ih' := ih (by simp) path (fun j hj => by
        rw [hpre j (by simp at hj ⊢; omega)]
        simp only [List.reverse_cons (a := next), List.length_cons] at hj ⊢
        rw [List.getElem?_append_left (by simpa using hj)])
      have e : (next :: this :: rest).length - 1 = rest.length + 1 := by simp
      have e' : (this :: rest).length - 1 = rest.length := by simp
      rw [e, loopI_yield_snoc]
      rw [e'] at ih'
      rw [makeClause]
      cases hm : makeClause A (this :: rest) with
      | err m =>
        rw [hm] at ih'
        cases hl : loopI (fun i r => mcStep A path i r >>= fun r' => .ok (.yield r')) 0 rest.length BddPartialValuation_empty with
        | ok a => rw [hl] at ih'; exact ih'.elim
        | err m' => simp [OSim]
        | panic m' => rw [hl] at ih'; exact ih'.elim
      | panic m =>
        rw [hm] at ih'
        obtain ⟨m', hl⟩ := ih'.panic_right
        rw [hl]; simp [OSim]
      | ok acc =>
        rw [hm] at ih'
        obtain ⟨c, hl, hc⟩ := ih'.ok_right
        rw [hl]
        simp only [ok_bind, Nat.zero_add]
        have h1 : path[rest.length]? = some this := by
          rw [hpre _ (by simp; omega)]; simp
        have h2 : path[rest.length + 1]? = some next := by
          rw [hpre _ (by simp)]; simp
        unfold mcStep
        simp only [h1, h2]
        cases hA : A[this]? with
        | none => simp [OSim]
        | some nd =>
          by_cases hlo : nd.low = next
          · simp [hlo, OSim, pvalSetValue_toList, hc]
          · by_cases hhi : nd.high = next
            · simp [hlo, hhi, OSim, pvalSetValue_toList, hc]
            · simp [hlo, hhi, OSim]

/-- **`make_clause` = `makeClause`** (all inputs, up to the panic message) -/
theorem make_clause_sim (A : Arr) (S : List Nat) :
    OSim (fun c pv => c.toList = pv) (make_clause A (stkArr S)) (makeClause A S) := by
  rw [make_clause_desugar]
  cases S with
  | nil => simp [Rust.sub, makeClause, OSim]
  | cons x S =>
    have : Rust.sub (stkArr (x :: S)).size 1 = .ok ((x :: S).length - 1) := by simp [Rust.sub]
    rw [this, ok_bind]
    exact mcLoop_sim A (x :: S) (by simp) _ (fun j _ => stkArr_getElem? _ j)

theorem make_clause_eq_model (A : Arr) (S : List Nat) (pv : PV) (h : makeClause A S = .ok pv) :
    make_clause A (stkArr S) = .ok pv.toArray := by
  have hs := make_clause_sim A S
  rw [h] at hs
  obtain ⟨c, hc, rfl⟩ := hs.ok_right
  rw [hc]

/-! ## `BddPathIterator::new` -/

/-- **`BddPathIterator::new` = `pathInit`** on the model's domain; fuel `A.size + 2` (the model runs
    `continuePath` with `cpFuel A = A.size + 1`) -/
theorem path_new_eq_model (A : Arr) (h32 : A.size ≤ 4294967296) (S : List Nat) (h : pathInit A = .ok S)
    (fuel : Nat) (hfuel : A.size + 2 ≤ fuel) : BddPathIterator_new fuel A = .ok (A, stkArr S) := by
  unfold BddPathIterator_new Bdd_is_false
  unfold pathInit at h
  by_cases h1 : A.size = 1
  · simp [h1] at h ⊢
    subst h; rfl
  · simp only [h1, if_false] at h
    have hpos : 1 ≤ A.size := by
      rcases Nat.eq_zero_or_pos A.size with h0 | h0
      · exfalso
        have hr : root A = 0 := by unfold root; omega
        have hn : A[0]? = none := by simp [h0]
        rw [hr] at h
        unfold cpFuel at h
        rw [h0] at h
        simp [continuePath, hn] at h
      · exact h0
    have hb : (A.size == 1) = false := by simp [h1]
    simp only [hb, Bool.false_eq_true, if_false, root_pointer_eq A hpos h32, ok_bind]
    have := continue_path_eq_model A (cpFuel A) [root A] S h fuel (by unfold cpFuel; omega)
    have e : (#[root A] : Array Nat) = stkArr [root A] := rfl
    rw [e, this]
    rfl

/-! ## `BddPathIterator::next` -/

/-- loop state of `next`: `self` (the borrowed Bdd and the stack), `last_child`, the "left by `break`" flag -/
abbrev NxSt := (Arr × Array Nat) × Nat × Bool

/-- one iteration of the `while let Some(top) = self.stack.last()` loop of `next` -/
def nxStep (fuel : Nat) (s : NxSt) : Outcome (ForInStep NxSt) :=
  match s.1.2.back? with
  | none => .ok (.done (s.1, s.2.1, true))
  | some top =>
    match s.1.1[top]? with
    | none => .panic "index out of bounds"
    | some nd =>
      if nd.low = s.2.1 then
        if nd.high = 0 then .ok (.yield ((s.1.1, s.1.2.pop), top, s.2.2))
        else if nd.low = nd.high then .panic "The BDD is not canonical."
        else continue_path fuel s.1.1 (s.1.2.push nd.high) >>= fun p => .ok (.done ((s.1.1, p), s.2.1, true))
      else if nd.high = s.2.1 then .ok (.yield ((s.1.1, s.1.2.pop), top, s.2.2))
      else .panic "Invalid path data in iterator."

/-- after the loop of `next` -/
def nxPost (item : Array (Option Bool)) (s : NxSt) : Outcome (Option (Array (Option Bool)) × (Arr × Array Nat)) :=
  if s.2.2 then .ok (some item, s.1) else .panic "fuel"

theorem path_next_desugar (fuel : Nat) (A : Arr) (stk : Array Nat) :
    BddPathIterator_next fuel (A, stk) =
      if stk.isEmpty then .ok (none, (A, stk))
      else make_clause A stk >>= fun item => Rust.unwrap stk.back? >>= fun last =>
        loopI (fun _ s => nxStep fuel s) 0 fuel ((A, stk.pop), last, false) >>= nxPost item := by
  unfold BddPathIterator_next
  simp only [forIn_range_eq_loopI, Nat.sub_zero]
  by_cases he : stk.isEmpty
  · simp [he]
  · simp only [he, Bool.false_eq_true, if_false]
    apply bind_congr; intro item
    apply bind_congr; intro last
    rw [loopI_congr _ (fun _ s => nxStep fuel s)]
    · apply bind_congr
      intro s
      unfold nxPost
      cases s.2.2 <;> simp
    · intro i s
      unfold nxStep
      cases hb : s.1.2.back? with
      | none => simp
      | some top =>
        simp only [low_link_of_eq, high_link_of_eq, is_zero_eq]
        cases hA : s.1.1[top]? with
        | none => simp
        | some nd =>
          by_cases hl : nd.low = s.2.1
          · by_cases hh : nd.high = 0
            · simp [hl, hh]
            · by_cases hlh : nd.low = nd.high
              · have : s.2.1 = nd.high := by rw [← hl]; exact hlh
                simp [hl, hh, this]
              · have : ¬ s.2.1 = nd.high := by rw [← hl]; exact hlh
                simp [hl, hh, this]
          · by_cases hh : nd.high = s.2.1 <;> simp [hl, hh]

/-- the pop loop: where the model's `popLoop` succeeds, `rest.length + 1` iterations suffice (every iteration
    pops or leaves), and `continue_path` gets the fuel of `next` -/
theorem nxLoop_eq_model (A : Arr) (fuel : Nat) (hfuel : A.size + 2 ≤ fuel) : ∀ (rest : List Nat) (child : Nat) (R : List Nat),
    popLoop A child rest = .ok R → ∀ k, rest.length + 1 ≤ k →
      ∃ c, loopI (fun _ s => nxStep fuel s) 0 k ((A, stkArr rest), child, false) = .ok ((A, stkArr R), c, true) := by
  intro rest
  induction rest with
  | nil =>
    intro child R h k hk
    obtain ⟨k', rfl⟩ : ∃ k', k = k' + 1 := ⟨k - 1, by omega⟩
    simp [popLoop] at h
    subst h
    exact ⟨child, by simp [loopI_succ, nxStep, Array.back?]⟩
  | cons top rest ih =>
    intro child R h k hk
    obtain ⟨k', rfl⟩ : ∃ k', k = k' + 1 := ⟨k - 1, by simp at hk; omega⟩
    rw [popLoop] at h
    rw [loopI_succ]
    unfold nxStep
    simp only [stkArr_back?, List.head?_cons, stkArr_pop, List.tail_cons, stkArr_push]
    cases hA : A[top]? with
    | none => simp [hA] at h
    | some nd =>
      simp only [hA] at h ⊢
      by_cases hl : nd.low = child
      · simp only [hl, if_true] at h ⊢
        by_cases hh : nd.high = 0
        · simp only [hh, if_true] at h ⊢
          rw [loopI_shift _ (0 + 1) 0]
          exact ih top R h k' (by simp at hk; omega)
        · simp only [hh, if_false] at h ⊢
          by_cases hlh : child = nd.high
          · simp [hlh] at h
          · simp only [hlh, if_false] at h ⊢
            rw [continue_path_eq_model A (cpFuel A) _ R h fuel (by unfold cpFuel; omega)]
            exact ⟨child, rfl⟩
      · simp only [hl, if_false] at h ⊢
        by_cases hh : nd.high = child
        · simp only [hh, if_true] at h ⊢
          rw [loopI_shift _ (0 + 1) 0]
          exact ih top R h k' (by simp at hk; omega)
        · simp [hh] at h

/-- **`BddPathIterator::next` = `pathNext`**, per step, on the model's domain: from corresponding states the
    translated `next` returns the same item and the corresponding state. Fuel: the stack length + 1 for the pop
    loop and `A.size + 2` for `continue_path`. -/
theorem path_next_eq_model (A : Arr) (S : List Nat) (r : Option PV × List Nat) (h : pathNext A S = .ok r)
    (fuel : Nat) (hf1 : S.length ≤ fuel) (hf2 : A.size + 2 ≤ fuel) :
    BddPathIterator_next fuel (A, stkArr S) = .ok (r.1.map List.toArray, (A, stkArr r.2)) := by
  rw [path_next_desugar]
  cases S with
  | nil =>
    simp [pathNext] at h
    subst h; rfl
  | cons top rest =>
    simp only [stkArr_isEmpty, List.isEmpty_cons, Bool.false_eq_true, if_false]
    unfold pathNext at h
    cases hm : makeClause A (top :: rest) with
    | err m => simp [hm] at h
    | panic m => simp [hm] at h
    | ok item =>
      simp only [hm] at h
      cases hp : popLoop A top rest with
      | err m => simp [hp] at h
      | panic m => simp [hp] at h
      | ok st =>
        simp only [hp, Outcome.ok.injEq] at h
        subst h
        rw [make_clause_eq_model A _ item hm, ok_bind, stkArr_back?, List.head?_cons]
        simp only [Rust.unwrap, ok_bind, stkArr_pop, List.tail_cons]
        obtain ⟨c, hc⟩ := nxLoop_eq_model A fuel hf2 rest top st hp fuel (by simp at hf1; omega)
        rw [hc]
        rfl

theorem makeClause_not_err (A : Arr) : ∀ S m, makeClause A S ≠ .err m := by
  intro S
  induction S with
  | nil => intro m h; simp [makeClause] at h
  | cons next S ih =>
    intro m h
    cases S with
    | nil => simp [makeClause] at h
    | cons this rest =>
      rw [makeClause] at h
      cases hm : makeClause A (this :: rest) with
      | err m' => exact ih m' hm
      | panic m' => simp [hm] at h
      | ok acc =>
        simp only [hm] at h
        cases hA : A[this]? with
        | none => simp [hA] at h
        | some nd =>
          simp only [hA] at h
          by_cases h1 : nd.low = next
          · simp [h1] at h
          · by_cases h2 : nd.high = next <;> simp [h1, h2] at h

/-- the deliberate panic of `next` ("The BDD is not canonical."): a redundant test (both links equal and not zero)
    below the top of the stack makes the translated `next` panic, with any fuel — the counterpart of
    `Props.C08.path_iter_redundant_panics` -/
theorem path_next_redundant_panics (A : Arr) (child top : Nat) (rest : List Nat) (nd : Node)
    (h : A[top]? = some nd) (hl : nd.low = child) (hh : nd.high = child) (h0 : child ≠ 0) (fuel : Nat) :
    (BddPathIterator_next fuel (A, stkArr (child :: top :: rest))).isPanic = true := by
  rw [path_next_desugar]
  simp only [stkArr_isEmpty, List.isEmpty_cons, Bool.false_eq_true, if_false]
  cases hc : make_clause A (stkArr (child :: top :: rest)) with
  | err m =>
    exfalso
    have hs := make_clause_sim A (child :: top :: rest)
    rw [hc] at hs
    cases hm : makeClause A (child :: top :: rest) with
    | err m' => exact makeClause_not_err A _ m' hm
    | ok a => rw [hm] at hs; exact hs
    | panic m' => rw [hm] at hs; exact hs
  | panic m => rfl
  | ok item =>
    simp only [ok_bind, stkArr_back?, List.head?_cons, Rust.unwrap, stkArr_pop, List.tail_cons]
    cases fuel with
    | zero => rfl
    | succ k =>
      rw [loopI_succ]
      unfold nxStep
      simp only [stkArr_back?, List.head?_cons, h, hl, hh, if_true, h0, if_false]
      rfl

end B.AlgoEqIt
