import BddVerif.Lemmas.C02HistorySubst
import BddVerif.Lemmas.RenameCanonical
/-!
C07, canonical-form clause at full strength: for a canonical `f` and a valid `g` over the same
`n < 65535` variables, `f.substitute(x, g)` is `ok` of **the canonical array of the composition**
`v ↦ f (v[x := g v])` — on all three paths. Combines `B.Props.C07.substitute_spec` (denotation) with
`B.C02H.substitute_canonical` (the result is `Canonical`).
-/
namespace B.Ren.Subst
open B B.Drive B.Ren B.Props.C07

theorem substitute_eq_canon (f g : Arr) (n x : Nat) (hcf : Canonical f) (hnf : numVars f = n)
    (hg : WFo g n) (hn : n + 1 < 65536) :
    substitute f x g = .ok (canon n (fun v => evalArr f (upd v x (evalArr g v)))) ∧
    Canonical (canon n (fun v => evalArr f (upd v x (evalArr g v)))) := by
  have hf : WFo f n := by have := canonical_wfo hcf; rwa [hnf] at this
  obtain ⟨r, e, hcr, hnr⟩ := B.C02H.substitute_canonical f g n x hcf hnf hg hn
  obtain ⟨r', e', _, hden, _⟩ := substitute_spec f g n x hf hg hn
  have hrr : r' = r := by rw [e] at e'; injection e' with h; exact h.symm
  subst hrr
  have h1 : r' = canon (numVars r') (den r') := hcr
  rw [hnr] at h1
  have h2 : r' = canon n (fun v => evalArr f (upd v x (evalArr g v))) := by
    calc r' = canon n (den r') := h1
      _ = _ := canon_congr (fun v => by rw [canonical_den_eq_evalArr hcr, hden])
  rw [← h2]
  exact ⟨e, hcr⟩

/-- non-vacuity: the clash-path operands of the fixed defect -/
example : substitute exF 0 exG = .ok (canon 3 (fun v => evalArr exF (upd v 0 (evalArr exG v)))) :=
  (substitute_eq_canon exF exG 3 0 (by show exF = canon 3 _; decide) rfl exG_wf (by omega)).1

end B.Ren.Subst
