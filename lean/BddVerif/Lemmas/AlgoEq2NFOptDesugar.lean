import BddVerif.Lemmas.AlgoEq2NF
/-!
# `Bdd::_to_optimized_dnf::_rec` (src/_impl_bdd/_impl_dnf.rs:215) with the trivial interrupt: desugaring

The generated `B.Gen.Algo2.Bdd__to_optimized_dnf___rec` duplicates the code after every `assert!` and after the
`let bdd = if … { … } else { … }` of line 251 (join points of the `do` elaborator). `tBody` is the same function written
once, with the tail (lines 277-307) as a separate function `tTail` and the three loop bodies named; `gen_eq_tBody` ties
it to the GENERATED definition by unfolding that definition (`rfl` — the generated text is not copied), so a change of
the Rust source breaks this file.
-/
namespace B.AlgoEq2NF
open B B.NF B.Gen B.Gen.Algo B.Gen.Algo2 B.AlgoEqUtil

attribute [local instance 10000] Rust.monadOutcomeInline

/-- the interrupt of `Bdd::to_optimized_dnf`: `&|_dnf| Ok::<(), ()>(())` -/
def triv : Cl → Except Unit Unit := fun _ => .ok ()

abbrev PVA := Array (Option Bool)
/-- result of `_rec`: the `Result<(), E>` and the two `&mut` arguments -/
abbrev Ret := Except Unit Unit × PVA × Cl
abbrev RecF := Arr → PVA → Cl → Outcome Ret
abbrev BestSt := Option Ret × Nat × Nat

/-- body of the loop of lines 240-248 -/
def coreBody (F : Nat) (bdd : Arr) (var : Nat) (st : BestSt) : Outcome (ForInStep BestSt) :=
  (Bdd_var_for_all F bdd var).bind fun core =>
  (Bdd_exact_cardinality F core).bind fun c =>
  if decide (c > st.2.2) = true then .ok (.yield (none, var, c)) else .ok (.yield (none, st.2))

/-- body of the loop of lines 265-270 -/
def pruneBody (F : Nat) (bdd core : Arr) (var : Nat) (rem : Arr) : Outcome (ForInStep Arr) :=
  (Bdd_var_exists F rem var).bind fun simplified =>
  (Bdd_or F simplified core).bind fun o =>
  if (o == bdd) = true then .ok (.yield simplified) else .ok (.yield rem)

/-- body of the loop of lines 279-287 -/
def branchBody (F : Nat) (bdd : Arr) (var : Nat) (st : BestSt) : Outcome (ForInStep BestSt) :=
  (Bdd_var_restrict F bdd var true).bind fun t =>
  (Bdd_var_restrict F bdd var false).bind fun f =>
  if decide (Bdd_size t + Bdd_size f < st.2.2) = true then .ok (.yield (none, var, Bdd_size t + Bdd_size f))
  else .ok (.yield (none, st.2))

/-- lines 277-307 -/
def tTail (F : Nat) (recf : RecF) (support : Array Nat) (bdd : Arr) (pc : PVA) (res : Cl) : Outcome Ret :=
  (Rust.idx support 0).bind fun s0 =>
  (forIn support ((none, s0, 18446744073709551615) : BestSt) (branchBody F bdd)).bind fun s =>
  match s.1 with
  | some r => .ok r
  | none =>
    (Bdd_var_restrict F bdd s.2.1 true).bind fun bt =>
    (recf bt (Rust.pvalSet pc s.2.1 (some true)) res).bind fun r1 =>
    match r1.1 with
    | .ok _ =>
      (Bdd_var_restrict F bdd s.2.1 false).bind fun bf =>
      (recf bf (Rust.pvalSet r1.2.1 s.2.1 (some false)) r1.2.2).bind fun r2 =>
      match r2.1 with
      | .ok _ => .ok (.ok (), Rust.pvalSet r2.2.1 s.2.1 none, r2.2.2)
      | .error e => .ok (.error e, r2.2.1, r2.2.2)
    | .error e => .ok (.error e, r1.2.1, r1.2.2)

/-- the body of `_rec` (one level of the recursion), the recursive call as a parameter -/
def tBody (F : Nat) (recf : RecF) (bdd : Arr) (pc : PVA) (res : Cl) : Outcome Ret :=
  if Bdd_is_false bdd = true then .ok (.ok (), pc, res)
  else if Bdd_is_true bdd = true then .ok (.ok (), pc, res.push pc)
  else
    (Bdd_support_set bdd).bind fun sset =>
    if (!!(Rust.sortNat sset.toArray).isEmpty) = true then .panic "assertion failed: assert!(!support.is_empty());"
    else
      (Rust.idx (Rust.sortNat sset.toArray) 0).bind fun s0 =>
      (forIn (Rust.sortNat sset.toArray) ((none, s0, 0) : BestSt) (coreBody F bdd)).bind fun s =>
      match s.1 with
      | some r => .ok r
      | none =>
        if (s.2.2 != 0) = true then
          (Bdd_var_for_all F bdd s.2.1).bind fun core =>
          (recf core pc res).bind fun r0 =>
          match r0.1 with
          | .ok _ =>
            (Bdd_and_not F bdd core).bind fun rem0 =>
            if (!!Bdd_is_false rem0) = true then .panic "assertion failed: assert!(!remaining.is_false());"
            else
              (Bdd_support_set core).bind fun cset =>
              (forIn (Rust.sortNat cset.toArray) rem0 (pruneBody F bdd core)).bind fun rest =>
              tTail F recf (Rust.sortNat sset.toArray) rest r0.2.1 r0.2.2
          | .error e => .ok (.error e, r0.2.1, r0.2.2)
        else tTail F recf (Rust.sortNat sset.toArray) bdd pc res

/-- the tail (lines 277-307) of the generated term is `tTail` — used at both join points -/
local macro "tail_tac" : tactic => `(tactic| (
  unfold tTail
  show (Rust.idx (Rust.sortNat _) 0 >>= _) = _
  apply bind_congr'
  intro s1
  refine (bind_congr' _ _ _ ?_).trans (by rfl)
  intro s
  rcases s with ⟨_ | r, c1, c2⟩
  · simp only []
    apply bind_congr'
    intro bt
    apply bind_congr'
    intro r1
    rcases r1 with ⟨e | _, p1, q1⟩
    · rfl
    · simp only []
      apply bind_congr'
      intro bf
      apply bind_congr'
      intro r2
      rcases r2 with ⟨e | _, p2, q2⟩
      · rfl
      · rfl
  · rfl))

/-- DESUGARING: one level of the generated recursion (with the trivial interrupt) is `tBody` -/
theorem gen_eq_tBody (F : Nat) (bdd : Arr) (pc : PVA) (res : Cl) :
    Bdd__to_optimized_dnf___rec (F + 1) bdd pc res triv =
      tBody F (fun b p r => Bdd__to_optimized_dnf___rec F b p r triv) bdd pc res := by
  rw [Bdd__to_optimized_dnf___rec]
  simp only [triv]
  unfold tBody
  split
  · rfl
  split
  · rfl
  apply bind_congr'
  intro sset
  split
  · rfl
  apply bind_congr'
  intro s0
  refine (bind_congr' _ _ _ ?_).trans (by rfl)
  intro s
  rcases s with ⟨_ | r, b1, b2⟩
  · simp only []
    split
    · apply bind_congr'
      intro core
      apply bind_congr'
      intro r0
      rcases r0 with ⟨e | _, p0, q0⟩
      · rfl
      · simp only []
        apply bind_congr'
        intro rem0
        split
        · rfl
        · apply bind_congr'
          intro cset
          refine (bind_congr' _ _ _ ?_).trans (by rfl)
          intro rest
          tail_tac
    · tail_tac
  · rfl

/-- the translated recursion with the trivial interrupt -/
def tOpt : Nat → RecF
  | 0 => fun _ _ _ => .panic "fuel"
  | F + 1 => tBody F (tOpt F)

theorem gen_eq_tOpt : ∀ (F : Nat) (bdd : Arr) (pc : PVA) (res : Cl),
    Bdd__to_optimized_dnf___rec F bdd pc res triv = tOpt F bdd pc res := by
  intro F
  induction F with
  | zero => intro bdd pc res; rw [Bdd__to_optimized_dnf___rec]; rfl
  | succ F ih =>
    intro bdd pc res
    rw [gen_eq_tBody]
    have : (fun b p r => Bdd__to_optimized_dnf___rec F b p r triv) = tOpt F := by
      funext b p r; exact ih b p r
    rw [this]
    rfl

end B.AlgoEq2NF
