import BddVerif.Lemmas.AlgoEqDryBase
import BddVerif.Lemmas.DryFlag
/-!
`apply_with_flip_and_limit`, part 1: one iteration of the Rust loop (lines 562-656) as a pure function `limStep` of
the loop state (the tuple of the `let mut` variables of the generated code), and its value on a state whose stack
top is a given task, in terms of the pieces of the hand-written model (`Lim.finishLim`).
-/
namespace B.AlgoDL
open B B.Gen B.Lim Std

/-- loop state of `apply_with_flip_and_limit`:
    (early-return slot, `result`, `is_not_empty`, `existing`, `stack`, `finished`) -/
abbrev LS := Option (Option Arr) × Arr × Bool × HashMap Node Nat × Array (Nat × Nat) × HashMap (Nat × Nat) Nat

/-- lines 601-606: `terminal_lookup(..).map(from_bool).or(finished.get(..))` -/
def lookupT (op : Op2) (fin : HashMap (Nat × Nat) Nat) (a b : Nat) : Option Nat :=
  ((op (asBool a) (asBool b)).map ofBool).orElse (fun _ => fin[(a, b)]?)

/-- lines 640-655: push the sub-tasks whose result is still missing (`q1` = low, `q2` = high) -/
def limPush (Γ : Ctx) (d : Nat) (kl kr : Nat × Nat) (q1 q2 : Option Nat) (st : Array (Nat × Nat)) : Array (Nat × Nat) :=
  if Γ.fo = some d then
    let st1 := if q2.isNone then st.push (kl.2, kr.2) else st
    if q1.isNone then st1.push (kl.1, kr.1) else st1
  else
    let st1 := if q1.isNone then st.push (kl.1, kr.1) else st
    if q2.isNone then st1.push (kl.2, kr.2) else st1

/-- lines 609-637: both sub-results are known -/
def limFinish (Γ : Ctx) (lim : Nat) (res : Arr) (ne : Bool) (ex : HashMap Node Nat) (st : Array (Nat × Nat))
    (fin : HashMap (Nat × Nat) Nat) (t : Nat × Nat) (d lo hi : Nat) : ForInStep LS :=
  let ne' := if lo = 1 ∨ hi = 1 then true else ne
  if lo = hi then .yield (none, res, ne', ex, st.pop, fin.insert t lo)
  else
    let node : Node := if Γ.fo = some d then ⟨d, hi, lo⟩ else ⟨d, lo, hi⟩
    match ex[node]? with
    | some i => .yield (none, res, ne', ex, st.pop, fin.insert t i)
    | none =>
      if (res.push node).size > lim then .done (some none, res.push node, ne', ex, st, fin)
      else
        let i := ((res.push node).size - 1) % 4294967296
        .yield (none, res.push node, ne', ex.insert node i, st.pop, fin.insert t i)

/-- one iteration of `while let Some(on_stack) = stack.last()` -/
def limStep (Γ : Ctx) (lim : Nat) (σ : LS) : ForInStep LS :=
  let res := σ.2.1; let ne := σ.2.2.1; let ex := σ.2.2.2.1; let st := σ.2.2.2.2.1; let fin := σ.2.2.2.2.2
  match st.back? with
  | none => .done (none, res, ne, ex, st, fin)
  | some t =>
    if fin.contains t then .yield (none, res, ne, ex, st.pop, fin)
    else
      let d := min (nodeAt Γ.L t.1).var (nodeAt Γ.R t.2).var
      let kl := kids Γ.L t.1 d Γ.fl
      let kr := kids Γ.R t.2 d Γ.fr
      let q1 := lookupT Γ.op fin kl.1 kr.1
      let q2 := lookupT Γ.op fin kl.2 kr.2
      match q1, q2 with
      | some lo, some hi => limFinish Γ lim res ne ex st fin t d lo hi
      | some _, none => .yield (none, res, ne, ex, limPush Γ d kl kr q1 q2 st, fin)
      | none, _ => .yield (none, res, ne, ex, limPush Γ d kl kr q1 q2 st, fin)

/-- a loop body that behaves like `limStep` as long as the top of the stack is a pair of valid pointers -/
def LimStepSpec (Γ : Ctx) (lim : Nat) (step : LS → Outcome (ForInStep LS)) : Prop :=
  ∀ σ : LS, (∀ t, σ.2.2.2.2.1.back? = some t → t.1 < Γ.L.size ∧ t.2 < Γ.R.size) → step σ = .ok (limStep Γ lim σ)

/-! ### helpers for the comparison of the generated loop body with `limStep` -/

theorem is_one_eq (p : Nat) : Algo.BddPointer_is_one p = decide (p = 1) := by
  by_cases h : p = 1 <;> simp [Algo.BddPointer_is_one, h]

theorem from_bool_fun : Algo.BddPointer_from_bool = ofBool := funext from_bool_eq

/-- an opaque copy of `pure`, to keep `pure x >>= k` from being reduced while the branches of an `if` are merged -/
def P {α : Type} (a : α) : Outcome α := .ok a

section
attribute [local instance 10000] Rust.monadOutcomeInline
theorem pure_P {α : Type} (a : α) : (pure a : Outcome α) = P a := rfl
theorem P_bind {α β : Type} (a : α) (K : α → Outcome β) : (P a >>= K) = K a := rfl
theorem ite_P_bind {α β : Type} (c : Prop) [Decidable c] (a b : α) (K : α → Outcome β) :
    (if c then (P a >>= K) else (P b >>= K)) = (P (if c then a else b) >>= K) := by
  split <;> rfl

theorem push_root (res : Arr) (nd : Node) :
    Algo.Bdd_root_pointer (Array.push res nd) = .ok (((res.push nd).size - 1) % 4294967296) := by
  simp [Algo.Bdd_root_pointer, Rust.sub, Algo.BddPointer_from_index, Rust.asU32, bind_ok, pure_eq]
end

theorem lookupT_def (op : Op2) (fin : HashMap (Nat × Nat) Nat) (a b : Nat) :
    ((op (asBool a) (asBool b)).map ofBool).orElse (fun _ => fin[(a, b)]?) = lookupT op fin a b := rfl

/-- lines 575-581 / 582-588 are `kids` -/
theorem kids_ite (A : Arr) (p d : Nat) (f : Option Nat) :
    (if ((nodeAt A p).var != d) = true then (p, p)
      else if (some (nodeAt A p).var == f) = true then ((nodeAt A p).high, (nodeAt A p).low)
      else ((nodeAt A p).low, (nodeAt A p).high)) = kids A p d f := by
  unfold kids
  by_cases h : (nodeAt A p).var = d
  · by_cases h2 : f = some (nodeAt A p).var
    · subst h2; simp [h]
    · have h3 : ¬ (some d = f) := fun e => h2 (by rw [h]; exact e.symm)
      have h4 : ¬ (f = some d) := fun e => h3 e.symm
      simp [h, h3, h4]
  · simp [h]

/-! ### `limStep` on a state whose stack top is the task `(l, r)` -/

/-- the loop state that corresponds to model state `s` with stack `st` -/
def mkL (s : St) (st : Array (Nat × Nat)) : LS := (none, s.res, s.nonEmpty, s.existing, st, s.finished)

theorem lookupT_op_some (op : Op2) (fin : HashMap (Nat × Nat) Nat) (a b : Nat) (c : Bool)
    (h : op (asBool a) (asBool b) = some c) : lookupT op fin a b = some (ofBool c) := by
  simp [lookupT, h]

theorem lookupT_op_none (op : Op2) (fin : HashMap (Nat × Nat) Nat) (a b : Nat)
    (h : op (asBool a) (asBool b) = none) : lookupT op fin a b = fin[(a, b)]? := by
  simp [lookupT, h]

/-- the task on top is already finished: it is popped -/
theorem limStep_cached (Γ : Ctx) (lim : Nat) (s : St) (rest : Array (Nat × Nat)) (l r : Nat)
    (hc : s.finished.contains (l, r) = true) :
    limStep Γ lim (mkL s (rest.push (l, r))) = .yield (mkL s rest) := by
  simp only [limStep, mkL, Array.back?_push, Array.pop_push, hc, if_true]

/-- a sub-result is missing: the missing sub-tasks are pushed -/
theorem limStep_push (Γ : Ctx) (lim : Nat) (s : St) (rest : Array (Nat × Nat)) (l r : Nat)
    (hc : s.finished.contains (l, r) = false) (d : Nat) (hd : d = min (nodeAt Γ.L l).var (nodeAt Γ.R r).var)
    (kl kr : Nat × Nat) (hkl : kl = kids Γ.L l d Γ.fl) (hkr : kr = kids Γ.R r d Γ.fr) (q1 q2 : Option Nat)
    (hq1 : q1 = lookupT Γ.op s.finished kl.1 kr.1) (hq2 : q2 = lookupT Γ.op s.finished kl.2 kr.2)
    (hq : ¬ (q1.isSome = true ∧ q2.isSome = true)) :
    limStep Γ lim (mkL s (rest.push (l, r))) = .yield (mkL s (limPush Γ d kl kr q1 q2 (rest.push (l, r)))) := by
  subst hd hkl hkr
  simp only [limStep, mkL, Array.back?_push, hc, Bool.false_eq_true, if_false, ← hq1, ← hq2]
  cases q1 <;> cases q2 <;> simp at hq ⊢

/-- both sub-results are known: lines 609-637 are `finishLim` -/
theorem limStep_finish (Γ : Ctx) (lim : Nat) (s : St) (rest : Array (Nat × Nat)) (l r : Nat)
    (hc : s.finished.contains (l, r) = false) (d : Nat) (hd : d = min (nodeAt Γ.L l).var (nodeAt Γ.R r).var)
    (kl kr : Nat × Nat) (hkl : kl = kids Γ.L l d Γ.fl) (hkr : kr = kids Γ.R r d Γ.fr) (lo hi : Nat)
    (h1 : lookupT Γ.op s.finished kl.1 kr.1 = some lo) (h2 : lookupT Γ.op s.finished kl.2 kr.2 = some hi)
    (hwrap : s.res.size + 1 ≤ lim → s.res.size < u32Range) :
    match finishLim lim s l r d lo hi (decide (Γ.fo = some d)) with
    | some out => limStep Γ lim (mkL s (rest.push (l, r))) = .yield (mkL out.1 rest)
    | none => ∃ σ' : LS, σ'.1 = some none ∧ limStep Γ lim (mkL s (rest.push (l, r))) = .done σ' := by
  subst hd hkl hkr
  simp only [limStep, mkL, Array.back?_push, hc, Bool.false_eq_true, if_false, h1, h2]
  unfold finishLim limFinish
  simp only [Array.pop_push]
  by_cases hlh : lo = hi
  · subst hlh
    by_cases hone : lo = 1 <;> simp [hone]
  · simp only [hlh, if_false]
    have hnode : (if decide (Γ.fo = some (min (nodeAt Γ.L l).var (nodeAt Γ.R r).var)) = true then
          ({ var := min (nodeAt Γ.L l).var (nodeAt Γ.R r).var, low := hi, high := lo } : Node)
        else { var := min (nodeAt Γ.L l).var (nodeAt Γ.R r).var, low := lo, high := hi }) =
        (if Γ.fo = some (min (nodeAt Γ.L l).var (nodeAt Γ.R r).var) then
          { var := min (nodeAt Γ.L l).var (nodeAt Γ.R r).var, low := hi, high := lo }
        else { var := min (nodeAt Γ.L l).var (nodeAt Γ.R r).var, low := lo, high := hi }) := by
      by_cases h : Γ.fo = some (min (nodeAt Γ.L l).var (nodeAt Γ.R r).var) <;> simp [h]
    rw [hnode]
    generalize (if Γ.fo = some (min (nodeAt Γ.L l).var (nodeAt Γ.R r).var) then
          ({ var := min (nodeAt Γ.L l).var (nodeAt Γ.R r).var, low := hi, high := lo } : Node)
        else { var := min (nodeAt Γ.L l).var (nodeAt Γ.R r).var, low := lo, high := hi }) = node
    by_cases hone : lo = 1 ∨ hi = 1
    · simp only [hone, if_true]
      cases hex : s.existing[node]? with
      | some i => simp only []
      | none =>
        simp only []
        by_cases hl : (s.res.push node).size > lim
        · simp only [hl, if_true]; exact ⟨_, rfl, rfl⟩
        · simp only [hl, if_false]
          have : s.res.size < u32Range := hwrap (by simp at hl; omega)
          have e : ((s.res.push node).size - 1) % 4294967296 = s.res.size := by
            simp only [Array.size_push, Nat.add_sub_cancel]
            exact Nat.mod_eq_of_lt this
          rw [e]
    · simp only [hone, if_false]
      cases hex : s.existing[node]? with
      | some i => simp only []
      | none =>
        simp only []
        by_cases hl : (s.res.push node).size > lim
        · simp only [hl, if_true]; exact ⟨_, rfl, rfl⟩
        · simp only [hl, if_false]
          have : s.res.size < u32Range := hwrap (by simp at hl; omega)
          have e : ((s.res.push node).size - 1) % 4294967296 = s.res.size := by
            simp only [Array.size_push, Nat.add_sub_cancel]
            exact Nat.mod_eq_of_lt this
          rw [e]

end B.AlgoDL
