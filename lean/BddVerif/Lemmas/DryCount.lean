import BddVerif.Lemmas.DryFlag
import BddVerif.Lemmas.Limit
import BddVerif.Lemmas.DryLimit
/-!
Helper lemmas for C05, part 4: the dry run expands exactly the tasks that `apply_with_flip` resolves, and
every node `apply_with_flip` pushes is charged to one such task; hence the task count is at least the number
of decision nodes of the result. Simulation of `applyRec` (through `solve`) by `dryRec`, level by level.
-/
namespace B.Lim
open B Std

/-- the two task sets agree on all tasks of level `≥ k` -/
def RelK (Γ : Ctx) (k : Nat) (sa : St) (sd : DSt) : Prop :=
  ∀ l r, k ≤ lvl Γ l r → sd.visited.contains (l, r) = sa.finished[(l, r)]?.isSome

structure SOut (Γ : Ctx) (k : Nat) (sa : St) (sd : DSt) (oa : St) (od : DSt) : Prop where
  rel : RelK Γ k oa od
  frameD : ∀ l' r', lvl Γ l' r' < k → od.visited.contains (l', r') = sd.visited.contains (l', r')
  frameA : ∀ l' r', lvl Γ l' r' < k → oa.finished[(l', r')]?.isSome = sa.finished[(l', r')]?.isSome
  growth : oa.res.size + sd.visited.size ≤ sa.res.size + od.visited.size

def SSpec (Γ : Ctx) (recA : Nat → Nat → St → St × Nat) (D : Nat → Nat → DSt → DSt) (k : Nat) : Prop :=
  ∀ l r sa sd, l < Γ.L.size → r < Γ.R.size → k ≤ varOf Γ.L Γ.n l → k ≤ varOf Γ.R Γ.n r → RelK Γ k sa sd →
    SOut Γ k sa sd (solve Γ.op recA l r sa).1 (D l r sd)

theorem findOrPush_finished (s : St) (nd : Node) : (findOrPush s nd).1.finished = s.finished := by
  rcases findOrPush_cases s nd with ⟨i, _, e⟩ | ⟨_, e⟩ <;> rw [e]

theorem finish_finished (s : St) (l r d lo hi : Nat) (f : Bool) :
    (finish s l r d lo hi f).1.finished = s.finished.insert (l, r) (finish s l r d lo hi f).2 := by
  rw [finish_unfold]
  by_cases h : lo = hi
  · rw [if_pos h]; simp only [flagSt_finished]
  · rw [if_neg h]; simp only [findOrPush_finished, flagSt_finished]

theorem key_ne_of_lvl (Γ : Ctx) (l r l' r' : Nat) (h : lvl Γ l r ≠ lvl Γ l' r') : ((l, r) == (l', r')) = false := by
  simp only [beq_eq_false_iff_ne, ne_eq, Prod.mk.injEq, not_and]
  intro e1 e2; subst e1; subst e2; exact h rfl

theorem sim_core (Γ : Ctx) (recA : Nat → Nat → St → St × Nat) (D : Nat → Nat → DSt → DSt)
    (k d l r a1 b1 a2 b2 : Nat) (sa : St) (sd : DSt)
    (hkd : k ≤ d) (hd : d = lvl Γ l r) (hspec : SSpec Γ recA D (d + 1))
    (hrel : RelK Γ k sa sd) (hc : sd.visited.contains (l, r) = false)
    (ha1 : a1 < Γ.L.size) (hb1 : b1 < Γ.R.size) (hva1 : d + 1 ≤ varOf Γ.L Γ.n a1) (hvb1 : d + 1 ≤ varOf Γ.R Γ.n b1)
    (ha2 : a2 < Γ.L.size) (hb2 : b2 < Γ.R.size) (hva2 : d + 1 ≤ varOf Γ.L Γ.n a2) (hvb2 : d + 1 ≤ varOf Γ.R Γ.n b2)
    (fin : St × Nat → St × Nat → St × Nat)
    (hfin : ∀ x y : St × Nat, ∃ lo hi f, fin x y = finish y.1 l r d lo hi f) :
    SOut Γ k sa sd
      (fin (solve Γ.op recA a1 b1 sa) (solve Γ.op recA a2 b2 (solve Γ.op recA a1 b1 sa).1)).1
      (D a2 b2 (D a1 b1 { sd with visited := sd.visited.insert (l, r) })) := by
  generalize hs1 : ({ sd with visited := sd.visited.insert (l, r) } : DSt) = s1
  have hs1v : ∀ l' r', s1.visited.contains (l', r') = ((l, r) == (l', r') || sd.visited.contains (l', r')) := by
    intro l' r'; rw [← hs1]; exact HashSet.contains_insert
  have hs1sz : s1.visited.size = sd.visited.size + 1 := by rw [← hs1]; exact size_insert_new _ _ hc
  have rel1 : RelK Γ (d + 1) sa s1 := by
    intro l' r' hl
    rw [hs1v, key_ne_of_lvl Γ l r l' r' (by omega), Bool.false_or]
    exact hrel l' r' (by omega)
  have O1 := hspec a1 b1 sa s1 ha1 hb1 hva1 hvb1 rel1
  generalize solve Γ.op recA a1 b1 sa = o1 at O1 ⊢
  generalize D a1 b1 s1 = e1 at O1 ⊢
  have O2 := hspec a2 b2 o1.1 e1 ha2 hb2 hva2 hvb2 O1.rel
  generalize solve Γ.op recA a2 b2 o1.1 = o2 at O2 ⊢
  generalize D a2 b2 e1 = e2 at O2 ⊢
  obtain ⟨lo, hi, f, hf⟩ := hfin o1 o2
  rw [hf]
  have hfinished := finish_finished o2.1 l r d lo hi f
  have hsize := finish_size o2.1 l r d lo hi f
  generalize finish o2.1 l r d lo hi f = o3 at hfinished hsize ⊢
  have hget : ∀ l' r', o3.1.finished[(l', r')]?.isSome =
      (((l, r) == (l', r')) || o2.1.finished[(l', r')]?.isSome) := by
    intro l' r'
    rw [hfinished, HashMap.getElem?_insert]
    cases ((l, r) == (l', r')) <;> simp
  refine ⟨?_, ?_, ?_, ?_⟩
  · intro l' r' hl
    rw [hget]
    by_cases hlv : d + 1 ≤ lvl Γ l' r'
    · rw [key_ne_of_lvl Γ l r l' r' (by omega), Bool.false_or]
      exact O2.rel l' r' hlv
    · rw [O2.frameD l' r' (by omega), O1.frameD l' r' (by omega), hs1v,
        O2.frameA l' r' (by omega), O1.frameA l' r' (by omega), hrel l' r' hl]
  · intro l' r' hl
    rw [O2.frameD l' r' (by omega), O1.frameD l' r' (by omega), hs1v,
      key_ne_of_lvl Γ l r l' r' (by omega), Bool.false_or]
  · intro l' r' hl
    rw [hget, key_ne_of_lvl Γ l r l' r' (by omega), Bool.false_or,
      O2.frameA l' r' (by omega), O1.frameA l' r' (by omega)]
  · have g1 := O1.growth
    have g2 := O2.growth
    omega

theorem sim_step (Γ : Ctx) (c : Bool → Bool → Bool) (ok : Γ.Ok c) (recA : Nat → Nat → St → St × Nat)
    (D : Nat → Nat → DSt → DSt) (k : Nat)
    (hrec : ∀ k', k < k' → k' ≤ Γ.n → SSpec Γ recA D k') : SSpec Γ (applyStep Γ recA) (dryVisit Γ D) k := by
  intro l r sa sd hl hr hkl hkr hrel
  unfold solve dryVisit
  cases hop : Γ.op (asBool l) (asBool r) with
  | some t =>
    exact ⟨hrel, fun _ _ _ => rfl, fun _ _ _ => rfl, Nat.le_refl _⟩
  | none =>
    simp only
    have hlk : k ≤ lvl Γ l r := by unfold lvl; omega
    unfold applyStep
    cases hfin : sa.finished[(l, r)]? with
    | some p =>
      have hc : sd.visited.contains (l, r) = true := by rw [hrel l r hlk, hfin]; rfl
      simp only [hc, if_true]
      exact ⟨hrel, fun _ _ _ => rfl, fun _ _ _ => rfl, Nat.le_refl _⟩
    | none =>
      have hc : sd.visited.contains (l, r) = false := by rw [hrel l r hlk, hfin]; rfl
      simp only [hc, Bool.false_eq_true, if_false]
      rw [nodeAt_var ok.wfL l hl, nodeAt_var ok.wfR r hr]
      generalize hd : min (varOf Γ.L Γ.n l) (varOf Γ.R Γ.n r) = d
      have hvl := ok.wfL.varOf_le l
      have hvr := ok.wfR.varOf_le r
      have hdn : d < Γ.n := by
        rcases Nat.lt_or_ge d Γ.n with h | h
        · exact h
        · exfalso
          have hl2 := ok.wfL.terminal_of_varOf l hl (by omega)
          have hr2 := ok.wfR.terminal_of_varOf r hr (by omega)
          obtain ⟨x, hx, _⟩ := asBool_terminal l hl2
          obtain ⟨y, hy, _⟩ := asBool_terminal r hr2
          rw [hx, hy, ok.cons.total] at hop
          cases hop
      have hdl : d ≤ varOf Γ.L Γ.n l := by omega
      have hdr : d ≤ varOf Γ.R Γ.n r := by omega
      have KL := fun b => evW_kids ok.wfL l hl d hdl hdn Γ.fl (fun _ => false) b
      have KR := fun b => evW_kids ok.wfR r hr d hdr hdn Γ.fr (fun _ => false) b
      have hR := hrec (d + 1) (by omega) (by omega)
      have kl1 := KL false; have kl2 := KL true; have kr1 := KR false; have kr2 := KR true
      simp only [sel_true, sel_false] at kl1 kl2 kr1 kr2
      by_cases hfo : Γ.fo = some d
      · rw [if_pos hfo, if_pos hfo]
        exact sim_core Γ recA D k d l r _ _ _ _ sa sd (by omega) (by unfold lvl; omega) hR hrel hc
          kl1.2.1 kr1.2.1 kl1.2.2 kr1.2.2 kl2.2.1 kr2.2.1 kl2.2.2 kr2.2.2
          (fun x y => finish y.1 l r d x.2 y.2 true) (fun x y => ⟨x.2, y.2, true, rfl⟩)
      · rw [if_neg hfo, if_neg hfo]
        exact sim_core Γ recA D k d l r _ _ _ _ sa sd (by omega) (by unfold lvl; omega) hR hrel hc
          kl2.2.1 kr2.2.1 kl2.2.2 kr2.2.2 kl1.2.1 kr1.2.1 kl1.2.2 kr1.2.2
          (fun x y => finish y.1 l r d y.2 x.2 false) (fun x y => ⟨y.2, x.2, false, rfl⟩)

theorem sim_rec (Γ : Ctx) (c : Bool → Bool → Bool) (ok : Γ.Ok c) :
    ∀ fuel k, Γ.n - k < fuel → SSpec Γ (applyRec Γ fuel) (dryRec Γ fuel) k := by
  intro fuel
  induction fuel with
  | zero => intro k hk; omega
  | succ fuel ih =>
    intro k hk
    show SSpec Γ (applyStep Γ (applyRec Γ fuel)) (dryVisit Γ (dryRec Γ fuel)) k
    apply sim_step Γ c ok
    intro k' h1 h2
    exact ih k' (by omega)

theorem relK_init (Γ : Ctx) (k n : Nat) : RelK Γ k (initSt n) initDSt := by
  intro l r _
  have h1 : initDSt.visited.contains (l, r) = false := HashSet.contains_emptyWithCapacity
  have h2 : (initSt n).finished[(l, r)]? = none := HashMap.getElem?_emptyWithCapacity
  rw [h1, h2]; rfl

/-- the task count of the unlimited dry run is at least the number of decision nodes of the result -/
theorem dryFull_count (L R : Arr) (n : Nat) (op : Op2) (c : Bool → Bool → Bool) (fl fr fo : Option Nat)
    (hL : WFo L n) (hR : WFo R n) (hc : Consistent op c)
    (hfl : ∀ x, fl = some x → x < n) (hfr : ∀ x, fr = some x → x < n) (hfo : ∀ x, fo = some x → x < n) :
    (applyWithFlip L R op fl fr fo).size - 2 ≤ (dryFull L R op fl fr fo).2 := by
  have ok : Ctx.Ok ⟨L, R, n, op, fl, fr, fo⟩ c := ⟨hL, hR, hc, hfl, hfr⟩
  cases hop : op (asBool (root L)) (asBool (root R)) with
  | some t =>
    have hG := Ctx.G_const ⟨L, R, n, op, fl, fr, fo⟩ c ok (root L) (root R) t hop
    rw [applyWithFlip_eq_canon L R n op c fl fr fo hL hR (numVars_of_wf hL) hc hfl hfr hfo]
    have := canon_size_const n (specFn L R n c fl fr fo) (specFn_dep L R n c fl fr fo hL hR) t hG
    have e : (fun v => c (evW L n (inv fl (inv fo v)) (root L)) (evW R n (inv fr (inv fo v)) (root R))) =
        specFn L R n c fl fr fo := rfl
    rw [e]
    omega
  | none =>
    have hs := sim_rec ⟨L, R, n, op, fl, fr, fo⟩ c ok (n + 2) 0 (by show n - 0 < n + 2; omega)
      (root L) (root R) (initSt n) initDSt (root_lt hL) (root_lt hR) (Nat.zero_le _) (Nat.zero_le _)
      (relK_init _ 0 n)
    have hsolve : solve op (applyRec ⟨L, R, n, op, fl, fr, fo⟩ (n + 2)) (root L) (root R) (initSt n) =
        applyRec ⟨L, R, n, op, fl, fr, fo⟩ (n + 2) (root L) (root R) (initSt n) := by
      unfold solve; rw [hop]
    have hg := hs.growth
    simp only at hg
    rw [hsolve] at hg
    have h0 : initDSt.visited.size = 0 := HashSet.size_emptyWithCapacity
    have h2 : (initSt n).res.size = 2 := rfl
    unfold applyWithFlip dryFull
    simp only [numVars_of_wf hL]
    split
    · omega
    · simp [mkFalse]

end B.Lim
