import BddVerif.Lemmas.SelectNec2
import BddVerif.Lemmas.SelectRandom
import BddVerif.Lemmas.SelectIs
/-!
C11, `necessary_clause`, part three: completeness. On a canonical diagram without unreachable nodes every
variable that the function leaves out of its clause really takes both values among the satisfying valuations.
-/
namespace B.Select
open B

/-! ### reachability -/

theorem isPath_append {A : Arr} : ∀ (ds1 : List (Nat × Bool)) (a b c : Nat) (ds2 : List (Nat × Bool)),
    IsPath A a ds1 b → IsPath A b ds2 c → IsPath A a (ds1 ++ ds2) c := by
  intro ds1
  induction ds1 with
  | nil => intro a b c ds2 h1 h2; simp only [IsPath] at h1; subst h1; simpa using h2
  | cons d ds1 ih =>
    intro a b c ds2 h1 h2
    obtain ⟨ha2, nd, hnd, hvar, hrest⟩ := h1
    exact ⟨ha2, nd, hnd, hvar, ih _ b c ds2 hrest h2⟩

/-- without orphans every pointer except zero is reached from the root -/
theorem reachable {A : Arr} {n : Nat} (_h : Can A n) (hno : NoOrphan A) :
    ∀ (m q : Nat), 1 ≤ q → q < A.size → A.size - q ≤ m → ∃ ds, IsPath A (root A) ds q := by
  intro m
  induction m with
  | zero => intro q _ hq hm; omega
  | succ m ih =>
    intro q hq1 hqs hm
    by_cases hr : q + 1 < A.size
    · obtain ⟨p, nd, hpq, hnd, hchild⟩ := hno q hq1 hr
      have hps := getElem?_lt hnd
      obtain ⟨ds, hds⟩ := ih p (by omega) hps (by omega)
      rcases hchild with e | e
      · exact ⟨ds ++ [(nd.var, false)], isPath_append ds _ p q _ hds
          ⟨by omega, nd, hnd, rfl, by simpa [IsPath] using e⟩⟩
      · exact ⟨ds ++ [(nd.var, true)], isPath_append ds _ p q _ hds
          ⟨by omega, nd, hnd, rfl, by simpa [IsPath] using e⟩⟩
    · refine ⟨[], ?_⟩
      simp only [IsPath]
      unfold root; omega

/-- the variables decided on a path are below the variable of its end point -/
theorem path_keys_lt {A : Arr} {n : Nat} (h : Can A n) :
    ∀ (ds : List (Nat × Bool)) (p t : Nat), IsPath A p ds t → p < A.size → ∀ d ∈ ds, d.1 < varOf A n t := by
  intro ds
  induction ds with
  | nil => intro p t _ _ d hd; cases hd
  | cons e ds ih =>
    intro p t hp hps d hd
    obtain ⟨hp2, nd, hnd, hvar, hrest⟩ := hp
    obtain ⟨_, hl, hh, _, hvl, hvh, _⟩ := h.node hp2 hnd
    have hc : (if e.2 then nd.high else nd.low) < A.size ∧ nd.var < varOf A n (if e.2 then nd.high else nd.low) := by
      cases e.2 <;> simp <;> omega
    rcases List.mem_cons.mp hd with rfl | hd'
    · obtain ⟨_, _, _, hle⟩ := path_sorted h ds _ t hrest hc.1
      omega
    · exact ih _ t hrest hc.1 d hd'

/-- a valuation that follows the decisions `ds` and is `w` elsewhere -/
def glue (ds : List (Nat × Bool)) (w : Nat → Bool) : Nat → Bool := fun j => (ds.lookup j).getD (w j)

theorem glue_sat {A : Arr} {n : Nat} (h : Can A n) {ds : List (Nat × Bool)} {q : Nat}
    (hp : IsPath A (root A) ds q) (w : Nat → Bool) (hw : ev A w q = true) :
    den A (glue ds w) = true ∧ ∀ j, varOf A n q ≤ j → glue ds w j = w j := by
  obtain ⟨hs, _, hqr, _⟩ := path_sorted h ds _ q hp h.root_lt
  have hkeys := path_keys_lt h ds _ q hp h.root_lt
  have hoff : ∀ j, varOf A n q ≤ j → glue ds w j = w j := by
    intro j hj
    have : ds.lookup j = none := by
      cases hl : ds.lookup j with
      | none => rfl
      | some b => have := hkeys _ (mem_of_lookup hl); simp only at this; omega
    simp [glue, this]
  refine ⟨?_, hoff⟩
  unfold den
  rw [path_ev h.red (glue ds w) ds _ q hp (by
    intro d hd
    simp [glue, lookup_of_mem hs hd])]
  have hqs : q < A.size := by have := h.root_lt; omega
  rw [ev_indep h.red q hqs (glue ds w) w hoff]
  exact hw

/-- two satisfying valuations that differ at `k`, given a reachable pointer `q`, at or below the level of `k`,
    both of whose one-point updates at `k` can be completed below `q` -/
theorem both_values {A : Arr} {n : Nat} (h : Can A n) (hno : NoOrphan A) {q : Nat} (hq1 : 1 ≤ q) (hqs : q < A.size)
    (k : Nat) (hk : varOf A n q ≤ k) (w0 w1 : Nat → Bool)
    (h0 : ev A w0 q = true) (h1 : ev A w1 q = true) (hk0 : w0 k = false) (hk1 : w1 k = true) :
    ∃ u0 u1 : Nat → Bool, den A u0 = true ∧ den A u1 = true ∧ u0 k = false ∧ u1 k = true := by
  obtain ⟨ds, hds⟩ := reachable h hno A.size q hq1 hqs (by omega)
  obtain ⟨a0, b0⟩ := glue_sat h hds w0 h0
  obtain ⟨a1, b1⟩ := glue_sat h hds w1 h1
  exact ⟨glue ds w0, glue ds w1, a0, a1, by rw [b0 k hk, hk0], by rw [b1 k hk, hk1]⟩

/-- a variable skipped on an edge into a non-zero child is free -/
theorem free_on_edge {A : Arr} {n : Nat} (h : Can A n) (hno : NoOrphan A) {q : Nat} {nd : Node} (hq2 : 2 ≤ q)
    (hnd : A[q]? = some nd) (br : Bool) (hc0 : (if br then nd.high else nd.low) ≠ 0) (k : Nat)
    (hk1 : nd.var < k) (hk2 : k < varOf A n (if br then nd.high else nd.low)) :
    ∃ u0 u1 : Nat → Bool, den A u0 = true ∧ den A u1 = true ∧ u0 k = false ∧ u1 k = true := by
  obtain ⟨_, hl, hh, _, _, _, hqs⟩ := h.node hq2 hnd
  have hcs : (if br then nd.high else nd.low) < A.size := by cases br <;> simp <;> omega
  obtain ⟨w, hw⟩ := sat_of_ne_zero h.red hcs hc0
  have hvq : varOf A n q = nd.var := varOf_node q nd hq2 hnd
  have key : ∀ b, ev A (upd (upd w k b) nd.var br) q = true ∧ upd (upd w k b) nd.var br k = b := by
    intro b
    constructor
    · rw [ev_upd_node h hq2 hnd, ev_upd h.red _ hcs w k b hk2]; exact hw
    · have : k ≠ nd.var := by omega
      simp [upd, this]
  exact both_values h hno (by omega) hqs k (by omega) _ _ (key false).1 (key true).1 (key false).2 (key true).2

theorem necessary_clause_complete_nonconst {A : Arr} {n : Nat} (h : Can A n) (hno : NoOrphan A) (h3 : 3 ≤ A.size) :
    ∃ c, necessaryClause A = Sel.some c ∧
      ∀ k, k < n → getC c k = none →
        ∃ u0 u1 : Nat → Bool, den A u0 = true ∧ den A u1 = true ∧ u0 k = false ∧ u1 k = true := by
  obtain ⟨c, any, z, o, hc, hsa, hany, hz, ho, hcov, hget⟩ := necessary_clause_data h h3
  refine ⟨c, hc, ?_⟩
  intro k hkn hnone
  rw [hget k, if_pos hkn] at hnone
  have hr0 : root A ≠ 0 := by have := h.root_pos; omega
  -- the two nodes that force opposite values
  have opposite : ∀ q1 nd1 q2 nd2, 2 ≤ q1 → A[q1]? = some nd1 → nd1.var = k → nd1.low ≠ 0 →
      2 ≤ q2 → A[q2]? = some nd2 → nd2.var = k → nd2.high ≠ 0 →
      ∃ u0 u1 : Nat → Bool, den A u0 = true ∧ den A u1 = true ∧ u0 k = false ∧ u1 k = true := by
    intro q1 nd1 q2 nd2 hq1 hnd1 hv1 hl1 hq2 hnd2 hv2 hh2
    obtain ⟨_, hl, _, _, _, _, hq1s⟩ := h.node hq1 hnd1
    obtain ⟨_, _, hh, _, _, _, hq2s⟩ := h.node hq2 hnd2
    obtain ⟨wl, hwl⟩ := sat_of_ne_zero h.red (show nd1.low < A.size by omega) hl1
    obtain ⟨wh, hwh⟩ := sat_of_ne_zero h.red (show nd2.high < A.size by omega) hh2
    obtain ⟨ds1, hds1⟩ := reachable h hno A.size q1 (by omega) hq1s (by omega)
    obtain ⟨ds2, hds2⟩ := reachable h hno A.size q2 (by omega) hq2s (by omega)
    have e1 : ev A (upd wl k false) q1 = true := by
      rw [← hv1, ev_upd_node h hq1 hnd1]; simpa using hwl
    have e2 : ev A (upd wh k true) q2 = true := by
      rw [← hv2, ev_upd_node h hq2 hnd2]; simpa using hwh
    obtain ⟨a1, b1⟩ := glue_sat h hds1 _ e1
    obtain ⟨a2, b2⟩ := glue_sat h hds2 _ e2
    refine ⟨_, _, a1, a2, ?_, ?_⟩
    · rw [b1 k (by rw [varOf_node q1 nd1 hq1 hnd1]; omega)]; simp [upd]
    · rw [b2 k (by rw [varOf_node q2 nd2 hq2 hnd2]; omega)]; simp [upd]
  unfold litOf at hnone
  by_cases h1 : mk any k ∨ (mk z k ∧ mk o k)
  · rcases h1 with hmk | ⟨hzk, hok⟩
    · rcases (hany k hkn).mp hmk with htop | ⟨q, nd, hq2, hnd, hb, hvar⟩ | ⟨q, nd, hq2, hnd, hr⟩
      · -- above the root
        obtain ⟨w, hw⟩ := sat_of_ne_zero h.red h.root_lt hr0
        refine ⟨upd w k false, upd w k true, ?_, ?_, by simp [upd], by simp [upd]⟩
        · unfold den; rw [ev_upd h.red _ h.root_lt w k false htop]; exact hw
        · unfold den; rw [ev_upd h.red _ h.root_lt w k true htop]; exact hw
      · -- a node that branches on `k` with two live children
        exact opposite q nd q nd hq2 hnd hvar hb.1 hq2 hnd hvar hb.2
      · -- skipped on an edge
        obtain ⟨_, hl, hh, hne, hvl, hvh, _⟩ := h.node hq2 hnd
        by_cases hh0 : nd.high = 0
        · simp only [rangeOf, hh0, if_true, InRange] at hr
          exact free_on_edge h hno hq2 hnd false (by simp; omega) k (by omega) (by simpa using hr.2)
        · by_cases hl0 : nd.low = 0
          · simp only [rangeOf, hh0, hl0, if_true, if_false, InRange] at hr
            exact free_on_edge h hno hq2 hnd true (by simpa using hh0) k (by omega) (by simpa using hr.2)
          · simp only [rangeOf, hh0, hl0, if_false, InRange] at hr
            by_cases hkx : k = nd.var
            · exact opposite q nd q nd hq2 hnd hkx.symm hl0 hq2 hnd hkx.symm hh0
            · by_cases hkh : k < varOf A n nd.high
              · exact free_on_edge h hno hq2 hnd true (by simpa using hh0) k (by omega) (by simpa using hkh)
              · exact free_on_edge h hno hq2 hnd false (by simpa using hl0) k (by omega) (by simp; omega)
    · obtain ⟨q1, nd1, hq1, hnd1, hv1, _, hh1⟩ := (hz k).mp hzk
      obtain ⟨q2, nd2, hq2, hnd2, hv2, _, hh2, _⟩ := (ho k).mp hok
      obtain ⟨_, _, _, hne1, _⟩ := h.node hq1 hnd1
      exact opposite q1 nd1 q2 nd2 hq1 hnd1 hv1 (by omega) hq2 hnd2 hv2 hh2
  · exfalso
    rw [if_neg h1] at hnone
    by_cases hzk : mk z k
    · rw [if_pos hzk] at hnone; cases hnone
    · rw [if_neg hzk] at hnone
      by_cases hok : mk o k
      · rw [if_pos hok] at hnone; cases hnone
      · rcases hcov k hkn with h4 | h4 | h4
        · exact h1 (Or.inl h4)
        · exact hzk h4
        · exact hok h4

/-- exactness of `necessary_clause` on canonical diagrams: a literal is reported iff all satisfying
    valuations share it -/
theorem necessary_clause_exact {A : Arr} {n : Nat} (h : Can A n) (hno : NoOrphan A) :
    ∃ c, necessaryClause A = Sel.some c ∧
      ∀ k b, k < n → (getC c k = some b ↔ ∀ w : Nat → Bool, den A w = true → w k = b) := by
  by_cases h3 : 3 ≤ A.size
  · obtain ⟨c, hc, hsound⟩ := necessary_clause_sound_nonconst h h3
    obtain ⟨c', hc', hcomp⟩ := necessary_clause_complete_nonconst h hno h3
    rw [hc] at hc'; cases hc'
    refine ⟨c, hc, ?_⟩
    intro k b hkn
    constructor
    · exact hsound k b
    · intro hall
      cases hg : getC c k with
      | none =>
        obtain ⟨u0, u1, a0, a1, e0, e1⟩ := hcomp k hkn hg
        have := hall u0 a0
        have := hall u1 a1
        cases b <;> simp_all
      | some b' =>
        obtain ⟨w, hw⟩ := sat_of_ne_zero h.red h.root_lt (by have := h.root_pos; omega)
        have e1 := hsound k b' hg w hw
        have e2 := hall w hw
        rw [← e1, e2]
  · have hs2 := h.size2
    have hs : A.size = 2 := by omega
    refine ⟨[], by simp [necessaryClause, h.isFalse, isTrue, hs], ?_⟩
    intro k b hkn
    constructor
    · intro hkb; simp [getC] at hkb
    · intro hall
      exfalso
      have hr : root A = 1 := by unfold root; omega
      have e1 := hall (fun _ => b) (by unfold den; rw [hr]; exact ev_one A _)
      have e2 := hall (fun _ => !b) (by unfold den; rw [hr]; exact ev_one A _)
      simp at e2

end B.Select
