import BddVerif.Gen.Algo
import BddVerif.Model.Relation
/-!
Equivalence "translated Rust = hand-written model" for `restriction()` (src/_impl_bdd/_impl_relation_ops.rs:184),
part 1: the DESUGARING of the generated definition `B.Gen.Algo.restriction` (regenerated from the Rust text on every
run — it is referred to by name, never copied) into

  `(loopN (rstep A pv) fuel (initSt A)).bind (post A)`

where `loopN` iterates an explicit step function `fuel` times with early exit, and `rstep` is the body of the
`while let Some(top) = stack.pop()` loop written out by hand over the tuple of the loop's `let mut` variables
`(new_id, output, node_cache, stack)`. The semantic simulation is in `AlgoEqRestrictSim.lean`.
-/
namespace B.AlgoEqR
open B B.Gen Std
attribute [local instance 10000] Rust.monadOutcomeInline

/-! ### loops -/

/-- `fuel` iterations of a loop body with early exit -/
def loopN {σ : Type} (step : σ → Outcome (ForInStep σ)) : Nat → σ → Outcome σ
  | 0, s => .ok s
  | k + 1, s =>
    match step s with
    | .ok (.done s') => .ok s'
    | .ok (.yield s') => loopN step k s'
    | .err m => .err m
    | .panic m => .panic m

theorem forIn_list_loopN {σ : Type} (g : σ → Outcome (ForInStep σ)) (f : Nat → σ → Outcome (ForInStep σ))
    (h : ∀ i s, f i s = g s) : ∀ (l : List Nat) (init : σ), forIn l init f = loopN g l.length init := by
  intro l
  induction l with
  | nil => intro init; rfl
  | cons a t ih =>
    intro init
    rw [List.forIn_cons, h]
    show Rust.bindFast _ _ = _
    simp only [List.length_cons, loopN]
    cases hg : g init with
    | ok r =>
      cases r with
      | done s' => rfl
      | yield s' => exact ih s'
    | err m => rfl
    | panic m => rfl

/-- a `for _ in [0:fuel]` loop whose body ignores the counter is `loopN` of the body -/
theorem forIn_range_loopN {σ : Type} (g : σ → Outcome (ForInStep σ)) (f : Nat → σ → Outcome (ForInStep σ))
    (h : ∀ i s, f i s = g s) (fuel : Nat) (init : σ) : forIn [:fuel] init f = loopN g fuel init := by
  rw [Legacy.Range.forIn_eq_forIn_range', forIn_list_loopN g f h]
  simp [Legacy.Range.size]

/-- exactly `k` iterations, none of which leaves the loop, lead from `a` to `b` -/
def runs {σ : Type} (step : σ → Outcome (ForInStep σ)) : Nat → σ → σ → Prop
  | 0, a, b => a = b
  | k + 1, a, b => ∃ c, step a = .ok (.yield c) ∧ runs step k c b

theorem runs_trans {σ : Type} {step : σ → Outcome (ForInStep σ)} :
    ∀ {k1 k2 : Nat} {a b c : σ}, runs step k1 a b → runs step k2 b c → runs step (k1 + k2) a c := by
  intro k1
  induction k1 with
  | zero => intro k2 a b c h1 h2; cases h1; simpa using h2
  | succ k ih =>
    intro k2 a b c h1 h2
    obtain ⟨d, hd, hr⟩ := h1
    have : k + 1 + k2 = (k + k2) + 1 := by omega
    rw [this]
    exact ⟨d, hd, ih hr h2⟩

theorem runs_one {σ : Type} {step : σ → Outcome (ForInStep σ)} {a b : σ} (h : step a = .ok (.yield b)) :
    runs step 1 a b := ⟨b, h, rfl⟩

theorem loopN_runs {σ : Type} {step : σ → Outcome (ForInStep σ)} :
    ∀ {k : Nat} {a b : σ} (m : Nat), runs step k a b → loopN step (k + m) a = loopN step m b := by
  intro k
  induction k with
  | zero => intro a b m h; cases h; simp
  | succ k ih =>
    intro a b m h
    obtain ⟨c, hc, hr⟩ := h
    have : k + 1 + m = (k + m) + 1 := by omega
    rw [this]
    simp only [loopN, hc]
    exact ih m hr

/-- a state in which the body breaks without changing anything absorbs all remaining fuel -/
theorem loopN_done {σ : Type} {step : σ → Outcome (ForInStep σ)} {b : σ} (h : step b = .ok (.done b)) :
    ∀ m, loopN step m b = .ok b
  | 0 => rfl
  | m + 1 => by simp only [loopN, h]

/-! ### the loop of `restriction()` -/

/-- `(new_id, output, node_cache, stack)` -/
abbrev St := Array (Option Nat) × Arr × HashMap Node Nat × Array Nat

def oob {α : Type} : Outcome α := .panic "index out of bounds"

/-- `BddPointer::from_index(i)`: `i as u32` -/
def u32 (i : Nat) : Nat := i % 4294967296

/-- body of `while let Some(top) = stack.pop()` (lines 201-260), every `v[i]` a checked lookup -/
def rstep (A : Arr) (pv : Array (Option Bool)) (σ : St) : Outcome (ForInStep St) :=
  match σ.2.2.2.back? with
  | none => .ok (.done σ)
  | some top =>
    let nid := σ.1
    let out := σ.2.1
    let cache := σ.2.2.1
    let stk := σ.2.2.2.pop
    match nid[top]? with
    | none => oob
    | some (some _) => .ok (.yield (nid, out, cache, stk))
    | some none =>
      match A[top]? with
      | none => oob
      | some nd =>
        match Rust.pvalIndex pv nd.var with
        | some value =>
          let link := if value then nd.high else nd.low
          match nid[link]? with
          | none => oob
          | some (some q) => .ok (.yield (nid.setIfInBounds top (some q), out, cache, stk))
          | some none => .ok (.yield (nid, out, cache, (stk.push top).push link))
        | none =>
          match nid[nd.high]? with
          | none => oob
          | some none => .ok (.yield (nid, out, cache, (stk.push top).push nd.high))
          | some (some qh) =>
            match nid[nd.low]? with
            | none => oob
            | some none => .ok (.yield (nid, out, cache, (stk.push top).push nd.low))
            | some (some ql) =>
              if qh = ql then .ok (.yield (nid.setIfInBounds top (some qh), out, cache, stk))
              else
                match cache[(⟨nd.var, ql, qh⟩ : Node)]? with
                | some i => .ok (.yield (nid.setIfInBounds top (some i), out, cache, stk))
                | none =>
                  .ok (.yield (nid.setIfInBounds top (some (u32 out.size)), out.push ⟨nd.var, ql, qh⟩,
                    cache.insert ⟨nd.var, ql, qh⟩ (u32 out.size), stk))

/-- lines 189-200 -/
def initSt (A : Arr) : St :=
  (((Array.replicate A.size none).setIfInBounds 0 (some 0)).setIfInBounds 1 (some 1),
   mkTrue (numVars A),
   ((HashMap.emptyWithCapacity A.size).insert (zeroN (numVars A)) 0).insert (oneN (numVars A)) 1,
   #[u32 (A.size - 1)])

/-- the fuel check and lines 263-269 -/
def post (A : Arr) (σ : St) : Outcome Arr :=
  match σ.2.2.2.back? with
  | some _ => .panic "fuel"
  | none =>
    match σ.1[u32 (A.size - 1)]? with
    | none => oob
    | some none => .panic "called `Option::unwrap()` on a `None` value"
    | some (some r) => if r = 0 then .ok (mkFalse (numVars A)) else .ok σ.2.1

theorem idx_eq {α : Type} (a : Array α) (i : Nat) :
    Rust.idx a i = match a[i]? with | some x => .ok x | none => oob := by
  unfold Rust.idx
  by_cases h : i < a.size
  · simp [h]
  · simp [h, oob]

theorem setIdx_eq {α : Type} (a : Array α) (i : Nat) (x : α) :
    Rust.setIdx a i x = if i < a.size then .ok (a.setIfInBounds i x) else oob := by
  unfold Rust.setIdx
  by_cases h : i < a.size
  · simp [h, Array.setIfInBounds]
  · simp [h, oob]

theorem bind_ok {α β : Type} (a : α) (f : α → Outcome β) : (Outcome.ok a >>= f) = f a := rfl
theorem bind_panic {α β : Type} (m : String) (f : α → Outcome β) : ((Outcome.panic m : Outcome α) >>= f) = .panic m := rfl
theorem pure_eq {α : Type} (a : α) : (pure a : Outcome α) = .ok a := rfl

/-! ### the desugaring lemma -/

theorem numVars_idx (A : Arr) (h : 0 < A.size) : Gen.Algo.Bdd_num_vars A = .ok (numVars A) := by
  unfold Gen.Algo.Bdd_num_vars
  rw [idx_eq]
  have : A[0]? = some A[0] := by simp [h]
  rw [this]
  simp [numVars, this]
  rfl

theorem root_ptr (A : Arr) (h : 0 < A.size) : Gen.Algo.Bdd_root_pointer A = .ok (u32 (A.size - 1)) := by
  unfold Gen.Algo.Bdd_root_pointer Rust.sub
  have : 1 ≤ A.size := h
  simp only [this, if_true]
  rfl

theorem var_of_eq (A : Arr) (p : Nat) :
    Gen.Algo.Bdd_var_of A p = match A[p]? with | some nd => .ok nd.var | none => oob := by
  unfold Gen.Algo.Bdd_var_of Gen.Algo.BddPointer_to_index
  rw [idx_eq]; cases A[p]? <;> rfl
theorem low_of_eq (A : Arr) (p : Nat) :
    Gen.Algo.Bdd_low_link_of A p = match A[p]? with | some nd => .ok nd.low | none => oob := by
  unfold Gen.Algo.Bdd_low_link_of Gen.Algo.BddPointer_to_index
  rw [idx_eq]; cases A[p]? <;> rfl
theorem high_of_eq (A : Arr) (p : Nat) :
    Gen.Algo.Bdd_high_link_of A p = match A[p]? with | some nd => .ok nd.high | none => oob := by
  unfold Gen.Algo.Bdd_high_link_of Gen.Algo.BddPointer_to_index
  rw [idx_eq]; cases A[p]? <;> rfl

theorem restriction_desugar (fuel : Nat) (A : Arr) (pv : Array (Option Bool)) (h : 2 < A.size) :
    Gen.Algo.restriction fuel A pv = (loopN (rstep A pv) fuel (initSt A)).bind (post A) := by
  unfold Gen.Algo.restriction
  have h1 : (Gen.Algo.Bdd_is_true A || Gen.Algo.Bdd_is_false A) = false := by
    simp [Gen.Algo.Bdd_is_true, Gen.Algo.Bdd_is_false]; omega
  have h2 : (0 : Nat) < (Rust.vecRepeat (none : Option Nat) (Gen.Algo.Bdd_size A)).size := by
    simp [Rust.vecRepeat, Gen.Algo.Bdd_size]; omega
  have h3 : (1 : Nat) < ((Rust.vecRepeat (none : Option Nat) (Gen.Algo.Bdd_size A)).setIfInBounds 0 (some Gen.Algo.BddPointer_zero)).size := by
    simp [Rust.vecRepeat, Gen.Algo.Bdd_size]; omega
  simp only [h1, Bool.false_eq_true, if_false, setIdx_eq, h2, h3, if_true, bind_ok, numVars_idx A (by omega), root_ptr A (by omega)]
  rw [forIn_range_loopN (rstep A pv)]
  · show Rust.bindFast (loopN (rstep A pv) fuel (initSt A)) _ = _
    rw [Rust.bindFast_eq]
    congr 1
    funext σ
    obtain ⟨nid, out, cache, stk⟩ := σ
    unfold post
    simp only []
    cases hb : stk.back? with
    | some t => rfl
    | none =>
      simp only [Gen.Algo.BddPointer_to_index, idx_eq]
      cases h4 : nid[u32 (A.size - 1)]? with
      | none => rfl
      | some o =>
        cases o with
        | none => rfl
        | some r =>
          simp only [bind_ok, Rust.unwrap, Gen.Algo.BddPointer_is_zero, beq_iff_eq, pure_eq]
          by_cases hr : r = 0
          · simp only [hr, if_true]; rfl
          · simp only [hr, if_false]
  · intro i s
    obtain ⟨nid, out, cache, stk⟩ := s
    unfold rstep
    simp only []
    cases hb : stk.back? with
    | none => rfl
    | some top =>
      simp only [Gen.Algo.BddPointer_to_index, idx_eq]
      cases h1 : nid[top]? with
      | none => rfl
      | some o =>
        cases o with
        | some q => rfl
        | none =>
          simp only [bind_ok, Option.isSome_none, Bool.false_eq_true, if_false, var_of_eq, low_of_eq, high_of_eq]
          cases h2 : A[top]? with
          | none => rfl
          | some nd =>
            simp only [bind_ok]
            have ht : top < nid.size := by
              rcases Nat.lt_or_ge top nid.size with h' | h'
              · exact h'
              · rw [Array.getElem?_eq_none h'] at h1; cases h1
            simp only [ht, if_true, bind_ok, pure_eq]
            cases h3 : Rust.pvalIndex pv nd.var with
            | some value =>
              cases value with
              | true =>
                simp only [if_true]
                cases h4 : nid[nd.high]? with
                | none => rfl
                | some o => cases o <;> rfl
              | false =>
                simp only [Bool.false_eq_true, if_false]
                cases h4 : nid[nd.low]? with
                | none => rfl
                | some o => cases o <;> rfl
            | none =>
              simp only []
              cases h4 : nid[nd.high]? with
              | none => rfl
              | some o =>
                cases o with
                | none => rfl
                | some qh =>
                  simp only [bind_ok]
                  cases h5 : nid[nd.low]? with
                  | none => rfl
                  | some o =>
                    cases o with
                    | none => rfl
                    | some ql =>
                      simp only [bind_ok, beq_iff_eq]
                      by_cases h6 : qh = ql
                      · simp only [h6, if_true]
                      · simp only [h6, if_false]
                        show (match cache[(⟨nd.var, ql, qh⟩ : Node)]? with | some new_link => _ | x => _) = _
                        cases h7 : cache[(⟨nd.var, ql, qh⟩ : Node)]? <;> rfl
/-- line 185: constants are returned unchanged, whatever the fuel -/
theorem restriction_const (fuel : Nat) (A : Arr) (pv : Array (Option Bool)) (h : A.size = 2 ∨ A.size = 1) :
    Gen.Algo.restriction fuel A pv = .ok A := by
  unfold Gen.Algo.restriction
  have h1 : (Gen.Algo.Bdd_is_true A || Gen.Algo.Bdd_is_false A) = true := by
    simp [Gen.Algo.Bdd_is_true, Gen.Algo.Bdd_is_false]; omega
  simp only [h1, if_true]
  rfl

end B.AlgoEqR
