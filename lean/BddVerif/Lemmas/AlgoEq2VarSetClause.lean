import BddVerif.Lemmas.AlgoEq2VarSet
import BddVerif.Model.NormalForm
import BddVerif.Props.C16
/-!
# `mk_conjunctive_clause`, `mk_disjunctive_clause` (src/_impl_bdd_variable_set.rs:160-223) and
# `impl From<BddValuation> for Bdd` (src/_impl_bdd_valuation.rs:183) as translated = the hand models

Each loop runs over the cells in REVERSE order and pushes nodes; the hand models (`NF.conjFrom`, `NF.disjFrom`,
`clauseArr`) are structural recursions treating the tail first. Desugaring (`*_desugar`: the generated body is the
hand-written step function, for all states) and simulation (`*_sim`, induction on the clause) are kept apart.
Hypothesis: at most `2^16` variables (the translated code casts the cell index `as u16`).
-/
namespace B.AlgoEq2VS
open B B.Gen B.AlgoEqUtil B.AlgoEq2Ren Std
attribute [local instance 10000] Rust.monadOutcomeInline

/-! ### loops that never `break` compose -/

theorem iterL_append {α β} (g : α → β → Outcome (ForInStep β)) (hg : ∀ x b b', g x b ≠ .ok (.done b'))
    (xs ys : List α) (b : β) : iterL g (xs ++ ys) b = (iterL g xs b).bind (iterL g ys) := by
  induction xs generalizing b with
  | nil => rfl
  | cons x xs ih =>
    rw [List.cons_append, iterL_cons, iterL_cons]
    cases h : g x b with
    | ok st =>
      cases st with
      | done b' => exact absurd h (hg x b b')
      | yield b' => exact ih b'
    | err m => rfl
    | panic m => rfl

theorem iterL_single {α β} (g : α → β → Outcome (ForInStep β))
    (x : α) (b : β) : iterL g [x] b = (g x b).bind (fun st => match st with | .yield b' => .ok b' | .done b' => .ok b') := by
  rw [iterL_cons]
  cases h : g x b with
  | ok st => cases st <;> rfl
  | err m => rfl
  | panic m => rfl

/-- `iter.enumerate()` on a list, from index `i` -/
def enumL {α} : Nat → List α → List (Nat × α)
  | _, [] => []
  | i, x :: t => (i, x) :: enumL (i + 1) t

theorem mapIdx_eq_enumL {α} : ∀ (l : List α) (i : Nat), l.mapIdx (fun j x => (j + i, x)) = enumL i l := by
  intro l
  induction l with
  | nil => intro i; rfl
  | cons a t ih =>
    intro i
    rw [List.mapIdx_cons, enumL, ← ih (i + 1)]
    simp only [Nat.zero_add, List.cons.injEq, true_and]
    congr 1
    funext j x
    rw [Nat.add_assoc, Nat.add_comm 1 i]

theorem enumerate_toList {α} (a : Array α) : (Rust.enumerate a).toList = enumL 0 a.toList := by
  unfold Rust.enumerate
  rw [Array.toList_mapIdx, ← mapIdx_eq_enumL]
  rfl

/-! ### `mk_conjunctive_clause` -/

/-- hand-written body of the loop of `mk_conjunctive_clause` (lines 164-182), truncating casts kept -/
def cjStep (n : Nat) (x : Nat × Option Bool) (A : Arr) : Outcome (ForInStep Arr) :=
  match x.2 with
  | none => .ok (.yield A)
  | some b =>
    if x.1 < n then
      (Algo.Bdd_root_pointer A).bind fun r =>
        .ok (.yield (A.push (if b then ⟨Rust.asU16 x.1, 0, r⟩ else ⟨Rust.asU16 x.1, r, 0⟩)))
    else .panic "assertion failed: assert!(index < self.num_vars as usize);"

theorem cjStep_noDone (n : Nat) (x : Nat × Option Bool) (A A' : Arr) : cjStep n x A ≠ .ok (.done A') := by
  unfold cjStep
  cases x.2 with
  | none => simp
  | some b =>
    simp only []
    split
    · cases Algo.Bdd_root_pointer A <;> simp [Outcome.bind]
    · simp

theorem conj_desugar (T : VSet) (c : Array (Option Bool)) :
    Algo2.BddVariableSet_mk_conjunctive_clause T c = iterL (cjStep T.1) (enumL 0 c.toList).reverse (mkTrue T.1) := by
  unfold Algo2.BddVariableSet_mk_conjunctive_clause
  simp only [forIn_array_eq_iterL, Array.toList_reverse, enumerate_toList]
  rw [iterL_congr _ (cjStep T.1) _ (by
    intro x _ A
    obtain ⟨i, v⟩ := x
    unfold cjStep
    cases v with
    | none => rfl
    | some b =>
      simp only []
      by_cases h : i < T.1
      · simp only [h, decide_true, Bool.not_true, Bool.false_eq_true, if_false, if_true]
        cases b
        · cases Algo.Bdd_root_pointer A <;> rfl
        · cases Algo.Bdd_root_pointer A <;> rfl
      · simp only [h, decide_false, Bool.not_false, if_true, if_false]
        rfl)]
  have e : Algo2.BddVariableSet_mk_true T = mkTrue T.1 := rfl
  rw [e]
  generalize iterL (cjStep T.1) (enumL 0 c.toList).reverse (mkTrue T.1) = r
  cases r <;> rfl

theorem conj_sim (n : Nat) (hn : n ≤ 65536) : ∀ (t : List (Option Bool)) (i : Nat),
    (∀ A, NF.conjFrom n i t = .ok A →
      iterL (cjStep n) (enumL i t).reverse (mkTrue n) = .ok A ∧ 2 ≤ A.size ∧ A.size + min i n ≤ n + 2) ∧
    (∀ m, NF.conjFrom n i t = .panic m → ∃ m', iterL (cjStep n) (enumL i t).reverse (mkTrue n) = .panic m') ∧
    (∀ m, NF.conjFrom n i t ≠ .err m) := by
  intro t
  induction t with
  | nil =>
    intro i
    refine ⟨?_, ?_, ?_⟩
    · intro A h
      simp only [NF.conjFrom, Outcome.ok.injEq] at h
      subst h
      refine ⟨rfl, by simp [mkTrue], ?_⟩
      simp [mkTrue]; omega
    · intro m h; simp [NF.conjFrom] at h
    · intro m h; simp [NF.conjFrom] at h
  | cons x t ih =>
    intro i
    obtain ⟨ih1, ih2, ih3⟩ := ih (i + 1)
    have happ : iterL (cjStep n) (enumL i (x :: t)).reverse (mkTrue n) =
        (iterL (cjStep n) (enumL (i + 1) t).reverse (mkTrue n)).bind (iterL (cjStep n) [(i, x)]) := by
      rw [enumL, List.reverse_cons, iterL_append _ (cjStep_noDone n)]
    rw [happ]
    cases hr : NF.conjFrom n (i + 1) t with
    | err m => exact absurd hr (ih3 m)
    | panic m =>
      obtain ⟨m', hm'⟩ := ih2 m hr
      refine ⟨?_, ?_, ?_⟩
      · intro A h; rw [NF.conjFrom, hr] at h; cases h
      · intro m2 _; rw [hm']; exact ⟨_, rfl⟩
      · intro m2 h; rw [NF.conjFrom, hr] at h; cases h
    | ok A' =>
      obtain ⟨e1, s1, s2⟩ := ih1 A' hr
      rw [e1]
      simp only [Outcome.bind]
      rw [iterL_single]
      cases x with
      | none =>
        have : cjStep n (i, none) A' = .ok (.yield A') := rfl
        rw [this]
        refine ⟨?_, ?_, ?_⟩
        · intro A h
          rw [NF.conjFrom, hr] at h
          simp only [Outcome.ok.injEq] at h
          subst h
          exact ⟨rfl, s1, by omega⟩
        · intro m h; rw [NF.conjFrom, hr] at h; cases h
        · intro m h; rw [NF.conjFrom, hr] at h; cases h
      | some b =>
        by_cases hi : i < n
        · have hroot : Algo.Bdd_root_pointer A' = .ok (root A') := root_pointer_eq A' (by omega) (by omega)
          have h16 : Rust.asU16 i = i := Nat.mod_eq_of_lt (by omega)
          have : cjStep n (i, some b) A' = .ok (.yield (A'.push (if b then ⟨i, 0, root A'⟩ else ⟨i, root A', 0⟩))) := by
            unfold cjStep
            simp only [hi, if_true, hroot, Outcome.bind, h16]
          rw [this]
          refine ⟨?_, ?_, ?_⟩
          · intro A h
            rw [NF.conjFrom, hr] at h
            simp only [hi, if_true, Outcome.ok.injEq] at h
            subst h
            refine ⟨rfl, by simp; omega, by simp; omega⟩
          · intro m h; rw [NF.conjFrom, hr] at h; simp only [hi, if_true] at h; cases h
          · intro m h; rw [NF.conjFrom, hr] at h; simp only [hi, if_true] at h; cases h
        · have : cjStep n (i, some b) A' = .panic "assertion failed: assert!(index < self.num_vars as usize);" := by
            unfold cjStep
            simp only [hi, if_false]
          rw [this]
          refine ⟨?_, ?_, ?_⟩
          · intro A h; rw [NF.conjFrom, hr] at h; simp only [hi, if_false] at h; cases h
          · intro m _; exact ⟨_, rfl⟩
          · intro m h; rw [NF.conjFrom, hr] at h; simp only [hi, if_false] at h; cases h

/-- **`mk_conjunctive_clause` as translated = `NF.mkConjClause`** (same value / both panic), for a set with at most
    `2^16` variables (the range of `num_vars : u16`) and EVERY clause vector -/
theorem mk_conjunctive_clause_rel (T : VSet) (c : Array (Option Bool)) (hn : T.1 ≤ 65536) :
    RelK (Algo2.BddVariableSet_mk_conjunctive_clause T c) (NF.mkConjClause T.1 c.toList) := by
  rw [conj_desugar]
  unfold NF.mkConjClause
  obtain ⟨h1, h2, h3⟩ := conj_sim T.1 hn c.toList 0
  cases hr : NF.conjFrom T.1 0 c.toList with
  | ok A => rw [(h1 A hr).1]; exact .ok _
  | err m => exact absurd hr (h3 m)
  | panic m => obtain ⟨m', hm'⟩ := h2 m hr; rw [hm']; exact .panic _ _

/-- the two hand models of `mk_conjunctive_clause` (`Model/NormalForm.lean`, `Model/VarSet.lean`) agree -/
theorem conjFrom_eq_clauseArr (n : Nat) : ∀ (t : List (Option Bool)) (i : Nat),
    RelK (NF.conjFrom n i t)
      (if (PVal.toValuesFrom i t).all (fun l => decide (l.1 < n)) then .ok (clauseArr n (PVal.toValuesFrom i t))
       else .panic "assertion failed: index < self.num_vars as usize") := by
  intro t
  induction t with
  | nil => intro i; simp only [NF.conjFrom, PVal.toValuesFrom, List.all_nil, if_true, clauseArr]; exact .ok _
  | cons x t ih =>
    intro i
    have := ih (i + 1)
    rw [NF.conjFrom]
    cases x with
    | none =>
      rw [PVal.toValuesFrom]
      cases hr : NF.conjFrom n (i + 1) t with
      | ok A => rw [hr] at this; exact this
      | err m => rw [hr] at this; exact this
      | panic m => rw [hr] at this; exact this
    | some b =>
      rw [PVal.toValuesFrom, List.all_cons]
      by_cases hall : (PVal.toValuesFrom (i + 1) t).all (fun l => decide (l.1 < n)) = true
      · rw [if_pos hall] at this
        cases hr : NF.conjFrom n (i + 1) t with
        | ok A =>
          rw [hr] at this
          cases this
          simp only []
          by_cases hi : i < n
          · simp only [hi, if_true, decide_true, Bool.true_and, hall, clauseArr]; exact .ok _
          · simp only [hi, if_false, decide_false, Bool.false_and, Bool.false_eq_true]; exact .panic _ _
        | err m => rw [hr] at this; cases this
        | panic m => rw [hr] at this; cases this
      · rw [if_neg hall] at this
        have hall' : (PVal.toValuesFrom (i + 1) t).all (fun l => decide (l.1 < n)) = false := Bool.eq_false_iff.mpr hall
        cases hr : NF.conjFrom n (i + 1) t with
        | ok A => rw [hr] at this; cases this
        | err m => rw [hr] at this; cases this
        | panic m =>
          simp only [hall', Bool.and_false, Bool.false_eq_true, if_false]
          exact .panic _ _

theorem mkConjClause_eq_vs (n : Nat) (pv : PVal) : RelK (NF.mkConjClause n pv) (VS.mkConjunctiveClause n pv) :=
  conjFrom_eq_clauseArr n pv 0

/-- `mk_conjunctive_clause` as translated = `VS.mkConjunctiveClause` -/
theorem mk_conjunctive_clause_rel_vs (T : VSet) (c : Array (Option Bool)) (hn : T.1 ≤ 65536) :
    RelK (Algo2.BddVariableSet_mk_conjunctive_clause T c) (VS.mkConjunctiveClause T.1 c.toList) :=
  (mk_conjunctive_clause_rel T c hn).trans (mkConjClause_eq_vs T.1 c.toList)

/-! ### `mk_disjunctive_clause` -/

/-- hand-written body of the loop of `mk_disjunctive_clause` (lines 205-220), truncating casts kept -/
def djStep (n : Nat) (x : Nat × Option Bool) (st : Arr × Nat) : Outcome (ForInStep (Arr × Nat)) :=
  match x.2 with
  | none => .ok (.yield st)
  | some b =>
    if x.1 < n then
      (Algo.Bdd_root_pointer (st.1.push (if b then ⟨Rust.asU16 x.1, st.2, 1⟩ else ⟨Rust.asU16 x.1, 1, st.2⟩))).bind fun r =>
        .ok (.yield (st.1.push (if b then ⟨Rust.asU16 x.1, st.2, 1⟩ else ⟨Rust.asU16 x.1, 1, st.2⟩), r))
    else .panic "assertion failed: assert!(index < self.num_vars as usize);"

theorem djStep_noDone (n : Nat) (x : Nat × Option Bool) (st st' : Arr × Nat) : djStep n x st ≠ .ok (.done st') := by
  unfold djStep
  cases x.2 with
  | none => simp
  | some b =>
    simp only []
    split
    · cases Algo.Bdd_root_pointer _ <;> simp [Outcome.bind]
    · simp

theorem is_empty_eq (c : Array (Option Bool)) : Algo2.BddPartialValuation_is_empty c = NF.isEmptyClause c.toList := by
  unfold Algo2.BddPartialValuation_is_empty NF.isEmptyClause
  rw [← Array.all_toList]

theorem disj_desugar (T : VSet) (c : Array (Option Bool)) :
    Algo2.BddVariableSet_mk_disjunctive_clause T c =
      if NF.isEmptyClause c.toList then .ok (mkFalse T.1)
      else (iterL (djStep T.1) (enumL 0 c.toList).reverse (mkTrue T.1, 0)).map (·.1) := by
  unfold Algo2.BddVariableSet_mk_disjunctive_clause
  simp only [forIn_array_eq_iterL, Array.toList_reverse, enumerate_toList, is_empty_eq]
  by_cases he : NF.isEmptyClause c.toList = true
  · rw [if_pos he, if_pos he]; rfl
  rw [if_neg he, if_neg he]
  rw [iterL_congr _ (djStep T.1) _ (by
    intro x _ st
    obtain ⟨i, v⟩ := x
    obtain ⟨A, sh⟩ := st
    unfold djStep
    cases v with
    | none => rfl
    | some b =>
      simp only []
      by_cases h : i < T.1
      · simp only [h, decide_true, Bool.not_true, Bool.false_eq_true, if_false, if_true,
          Algo.Bdd_push_node, Algo.BddNode_mk_node, Algo.BddPointer_one]
        cases b
        · simp only [Bool.false_eq_true, if_false]
          generalize Algo.Bdd_root_pointer _ = r
          cases r <;> rfl
        · simp only [if_true]
          generalize Algo.Bdd_root_pointer _ = r
          cases r <;> rfl
      · simp only [h, decide_false, Bool.not_false, if_true, if_false]
        rfl)]
  have e : (Algo2.BddVariableSet_mk_true T, Algo.BddPointer_zero) = (mkTrue T.1, 0) := rfl
  rw [e]
  generalize iterL (djStep T.1) (enumL 0 c.toList).reverse (mkTrue T.1, 0) = r
  cases r <;> rfl

theorem disj_sim (n : Nat) (hn : n ≤ 65536) : ∀ (t : List (Option Bool)) (i : Nat),
    (∀ st, NF.disjFrom n i t = .ok st →
      iterL (djStep n) (enumL i t).reverse (mkTrue n, 0) = .ok st ∧ 2 ≤ st.1.size ∧ st.1.size + min i n ≤ n + 2) ∧
    (∀ m, NF.disjFrom n i t = .panic m → ∃ m', iterL (djStep n) (enumL i t).reverse (mkTrue n, 0) = .panic m') ∧
    (∀ m, NF.disjFrom n i t ≠ .err m) := by
  intro t
  induction t with
  | nil =>
    intro i
    refine ⟨?_, ?_, ?_⟩
    · intro st h
      simp only [NF.disjFrom, Outcome.ok.injEq] at h
      subst h
      refine ⟨rfl, by simp [mkTrue], ?_⟩
      simp [mkTrue]; omega
    · intro m h; simp [NF.disjFrom] at h
    · intro m h; simp [NF.disjFrom] at h
  | cons x t ih =>
    intro i
    obtain ⟨ih1, ih2, ih3⟩ := ih (i + 1)
    have happ : iterL (djStep n) (enumL i (x :: t)).reverse (mkTrue n, 0) =
        (iterL (djStep n) (enumL (i + 1) t).reverse (mkTrue n, 0)).bind (iterL (djStep n) [(i, x)]) := by
      rw [enumL, List.reverse_cons, iterL_append _ (djStep_noDone n)]
    rw [happ]
    cases hr : NF.disjFrom n (i + 1) t with
    | err m => exact absurd hr (ih3 m)
    | panic m =>
      obtain ⟨m', hm'⟩ := ih2 m hr
      refine ⟨?_, ?_, ?_⟩
      · intro A h; rw [NF.disjFrom, hr] at h; cases h
      · intro m2 _; rw [hm']; exact ⟨_, rfl⟩
      · intro m2 h; rw [NF.disjFrom, hr] at h; cases h
    | ok st' =>
      obtain ⟨A', sh⟩ := st'
      obtain ⟨e1, s1, s2⟩ := ih1 _ hr
      simp only [] at s1 s2
      rw [e1]
      simp only [Outcome.bind]
      rw [iterL_single]
      cases x with
      | none =>
        have : djStep n (i, none) (A', sh) = .ok (.yield (A', sh)) := rfl
        rw [this]
        refine ⟨?_, ?_, ?_⟩
        · intro st h
          rw [NF.disjFrom, hr] at h
          simp only [Outcome.ok.injEq] at h
          subst h
          exact ⟨rfl, s1, by simp only []; omega⟩
        · intro m h; rw [NF.disjFrom, hr] at h; cases h
        · intro m h; rw [NF.disjFrom, hr] at h; cases h
      | some b =>
        by_cases hi : i < n
        · have h16 : Rust.asU16 i = i := Nat.mod_eq_of_lt (by omega)
          have hroot : ∀ nd : Node, Algo.Bdd_root_pointer (A'.push nd) = .ok (root (A'.push nd)) := fun nd =>
            root_pointer_eq _ (by simp) (by simp; omega)
          have : djStep n (i, some b) (A', sh) =
              .ok (.yield (A'.push (if b then ⟨i, sh, 1⟩ else ⟨i, 1, sh⟩), root (A'.push (if b then ⟨i, sh, 1⟩ else ⟨i, 1, sh⟩)))) := by
            unfold djStep
            simp only [hi, if_true, hroot, Outcome.bind, h16]
          rw [this]
          refine ⟨?_, ?_, ?_⟩
          · intro st h
            rw [NF.disjFrom, hr] at h
            simp only [hi, if_true, Outcome.ok.injEq] at h
            subst h
            refine ⟨rfl, by simp; omega, by simp; omega⟩
          · intro m h; rw [NF.disjFrom, hr] at h; simp only [hi, if_true] at h; cases h
          · intro m h; rw [NF.disjFrom, hr] at h; simp only [hi, if_true] at h; cases h
        · have : djStep n (i, some b) (A', sh) = .panic "assertion failed: assert!(index < self.num_vars as usize);" := by
            unfold djStep
            simp only [hi, if_false]
          rw [this]
          refine ⟨?_, ?_, ?_⟩
          · intro A h; rw [NF.disjFrom, hr] at h; simp only [hi, if_false] at h; cases h
          · intro m _; exact ⟨_, rfl⟩
          · intro m h; rw [NF.disjFrom, hr] at h; simp only [hi, if_false] at h; cases h

/-- **`mk_disjunctive_clause` as translated = `NF.mkDisjClause`** -/
theorem mk_disjunctive_clause_rel (T : VSet) (c : Array (Option Bool)) (hn : T.1 ≤ 65536) :
    RelK (Algo2.BddVariableSet_mk_disjunctive_clause T c) (NF.mkDisjClause T.1 c.toList) := by
  rw [disj_desugar]
  unfold NF.mkDisjClause
  by_cases he : NF.isEmptyClause c.toList = true
  · rw [if_pos he, if_pos he]; exact .ok _
  rw [if_neg he, if_neg he]
  obtain ⟨h1, h2, h3⟩ := disj_sim T.1 hn c.toList 0
  cases hr : NF.disjFrom T.1 0 c.toList with
  | ok A => rw [(h1 A hr).1]; exact .ok _
  | err m => exact absurd hr (h3 m)
  | panic m => obtain ⟨m', hm'⟩ := h2 m hr; rw [hm']; exact .panic _ _

/-! ### `impl From<BddValuation> for Bdd` -/

theorem clauseArr_size' (n : Nat) : ∀ l : List (Nat × Bool), (clauseArr n l).size = l.length + 2
  | [] => rfl
  | (x, b) :: t => by
    simp only [clauseArr, Array.size_push, List.length_cons, clauseArr_size' n t]

theorem litsFrom_length : ∀ (bs : List Bool) (i : Nat), (VS.litsFrom i bs).length = bs.length
  | [], _ => rfl
  | b :: t, i => by simp only [VS.litsFrom, List.length_cons, litsFrom_length t (i + 1)]

/-- hand-written body of the loop of `Bdd::from(valuation)` (lines 185-199) -/
def fromStep (v : Array Bool) (i : Nat) (A : Arr) : Outcome (ForInStep Arr) :=
  (Rust.idx v i).bind fun b => (Algo.Bdd_root_pointer A).bind fun r =>
    .ok (.yield (A.push (if b then ⟨i, 0, r⟩ else ⟨i, r, 0⟩)))

theorem fromStep_noDone (v : Array Bool) (i : Nat) (A A' : Arr) : fromStep v i A ≠ .ok (.done A') := by
  unfold fromStep
  cases Rust.idx v i with
  | ok b => cases Algo.Bdd_root_pointer A <;> simp [Outcome.bind]
  | err m => simp [Outcome.bind]
  | panic m => simp [Outcome.bind]

theorem from_desugar (v : Array Bool) :
    Algo2.Bdd_from v = iterL (fromStep v) (List.range' 0 (Rust.asU16 v.size)).reverse (mkTrue (Rust.asU16 v.size)) := by
  unfold Algo2.Bdd_from
  simp only [forIn_array_eq_iterL, Array.toList_reverse, Array.toList_range, List.range_eq_range',
    Algo.BddValuation_num_vars]
  rw [iterL_congr _ (fromStep v) _ (by
    intro i _ A
    unfold fromStep Algo.BddValuation_value
    cases Rust.idx v i with
    | ok b =>
      simp only [bind_ok, pure_eq, Outcome.bind]
      cases b
      · simp only [Bool.false_eq_true, if_false]
        cases Algo.Bdd_root_pointer A <;> rfl
      · simp only [if_true]
        cases Algo.Bdd_root_pointer A <;> rfl
    | err m => rfl
    | panic m => rfl)]
  have e : Algo.Bdd_mk_true (Rust.asU16 v.size) = mkTrue (Rust.asU16 v.size) := rfl
  rw [e]
  generalize iterL (fromStep v) _ _ = r
  cases r <;> rfl

theorem from_sim (v : Array Bool) (N : Nat) (hv : v.size ≤ 65536) : ∀ (k i : Nat), i + k = v.size →
    iterL (fromStep v) (List.range' i k).reverse (mkTrue N) = .ok (clauseArr N (VS.litsFrom i (v.toList.drop i))) := by
  intro k
  induction k with
  | zero =>
    intro i h
    have : v.toList.drop i = [] := List.drop_eq_nil_of_le (by simp; omega)
    rw [this]; rfl
  | succ k ih =>
    intro i h
    have hi : i < v.size := by omega
    have hd : v.toList.drop i = v[i] :: v.toList.drop (i + 1) := by
      rw [List.drop_eq_getElem_cons (by simpa using hi)]; simp
    rw [List.range'_succ, List.reverse_cons, iterL_append _ (fromStep_noDone v), ih (i + 1) (by omega), hd,
      VS.litsFrom]
    simp only [Outcome.bind]
    rw [iterL_single]
    have hsz := clauseArr_size' N (VS.litsFrom (i + 1) (v.toList.drop (i + 1)))
    rw [litsFrom_length] at hsz
    have hlen : (v.toList.drop (i + 1)).length ≤ 65536 := by simp; omega
    have hroot := root_pointer_eq (clauseArr N (VS.litsFrom (i + 1) (v.toList.drop (i + 1)))) (by omega) (by omega)
    unfold fromStep
    rw [idx_of_lt v i hi, hroot]
    simp only [Outcome.bind, clauseArr]

/-- **`Bdd::from(valuation)` as translated = `VS.valuationBdd`** for valuations of fewer than `2^16` variables
    (`num_vars()` is `self.0.len() as u16`) -/
theorem Bdd_from_eq_model (v : Array Bool) (hv : v.size < 65536) :
    Algo2.Bdd_from v = .ok (VS.valuationBdd v.toList) := by
  rw [from_desugar]
  have h16 : Rust.asU16 v.size = v.size := Nat.mod_eq_of_lt hv
  rw [h16, from_sim v v.size (by omega) v.size 0 (by omega)]
  simp [VS.valuationBdd]

/-! ### chained with `Props/C16.lean` and non-vacuity -/

/-- `Bdd::from(valuation)` as translated: satisfied by exactly that valuation, canonical (`valuation_bdd_spec`) -/
theorem Bdd_from_spec (v : Array Bool) (hv : v.size < 65536) :
    ∃ r, Algo2.Bdd_from v = .ok r ∧ (∀ w, den r w = true ↔ ∀ j (h : j < v.size), w j = v[j]) ∧
      r = canon v.size (den r) ∧ numVars r = v.size := by
  have h := VS.sem_valuationBdd v.toList
  refine ⟨_, Bdd_from_eq_model v hv, ?_, ?_, ?_⟩
  · intro w
    rw [h.den, VS.litsFn_litsFrom]
    simp
  · have : den (VS.valuationBdd v.toList) = _ := funext h.den
    have e := h.eq
    rw [← this] at e
    simpa using e
  · simpa using h.numVars

/-- the clause constructors only read `num_vars`: concrete runs of the GENERATED functions on a 3-variable set -/
example : Algo2.BddVariableSet_mk_conjunctive_clause (3, #[], {}) #[some true, none, some false] =
    .ok #[⟨3, 0, 0⟩, ⟨3, 1, 1⟩, ⟨2, 1, 0⟩, ⟨0, 0, 2⟩] :=
  (mk_conjunctive_clause_rel _ _ (by decide)).of_ok rfl
example : Algo2.BddVariableSet_mk_disjunctive_clause (3, #[], {}) #[some true, none, some false] =
    .ok #[⟨3, 0, 0⟩, ⟨3, 1, 1⟩, ⟨2, 1, 0⟩, ⟨0, 2, 1⟩] :=
  (mk_disjunctive_clause_rel _ _ (by decide)).of_ok rfl
/-- the empty clause is `false` as a disjunction -/
example : Algo2.BddVariableSet_mk_disjunctive_clause (3, #[], {}) #[none, none] = .ok #[⟨3, 0, 0⟩] :=
  (mk_disjunctive_clause_rel _ _ (by decide)).of_ok rfl
/-- a fixed cell beyond `num_vars` trips the assertion (cells that are `None` there do not) -/
example : ∃ m, Algo2.BddVariableSet_mk_conjunctive_clause (2, #[], {}) #[some true, none, some false] = .panic m :=
  (mk_conjunctive_clause_rel _ _ (by decide)).of_panic (m := NF.assertIndex) rfl
example : Algo2.BddVariableSet_mk_conjunctive_clause (2, #[], {}) #[some true, none, none] =
    .ok #[⟨2, 0, 0⟩, ⟨2, 1, 1⟩, ⟨0, 0, 1⟩] :=
  (mk_conjunctive_clause_rel _ _ (by decide)).of_ok rfl
example : Algo2.Bdd_from #[true, false] = .ok #[⟨2, 0, 0⟩, ⟨2, 1, 1⟩, ⟨1, 1, 0⟩, ⟨0, 0, 2⟩] :=
  Bdd_from_eq_model _ (by decide)

end B.AlgoEq2VS
