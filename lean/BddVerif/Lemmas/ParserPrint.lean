import BddVerif.Lemmas.ParserGrammar
/-!
Print → parse round trip of the model: token level (`toks e` is a derivation of `e`), then character
level (`tokGroup (display e) = toks e` for parser-safe names).
-/
namespace B.Parser

/-- token-level image of `display` -/
def toks : Expr → List Tok
  | .const true => [.id kwTrue]
  | .const false => [.id kwFalse]
  | .var s => [.id s]
  | .not e => .not :: toks e
  | .and l r => [.group (toks l ++ .and :: toks r)]
  | .or l r => [.group (toks l ++ .or :: toks r)]
  | .xor l r => [.group (toks l ++ .xor :: toks r)]
  | .imp l r => [.group (toks l ++ .imp :: toks r)]
  | .iff l r => [.group (toks l ++ .iff :: toks r)]
  | .cond c t e => [.group (toks c ++ .qmark :: (toks t ++ .colon :: toks e))]

/-- a name the tokenizer reads back as one identifier that is not a keyword:
    non-empty, no whitespace, no `NOT_IN_VAR_NAME` character, not `true`/`false` -/
def SafeName (s : Name) : Prop :=
  s ≠ [] ∧ (∀ c ∈ s, stopsName c = false) ∧ s ≠ kwTrue ∧ s ≠ kwFalse

def SafeNames : Expr → Prop
  | .const _ => True
  | .var s => SafeName s
  | .not e => SafeNames e
  | .and l r | .or l r | .xor l r | .imp l r | .iff l r => SafeNames l ∧ SafeNames r
  | .cond c t e => SafeNames c ∧ SafeNames t ∧ SafeNames e

instance (s : Name) : Decidable (SafeName s) := by unfold SafeName; infer_instance

/-- only the keyword condition matters at token level -/
def NoKeywordNames : Expr → Prop
  | .const _ => True
  | .var s => s ≠ kwTrue ∧ s ≠ kwFalse
  | .not e => NoKeywordNames e
  | .and l r | .or l r | .xor l r | .imp l r | .iff l r => NoKeywordNames l ∧ NoKeywordNames r
  | .cond c t e => NoKeywordNames c ∧ NoKeywordNames t ∧ NoKeywordNames e

theorem SafeNames.noKeyword {e : Expr} (h : SafeNames e) : NoKeywordNames e := by
  induction e with
  | const b => trivial
  | var s => exact ⟨h.2.2.1, h.2.2.2⟩
  | not e ih => exact ih h
  | and l r ihl ihr | or l r ihl ihr | xor l r ihl ihr | imp l r ihl ihr | iff l r ihl ihr =>
    exact ⟨ihl h.1, ihr h.2⟩
  | cond c t e ihc iht ihe => exact ⟨ihc h.1, iht h.2.1, ihe h.2.2⟩

theorem Der.lift {n m : Nat} {ts : List Tok} {e : Expr} (h : Der n ts e) (hnm : n ≤ m) (hm : m ≤ 6) :
    Der m ts e := by
  induction m with
  | zero => have : n = 0 := by omega
            subst this; exact h
  | succ m ih =>
    by_cases hn : n = m + 1
    · subst hn; exact h
    · exact Der.up (by omega) (ih (by omega) (by omega))

/-- the printed token tree of `e` is a derivation of `e` -/
theorem der_toks (e : Expr) (h : NoKeywordNames e) : Der 0 (toks e) e := by
  induction e with
  | const b => cases b <;> simp only [toks] <;> constructor
  | var s => exact Der.ident s h.1 h.2
  | not e ih => exact Der.neg (ih h)
  | and l r ihl ihr =>
    exact Der.grp (((Der.andS ((ihl h.1).lift (by omega) (by omega)) ((ihr h.2).lift (by omega) (by omega)))).lift (by omega) (by omega))
  | or l r ihl ihr =>
    exact Der.grp (((Der.orS ((ihl h.1).lift (by omega) (by omega)) ((ihr h.2).lift (by omega) (by omega)))).lift (by omega) (by omega))
  | xor l r ihl ihr =>
    exact Der.grp (((Der.xorS ((ihl h.1).lift (by omega) (by omega)) ((ihr h.2).lift (by omega) (by omega)))).lift (by omega) (by omega))
  | imp l r ihl ihr =>
    exact Der.grp (((Der.impS ((ihl h.1).lift (by omega) (by omega)) ((ihr h.2).lift (by omega) (by omega)))).lift (by omega) (by omega))
  | iff l r ihl ihr =>
    exact Der.grp (((Der.iffS ((ihl h.1).lift (by omega) (by omega)) ((ihr h.2).lift (by omega) (by omega)))).lift (by omega) (by omega))
  | cond c t e ihc iht ihe =>
    exact Der.grp ((Der.condS ((ihc h.1).lift (by omega) (by omega)) ((iht h.2.1).lift (by omega) (by omega))
      ((ihe h.2.2).lift (by omega) (by omega))).lift (by omega) (by omega))

/-- token-level round trip -/
theorem parseFormula_toks (e : Expr) (h : NoKeywordNames e) : parseFormula (toks e) = .ok e :=
  (parseFormula_iff_der _ _).mpr ((der_toks e h).lift (by omega) (by omega))

/-! ### character level -/

def pushAll (ts : List Tok) (r : TokRes) : TokRes := ts.foldr push r

theorem pushAll_ok (ts a : List Tok) (r : List Char) : pushAll ts (.ok (a, r)) = .ok (ts ++ a, r) := by
  induction ts with
  | nil => rfl
  | cons t ts ih => simp only [pushAll, List.foldr_cons] at ih ⊢; rw [ih]; rfl

theorem pushAll_append (a b : List Tok) (r : TokRes) : pushAll (a ++ b) r = pushAll a (pushAll b r) := by
  simp [pushAll, List.foldr_append]

theorem pushAll_cons (t : Tok) (a : List Tok) (r : TokRes) : pushAll (t :: a) r = push t (pushAll a r) := rfl

/-- what follows a printed sub-expression: nothing, or a character that ends an identifier -/
def Delim : List Char → Prop
  | [] => True
  | c :: _ => stopsName c = true

/-- the characters with an arm of their own in `tokenize_group` all belong to `NOT_IN_VAR_NAME`
    (regenerated constant), so a character allowed in a name reaches the identifier arm -/
theorem not_special {c : Char} (h : stopsName c = false) :
    isWs c = false ∧ c ≠ '!' ∧ c ≠ '&' ∧ c ≠ '|' ∧ c ≠ '^' ∧ c ≠ ':' ∧ c ≠ '?' ∧ c ≠ '=' ∧ c ≠ '<' ∧
      c ≠ '>' ∧ c ≠ ')' ∧ c ≠ '(' := by
  refine ⟨?_, ?_, ?_, ?_, ?_, ?_, ?_, ?_, ?_, ?_, ?_, ?_⟩
  · simp only [stopsName, Bool.or_eq_false_iff] at h; exact h.1
  all_goals (intro hc; subst hc; revert h; decide)

theorem nameRest_safe (s rest : List Char) (hs : ∀ c ∈ s, stopsName c = false) (hr : Delim rest) :
    nameRest (s ++ rest) = (s, rest) := by
  induction s with
  | nil =>
    cases rest with
    | nil => rfl
    | cons c tl => simp only [List.nil_append, nameRest]; simp only [Delim] at hr; simp [hr]
  | cons c tl ih =>
    have hc := hs c (by simp)
    simp only [List.cons_append, nameRest, hc, Bool.false_eq_true, if_false]
    rw [ih (fun d hd => hs d (by simp [hd]))]

theorem tokGroup_ident (s rest : List Char) (top : Bool) (hne : s ≠ []) (hs : ∀ c ∈ s, stopsName c = false)
    (hr : Delim rest) : tokGroup (s ++ rest) top = push (.id s) (tokGroup rest top) := by
  cases s with
  | nil => exact absurd rfl hne
  | cons c tl =>
    obtain ⟨h0, h1, h2, h3, h4, h5, h6, h7, h8, h9, h10, h11⟩ := not_special (hs c (by simp))
    have hn := nameRest_safe tl rest (fun d hd => hs d (by simp [hd])) hr
    rw [List.cons_append, tokGroup.eq_def (c :: (tl ++ rest)) top]
    simp only [h0, h1, h2, h3, h4, h5, h6, h7, h8, h9, h10, h11, if_false, Bool.false_eq_true, hn]
    have : rest.length < (c :: (tl ++ rest)).length := by simp; omega
    simp only [this, dif_pos]

theorem tokGroup_ws (c : Char) (x : List Char) (top : Bool) (h : isWs c = true) :
    tokGroup (c :: x) top = tokGroup x top := by
  rw [tokGroup.eq_def (c :: x) top]; simp only [h, if_true]

theorem tokGroup_space (x : List Char) (top : Bool) : tokGroup (' ' :: x) top = tokGroup x top :=
  tokGroup_ws ' ' x top (by decide)

theorem isWs_ops : isWs '!' = false ∧ isWs '&' = false ∧ isWs '|' = false ∧ isWs '^' = false ∧ isWs ':' = false ∧
    isWs '?' = false ∧ isWs '=' = false ∧ isWs '<' = false ∧ isWs ')' = false ∧ isWs '(' = false := by decide

theorem tokGroup_not (x : List Char) (top : Bool) : tokGroup ('!' :: x) top = push .not (tokGroup x top) := by
  rw [tokGroup.eq_def ('!' :: x) top]; simp [isWs_ops]

theorem tokGroup_and (x : List Char) (top : Bool) : tokGroup ('&' :: x) top = push .and (tokGroup x top) := by
  rw [tokGroup.eq_def ('&' :: x) top]; simp [isWs_ops]

theorem tokGroup_or (x : List Char) (top : Bool) : tokGroup ('|' :: x) top = push .or (tokGroup x top) := by
  rw [tokGroup.eq_def ('|' :: x) top]; simp [isWs_ops]

theorem tokGroup_xor (x : List Char) (top : Bool) : tokGroup ('^' :: x) top = push .xor (tokGroup x top) := by
  rw [tokGroup.eq_def ('^' :: x) top]; simp [isWs_ops]

theorem tokGroup_colon (x : List Char) (top : Bool) : tokGroup (':' :: x) top = push .colon (tokGroup x top) := by
  rw [tokGroup.eq_def (':' :: x) top]; simp [isWs_ops]

theorem tokGroup_qmark (x : List Char) (top : Bool) : tokGroup ('?' :: x) top = push .qmark (tokGroup x top) := by
  rw [tokGroup.eq_def ('?' :: x) top]; simp [isWs_ops]

theorem tokGroup_imp (x : List Char) (top : Bool) :
    tokGroup ('=' :: '>' :: x) top = push .imp (tokGroup x top) := by
  rw [tokGroup.eq_def ('=' :: '>' :: x) top]; simp [isWs_ops]

theorem tokGroup_iff (x : List Char) (top : Bool) :
    tokGroup ('<' :: '=' :: '>' :: x) top = push .iff (tokGroup x top) := by
  rw [tokGroup.eq_def ('<' :: '=' :: '>' :: x) top]; simp [isWs_ops]

theorem tokGroup_close (x : List Char) : tokGroup (')' :: x) false = .ok ([], x) := by
  rw [tokGroup.eq_def (')' :: x) false]; simp [isWs_ops]

theorem tokGroup_open (x rest : List Char) (inner : List Tok) (top : Bool)
    (h : tokGroup x false = .ok (inner, rest)) (hl : rest.length ≤ x.length) :
    tokGroup ('(' :: x) top = push (.group inner) (tokGroup rest top) := by
  rw [tokGroup.eq_def ('(' :: x) top]
  have : rest.length < x.length + 1 := by omega
  simp [isWs_ops, h, this]

theorem delim_space (x : List Char) : Delim (' ' :: x) := by simp only [Delim]; decide
theorem delim_close (x : List Char) : Delim (')' :: x) := by simp only [Delim]; decide

theorem safe_kw : (∀ c ∈ kwTrue, stopsName c = false) ∧ (∀ c ∈ kwFalse, stopsName c = false) := by decide

/-- the tokenizer reads a printed expression back as its token tree and goes on with what follows -/
theorem tokGroup_display (e : Expr) (h : SafeNames e) :
    ∀ (rest : List Char) (top : Bool), Delim rest →
      tokGroup (display e ++ rest) top = pushAll (toks e) (tokGroup rest top) := by
  induction e with
  | const b =>
    intro rest top hr
    cases b
    · exact tokGroup_ident kwFalse rest top (by decide) safe_kw.2 hr
    · exact tokGroup_ident kwTrue rest top (by decide) safe_kw.1 hr
  | var s =>
    intro rest top hr
    exact tokGroup_ident s rest top h.1 h.2.1 hr
  | not e ih =>
    intro rest top hr
    simp only [display, toks, List.cons_append, tokGroup_not, pushAll_cons]
    rw [ih h rest top hr]
  | and l r ihl ihr =>
    intro rest top hr
    have hin : tokGroup (display l ++ (' ' :: '&' :: ' ' :: (display r ++ (')' :: rest)))) false =
        .ok (toks l ++ .and :: toks r, rest) := by
      rw [ihl h.1 _ _ (delim_space _), tokGroup_space, tokGroup_and, tokGroup_space,
        ihr h.2 _ _ (delim_close _), tokGroup_close, pushAll_ok, Parser.push, pushAll_ok]
      simp
    have := tokGroup_open _ rest _ top hin (by simp; omega)
    simp only [display, toks, List.cons_append, List.append_assoc, List.nil_append, pushAll, List.foldr_cons, List.foldr_nil] at this ⊢
    exact this
  | or l r ihl ihr =>
    intro rest top hr
    have hin : tokGroup (display l ++ (' ' :: '|' :: ' ' :: (display r ++ (')' :: rest)))) false =
        .ok (toks l ++ .or :: toks r, rest) := by
      rw [ihl h.1 _ _ (delim_space _), tokGroup_space, tokGroup_or, tokGroup_space,
        ihr h.2 _ _ (delim_close _), tokGroup_close, pushAll_ok, Parser.push, pushAll_ok]
      simp
    have := tokGroup_open _ rest _ top hin (by simp; omega)
    simp only [display, toks, List.cons_append, List.append_assoc, List.nil_append, pushAll, List.foldr_cons, List.foldr_nil] at this ⊢
    exact this
  | xor l r ihl ihr =>
    intro rest top hr
    have hin : tokGroup (display l ++ (' ' :: '^' :: ' ' :: (display r ++ (')' :: rest)))) false =
        .ok (toks l ++ .xor :: toks r, rest) := by
      rw [ihl h.1 _ _ (delim_space _), tokGroup_space, tokGroup_xor, tokGroup_space,
        ihr h.2 _ _ (delim_close _), tokGroup_close, pushAll_ok, Parser.push, pushAll_ok]
      simp
    have := tokGroup_open _ rest _ top hin (by simp; omega)
    simp only [display, toks, List.cons_append, List.append_assoc, List.nil_append, pushAll, List.foldr_cons, List.foldr_nil] at this ⊢
    exact this
  | imp l r ihl ihr =>
    intro rest top hr
    have hin : tokGroup (display l ++ (' ' :: '=' :: '>' :: ' ' :: (display r ++ (')' :: rest)))) false =
        .ok (toks l ++ .imp :: toks r, rest) := by
      rw [ihl h.1 _ _ (delim_space _), tokGroup_space, tokGroup_imp, tokGroup_space,
        ihr h.2 _ _ (delim_close _), tokGroup_close, pushAll_ok, Parser.push, pushAll_ok]
      simp
    have := tokGroup_open _ rest _ top hin (by simp; omega)
    simp only [display, toks, List.cons_append, List.append_assoc, List.nil_append, pushAll, List.foldr_cons, List.foldr_nil] at this ⊢
    exact this
  | iff l r ihl ihr =>
    intro rest top hr
    have hin : tokGroup (display l ++ (' ' :: '<' :: '=' :: '>' :: ' ' :: (display r ++ (')' :: rest)))) false =
        .ok (toks l ++ .iff :: toks r, rest) := by
      rw [ihl h.1 _ _ (delim_space _), tokGroup_space, tokGroup_iff, tokGroup_space,
        ihr h.2 _ _ (delim_close _), tokGroup_close, pushAll_ok, Parser.push, pushAll_ok]
      simp
    have := tokGroup_open _ rest _ top hin (by simp; omega)
    simp only [display, toks, List.cons_append, List.append_assoc, List.nil_append, pushAll, List.foldr_cons, List.foldr_nil] at this ⊢
    exact this
  | cond c t e ihc iht ihe =>
    intro rest top hr
    have hin : tokGroup (display c ++ (' ' :: '?' :: ' ' :: (display t ++ (' ' :: ':' :: ' ' ::
        (display e ++ (')' :: rest)))))) false =
        .ok (toks c ++ .qmark :: (toks t ++ .colon :: toks e), rest) := by
      rw [ihc h.1 _ _ (delim_space _), tokGroup_space, tokGroup_qmark, tokGroup_space,
        iht h.2.1 _ _ (delim_space _), tokGroup_space, tokGroup_colon, tokGroup_space,
        ihe h.2.2 _ _ (delim_close _), tokGroup_close, pushAll_ok, Parser.push, pushAll_ok, Parser.push, pushAll_ok]
      simp
    have := tokGroup_open _ rest _ top hin (by simp; omega)
    simp only [display, toks, List.cons_append, List.append_assoc, List.nil_append, pushAll, List.foldr_cons, List.foldr_nil] at this ⊢
    exact this

/-- character-level round trip: printing an expression with parser-safe names and parsing the text
    returns the identical tree -/
theorem parse_display (e : Expr) (h : SafeNames e) : parse (display e) = .ok e := by
  have := tokGroup_display e h [] true trivial
  rw [List.append_nil] at this
  unfold parse
  rw [this, tokGroup.eq_def [] true]
  simp only [if_true, pushAll_ok, List.append_nil]
  exact parseFormula_toks e h.noKeyword

end B.Parser
