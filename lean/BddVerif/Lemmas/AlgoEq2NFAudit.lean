import BddVerif.Lemmas.AlgoEq2NFOptThm
import BddVerif.Lemmas.AlgoEq2NFPanic
/-!
Axiom audit for the equivalence theorems "translated Rust = hand model" of `mk_dnf`, `mk_cnf`, `mk_disjunctive_clause`
and `to_optimized_dnf` (Lemmas/AlgoEq2NF*.lean). Expected: only `propext`, `Classical.choice`, `Quot.sound`.
-/
open B.AlgoEq2NF

#print axioms canon_size_le
#print axioms tRec_eq_genRec
#print axioms dnf_desugar
#print axioms cnf_desugar
#print axioms mk_disjunctive_clause_eq_model
#print axioms Bdd_mk_dnf___rec_eq_model
#print axioms Bdd_mk_dnf_eq_model
#print axioms Bdd_mk_dnf_eq_canon
#print axioms Bdd_mk_dnf_eq_canon_closed
#print axioms BddVariableSet_mk_dnf_eq_model
#print axioms BddVariableSet_mk_dnf_eq_canon_driver
#print axioms BddVariableSet_mk_dnf_eq_canon_driver_closed
#print axioms Bdd_mk_cnf___rec_eq_model
#print axioms Bdd_mk_cnf_eq_model
#print axioms Bdd_mk_cnf_eq_canon
#print axioms Bdd_mk_cnf_eq_canon_closed
#print axioms BddVariableSet_mk_cnf_eq_model
#print axioms BddVariableSet_mk_cnf_eq_canon_driver
#print axioms BddVariableSet_mk_cnf_eq_canon_driver_closed
#print axioms mk_disjunctive_clause_panics
#print axioms Bdd_mk_cnf_singleton_panics
#print axioms tRec_panic_genRec
#print axioms Bdd_mk_cnf_panics
#print axioms Bdd_mk_cnf_panics_closed
#print axioms BddVariableSet_mk_cnf_panics_driver
#print axioms gen_eq_tBody
#print axioms gen_eq_tOpt
#print axioms tOpt_eq
#print axioms Bdd__to_optimized_dnf___rec_eq_model
#print axioms Bdd__to_optimized_dnf_eq_model
#print axioms Bdd_to_optimized_dnf_eq_model
#print axioms Bdd_to_optimized_dnf_eq_model_closed
#print axioms Bdd_to_optimized_dnf_eq_model_driver
#print axioms Bdd_to_optimized_dnf_spec
#print axioms toOptimizedDnfWith_len
#print axioms opt_dnf_roundtrip_translated
