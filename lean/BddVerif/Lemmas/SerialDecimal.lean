import BddVerif.Model.Serial
/-! Decimal printer / parser lemmas for C12, C13: `parseUInt max (showNat k) = some k`, and the converse on
normal numerals. -/
namespace B.Serial

theorem digitVal_digitChar : ∀ d, d < 10 → digitVal? (digitChar d) = some d := by decide

theorem digitChar_ne_sep : ∀ d, d < 10 → digitChar d ≠ '+' ∧ digitChar d ≠ '-' ∧ digitChar d ≠ ',' ∧
    digitChar d ≠ '|' ∧ isWhitespace (digitChar d) = false := by decide

theorem showNat_lt {k : Nat} (h : k < 10) : showNat k = [digitChar k] := by
  rw [showNat]; simp [h]

theorem showNat_ge {k : Nat} (h : 10 ≤ k) : showNat k = showNat (k / 10) ++ [digitChar (k % 10)] := by
  rw [showNat]; simp [Nat.not_lt.mpr h]

theorem showNat_ne_nil (k : Nat) : showNat k ≠ [] := by
  rcases Nat.lt_or_ge k 10 with h | h
  · simp [showNat_lt h]
  · simp [showNat_ge h]

/-- every character printed is a decimal digit -/
theorem mem_showNat : ∀ k c, c ∈ showNat k → ∃ d, d < 10 ∧ c = digitChar d := by
  intro k
  induction k using Nat.strongRecOn with
  | _ k ih =>
    intro c hc
    rcases Nat.lt_or_ge k 10 with h | h
    · rw [showNat_lt h] at hc; simp at hc; exact ⟨k, h, hc⟩
    · rw [showNat_ge h] at hc
      simp only [List.mem_append, List.mem_singleton] at hc
      rcases hc with hc | hc
      · exact ih (k / 10) (by omega) c hc
      · exact ⟨k % 10, by omega, hc⟩

theorem showNat_head (k : Nat) : ∃ d tl, d < 10 ∧ showNat k = digitChar d :: tl := by
  cases h : showNat k with
  | nil => exact absurd h (showNat_ne_nil k)
  | cons c tl =>
    obtain ⟨d, hd, rfl⟩ := mem_showNat k c (by simp [h])
    exact ⟨d, tl, hd, rfl⟩

theorem parseDigits_show (max : Nat) : ∀ k acc rest, acc * 10 ^ (showNat k).length + k ≤ max →
    parseDigits max acc (showNat k ++ rest) = parseDigits max (acc * 10 ^ (showNat k).length + k) rest := by
  intro k
  induction k using Nat.strongRecOn with
  | _ k ih =>
    intro acc rest hle
    rcases Nat.lt_or_ge k 10 with h | h
    · rw [showNat_lt h] at hle ⊢
      simp only [List.length_singleton, Nat.pow_one] at hle ⊢
      simp only [List.singleton_append, parseDigits, digitVal_digitChar k h]
      simp [hle]
    · rw [showNat_ge h] at hle ⊢
      simp only [List.length_append, List.length_singleton, Nat.pow_succ] at hle ⊢
      have hmul : acc * (10 ^ (showNat (k / 10)).length * 10) = acc * 10 ^ (showNat (k / 10)).length * 10 := by
        rw [Nat.mul_assoc]
      rw [hmul] at hle ⊢
      generalize hX : acc * 10 ^ (showNat (k / 10)).length = X at hle ⊢
      rw [List.append_assoc, ih (k / 10) (by omega) acc _ (by rw [hX]; omega), hX]
      simp only [List.singleton_append, parseDigits, digitVal_digitChar (k % 10) (by omega)]
      have e : (X + k / 10) * 10 + k % 10 = X * 10 + k := by omega
      rw [e]; simp [hle]

/-- the key lemma of the text round trip -/
theorem parseUInt_showNat {max k : Nat} (h : k ≤ max) : parseUInt max (showNat k) = some k := by
  have key : parseDigits max 0 (showNat k) = some k := by
    have := parseDigits_show max k 0 [] (by simpa using h)
    simpa [parseDigits] using this
  obtain ⟨d, tl, hd, hs⟩ := showNat_head k
  obtain ⟨h1, h2, _⟩ := digitChar_ne_sep d hd
  rw [hs] at key ⊢
  cases tl with
  | nil => simp [parseUInt, h1, h2, key]
  | cons c tl => simp [parseUInt, h1, key]

/-! ### the converse: a normal numeral is what its value prints as -/

/-- `0`, or a non-zero digit followed by digits -/
def NormalNum (t : List Char) : Prop :=
  t = ['0'] ∨ ∃ c cs d, t = c :: cs ∧ digitVal? c = some d ∧ 1 ≤ d ∧ ∀ x ∈ cs, (digitVal? x).isSome

theorem digitChar_digitVal {c : Char} {d : Nat} (h : digitVal? c = some d) : digitChar d = c ∧ d < 10 := by
  unfold digitVal? at h
  split at h
  · rename_i hc
    simp at h; subst h
    refine ⟨?_, by omega⟩
    unfold digitChar
    have : 48 + (c.toNat - 48) = c.toNat := by omega
    rw [this]
    exact Char.ofNat_toNat c
  · simp at h

theorem parseDigits_normal (max : Nat) : ∀ cs a v, 1 ≤ a → (∀ x ∈ cs, (digitVal? x).isSome) →
    parseDigits max a cs = some v → showNat v = showNat a ++ cs := by
  intro cs
  induction cs with
  | nil => intro a v _ _ h; simp [parseDigits] at h; simp [h]
  | cons c cs ih =>
    intro a v ha hall h
    have hc := hall c (by simp)
    obtain ⟨d, hd⟩ := Option.isSome_iff_exists.mp hc
    obtain ⟨hdc, hd10⟩ := digitChar_digitVal hd
    simp only [parseDigits, hd] at h
    split at h
    · have := ih (a * 10 + d) v (by omega) (fun x hx => hall x (by simp [hx])) h
      rw [this, showNat_ge (by omega : 10 ≤ a * 10 + d)]
      have e1 : (a * 10 + d) / 10 = a := by omega
      have e2 : (a * 10 + d) % 10 = d := by omega
      rw [e1, e2, hdc]; simp
    · simp at h

theorem showNat_parseUInt {max : Nat} {t : List Char} {v : Nat} (hn : NormalNum t)
    (h : parseUInt max t = some v) : showNat v = t := by
  rcases hn with rfl | ⟨c, cs, d, rfl, hd, hd1, hall⟩
  · simp [parseUInt, parseDigits, digitVal?] at h
    subst h; rw [showNat_lt (by omega)]; rfl
  · obtain ⟨hdc, hd10⟩ := digitChar_digitVal hd
    have hne : c ≠ '+' ∧ c ≠ '-' := by
      have := digitChar_ne_sep d hd10; rw [hdc] at this; exact ⟨this.1, this.2.1⟩
    have key : parseDigits max 0 (c :: cs) = some v := by
      cases cs with
      | nil => simpa [parseUInt, hne.1, hne.2] using h
      | cons x xs => simpa [parseUInt, hne.1] using h
    simp only [parseDigits, hd, Nat.zero_mul, Nat.zero_add] at key
    split at key
    · have := parseDigits_normal max cs d v hd1 hall key
      rw [this, showNat_lt hd10, hdc]; simp
    · simp at key

end B.Serial
