import BddVerif.Lemmas.ExprEval
/-!
`to_boolean_expression` (model `ExprM.toExpr`) on a reduced array: it never reaches one of its panics,
the exported tree denotes the function of the array, and mentions only names of the variable set.
Hence, for a canonical array, evaluating the export returns the very same array.
-/
namespace B.ExprM
open B B.Parser B.VS

/-- what is known about `results[i]` while the loop runs -/
def GoodAt (vars : List Name) (A : Arr) (i : Nat) (e : Expr) : Prop :=
  (∀ v, evalBool e (envOf vars v) = ev A v i) ∧ ∀ s ∈ names e, s ∈ vars

theorem envOf_get {vars : List Name} (hnd : vars.Nodup) {i : Nat} {s : Name} (h : vars[i]? = some s)
    (v : Nat → Bool) : envOf vars v s = v i := by
  simp [envOf, indexOfName_get hnd h]

theorem lt_two_cases {p : Nat} (h : p < 2) : p = 0 ∨ p = 1 := by omega

/-- one iteration of the loop on a node of a reduced array -/
theorem toExprNode_good {vars : List Name} {A : Arr} {n : Nat} (hred : Red A n) (hn : vars.length = n)
    (hnd : vars.Nodup) (k : Nat) (hk2 : 2 ≤ k) (nd : Node) (hnode : A[k]? = some nd)
    (res : Array Expr)
    (hres : ∀ i, i < k → ∃ e, res[i]? = some e ∧ GoodAt vars A i e) :
    ∃ e, toExprNode vars res nd = .ok e ∧ GoodAt vars A k e := by
  obtain ⟨hvar, hlo, hhi, hne, _, _⟩ := hred.inner k nd hk2 hnode
  have hname : ∃ name, vars[nd.var]? = some name := by
    have : nd.var < vars.length := by omega
    exact ⟨vars[nd.var], by simp [this]⟩
  obtain ⟨name, hname⟩ := hname
  have henv : ∀ v, envOf vars v name = v nd.var := envOf_get hnd hname
  have hmem : name ∈ vars := List.mem_of_getElem? hname
  have hev : ∀ v, ev A v k = if v nd.var then ev A v nd.high else ev A v nd.low :=
    fun v => ev_node hred v k hk2 nd hnode
  unfold toExprNode
  simp only [hname]
  by_cases hlt : nd.low < 2
  · by_cases hht : nd.high < 2
    · -- both links terminal: (0,1) or (1,0)
      simp only [isTerminal, hlt, hht, decide_true, Bool.and_self, if_true]
      rcases lt_two_cases hlt with hl | hl <;> rcases lt_two_cases hht with hh | hh
      · exact absurd (hl.trans hh.symm) hne
      · refine ⟨.var name, by simp [hl, hh], ?_, ?_⟩
        · intro v; rw [hev v, hl, hh, ev_zero, ev_one]; simp [evalBool, henv]
        · intro s hs; simp [names] at hs; rw [hs]; exact hmem
      · refine ⟨.not (.var name), by simp [hl, hh], ?_, ?_⟩
        · intro v; rw [hev v, hl, hh, ev_zero, ev_one]; simp [evalBool, henv]
        · intro s hs; simp [names] at hs; rw [hs]; exact hmem
      · exact absurd (hl.trans hh.symm) hne
    · -- only the low link is terminal
      obtain ⟨h, hh, hgood⟩ := hres nd.high hhi
      simp only [isTerminal, hlt, hht, decide_true, decide_false, Bool.and_false, Bool.false_eq_true, if_false,
        if_true, hh]
      rcases lt_two_cases hlt with hl | hl
      · refine ⟨.and (.var name) h, by simp [hl], ?_, ?_⟩
        · intro v; rw [hev v, hl, ev_zero]; simp only [evalBool, henv, hgood.1 v]
          cases v nd.var <;> simp
        · intro s hs; simp only [names, List.mem_append, List.mem_singleton] at hs
          rcases hs with rfl | hs
          · exact hmem
          · exact hgood.2 s hs
      · refine ⟨.or (.not (.var name)) h, by simp [hl], ?_, ?_⟩
        · intro v; rw [hev v, hl, ev_one]; simp only [evalBool, henv, hgood.1 v]
          cases v nd.var <;> simp
        · intro s hs; simp only [names, List.mem_append, List.mem_singleton] at hs
          rcases hs with rfl | hs
          · exact hmem
          · exact hgood.2 s hs
  · by_cases hht : nd.high < 2
    · -- only the high link is terminal
      obtain ⟨l, hl', hgood⟩ := hres nd.low hlo
      simp only [isTerminal, hlt, hht, decide_true, decide_false, Bool.false_and, Bool.false_eq_true, if_false,
        if_true, hl']
      rcases lt_two_cases hht with hh | hh
      · refine ⟨.and (.not (.var name)) l, by simp [hh], ?_, ?_⟩
        · intro v; rw [hev v, hh, ev_zero]; simp only [evalBool, henv, hgood.1 v]
          cases v nd.var <;> simp
        · intro s hs; simp only [names, List.mem_append, List.mem_singleton] at hs
          rcases hs with rfl | hs
          · exact hmem
          · exact hgood.2 s hs
      · refine ⟨.or (.var name) l, by simp [hh], ?_, ?_⟩
        · intro v; rw [hev v, hh, ev_one]; simp only [evalBool, henv, hgood.1 v]
          cases v nd.var <;> simp
        · intro s hs; simp only [names, List.mem_append, List.mem_singleton] at hs
          rcases hs with rfl | hs
          · exact hmem
          · exact hgood.2 s hs
    · -- no terminal link
      obtain ⟨h, hh, hgh⟩ := hres nd.high hhi
      obtain ⟨l, hl', hgl⟩ := hres nd.low hlo
      simp only [isTerminal, hlt, hht, decide_false, Bool.and_self, Bool.false_eq_true, if_false, hh, hl']
      refine ⟨_, rfl, ?_, ?_⟩
      · intro v; rw [hev v]; simp only [evalBool, henv, hgh.1 v, hgl.1 v]
        cases v nd.var <;> simp
      · intro s hs
        simp only [names, List.mem_append, List.mem_singleton] at hs
        rcases hs with (rfl | hs) | (rfl | hs)
        · exact hmem
        · exact hgh.2 s hs
        · exact hmem
        · exact hgl.2 s hs

/-- the whole loop, started after `k` nodes -/
theorem toExprFold_good {vars : List Name} {A : Arr} {n : Nat} (hred : Red A n) (hn : vars.length = n)
    (hnd : vars.Nodup) :
    ∀ (m k : Nat) (res : Array Expr), A.size - k = m → 2 ≤ k → k ≤ A.size → res.size = k →
      (∀ i, i < k → ∃ e, res[i]? = some e ∧ GoodAt vars A i e) →
      ∃ res', toExprFold vars (A.toList.drop k) res = .ok res' ∧ res'.size = A.size ∧
        ∀ i, i < A.size → ∃ e, res'[i]? = some e ∧ GoodAt vars A i e := by
  intro m
  induction m with
  | zero =>
    intro k res hm hk2 hk hsize hres
    have hkk : k = A.size := by omega
    subst hkk
    have : A.toList.drop A.size = [] := by simp
    rw [this]
    exact ⟨res, rfl, hsize, hres⟩
  | succ m ih =>
    intro k res hm hk2 hk hsize hres
    have hlt : k < A.size := by omega
    have hdrop : A.toList.drop k = A[k] :: A.toList.drop (k + 1) := by
      rw [List.drop_eq_getElem_cons (by simpa using hlt)]
      simp
    have hnode : A[k]? = some A[k] := by simp [hlt]
    obtain ⟨e, he, hgood⟩ := toExprNode_good hred hn hnd k hk2 A[k] hnode res hres
    rw [hdrop]
    simp only [toExprFold, he]
    apply ih (k + 1) (res.push e) (by omega) (by omega) (by omega) (by simp [hsize])
    intro i hi
    by_cases hik : i < k
    · obtain ⟨e', he', hg'⟩ := hres i hik
      refine ⟨e', ?_, hg'⟩
      rw [Array.getElem?_push]
      have : i ≠ res.size := by omega
      simp [this, he']
    · have hik' : i = k := by omega
      subst hik'
      refine ⟨e, ?_, hgood⟩
      rw [Array.getElem?_push]
      simp [hsize]

/-- **export is correct on reduced arrays** (no panic, same function, only known names) -/
theorem toExpr_sem {vars : List Name} {A : Arr} {n : Nat} (hred : Red A n) (hn : vars.length = n)
    (hnd : vars.Nodup) :
    ∃ e, toExpr vars A = .ok e ∧ (∀ v, evalBool e (envOf vars v) = den A v) ∧ ∀ s ∈ names e, s ∈ vars := by
  have hs2 := hred.size2
  unfold toExpr
  have h1 : A.size ≠ 1 := by omega
  simp only [h1, if_false]
  by_cases h2 : A.size = 2
  · simp only [h2, if_true]
    refine ⟨_, rfl, ?_, by simp [names]⟩
    intro v
    simp [evalBool, den, root, h2, ev_one]
  · simp only [h2, if_false]
    have hinit : ∀ i, i < 2 → ∃ e, (#[Expr.const false, Expr.const true] : Array Expr)[i]? = some e ∧ GoodAt vars A i e := by
      intro i hi
      rcases lt_two_cases hi with rfl | rfl
      · exact ⟨.const false, rfl, fun v => by simp [evalBool, ev_zero], by simp [names]⟩
      · exact ⟨.const true, rfl, fun v => by simp [evalBool, ev_one], by simp [names]⟩
    obtain ⟨res', hfold, hsize, hall⟩ := toExprFold_good hred hn hnd (A.size - 2) 2
      #[.const false, .const true] rfl (by omega) (by omega) rfl hinit
    rw [hfold]
    obtain ⟨e, he, hgood⟩ := hall (A.size - 1) (by omega)
    have hback : res'.back? = some e := by
      rw [Array.back?_eq_getElem?, hsize]; exact he
    refine ⟨e, by simp [hback], ?_, hgood.2⟩
    intro v
    rw [hgood.1 v]; rfl

/-- evaluating the export of a reduced array gives the canonical array of its function -/
theorem evalExpr_toExpr {vars : List Name} {A : Arr} {n : Nat} (hred : Red A n) (hn : vars.length = n)
    (hnd : vars.Nodup) :
    ∃ e, toExpr vars A = .ok e ∧ ∃ r, evalExpr vars e = some r ∧ Sem n r (den A) := by
  obtain ⟨e, he, hsem, hnames⟩ := toExpr_sem hred hn hnd
  refine ⟨e, he, ?_⟩
  cases hr : evalExpr vars e with
  | none =>
    obtain ⟨s, hs, hnot⟩ := (evalExpr_none_iff vars e).mp hr
    exact absurd (hnames s hs) hnot
  | some r =>
    refine ⟨r, rfl, ?_⟩
    have := evalExpr_sem vars e r hr
    rw [hn] at this
    exact this.congr hsem

end B.ExprM
