import BddVerif.Lemmas.SelectNec
/-!
C11, `necessary_clause`, part two: the final assembly, "never panics on a canonical non-constant diagram",
and soundness: every reported literal is shared by all satisfying valuations.
-/
namespace B.Select
open B

/-! ### the final `match` -/

/-- the literal reported for variable `k` -/
def litOf (any z o : Array Bool) (k : Nat) : Option Bool :=
  if mk any k ∨ (mk z k ∧ mk o k) then none
  else if mk z k then some false
  else if mk o k then some true
  else none

theorem getElem?_bool {s : Array Bool} {k : Nat} (hk : k < s.size) :
    ∃ b, s[k]? = some b ∧ (mk s k ↔ b = true) := by
  refine ⟨s[k], by simp [hk], ?_⟩
  unfold mk
  simp [hk]

theorem assemble_spec (any z o : Array Bool) (n : Nat) (ha : any.size = n) (hz : z.size = n) (ho : o.size = n)
    (hcov : ∀ i, i < n → mk any i ∨ mk z i ∨ mk o i) :
    ∃ c, assemble any z o n = some c ∧ ∀ k, getC c k = if k < n then litOf any z o k else none := by
  have := foldlM_prefix
    (fun (c : Clause) i =>
      match z[i]?, o[i]?, any[i]? with
      | some zi, some oi, some ai =>
        if ai || (zi && oi) then some c
        else if zi then some (setC c i false)
        else if oi then some (setC c i true)
        else none
      | _, _, _ => none)
    (fun pre c => ∀ k, getC c k = if k ∈ pre then litOf any z o k else none)
    (List.range n) [] [] (by intro k; simp [getC])
    (by
      intro pre i c hi hq
      have hin : i < n := List.mem_range.mp hi
      obtain ⟨zi, hzi, hzm⟩ := getElem?_bool (s := z) (k := i) (by omega)
      obtain ⟨oi, hoi, hom⟩ := getElem?_bool (s := o) (k := i) (by omega)
      obtain ⟨ai, hai, ham⟩ := getElem?_bool (s := any) (k := i) (by omega)
      have hc := hcov i hin
      simp only [hzi, hoi, hai]
      -- the clause after this step and the literal of `i`
      have upd : ∀ (c' : Clause), (∀ k, getC c' k = if k = i then litOf any z o i else getC c k) →
          ∀ k, getC c' k = if k ∈ pre ++ [i] then litOf any z o k else none := by
        intro c' hc' k
        rw [hc' k]
        by_cases hki : k = i
        · subst hki; simp
        · rw [if_neg hki, hq k]
          simp [hki]
      by_cases h1 : ai = true ∨ (zi = true ∧ oi = true)
      · have hp : mk any i ∨ (mk z i ∧ mk o i) := by rw [ham, hzm, hom]; exact h1
        have hl : litOf any z o i = none := by
          unfold litOf
          rw [if_pos hp]
        refine ⟨c, ?_, upd c ?_⟩
        · have : (ai || (zi && oi)) = true := by
            cases ai <;> cases zi <;> cases oi <;> simp_all
          rw [this]; rfl
        · intro k
          by_cases hki : k = i
          · subst hki
            rw [if_pos rfl, hl, hq k]
            by_cases hkp : k ∈ pre
            · rw [if_pos hkp, hl]
            · rw [if_neg hkp]
          · rw [if_neg hki]
      · have hne : (ai || (zi && oi)) = false := by
          cases ai <;> cases zi <;> cases oi <;> simp_all
        have hnl : ¬ (mk any i ∨ (mk z i ∧ mk o i)) := by rw [ham, hzm, hom]; exact h1
        by_cases h2 : zi = true
        · have hl : litOf any z o i = some false := by
            unfold litOf
            rw [if_neg hnl, if_pos (hzm.mpr h2)]
          refine ⟨setC c i false, by rw [hne, h2]; rfl, upd _ ?_⟩
          intro k
          rw [getC_setC, hl]
        · by_cases h3 : oi = true
          · have hl : litOf any z o i = some true := by
              unfold litOf
              rw [if_neg hnl, if_neg (by rw [hzm]; exact h2), if_pos (hom.mpr h3)]
            have h2' : zi = false := by cases zi <;> simp_all
            refine ⟨setC c i true, by rw [hne, h2', h3]; rfl, upd _ ?_⟩
            intro k
            rw [getC_setC, hl]
          · exfalso
            rcases hc with h4 | h4 | h4
            · exact h1 (Or.inl (ham.mp h4))
            · exact h2 (hzm.mp h4)
            · exact h3 (hom.mp h4))
  obtain ⟨c, hc, hq⟩ := this
  refine ⟨c, hc, ?_⟩
  intro k
  rw [hq k]
  simp

/-! ### the whole function -/

/-- what `seen_any` holds after pass two -/
def AnyChar (A : Arr) (n : Nat) (any : Array Bool) : Prop :=
  ∀ k, k < n → (mk any k ↔
    (k < varOf A n (root A) ∨ (∃ q nd, 2 ≤ q ∧ A[q]? = some nd ∧ BothNZ nd ∧ nd.var = k) ∨ InSome A n k))

def ZChar (A : Arr) (any z : Array Bool) : Prop :=
  ∀ k, mk z k ↔ ∃ q nd, 2 ≤ q ∧ A[q]? = some nd ∧ nd.var = k ∧ ¬ mk any k ∧ nd.high = 0

def OChar (A : Arr) (any o : Array Bool) : Prop :=
  ∀ k, mk o k ↔ ∃ q nd, 2 ≤ q ∧ A[q]? = some nd ∧ nd.var = k ∧ ¬ mk any k ∧ nd.high ≠ 0 ∧ nd.low = 0

/-- from every decision node whose variable is at most `i`, some node tests `i` or some edge skips `i` -/
theorem tested_or_skipped {A : Arr} {n : Nat} (h : Can A n) (i : Nat) (hi : i < n) :
    ∀ p, 2 ≤ p → p < A.size → varOf A n p ≤ i →
      (∃ q nd, 2 ≤ q ∧ A[q]? = some nd ∧ nd.var = i) ∨ InSome A n i := by
  intro p
  induction p using Nat.strongRecOn with
  | _ p ih =>
    intro hp2 hps hvi
    obtain ⟨nd, hnd⟩ : ∃ nd, A[p]? = some nd := ⟨A[p], by simp [hps]⟩
    obtain ⟨hv, hl, hh, hne, hvl, hvh, _⟩ := h.node hp2 hnd
    rw [varOf_node p nd hp2 hnd] at hvi
    by_cases hxi : nd.var = i
    · exact Or.inl ⟨p, nd, hp2, hnd, hxi⟩
    · -- follow a non-zero child: the one whose edge pass two looks at
      by_cases hh0 : nd.high = 0
      · by_cases hci : varOf A n nd.low ≤ i
        · have hc2 : 2 ≤ nd.low := by
            rcases Nat.lt_or_ge nd.low 2 with h' | h'
            · exfalso; have : varOf A n nd.low = n := by simp [varOf, h']
              omega
            · exact h'
          exact ih nd.low hl hc2 (by omega) hci
        · exact Or.inr ⟨p, nd, hp2, hnd, by simp only [rangeOf, hh0, if_true, InRange]; omega⟩
      · by_cases hci : varOf A n nd.high ≤ i
        · have hc2 : 2 ≤ nd.high := by
            rcases Nat.lt_or_ge nd.high 2 with h' | h'
            · exfalso; have : varOf A n nd.high = n := by simp [varOf, h']
              omega
            · exact h'
          exact ih nd.high hh hc2 (by omega) hci
        · refine Or.inr ⟨p, nd, hp2, hnd, ?_⟩
          by_cases hl0 : nd.low = 0
          · simp only [rangeOf, hh0, hl0, if_true, if_false, InRange]; omega
          · simp only [rangeOf, hh0, hl0, if_false, InRange]; omega

theorem necessary_clause_data {A : Arr} {n : Nat} (h : Can A n) (h3 : 3 ≤ A.size) :
    ∃ c any z o, necessaryClause A = Sel.some c ∧ any.size = n ∧ AnyChar A n any ∧ ZChar A any z ∧ OChar A any o ∧
      (∀ i, i < n → mk any i ∨ mk z i ∨ mk o i) ∧
      ∀ k, getC c k = if k < n then litOf any z o k else none := by
  have hr2 : 2 ≤ root A := by unfold root; omega
  obtain ⟨rt, hrt⟩ : ∃ rt, A[root A]? = some rt := ⟨A[root A]'h.root_lt, by simp [h.root_lt]⟩
  have hrv : rt.var = varOf A n (root A) := h.var_eq hrt
  have hrn := varOf_le h.red (root A)
  obtain ⟨any0, ha0, hs0, hm0⟩ := markRange_spec (s := Array.replicate n false) (lo := 0) (hi := rt.var)
    (by simp; omega)
  have hs0' : any0.size = n := by simpa using hs0
  obtain ⟨any1, ha1, hs1, hm1⟩ := pass1_spec h any0 hs0'
  obtain ⟨any2, ha2, hs2, hm2⟩ := pass2_spec h any1 hs1
  have hff : ∀ k, ¬ mk (Array.replicate n false) k := by
    intro k hk
    unfold mk at hk
    rw [Array.getElem?_replicate] at hk
    split at hk <;> simp at hk
  obtain ⟨zo, hzo, hsz, hso, hmz, hmo⟩ := pass3_spec h any2 hs2 (Array.replicate n false) (Array.replicate n false)
    (by simp) (by simp) hff hff
  have hany : AnyChar A n any2 := by
    intro k hk
    rw [hm2 k hk, hm1 k, hm0 k]
    constructor
    · rintro ((( h4 | h4) | h4) | h4)
      · exact absurd h4 (hff k)
      · exact Or.inl (by omega)
      · exact Or.inr (Or.inl h4)
      · exact Or.inr (Or.inr h4)
    · rintro (h4 | h4 | h4)
      · exact Or.inl (Or.inl (Or.inr ⟨Nat.zero_le _, by omega⟩))
      · exact Or.inl (Or.inr h4)
      · exact Or.inr h4
  have hcov : ∀ i, i < n → mk any2 i ∨ mk zo.1 i ∨ mk zo.2 i := by
    intro i hi
    by_cases hmi : mk any2 i
    · exact Or.inl hmi
    · right
      have hnot := fun hx => hmi ((hany i hi).mpr hx)
      have htop : varOf A n (root A) ≤ i := by
        rcases Nat.lt_or_ge i (varOf A n (root A)) with h' | h'
        · exact absurd (Or.inl h') hnot
        · exact h'
      rcases tested_or_skipped h i hi (root A) hr2 h.root_lt htop with ⟨q, nd, hq2, hnd, hvar⟩ | hsk
      · have hnb : ¬ BothNZ nd := fun hb => hnot (Or.inr (Or.inl ⟨q, nd, hq2, hnd, hb, hvar⟩))
        by_cases hh0 : nd.high = 0
        · exact Or.inl ((hmz i).mpr ⟨q, nd, hq2, hnd, hvar, hmi, hh0⟩)
        · have hl0 : nd.low = 0 := by
            apply Classical.byContradiction
            intro hl0; exact hnb ⟨hl0, hh0⟩
          exact Or.inr ((hmo i).mpr ⟨q, nd, hq2, hnd, hvar, hmi, hh0, hl0⟩)
      · exact absurd (Or.inr (Or.inr hsk)) hnot
  obtain ⟨c, hc, hget⟩ := assemble_spec any2 zo.1 zo.2 n hs2 hsz hso hcov
  refine ⟨c, any2, zo.1, zo.2, ?_, hs2, hany, hmz, hmo, hcov, hget⟩
  have hnt : isTrue A = false := by simp [isTrue]; omega
  simp only [necessaryClause, h.isFalse, hnt, h.numVars, hrt, Option.bind_some, ha0, ha1, ha2, hzo, hc, ofOpt]
  rfl

/-! ### soundness -/

/-- a variable that no edge skips and that every node testing it forces to `b` has the value `b` in every
    valuation that reaches the one terminal from a node at or above its level -/
theorem forced_value {A : Arr} {n : Nat} (h : Can A n) (k : Nat) (b : Bool)
    (hnoskip : ¬ InSome A n k)
    (hforce : ∀ q nd, 2 ≤ q → A[q]? = some nd → nd.var = k → (if b then nd.low else nd.high) = 0)
    (w : Nat → Bool) :
    ∀ p, p < A.size → varOf A n p ≤ k → k < n → ev A w p = true → w k = b := by
  intro p
  induction p using Nat.strongRecOn with
  | _ p ih =>
    intro hps hvk hkn hw
    have hp2 : 2 ≤ p := by
      rcases Nat.lt_or_ge p 2 with h' | h'
      · exfalso; have : varOf A n p = n := by simp [varOf, h']
        omega
      · exact h'
    obtain ⟨nd, hnd⟩ : ∃ nd, A[p]? = some nd := ⟨A[p], by simp [hps]⟩
    obtain ⟨hv, hl, hh, hne, hvl, hvh, _⟩ := h.node hp2 hnd
    rw [varOf_node p nd hp2 hnd] at hvk
    rw [ev_node h.red w p hp2 nd hnd] at hw
    by_cases hxk : nd.var = k
    · have hz := hforce p nd hp2 hnd hxk
      rw [← hxk]
      cases b
      · -- high is zero: `w` must take the low branch
        simp only [Bool.false_eq_true, if_false] at hz
        cases hwx : w nd.var
        · rfl
        · rw [hwx, if_pos rfl, hz, ev_zero] at hw; cases hw
      · simp only [if_true] at hz
        cases hwx : w nd.var
        · rw [hwx] at hw; simp only [Bool.false_eq_true, if_false] at hw
          rw [hz, ev_zero] at hw; cases hw
        · rfl
    · -- the node tests a smaller variable: the taken edge cannot skip `k`
      have key : ∀ c, c < p → nd.var < varOf A n c → ev A w c = true →
          (k < varOf A n c → InRange k (rangeOf A n nd)) → w k = b := by
        intro c hcp _ hwc hrange
        by_cases hck : varOf A n c ≤ k
        · exact ih c hcp (by omega) hck hkn hwc
        · exact absurd ⟨p, nd, hp2, hnd, hrange (by omega)⟩ hnoskip
      cases hwx : w nd.var
      · rw [hwx] at hw; simp only [Bool.false_eq_true, if_false] at hw
        have hl0 : nd.low ≠ 0 := by intro e; rw [e, ev_zero] at hw; cases hw
        apply key nd.low hl hvl hw
        intro hlt
        by_cases hh0 : nd.high = 0
        · simp only [rangeOf, hh0, if_true, InRange]; omega
        · simp only [rangeOf, hh0, hl0, if_false, InRange]; omega
      · rw [hwx, if_pos rfl] at hw
        have hh0 : nd.high ≠ 0 := by intro e; rw [e, ev_zero] at hw; cases hw
        apply key nd.high hh hvh hw
        intro hlt
        by_cases hl0 : nd.low = 0
        · simp only [rangeOf, hh0, hl0, if_true, if_false, InRange]; omega
        · simp only [rangeOf, hh0, hl0, if_false, InRange]; omega

/-- soundness of `necessary_clause`: it returns a clause, and every literal in it is shared by all
    satisfying valuations -/
theorem necessary_clause_sound_nonconst {A : Arr} {n : Nat} (h : Can A n) (h3 : 3 ≤ A.size) :
    ∃ c, necessaryClause A = Sel.some c ∧
      ∀ k b, getC c k = some b → ∀ w : Nat → Bool, den A w = true → w k = b := by
  obtain ⟨c, any, z, o, hc, hsa, hany, hz, ho, _, hget⟩ := necessary_clause_data h h3
  refine ⟨c, hc, ?_⟩
  intro k b hkb w hw
  rw [hget k] at hkb
  by_cases hkn : k < n
  · rw [if_pos hkn] at hkb
    unfold litOf at hkb
    by_cases h1 : mk any k ∨ (mk z k ∧ mk o k)
    · rw [if_pos h1] at hkb; cases hkb
    · rw [if_neg h1] at hkb
      have hna : ¬ mk any k := fun hx => h1 (Or.inl hx)
      have hnot := fun hx => hna ((hany k hkn).mpr hx)
      have htop : varOf A n (root A) ≤ k := by
        rcases Nat.lt_or_ge k (varOf A n (root A)) with h' | h'
        · exact absurd (Or.inl h') hnot
        · exact h'
      have hnoskip : ¬ InSome A n k := fun hx => hnot (Or.inr (Or.inr hx))
      have hnb : ∀ q nd, 2 ≤ q → A[q]? = some nd → nd.var = k → nd.low = 0 ∨ nd.high = 0 := by
        intro q nd hq2 hnd hvar
        apply Classical.byContradiction
        intro hno
        apply hnot
        refine Or.inr (Or.inl ⟨q, nd, hq2, hnd, ⟨fun e => hno (Or.inl e), fun e => hno (Or.inr e)⟩, hvar⟩)
      unfold den at hw
      by_cases hzk : mk z k
      · rw [if_pos hzk] at hkb
        cases hkb
        have hok : ¬ mk o k := fun hx => h1 (Or.inr ⟨hzk, hx⟩)
        apply forced_value h k false hnoskip _ w (root A) h.root_lt htop hkn hw
        intro q nd hq2 hnd hvar
        simp only [Bool.false_eq_true, if_false]
        apply Classical.byContradiction
        intro hh0
        rcases hnb q nd hq2 hnd hvar with hl0 | hh0'
        · exact hok ((ho k).mpr ⟨q, nd, hq2, hnd, hvar, hna, hh0, hl0⟩)
        · exact hh0 hh0'
      · rw [if_neg hzk] at hkb
        by_cases hok : mk o k
        · rw [if_pos hok] at hkb
          cases hkb
          apply forced_value h k true hnoskip _ w (root A) h.root_lt htop hkn hw
          intro q nd hq2 hnd hvar
          simp only [if_true]
          apply Classical.byContradiction
          intro hl0
          rcases hnb q nd hq2 hnd hvar with hl0' | hh0
          · exact hl0 hl0'
          · exact hzk ((hz k).mpr ⟨q, nd, hq2, hnd, hvar, hna, hh0⟩)
        · rw [if_neg hok] at hkb; cases hkb
  · rw [if_neg hkn] at hkb; cases hkb

/-- … including the tautology, for which the clause is empty -/
theorem necessary_clause_sound {A : Arr} {n : Nat} (h : Can A n) :
    ∃ c, necessaryClause A = Sel.some c ∧
      ∀ k b, getC c k = some b → ∀ w : Nat → Bool, den A w = true → w k = b := by
  by_cases h3 : 3 ≤ A.size
  · exact necessary_clause_sound_nonconst h h3
  · have hs2 := h.size2
    have hs : A.size = 2 := by omega
    refine ⟨[], by simp [necessaryClause, h.isFalse, isTrue, hs], ?_⟩
    intro k b hkb
    simp [getC] at hkb

end B.Select
