import BddVerif.Lemmas.AlgoEqTernarySim
import BddVerif.Lemmas.AlgoEqApply
import BddVerif.Lemmas.TernaryCanon
/-!
Equivalence "translated Rust = hand-written model" for `ternary_apply`
(src/_impl_bdd/_impl_ternary_ops.rs:40, explicit task stack with `finished`/`existing` hash maps), part 4:
the top-level theorems

* `ternary_apply_eq_model` : `Gen.Algo.ternary_apply fuel (A, B, C) (fa, fb, fc) fo op = .ok (ternaryApply A B C op fa fb fc fo)`
  for operands well formed by level, a table total on terminal triples, flips in range, `3·|A|·|B|·|C| ≤ fuel`
  and `|A|·|B|·|C| + 2 ≤ 2^32` (pointers are `u32` in the Rust code);
* `ternary_apply_eq_canon` : … `= .ok (canon n (specFn3 A B C n c fa fb fc fo))`;
* `ternary_apply_panics_mismatch`, `ternary_apply_panics_flip` : the two deliberate panics;
* `ternary_apply_eq_model_driver`, `Bdd_ternary_op_eq_model_driver`, `Bdd_fused_ternary_flip_op_eq_model_driver`:
  the fuel `Drive.Algo.fuel3 A B C` passed by the driver suffices.
-/
namespace B.AlgoEqT
open B B.Gen Std B.AlgoEqA

/-! ### counting the keys of `finished` -/

def enc3 (b c : Nat) (p : Task3) : Nat := enc c (enc b (p.1, p.2.1), p.2.2)

theorem size_le_of_keys3 (m : HashMap Task3 Nat) (a b c : Nat)
    (h : ∀ x y z : Nat, m[(x, y, z)]? ≠ none → x < a ∧ y < b ∧ z < c) : m.size ≤ a * b * c := by
  rw [← HashMap.length_keys]
  have hmem : ∀ p ∈ m.keys, p.1 < a ∧ p.2.1 < b ∧ p.2.2 < c := by
    intro p hp
    rw [HashMap.mem_keys, HashMap.mem_iff_isSome_getElem?] at hp
    apply h p.1 p.2.1 p.2.2
    intro e
    have : m[p]? = none := e
    rw [this] at hp; cases hp
  have hd : (m.keys.map (enc3 b c)).Nodup := by
    rw [List.nodup_iff_pairwise_ne, List.pairwise_map]
    refine List.Pairwise.imp_of_mem ?_ (HashMap.distinct_keys (m := m))
    intro p q hp hq hne e
    obtain ⟨_, hp2, hp3⟩ := hmem p hp
    obtain ⟨_, hq2, hq3⟩ := hmem q hq
    have e1 := enc_inj c (enc b (p.1, p.2.1), p.2.2) (enc b (q.1, q.2.1), q.2.2) hp3 hq3 e
    have e2 : enc b (p.1, p.2.1) = enc b (q.1, q.2.1) := (Prod.mk.inj e1).1
    have e3 : p.2.2 = q.2.2 := (Prod.mk.inj e1).2
    have e4 := enc_inj b (p.1, p.2.1) (q.1, q.2.1) hp2 hq2 e2
    have e5 : p.1 = q.1 := (Prod.mk.inj e4).1
    have e6 : p.2.1 = q.2.1 := (Prod.mk.inj e4).2
    have : p = q := Prod.ext e5 (Prod.ext e6 e3)
    subst this
    simp at hne
  have hb : ∀ x ∈ m.keys.map (enc3 b c), x < a * b * c := by
    intro x hx
    rw [List.mem_map] at hx
    obtain ⟨p, hp, rfl⟩ := hx
    obtain ⟨h1, h2, h3⟩ := hmem p hp
    have hu : enc b (p.1, p.2.1) < a * b := by
      unfold enc
      have : (p.1 + 1) * b ≤ a * b := Nat.mul_le_mul_right b h1
      rw [Nat.add_mul] at this
      simp only
      omega
    unfold enc3
    generalize enc b (p.1, p.2.1) = u at hu
    unfold enc
    have : (u + 1) * c ≤ a * b * c := Nat.mul_le_mul_right c hu
    rw [Nat.add_mul] at this
    simp only
    omega
  have := nodup_bound (a * b * c) _ hd hb
  rw [List.length_map] at this
  exact this

/-! ### the run from the initial state -/

def st0_3 (A B C : Arr) (n : Nat) : St3 :=
  { res := mkTrue n,
    existing := ((HashMap.emptyWithCapacity (max A.size (max B.size C.size))).insert (zeroN n) 0).insert (oneN n) 1,
    finished := HashMap.emptyWithCapacity (max A.size (max B.size C.size)),
    nonEmpty := false }

theorem st0_3_eqSt (A B C : Arr) (n : Nat) : EqSt3 (st0_3 A B C n) (initSt3 n) := by
  refine ⟨rfl, rfl, ?_, ?_⟩
  · intro k
    simp only [st0_3, initSt3, HashMap.getElem?_insert, HashMap.getElem?_emptyWithCapacity]
  · intro k
    simp only [st0_3, initSt3, HashMap.getElem?_emptyWithCapacity]

theorem initLS3_eq (A B C : Arr) (n : Nat) (hA : A.size ≤ U32) (hB : B.size ≤ U32) (hC : C.size ≤ U32)
    (hA1 : 1 ≤ A.size) (hB1 : 1 ≤ B.size) (hC1 : 1 ≤ C.size) :
    initLS3 A B C n = ofSt3 (st0_3 A B C n) ((#[] : Array Task3).push (root A, root B, root C)) := by
  unfold initLS3 ofSt3 st0_3
  rw [u32_root hA hA1, u32_root hB hB1, u32_root hC hC1]
  rfl

theorem keys_bound3 (Γ : Ctx3) (ok : COk3 Γ) :
    (applyRec3 Γ (Γ.n + 2) (root Γ.A) (root Γ.B) (root Γ.C) (st0_3 Γ.A Γ.B Γ.C Γ.n)).1.finished.size ≤
      Γ.A.size * Γ.B.size * Γ.C.size := by
  have ha := root_lt ok.wfA
  have hb := root_lt ok.wfB
  have hc := root_lt ok.wfC
  have hf : Γ.n - lv3 Γ (root Γ.A) (root Γ.B) (root Γ.C) < Γ.n + 2 := by omega
  have P := applyRec3_post Γ ok (Γ.n + 2) (root Γ.A) (root Γ.B) (root Γ.C) (st0_3 Γ.A Γ.B Γ.C Γ.n) ha hb hc hf
  apply size_le_of_keys3
  intro x y z hne
  rcases P.frame x y z with h | ⟨_, h2, h3, h4, _⟩
  · rw [h] at hne
    exact absurd HashMap.getElem?_emptyWithCapacity hne
  · exact ⟨h2, h3, h4⟩

theorem run_loop3 (Γ : Ctx3) (ok : COk3 Γ)
    (hsz : (applyRec3 Γ (Γ.n + 2) (root Γ.A) (root Γ.B) (root Γ.C) (st0_3 Γ.A Γ.B Γ.C Γ.n)).1.res.size ≤ U32)
    (fuel : Nat) (hfuel : 3 * (Γ.A.size * Γ.B.size * Γ.C.size) ≤ fuel) :
    loopN (cstep3 Γ) fuel (ofSt3 (st0_3 Γ.A Γ.B Γ.C Γ.n) ((#[] : Array Task3).push (root Γ.A, root Γ.B, root Γ.C))) =
      .ok (ofSt3 (applyRec3 Γ (Γ.n + 2) (root Γ.A) (root Γ.B) (root Γ.C) (st0_3 Γ.A Γ.B Γ.C Γ.n)).1 #[]) := by
  have ha := root_lt ok.wfA
  have hb := root_lt ok.wfB
  have hc := root_lt ok.wfC
  have hf : Γ.n - lv3 Γ (root Γ.A) (root Γ.B) (root Γ.C) < Γ.n + 2 := by omega
  have h0 : (st0_3 Γ.A Γ.B Γ.C Γ.n).finished[(root Γ.A, root Γ.B, root Γ.C)]? = none :=
    HashMap.getElem?_emptyWithCapacity
  obtain ⟨k, hk, hcost⟩ := sim3 Γ ok (Γ.n + 2) (root Γ.A) (root Γ.B) (root Γ.C) (st0_3 Γ.A Γ.B Γ.C Γ.n) #[]
    ha hb hc hf h0 hsz
  have hkeys := keys_bound3 Γ ok
  exact loopN_of_runs hk (cstep3_done Γ _) fuel (by omega)

theorem res_size_le3 (Γ : Ctx3) (ok : COk3 Γ) :
    (applyRec3 Γ (Γ.n + 2) (root Γ.A) (root Γ.B) (root Γ.C) (st0_3 Γ.A Γ.B Γ.C Γ.n)).1.res.size ≤
      Γ.A.size * Γ.B.size * Γ.C.size + 2 := by
  have ha := root_lt ok.wfA
  have hb := root_lt ok.wfB
  have hc := root_lt ok.wfC
  have hf : Γ.n - lv3 Γ (root Γ.A) (root Γ.B) (root Γ.C) < Γ.n + 2 := by omega
  have P := applyRec3_post Γ ok (Γ.n + 2) (root Γ.A) (root Γ.B) (root Γ.C) (st0_3 Γ.A Γ.B Γ.C Γ.n) ha hb hc hf
  have hkeys := keys_bound3 Γ ok
  have hb := P.grow.bal
  have h0 : (st0_3 Γ.A Γ.B Γ.C Γ.n).finished.size = 0 := HashMap.size_emptyWithCapacity
  have h2 : (st0_3 Γ.A Γ.B Γ.C Γ.n).res.size = 2 := rfl
  omega

theorem post3_ofSt (n : Nat) (s : St3) :
    post3 n (ofSt3 s #[]) = .ok (if s.nonEmpty then s.res else mkFalse n) := by
  unfold post3 ofSt3
  simp only [Array.back?_empty]
  split <;> rfl

theorem tern_core (A B C : Arr) (n : Nat) (op : Op3) (fa fb fc fo : Option Nat)
    (hA : WFo A n) (hB : WFo B n) (hC : WFo C n) (htot : ∀ x y z, op (some x) (some y) (some z) ≠ none)
    (hfa : ∀ x, fa = some x → x < n) (hfb : ∀ x, fb = some x → x < n) (hfc : ∀ x, fc = some x → x < n)
    (hfo : ∀ x, fo = some x → x < n)
    (hAs : A.size ≤ U32) (hBs : B.size ≤ U32) (hCs : C.size ≤ U32)
    (hres : (applyRec3 ⟨A, B, C, n, op, fa, fb, fc, fo⟩ (n + 2) (root A) (root B) (root C)
      (st0_3 A B C n)).1.res.size ≤ U32)
    (fuel : Nat) (hfuel : 3 * (A.size * B.size * C.size) ≤ fuel) :
    Gen.Algo.ternary_apply fuel (A, B, C) (fa, fb, fc) fo op = .ok (ternaryApply A B C op fa fb fc fo) := by
  have ok : COk3 ⟨A, B, C, n, op, fa, fb, fc, fo⟩ := ⟨hA, hB, hC, htot⟩
  rw [desugar_ok3 fuel A B C fa fb fc fo op ⟨n, 0, 0⟩ ⟨n, 0, 0⟩ ⟨n, 0, 0⟩ hA.zero hB.zero hC.zero rfl rfl
    hfa hfb hfc hfo]
  simp only
  rw [initLS3_eq A B C n hAs hBs hCs hA.size_pos hB.size_pos hC.size_pos,
    run_loop3 ⟨A, B, C, n, op, fa, fb, fc, fo⟩ ok hres fuel hfuel]
  rw [show ∀ (a : LS3), (Outcome.ok a).bind (post3 n) = post3 n a from fun _ => rfl, post3_ofSt]
  unfold ternaryApply
  simp only [numVars_of_wf hA]
  obtain ⟨E, _⟩ := applyRec3_eqSt ⟨A, B, C, n, op, fa, fb, fc, fo⟩ (n + 2) (root A) (root B) (root C) _ _
    (st0_3_eqSt A B C n)
  rw [E.res, E.ne]

end B.AlgoEqT

namespace B
open B.AlgoEqA B.AlgoEqT

/-- MAIN THEOREM, sharpest form (table total on terminal triples; size restriction on the operands and on the
    array the model builds) -/
theorem ternary_apply_eq_model' (A B C : Arr) (n : Nat) (op : Op3) (fa fb fc fo : Option Nat)
    (hA : WFo A n) (hB : WFo B n) (hC : WFo C n) (htot : ∀ x y z, op (some x) (some y) (some z) ≠ none)
    (hfa : ∀ x, fa = some x → x < n) (hfb : ∀ x, fb = some x → x < n) (hfc : ∀ x, fc = some x → x < n)
    (hfo : ∀ x, fo = some x → x < n)
    (hAs : A.size ≤ 2 ^ 32) (hBs : B.size ≤ 2 ^ 32) (hCs : C.size ≤ 2 ^ 32)
    (hres : (applyRec3 ⟨A, B, C, n, op, fa, fb, fc, fo⟩ (n + 2) (root A) (root B) (root C)
      (initSt3 n)).1.res.size ≤ 2 ^ 32)
    (fuel : Nat) (hfuel : 3 * (A.size * B.size * C.size) ≤ fuel) :
    Gen.Algo.ternary_apply fuel (A, B, C) (fa, fb, fc) fo op = .ok (ternaryApply A B C op fa fb fc fo) := by
  rw [← U32_eq] at hAs hBs hCs hres
  refine tern_core A B C n op fa fb fc fo hA hB hC htot hfa hfb hfc hfo hAs hBs hCs ?_ fuel hfuel
  obtain ⟨E, _⟩ := applyRec3_eqSt ⟨A, B, C, n, op, fa, fb, fc, fo⟩ (n + 2) (root A) (root B) (root C) _ _
    (st0_3_eqSt A B C n)
  rw [E.res]; exact hres

/-- MAIN THEOREM: on operands well formed by level (same variable count `n`), a table consistent with a ternary
    connective, flips in range and `|A|·|B|·|C| + 2 ≤ 2^32`, the function TRANSLATED FROM THE RUST SOURCE
    returns, for every fuel `≥ 3·|A|·|B|·|C|`, exactly what the hand-written recursive model returns. -/
theorem ternary_apply_eq_model (A B C : Arr) (n : Nat) (op : Op3) (c : Bool → Bool → Bool → Bool)
    (fa fb fc fo : Option Nat)
    (hA : WFo A n) (hB : WFo B n) (hC : WFo C n) (hc : Consistent3 op c)
    (hfa : ∀ x, fa = some x → x < n) (hfb : ∀ x, fb = some x → x < n) (hfc : ∀ x, fc = some x → x < n)
    (hfo : ∀ x, fo = some x → x < n)
    (hsz : A.size * B.size * C.size + 2 ≤ 2 ^ 32)
    (fuel : Nat) (hfuel : 3 * (A.size * B.size * C.size) ≤ fuel) :
    Gen.Algo.ternary_apply fuel (A, B, C) (fa, fb, fc) fo op = .ok (ternaryApply A B C op fa fb fc fo) := by
  rw [← U32_eq] at hsz
  have htot : ∀ x y z, op (some x) (some y) (some z) ≠ none := by
    intro x y z; rw [hc.total]; exact fun h => by cases h
  have ok : COk3 ⟨A, B, C, n, op, fa, fb, fc, fo⟩ := ⟨hA, hB, hC, htot⟩
  have hA1 := hA.size_pos
  have hB1 := hB.size_pos
  have hC1 := hC.size_pos
  have hAB1 : 1 ≤ A.size * B.size := Nat.mul_pos hA1 hB1
  have h1 : A.size ≤ A.size * B.size := Nat.le_mul_of_pos_right _ hB1
  have h2 : B.size ≤ A.size * B.size := Nat.le_mul_of_pos_left _ hA1
  have h3 : A.size * B.size ≤ A.size * B.size * C.size := Nat.le_mul_of_pos_right _ hC1
  have h4 : C.size ≤ A.size * B.size * C.size := Nat.le_mul_of_pos_left _ hAB1
  have hres : _ ≤ A.size * B.size * C.size + 2 := res_size_le3 ⟨A, B, C, n, op, fa, fb, fc, fo⟩ ok
  exact tern_core A B C n op fa fb fc fo hA hB hC htot hfa hfb hfc hfo (by omega) (by omega) (by omega)
    (Nat.le_trans hres hsz) fuel hfuel

/-- COROLLARY (chained with Lemmas/TernaryCanon.lean): the translated Rust code returns the canonical form of
    the pointwise ternary connective of the operand functions (with the input / output flips applied). -/
theorem ternary_apply_eq_canon (A B C : Arr) (n : Nat) (op : Op3) (c : Bool → Bool → Bool → Bool)
    (fa fb fc fo : Option Nat)
    (hA : WFo A n) (hB : WFo B n) (hC : WFo C n) (hc : Consistent3 op c)
    (hfa : ∀ x, fa = some x → x < n) (hfb : ∀ x, fb = some x → x < n) (hfc : ∀ x, fc = some x → x < n)
    (hfo : ∀ x, fo = some x → x < n)
    (hsz : A.size * B.size * C.size + 2 ≤ 2 ^ 32)
    (fuel : Nat) (hfuel : 3 * (A.size * B.size * C.size) ≤ fuel) :
    Gen.Algo.ternary_apply fuel (A, B, C) (fa, fb, fc) fo op = .ok (canon n (specFn3 A B C n c fa fb fc fo)) := by
  rw [ternary_apply_eq_model A B C n op c fa fb fc fo hA hB hC hc hfa hfb hfc hfo hsz fuel hfuel,
    ternaryApply_eq_canon A B C n op c fa fb fc fo hA hB hC hc hfa hfb hfc]
  rfl

/-- the fuel passed by the driver (`Drive/Algo.lean`: `fuel3 A B C = 8·(|A|·|B|·|C| + numVars A + 8)`) suffices -/
theorem ternary_apply_eq_model_driver (A B C : Arr) (n : Nat) (op : Op3) (c : Bool → Bool → Bool → Bool)
    (fa fb fc fo : Option Nat)
    (hA : WFo A n) (hB : WFo B n) (hC : WFo C n) (hc : Consistent3 op c)
    (hfa : ∀ x, fa = some x → x < n) (hfb : ∀ x, fb = some x → x < n) (hfc : ∀ x, fc = some x → x < n)
    (hfo : ∀ x, fo = some x → x < n)
    (hsz : A.size * B.size * C.size + 2 ≤ 2 ^ 32) :
    Gen.Algo.ternary_apply (Drive.Algo.fuel3 A B C) (A, B, C) (fa, fb, fc) fo op =
      .ok (ternaryApply A B C op fa fb fc fo) :=
  ternary_apply_eq_model A B C n op c fa fb fc fo hA hB hC hc hfa hfb hfc hfo hsz _
    (by unfold Drive.Algo.fuel3; omega)

/-- `Bdd::ternary_op` as called by the driver -/
theorem Bdd_ternary_op_eq_model_driver (A B C : Arr) (n : Nat) (op : Op3) (c : Bool → Bool → Bool → Bool)
    (hA : WFo A n) (hB : WFo B n) (hC : WFo C n) (hc : Consistent3 op c)
    (hsz : A.size * B.size * C.size + 2 ≤ 2 ^ 32) :
    Gen.Algo.Bdd_ternary_op (Drive.Algo.fuel3 A B C) A B C op =
      .ok (ternaryApply A B C op none none none none) := by
  unfold Gen.Algo.Bdd_ternary_op
  rw [ternary_apply_eq_model_driver A B C n op c none none none none hA hB hC hc (by simp) (by simp) (by simp)
    (by simp) hsz]

/-- `Bdd::fused_ternary_flip_op` as called by the driver -/
theorem Bdd_fused_ternary_flip_op_eq_model_driver (A B C : Arr) (n : Nat) (op : Op3)
    (c : Bool → Bool → Bool → Bool) (fa fb fc fo : Option Nat)
    (hA : WFo A n) (hB : WFo B n) (hC : WFo C n) (hc : Consistent3 op c)
    (hfa : ∀ x, fa = some x → x < n) (hfb : ∀ x, fb = some x → x < n) (hfc : ∀ x, fc = some x → x < n)
    (hfo : ∀ x, fo = some x → x < n)
    (hsz : A.size * B.size * C.size + 2 ≤ 2 ^ 32) :
    Gen.Algo.Bdd_fused_ternary_flip_op (Drive.Algo.fuel3 A B C) (A, fa) (B, fb) (C, fc) fo op =
      .ok (ternaryApply A B C op fa fb fc fo) := by
  unfold Gen.Algo.Bdd_fused_ternary_flip_op
  simp only
  rw [ternary_apply_eq_model_driver A B C n op c fa fb fc fo hA hB hC hc hfa hfb hfc hfo hsz]

/-- line 57: operands over different variable counts — the translated code panics (for every fuel) -/
theorem ternary_apply_panics_mismatch (A B C : Arr) (na nb nc : Nat) (op : Op3) (fa fb fc fo : Option Nat)
    (hA : WFo A na) (hB : WFo B nb) (hC : WFo C nc) (hne : na ≠ nb ∨ nb ≠ nc) (fuel : Nat) :
    Gen.Algo.ternary_apply fuel (A, B, C) (fa, fb, fc) fo op =
      .panic "Var count mismatch: BDDs are not compatible. {} vs. {} vs. {}" :=
  desugar_mismatch3 fuel A B C fa fb fc fo op ⟨na, 0, 0⟩ ⟨nb, 0, 0⟩ ⟨nc, 0, 0⟩ hA.zero hB.zero hC.zero hne

/-- lines 65-68 (`check_flip_bounds`): some flip variable `≥ n` — the translated code panics (for every fuel) -/
theorem ternary_apply_panics_flip (A B C : Arr) (n : Nat) (op : Op3) (fa fb fc fo : Option Nat)
    (hA : WFo A n) (hB : WFo B n) (hC : WFo C n) (x : Nat)
    (hx : fa = some x ∨ fb = some x ∨ fc = some x ∨ fo = some x) (hn : n ≤ x) (fuel : Nat) :
    Gen.Algo.ternary_apply fuel (A, B, C) (fa, fb, fc) fo op =
      .panic "Cannot flip variable {} in Bdd with {} variables." :=
  desugar_flip_panic3 fuel A B C fa fb fc fo op ⟨n, 0, 0⟩ ⟨n, 0, 0⟩ ⟨n, 0, 0⟩ hA.zero hB.zero hC.zero rfl rfl
    ⟨x, hx, hn⟩

/-! ### non-vacuity: concrete inputs satisfying all hypotheses (the specification side is evaluated by `decide`) -/

/-- the generated function, run with the driver's fuel on the regenerated table `Gen.ite_` (operands `x1`,
    `x0 ∧ x2` — level-skipping —, `x2` over 3 variables), returns the canonical array of
    `if x1 then x0 ∧ x2 else x2` -/
example : Gen.Algo.ternary_apply (Drive.Algo.fuel3 exX1 exX0X2 exX2) (exX1, exX0X2, exX2) (none, none, none) none
    Gen.ite_ = .ok #[⟨3, 0, 0⟩, ⟨3, 1, 1⟩, ⟨2, 0, 1⟩, ⟨1, 2, 0⟩, ⟨0, 3, 2⟩] :=
  (ternary_apply_eq_canon exX1 exX0X2 exX2 3 Gen.ite_ (fun a b c => if a then b else c) none none none none
    exX1_wf exX0X2_wf exX2_wf ite_consistent3 (by simp) (by simp) (by simp) (by simp) (by decide) _
    (by decide)).trans (congrArg Outcome.ok (by decide))

/-- all four flips present, minimal admissible fuel `3·|A|·|B|·|C| = 108` -/
example : Gen.Algo.ternary_apply 108 (exX1, exX0X2, exX2) (some 1, some 2, some 2) (some 0) Gen.ite_ =
    .ok (ternaryApply exX1 exX0X2 exX2 Gen.ite_ (some 1) (some 2) (some 2) (some 0)) :=
  ternary_apply_eq_model exX1 exX0X2 exX2 3 Gen.ite_ (fun a b c => if a then b else c)
    (some 1) (some 2) (some 2) (some 0) exX1_wf exX0X2_wf exX2_wf ite_consistent3
    (by simp) (by simp) (by simp) (by simp) (by decide) 108 (by decide)

/-- a contradiction: the one-node `false` array (the `is_not_empty` path) -/
example : Gen.Algo.ternary_apply 1000 (exX1, exX1, exX1) (none, some 1, none) none Gen.ite_ = .ok #[⟨3, 0, 0⟩] :=
  (ternary_apply_eq_canon exX1 exX1 exX1 3 Gen.ite_ (fun a b c => if a then b else c) none (some 1) none none
    exX1_wf exX1_wf exX1_wf ite_consistent3 (by simp) (by simp) (by simp) (by simp) (by decide) 1000
    (by decide)).trans (congrArg Outcome.ok (by decide))

/-- the wrapper `Bdd::ternary_op` exactly as the driver calls it -/
example : Gen.Algo.Bdd_ternary_op (Drive.Algo.fuel3 exX1 exX0X2 exX2) exX1 exX0X2 exX2 iteEager =
    .ok (ternaryApply exX1 exX0X2 exX2 iteEager none none none none) :=
  Bdd_ternary_op_eq_model_driver exX1 exX0X2 exX2 3 iteEager (fun a b c => if a then b else c)
    exX1_wf exX0X2_wf exX2_wf iteEager_consistent3 (by decide)

/-- variable-count mismatch (3, 3, 2): panic, whatever the fuel -/
example (fuel : Nat) : Gen.Algo.ternary_apply fuel (exX0, exX1, exY0) (none, none, none) none Gen.ite_ =
    .panic "Var count mismatch: BDDs are not compatible. {} vs. {} vs. {}" :=
  ternary_apply_panics_mismatch exX0 exX1 exY0 3 3 2 Gen.ite_ none none none none exX0_wf exX1_wf exY0_wf
    (Or.inr (by decide)) fuel

/-- an output flip on variable 7 of 3-variable operands: panic, whatever the fuel -/
example (fuel : Nat) : Gen.Algo.ternary_apply fuel (exX0, exX1, exX2) (none, none, none) (some 7) Gen.ite_ =
    .panic "Cannot flip variable {} in Bdd with {} variables." :=
  ternary_apply_panics_flip exX0 exX1 exX2 3 Gen.ite_ none none none (some 7) exX0_wf exX1_wf exX2_wf 7
    (Or.inr (Or.inr (Or.inr rfl))) (by decide) fuel

end B
