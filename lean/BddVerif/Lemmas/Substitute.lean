import BddVerif.Lemmas.RenameSpec
import BddVerif.Lemmas.NestedBasic
import BddVerif.Lemmas.NestedQ
import BddVerif.Lemmas.NestedSim
import BddVerif.Model.Substitute
/-! Helper lemmas for C07 (`substitute`): the canonical array of a function that does not depend on a
    variable has no node on it; literals and `iff`; existential elimination of one variable. -/
namespace B.Ren.Subst
open B B.Drive

/-- `f` does not depend on variable `y` -/
def Indep (y : Nat) (f : (Nat → Bool) → Bool) : Prop := ∀ v b, f (upd v y b) = f v

theorem Indep.cofactor {y : Nat} {f : (Nat → Bool) → Bool} (h : Indep y f) (k : Nat) (c : Bool) :
    Indep y (fun v => f (upd v k c)) := by
  intro v b
  by_cases hk : y = k
  · subst hk; simp only [upd_upd]
  · simp only; rw [upd_comm v y k b c hk]; exact h _ b

/-- the reference builder never pushes a node on a variable the function does not depend on -/
theorem ins_no_var {n y : Nat} :
    ∀ fuel k (f : (Nat → Bool) → Bool) (A : Arr), Red A n → fuel + k = n →
      (∀ v w : Nat → Bool, (∀ i, k ≤ i → i < n → v i = w i) → f v = f w) → Indep y f →
      ∀ i nd, A.size ≤ i → (ins n fuel k f A).1[i]? = some nd → nd.var ≠ y := by
  intro fuel
  induction fuel with
  | zero =>
    intro k f A _ _ _ _ i nd hi hnd
    simp only [ins] at hnd
    rw [Array.getElem?_eq_none hi] at hnd; cases hnd
  | succ fuel ih =>
    intro k f A h hk hdep hind i nd hi hnd
    have dep1 : ∀ b, ∀ v w : Nat → Bool, (∀ i, k+1 ≤ i → i < n → v i = w i) →
        f (upd v k b) = f (upd w k b) := by
      intro b v w hvw
      apply hdep
      intro i h1 h2
      by_cases hik : i = k
      · simp [upd, hik]
      · simp [upd, hik]; exact hvw i (by omega) h2
    have ih1 := ih (k+1) (fun v => f (upd v k true)) A h (by omega) (dep1 true) (hind.cofactor k true)
    obtain ⟨r1red, r1pre, r1lt, r1var, r1ev⟩ :=
      ins_spec fuel (k+1) (fun v => f (upd v k true)) A h (by omega) (dep1 true)
    generalize hr1 : ins n fuel (k+1) (fun v => f (upd v k true)) A = r1 at ih1 r1red r1pre r1lt r1var r1ev
    have ih2 := ih (k+1) (fun v => f (upd v k false)) r1.1 r1red (by omega) (dep1 false) (hind.cofactor k false)
    obtain ⟨r2red, r2pre, r2lt, r2var, r2ev⟩ :=
      ins_spec fuel (k+1) (fun v => f (upd v k false)) r1.1 r1red (by omega) (dep1 false)
    have hfound : y = k → ins n fuel (k+1) (fun v => f (upd v k false)) r1.1 = (r1.1, r1.2) := by
      intro hyk
      apply ins_found r1red fuel (k+1) _ r1.2 (by omega) r1lt r1var
      intro v
      rw [r1ev v]
      show f (upd v k false) = f (upd v k true)
      rw [← hyk, hind v false, hind v true]
    generalize hr2 : ins n fuel (k+1) (fun v => f (upd v k false)) r1.1 = r2 at ih2 r2red r2pre r2lt r2var r2ev hfound
    obtain ⟨A1, p1⟩ := r1
    obtain ⟨A2, p2⟩ := r2
    simp only at ih1 ih2 r1red r1pre r1lt r2red r2pre r2lt hfound
    -- every node of A2 beyond A is on another variable
    have hA2 : ∀ j nd', A.size ≤ j → A2[j]? = some nd' → nd'.var ≠ y := by
      intro j nd' hj hnd'
      rcases Nat.lt_or_ge j A1.size with hj1 | hj1
      · rw [r2pre.2 j hj1] at hnd'; exact ih1 j nd' hj hnd'
      · exact ih2 j nd' hj1 hnd'
    rw [ins_succ' hr1 hr2] at hnd
    by_cases heq : p2 = p1
    · simp only [heq, if_true] at hnd; exact hA2 i nd hi hnd
    · simp only [heq, if_false] at hnd
      cases hfn : findNode A2 ⟨k, p2, p1⟩ with
      | some j => rw [hfn] at hnd; exact hA2 i nd hi hnd
      | none =>
        rw [hfn] at hnd
        simp only at hnd
        rcases Nat.lt_or_ge i A2.size with hi2 | hi2
        · rw [Array.getElem?_push_lt hi2] at hnd
          exact hA2 i nd hi (by rw [Array.getElem?_eq_getElem hi2]; exact congrArg some (Option.some.inj hnd ▸ rfl))
        · rcases Nat.eq_or_lt_of_le hi2 with he | hgt
          · rw [← he, Array.getElem?_push_size] at hnd
            have : nd.var = k := by rw [← Option.some.inj hnd]
            intro hy
            have := hfound (by omega)
            injection this with _ h2
            exact heq h2
          · rw [Array.getElem?_eq_none (by simp; omega)] at hnd; cases hnd

/-- the canonical array of a function independent of `y` has no node labelled `y` -/
theorem canon_no_var (n y : Nat) (f : (Nat → Bool) → Bool)
    (hdep : ∀ v w : Nat → Bool, (∀ i, i < n → v i = w i) → f v = f w) (hind : Indep y f) :
    y ∉ supportSet (canon n f) := by
  intro hy
  obtain ⟨p, nd, hp, hnd, hv⟩ := (mem_supportSet _ y).mp hy
  simp only [canon] at hnd
  by_cases h0 : (ins n n 0 f (mkTrue n)).2 = 0
  · rw [if_pos h0, Array.getElem?_eq_none (by rw [mkFalse_size]; omega)] at hnd; cases hnd
  · rw [if_neg h0] at hnd
    exact ins_no_var n 0 f (mkTrue n) (red_mkTrue n) (by omega)
      (fun v w h => hdep v w (fun i hi => h i (Nat.zero_le _) hi)) hind p nd (by rw [mkTrue_size]; exact hp) hnd hv

/-! ### evaluation and the support -/

theorem evalF_no_var (A : Arr) (x : Nat) (b : Bool) (v : Nat → Bool)
    (h : ∀ p nd, 2 ≤ p → A[p]? = some nd → nd.var ≠ x) :
    ∀ f p, evalF A (upd v x b) f p = evalF A v f p := by
  intro f
  induction f with
  | zero =>
    intro p
    match p with
    | 0 => simp [evalF]
    | 1 => simp [evalF]
    | p + 2 => simp [evalF]
  | succ f ih =>
    intro p
    match p with
    | 0 => simp [evalF]
    | 1 => simp [evalF]
    | p + 2 =>
      simp only [evalF]
      cases hA : A[p + 2]? with
      | none => rfl
      | some nd =>
        simp only
        have : upd v x b nd.var = v nd.var := by
          have := h (p + 2) nd (by omega) hA
          simp [upd, this]
        rw [this]; exact ih _

/-- a diagram without a node on `x` does not read `x` -/
theorem evalArr_upd_of_not_mem (A : Arr) (x : Nat) (hx : x ∉ supportSet A) (v : Nat → Bool) (b : Bool) :
    evalArr A (upd v x b) = evalArr A v := by
  unfold evalArr
  apply evalF_no_var
  intro p nd hp hnd hv
  exact hx ((mem_supportSet A x).mpr ⟨p, nd, hp, hnd, hv⟩)

theorem evalArr_congr {A : Arr} {n : Nat} (h : WFo A n) (v w : Nat → Bool) (hvw : ∀ i, i < n → v i = w i) :
    evalArr A v = evalArr A w := by
  rw [evalArr_of_wf h, evalArr_of_wf h]
  exact evW_indep h n (root A) (root_lt h) (by omega) v w (fun i _ hi => hvw i hi)

/-! ### literals and `iff` -/

theorem iff_consistent : Consistent Gen.iff_ (fun a b => a == b) := by constructor <;> decide

theorem wfo_mkVar (n x : Nat) (hx : x < n) : WFo (mkVar n x) n := by
  refine ⟨rfl, fun _ => rfl, ?_⟩
  intro p nd hp hnd
  rcases Nat.lt_or_ge 2 p with h | h
  · have : (mkVar n x)[p]? = none := Array.getElem?_eq_none (by simp [mkVar, mkTrue]; omega)
    rw [this] at hnd; cases hnd
  · have : p = 2 := by omega
    subst this
    have : (mkVar n x)[2]? = some ⟨x, 0, 1⟩ := rfl
    rw [this] at hnd
    cases hnd
    refine ⟨hx, by simp [mkVar, mkTrue], by simp [mkVar, mkTrue], ?_, ?_⟩ <;> simp [varOf] <;> exact hx

theorem evalArr_mkVar (n x : Nat) (hx : x < n) (v : Nat → Bool) : evalArr (mkVar n x) v = v x := by
  rw [evalArr_of_wf (wfo_mkVar n x hx)]
  have hr : root (mkVar n x) = 2 := rfl
  rw [hr, evW_node (wfo_mkVar n x hx) v 2 (by omega) ⟨x, 0, 1⟩ rfl]
  simp only [evW_zero, evW_one]
  cases v x <;> rfl

/-- `var_bdd.iff(g)`: valid, denotes `v x ⇔ g v` -/
theorem iff_var_spec (g : Arr) (n x : Nat) (hg : WFo g n) (hx : x < n) :
    WFo (applyWithFlip (mkVar n x) g Gen.iff_ none none none) n ∧
    ∀ v, evalArr (applyWithFlip (mkVar n x) g Gen.iff_ none none none) v = (v x == evalArr g v) := by
  have hv := wfo_mkVar n x hx
  have heq := applyWithFlip_eq_canon (mkVar n x) g n Gen.iff_ (fun a b => a == b) none none none hv hg
    (numVars_of_wf hv) iff_consistent (by simp) (by simp) (by simp)
  have hdep := specFn_dep (mkVar n x) g n (fun a b => a == b) none none none hv hg
  obtain ⟨hw, hden⟩ := canon_wfo n (specFn (mkVar n x) g n (fun a b => a == b) none none none) hdep
  rw [heq]
  change WFo (canon n (specFn (mkVar n x) g n (fun a b => a == b) none none none)) n ∧
    ∀ v, evalArr (canon n (specFn (mkVar n x) g n (fun a b => a == b) none none none)) v = (v x == evalArr g v)
  refine ⟨hw, ?_⟩
  intro v
  rw [evalArr_of_wf hw, hden v]
  unfold specFn
  simp only [inv]
  rw [← evalArr_of_wf hv, ← evalArr_of_wf hg, evalArr_mkVar n x hx]

/-! ### eliminating one variable -/

theorem trigOfList_single (x j : Nat) : trigOfList [x] j = decide (j = x) := by
  unfold trigOfList
  by_cases h : j = x <;> simp [h]

theorem Qn_or_single (n x : Nat) (hx : x < n) (F : (Nat → Bool) → Bool) (v : Nat → Bool) :
    Qn (trigOfList [x]) (fun a b => a || b) n F v = (F (upd v x false) || F (upd v x true)) := by
  rw [Bool.eq_iff_iff, Qn_or_iff, Bool.or_eq_true]
  constructor
  · rintro ⟨w, hw, hF⟩
    have : w = upd v x (w x) := by
      funext j
      by_cases hj : j = x
      · subst hj; simp [upd]
      · simp only [upd, hj, if_false]
        apply hw
        rintro ⟨_, ht⟩
        rw [trigOfList_single] at ht
        exact hj (by simpa using ht)
    rw [this] at hF
    cases hwx : w x with
    | false => left; rw [hwx] at hF; exact hF
    | true => right; rw [hwx] at hF; exact hF
  · have agree : ∀ b, ∀ i, ¬ (i < n ∧ trigOfList [x] i = true) → upd v x b i = v i := by
      intro b i hi
      have : i ≠ x := by
        intro h; apply hi; subst h; exact ⟨hx, by rw [trigOfList_single]; simp⟩
      simp [upd, this]
    rintro (h | h)
    · exact ⟨_, agree false, h⟩
    · exact ⟨_, agree true, h⟩

/-- `binary_op_with_exists(L, R, and, [x])`: valid, no node on `x`, denotes `∃ x. L ∧ R` -/
theorem exists_and_spec (L R : Arr) (n x : Nat) (hL : WFo L n) (hR : WFo R n) (hx : x < n) :
    WFo (binaryOpWithExists L R Gen.and_ [x]) n ∧
    x ∉ supportSet (binaryOpWithExists L R Gen.and_ [x]) ∧
    (2 ≤ (binaryOpWithExists L R Gen.and_ [x]).size → Red (binaryOpWithExists L R Gen.and_ [x]) n) ∧
    ∀ v, evalArr (binaryOpWithExists L R Gen.and_ [x]) v =
      ((evalArr L (upd v x false) && evalArr R (upd v x false)) ||
       (evalArr L (upd v x true) && evalArr R (upd v x true))) := by
  have heq : binaryOpWithExists L R Gen.and_ [x] = _ :=
    nestedApply_eq_canon L R n (trigOfList [x]) Gen.and_ Gen.or_ (fun a b => a && b) (fun a b => a || b)
      hL hR and_consistent or_consistent (by intro a; cases a <;> rfl)
  have hF : DepOn 0 n (fun v => evW L n v (root L) && evW R n v (root R)) := by
    intro v w hvw
    simp only
    rw [evW_indep hL n _ (root_lt hL) (by omega) v w (fun i _ hi => hvw i (Nat.zero_le _) hi),
      evW_indep hR n _ (root_lt hR) (by omega) v w (fun i _ hi => hvw i (Nat.zero_le _) hi)]
  have hQ := Qn_dep (trigOfList [x]) (fun a b => a || b) 0 n _ hF
  have hdep : ∀ v w : Nat → Bool, (∀ i, i < n → v i = w i) →
      Qn (trigOfList [x]) (fun a b => a || b) n (fun v => evW L n v (root L) && evW R n v (root R)) v =
      Qn (trigOfList [x]) (fun a b => a || b) n (fun v => evW L n v (root L) && evW R n v (root R)) w :=
    fun v w h => hQ v w (fun i _ hi => h i hi)
  obtain ⟨hw, hden⟩ := canon_wfo n _ hdep
  rw [heq]
  refine ⟨hw, ?_, red_canon n _ hdep, ?_⟩
  · apply canon_no_var n x _ hdep
    intro v b
    rw [Qn_or_single n x hx, Qn_or_single n x hx, upd_upd, upd_upd]
  · intro v
    rw [evalArr_of_wf hw, hden v, Qn_or_single n x hx]
    simp only [evalArr_of_wf hL, evalArr_of_wf hR]

/-- the same result as an array: the canonical array of `∃ x. L ∧ R` -/
theorem exists_and_canon (L R : Arr) (n x : Nat) (hL : WFo L n) (hR : WFo R n) (hx : x < n) :
    binaryOpWithExists L R Gen.and_ [x] = canon n (fun v =>
      ((evalArr L (upd v x false) && evalArr R (upd v x false)) ||
       (evalArr L (upd v x true) && evalArr R (upd v x true)))) := by
  have heq : binaryOpWithExists L R Gen.and_ [x] = _ :=
    nestedApply_eq_canon L R n (trigOfList [x]) Gen.and_ Gen.or_ (fun a b => a && b) (fun a b => a || b)
      hL hR and_consistent or_consistent (by intro a; cases a <;> rfl)
  rw [heq]
  apply canon_congr
  intro v
  rw [Qn_or_single n x hx]
  simp only [evalArr_of_wf hL, evalArr_of_wf hR]

theorem subst_bool (fa : Bool → Bool) (gv : Bool) :
    ((fa false && (false == gv)) || (fa true && (true == gv))) = fa gv := by
  cases gv <;> simp

end B.Ren.Subst