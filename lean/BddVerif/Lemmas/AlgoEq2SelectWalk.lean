import BddVerif.Lemmas.AlgoEq2SelectBase
/-!
# `first_valuation`, `last_valuation`, `first_clause`, `last_clause`: translated code = hand model

`B.Gen.Algo2.Bdd_first_valuation` etc. (regenerated from `src/_impl_bdd/_impl_valuation_utils.rs`) against
`B.Select.firstValuation` etc. (`Model/Select.lean`). The translated `while` loop and the hand model's `descend` are
compared AT EVERY FUEL (`*_eq_loop`, with `walkValF` / `walkClauseF` = the hand model with its fuel made a parameter;
at `fuel = len` these ARE the hand models, `*_eq_model`); the hand loop is monotone in the fuel, hence the
corollaries for every fuel `≥ len` (`*_some`, `*_none`).
Hypotheses: `0 < len` (the Rust code panics in `num_vars()` on the empty vector, the hand models do not model that) and
`len ≤ 2^32` (`root_pointer` truncates `as u32`).
-/
namespace B.AlgoEq2Sel
open B B.Gen B.Select B.AlgoEqUtil

attribute [local instance 10000] Rust.monadOutcomeInline

theorem valuation_set_eq (v : Array Bool) (x : Nat) : Algo2.BddValuation_set v x = Rust.setIdx v x true := by
  unfold Algo2.BddValuation_set
  show (Rust.setIdx v x true >>= fun a => pure a) = _
  generalize Rust.setIdx v x true = r
  cases r <;> rfl

theorem valuation_clear_eq (v : Array Bool) (x : Nat) : Algo2.BddValuation_clear v x = Rust.setIdx v x false := by
  unfold Algo2.BddValuation_clear
  show (Rust.setIdx v x false >>= fun a => pure a) = _
  generalize Rust.setIdx v x false = r
  cases r <;> rfl

/-- what follows the walk in every selector: `Some(valuation)` -/
def somePost {σ : Type} (x : Outcome σ) : Outcome (Option σ) := x.bind fun v => .ok (some v)

/-- the hand models with the fuel of the walk as a parameter (`Select.walkVal` is the instance `fuel = len`) -/
def walkValF (A : Arr) (choose : Nat → Node → Option Bool) (init : Bool) (fuel : Nat) : Sel Val :=
  if isFalse A then Sel.none else
  ofOpt ((descend A isTerminal choose fuel (root A)).bind
    fun ds => foldV init ds (List.replicate (numVars A) init))

def walkClauseF (A : Arr) (choose : Nat → Node → Option Bool) (fuel : Nat) : Sel Clause :=
  if isFalse A then Sel.none else
  ofOpt ((descend A isTerminal choose fuel (root A)).map foldC)

theorem walkValF_size (A : Arr) (choose : Nat → Node → Option Bool) (init : Bool) :
    walkValF A choose init A.size = walkVal A choose init := rfl

theorem walkClauseF_size (A : Arr) (choose : Nat → Node → Option Bool) :
    walkClauseF A choose A.size = walkClause A choose := rfl

theorem walkValF_mono {A : Arr} {choose : Nat → Node → Option Bool} {init : Bool} {f f' : Nat} {v : Val}
    (hle : f ≤ f') (h : walkValF A choose init f = Sel.some v) : walkValF A choose init f' = Sel.some v := by
  unfold walkValF at h ⊢
  cases hF : isFalse A with
  | true => rw [hF] at h; cases h
  | false =>
    rw [hF] at h
    simp only [Bool.false_eq_true, if_false] at h ⊢
    cases hd : descend A isTerminal choose f (root A) with
    | none => rw [hd] at h; cases h
    | some ds => rw [descend_mono A _ _ f f' _ ds hle hd]; rw [hd] at h; exact h

theorem walkClauseF_mono {A : Arr} {choose : Nat → Node → Option Bool} {f f' : Nat} {c : Clause}
    (hle : f ≤ f') (h : walkClauseF A choose f = Sel.some c) : walkClauseF A choose f' = Sel.some c := by
  unfold walkClauseF at h ⊢
  cases hF : isFalse A with
  | true => rw [hF] at h; cases h
  | false =>
    rw [hF] at h
    simp only [Bool.false_eq_true, if_false] at h ⊢
    cases hd : descend A isTerminal choose f (root A) with
    | none => rw [hd] at h; cases h
    | some ds => rw [descend_mono A _ _ f f' _ ds hle hd]; rw [hd] at h; exact h

theorem walkValF_none {A : Arr} {choose : Nat → Node → Option Bool} {init : Bool} {f : Nat}
    (h : walkValF A choose init f = Sel.none) : isFalse A = true := by
  unfold walkValF at h
  cases hF : isFalse A with
  | true => rfl
  | false =>
    rw [hF] at h
    simp only [Bool.false_eq_true, if_false] at h
    generalize (descend A isTerminal choose f (root A)).bind _ = o at h
    cases o <;> cases h

theorem walkClauseF_none {A : Arr} {choose : Nat → Node → Option Bool} {f : Nat}
    (h : walkClauseF A choose f = Sel.none) : isFalse A = true := by
  unfold walkClauseF at h
  cases hF : isFalse A with
  | true => rfl
  | false =>
    rw [hF] at h
    simp only [Bool.false_eq_true, if_false] at h
    generalize (descend A isTerminal choose f (root A)).map _ = o at h
    cases o <;> cases h

theorem selV_of_rel {x : Outcome (Array Bool)} {y : Option Val} (h : RelO (x.map Array.toList) y) :
    selV (somePost x) = ofOpt y := by
  rcases relO_map_inv h with ⟨a, h1, h2⟩ | ⟨⟨m, h1⟩, h2⟩
  · rw [h1, h2]; rfl
  · rw [h1, h2]; rfl

theorem selC_of_rel {x : Outcome (Array (Option Bool))} {y : Option Clause} (h : RelO (x.map Array.toList) y) :
    selC (somePost x) = ofOpt y := by
  rcases relO_map_inv h with ⟨a, h1, h2⟩ | ⟨⟨m, h1⟩, h2⟩
  · rw [h1, h2]; rfl
  · rw [h1, h2]; rfl

/-- the epilogue of every walk (fuel check, `Some(valuation)`) in closed form -/
theorem walk_tail {σ : Type} (r : Outcome (σ × Nat)) :
    (r >>= fun st => if (!Algo.BddPointer_is_terminal st.2) = true
        then (Outcome.panic "fuel" : Outcome PUnit) >>= fun _ => pure (some st.1) else pure (some st.1)) =
      somePost (r.bind (walkPost isTerminal)) := by
  cases r with
  | ok st =>
    obtain ⟨v, p⟩ := st
    simp only [bind_ok, somePost, Outcome.bind, walkPost, is_terminal_eq]
    by_cases ht : isTerminal p = true
    · simp [ht]
    · simp [ht]
  | err m => rfl
  | panic m => rfl

theorem isFalse_eq (A : Arr) : Algo.Bdd_is_false A = isFalse A := rfl

/-! ## first_valuation -/

theorem first_valuation_desugar (fuel : Nat) (A : Arr) (h0 : 0 < A.size) (hs : A.size ≤ 4294967296)
    (h1 : A.size ≠ 1) :
    Algo2.Bdd_first_valuation fuel A =
      somePost ((iter (walkStep A isTerminal chooseFirst (updV false)) fuel
        (Array.replicate (numVars A) false, root A)).bind (walkPost isTerminal)) := by
  unfold Algo2.Bdd_first_valuation Algo.Bdd_is_false
  simp only [forIn_range_eq_iter, root_pointer_eq A h0 hs, num_vars_eq A h0, bind_ok, beq_iff_eq, h1, if_false]
  rw [iter_congr _ (walkStep A isTerminal chooseFirst (updV false))]
  · exact walk_tail _
  · intro ⟨v, p⟩
    simp only [walkStep, chooseFirst, updV, is_terminal_eq, is_zero_eq, low_link_eq, high_link_eq, var_of_eq, pure_eq,
      valuation_set_eq, setIdx_eq]
    by_cases ht : isTerminal p = true
    · simp [ht]
    · simp only [ht, Bool.not_not]
      cases hp : A[p]? with
      | none => rfl
      | some nd =>
        by_cases hl : nd.low = 0
        · by_cases hx : nd.var < v.size <;> simp [hl, hx, Outcome.bind]
        · simp [hl, Outcome.bind]

/-- **first_valuation, every fuel** -/
theorem Bdd_first_valuation_eq_loop (fuel : Nat) (A : Arr) (h0 : 0 < A.size) (hs : A.size ≤ 4294967296) :
    selV (Algo2.Bdd_first_valuation fuel A) = walkValF A chooseFirst false fuel := by
  by_cases h1 : A.size = 1
  · unfold Algo2.Bdd_first_valuation Algo.Bdd_is_false walkValF Select.isFalse
    simp [h1, selV]
  rw [first_valuation_desugar fuel A h0 hs h1]
  unfold walkValF Select.isFalse
  simp only [beq_iff_eq, h1, if_false]
  have := walkV_sem A isTerminal chooseFirst false fuel (root A) (Array.replicate (numVars A) false)
  rw [Array.toList_replicate] at this
  exact selV_of_rel this

/-! ## last_valuation -/

theorem last_valuation_desugar (fuel : Nat) (A : Arr) (h0 : 0 < A.size) (hs : A.size ≤ 4294967296)
    (h1 : A.size ≠ 1) :
    Algo2.Bdd_last_valuation fuel A =
      somePost ((iter (walkStep A isTerminal chooseLast (updV true)) fuel
        (Array.replicate (numVars A) true, root A)).bind (walkPost isTerminal)) := by
  unfold Algo2.Bdd_last_valuation Algo.Bdd_is_false
  simp only [forIn_range_eq_iter, root_pointer_eq A h0 hs, num_vars_eq A h0, bind_ok, beq_iff_eq, h1, if_false]
  rw [iter_congr _ (walkStep A isTerminal chooseLast (updV true))]
  · exact walk_tail _
  · intro ⟨v, p⟩
    simp only [walkStep, chooseLast, updV, is_terminal_eq, is_zero_eq, low_link_eq, high_link_eq, var_of_eq, pure_eq,
      valuation_clear_eq, setIdx_eq]
    by_cases ht : isTerminal p = true
    · simp [ht]
    · simp only [ht, Bool.not_not]
      cases hp : A[p]? with
      | none => rfl
      | some nd =>
        by_cases hl : nd.high = 0
        · by_cases hx : nd.var < v.size <;> simp [hl, hx, Outcome.bind]
        · simp [hl, Outcome.bind]

/-- **last_valuation, every fuel** -/
theorem Bdd_last_valuation_eq_loop (fuel : Nat) (A : Arr) (h0 : 0 < A.size) (hs : A.size ≤ 4294967296) :
    selV (Algo2.Bdd_last_valuation fuel A) = walkValF A chooseLast true fuel := by
  by_cases h1 : A.size = 1
  · unfold Algo2.Bdd_last_valuation Algo.Bdd_is_false walkValF Select.isFalse
    simp [h1, selV]
  rw [last_valuation_desugar fuel A h0 hs h1]
  unfold walkValF Select.isFalse
  simp only [beq_iff_eq, h1, if_false]
  have := walkV_sem A isTerminal chooseLast true fuel (root A) (Array.replicate (numVars A) true)
  rw [Array.toList_replicate] at this
  exact selV_of_rel this

/-! ## first_clause -/

theorem first_clause_desugar (fuel : Nat) (A : Arr) (h0 : 0 < A.size) (hs : A.size ≤ 4294967296)
    (h1 : A.size ≠ 1) :
    Algo2.Bdd_first_clause fuel A =
      somePost ((iter (walkStep A isTerminal chooseFirst updC) fuel (#[], root A)).bind (walkPost isTerminal)) := by
  unfold Algo2.Bdd_first_clause Algo.Bdd_is_false
  simp only [forIn_range_eq_iter, root_pointer_eq A h0 hs, bind_ok, beq_iff_eq, h1, if_false]
  rw [iter_congr _ (walkStep A isTerminal chooseFirst updC)]
  · exact walk_tail _
  · intro ⟨v, p⟩
    simp only [walkStep, chooseFirst, updC, is_terminal_eq, is_zero_eq, low_link_eq, high_link_eq, var_of_eq, pure_eq]
    by_cases ht : isTerminal p = true
    · simp [ht]
    · simp only [ht, Bool.not_not]
      cases hp : A[p]? with
      | none => rfl
      | some nd =>
        by_cases hl : nd.low = 0
        · simp [hl, Outcome.bind]
        · have hb : (nd.low == 0) = false := beq_eq_false_iff_ne.mpr hl
          simp [hl, hb, Outcome.bind]

/-- **first_clause, every fuel** -/
theorem Bdd_first_clause_eq_loop (fuel : Nat) (A : Arr) (h0 : 0 < A.size) (hs : A.size ≤ 4294967296) :
    selC (Algo2.Bdd_first_clause fuel A) = walkClauseF A chooseFirst fuel := by
  by_cases h1 : A.size = 1
  · unfold Algo2.Bdd_first_clause Algo.Bdd_is_false walkClauseF Select.isFalse
    simp [h1, selC]
  rw [first_clause_desugar fuel A h0 hs h1]
  unfold walkClauseF Select.isFalse
  simp only [beq_iff_eq, h1, if_false]
  exact selC_of_rel (walkC_sem A isTerminal chooseFirst fuel (root A))

/-! ## last_clause -/

theorem last_clause_desugar (fuel : Nat) (A : Arr) (h0 : 0 < A.size) (hs : A.size ≤ 4294967296)
    (h1 : A.size ≠ 1) :
    Algo2.Bdd_last_clause fuel A =
      somePost ((iter (walkStep A isTerminal chooseLast updC) fuel (#[], root A)).bind (walkPost isTerminal)) := by
  unfold Algo2.Bdd_last_clause Algo.Bdd_is_false
  simp only [forIn_range_eq_iter, root_pointer_eq A h0 hs, bind_ok, beq_iff_eq, h1, if_false]
  rw [iter_congr _ (walkStep A isTerminal chooseLast updC)]
  · exact walk_tail _
  · intro ⟨v, p⟩
    simp only [walkStep, chooseLast, updC, is_terminal_eq, is_zero_eq, low_link_eq, high_link_eq, var_of_eq, pure_eq]
    by_cases ht : isTerminal p = true
    · simp [ht]
    · simp only [ht, Bool.not_not]
      cases hp : A[p]? with
      | none => rfl
      | some nd =>
        by_cases hl : nd.high = 0
        · simp [hl, Outcome.bind]
        · have hb : (nd.high == 0) = false := beq_eq_false_iff_ne.mpr hl
          simp [hl, hb, Outcome.bind]

/-- **last_clause, every fuel** -/
theorem Bdd_last_clause_eq_loop (fuel : Nat) (A : Arr) (h0 : 0 < A.size) (hs : A.size ≤ 4294967296) :
    selC (Algo2.Bdd_last_clause fuel A) = walkClauseF A chooseLast fuel := by
  by_cases h1 : A.size = 1
  · unfold Algo2.Bdd_last_clause Algo.Bdd_is_false walkClauseF Select.isFalse
    simp [h1, selC]
  rw [last_clause_desugar fuel A h0 hs h1]
  unfold walkClauseF Select.isFalse
  simp only [beq_iff_eq, h1, if_false]
  exact selC_of_rel (walkC_sem A isTerminal chooseLast fuel (root A))

/-! ## translated code = hand model -/

/-- **first_valuation = hand model** (at the hand model's fuel `len`; all arrays, also malformed ones) -/
theorem Bdd_first_valuation_eq_model (A : Arr) (h0 : 0 < A.size) (hs : A.size ≤ 4294967296) :
    selV (Algo2.Bdd_first_valuation A.size A) = firstValuation A := Bdd_first_valuation_eq_loop A.size A h0 hs

theorem Bdd_last_valuation_eq_model (A : Arr) (h0 : 0 < A.size) (hs : A.size ≤ 4294967296) :
    selV (Algo2.Bdd_last_valuation A.size A) = lastValuation A := Bdd_last_valuation_eq_loop A.size A h0 hs

theorem Bdd_first_clause_eq_model (A : Arr) (h0 : 0 < A.size) (hs : A.size ≤ 4294967296) :
    selC (Algo2.Bdd_first_clause A.size A) = firstClause A := Bdd_first_clause_eq_loop A.size A h0 hs

theorem Bdd_last_clause_eq_model (A : Arr) (h0 : 0 < A.size) (hs : A.size ≤ 4294967296) :
    selC (Algo2.Bdd_last_clause A.size A) = lastClause A := Bdd_last_clause_eq_loop A.size A h0 hs

/-- whenever the hand model returns a valuation, the translated code returns it for every fuel `≥ len` -/
theorem Bdd_first_valuation_some (A : Arr) (v : Val) (h : firstValuation A = Sel.some v) (h0 : 0 < A.size)
    (hs : A.size ≤ 4294967296) (fuel : Nat) (hfuel : A.size ≤ fuel) :
    Algo2.Bdd_first_valuation fuel A = .ok (some v.toArray) :=
  selV_some ((Bdd_first_valuation_eq_loop fuel A h0 hs).trans (walkValF_mono hfuel h))

theorem Bdd_last_valuation_some (A : Arr) (v : Val) (h : lastValuation A = Sel.some v) (h0 : 0 < A.size)
    (hs : A.size ≤ 4294967296) (fuel : Nat) (hfuel : A.size ≤ fuel) :
    Algo2.Bdd_last_valuation fuel A = .ok (some v.toArray) :=
  selV_some ((Bdd_last_valuation_eq_loop fuel A h0 hs).trans (walkValF_mono hfuel h))

theorem Bdd_first_clause_some (A : Arr) (c : Clause) (h : firstClause A = Sel.some c) (h0 : 0 < A.size)
    (hs : A.size ≤ 4294967296) (fuel : Nat) (hfuel : A.size ≤ fuel) :
    Algo2.Bdd_first_clause fuel A = .ok (some c.toArray) :=
  selC_some ((Bdd_first_clause_eq_loop fuel A h0 hs).trans (walkClauseF_mono hfuel h))

theorem Bdd_last_clause_some (A : Arr) (c : Clause) (h : lastClause A = Sel.some c) (h0 : 0 < A.size)
    (hs : A.size ≤ 4294967296) (fuel : Nat) (hfuel : A.size ≤ fuel) :
    Algo2.Bdd_last_clause fuel A = .ok (some c.toArray) :=
  selC_some ((Bdd_last_clause_eq_loop fuel A h0 hs).trans (walkClauseF_mono hfuel h))

/-- the contradiction: `None`, at every fuel -/
theorem Bdd_walks_none (A : Arr) (h1 : A.size = 1) (fuel : Nat) :
    Algo2.Bdd_first_valuation fuel A = .ok none ∧ Algo2.Bdd_last_valuation fuel A = .ok none ∧
    Algo2.Bdd_first_clause fuel A = .ok none ∧ Algo2.Bdd_last_clause fuel A = .ok none := by
  unfold Algo2.Bdd_first_valuation Algo2.Bdd_last_valuation Algo2.Bdd_first_clause Algo2.Bdd_last_clause
    Algo.Bdd_is_false
  simp [h1]

/-- the empty vector is outside the hand models' domain: the Rust code panics (`num_vars()` / `len() - 1`) -/
theorem Bdd_walks_empty (fuel : Nat) :
    (∃ m, Algo2.Bdd_first_valuation fuel #[] = .panic m) ∧ (∃ m, Algo2.Bdd_last_valuation fuel #[] = .panic m) ∧
    (∃ m, Algo2.Bdd_first_clause fuel #[] = .panic m) ∧ (∃ m, Algo2.Bdd_last_clause fuel #[] = .panic m) := by
  refine ⟨⟨"index out of bounds", ?_⟩, ⟨"index out of bounds", ?_⟩, ⟨"attempt to subtract with overflow", ?_⟩,
    ⟨"attempt to subtract with overflow", ?_⟩⟩
  · unfold Algo2.Bdd_first_valuation; rw [num_vars_empty #[] rfl]; rfl
  · unfold Algo2.Bdd_last_valuation; rw [num_vars_empty #[] rfl]; rfl
  · unfold Algo2.Bdd_first_clause; rw [root_pointer_empty #[] rfl]; rfl
  · unfold Algo2.Bdd_last_clause; rw [root_pointer_empty #[] rfl]; rfl

end B.AlgoEq2Sel
