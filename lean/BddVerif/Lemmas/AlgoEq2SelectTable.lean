import BddVerif.Lemmas.AlgoEq2SelectWalk
/-!
# `most_positive_valuation`, `most_negative_valuation`, `most_fixed_clause`, `most_free_clause`:
# translated code = hand model

First phase (`for i in self.pointers().skip(2) { …; cache.push(result) }`): every iteration of the translated loop
simulates one step `tblStep` of `Select.buildTable` (`StepRel`; the index / `u16`-underflow / "Non canonical BDD."
panics of the translated code are exactly the `none`s of `stepPos`/`stepNeg`/`stepFixed`/`stepFree`), so the loop is
`buildTable` (`iterL_rel`). Second phase: the generic walk of `AlgoEq2SelectBase` with `choose = chooseTable cache`,
compared at every fuel (`tableValF`/`tableClauseF` = the hand models with the fuel of the walk as a parameter).
-/
namespace B.AlgoEq2Sel
open B B.Gen B.Select B.AlgoEqUtil

attribute [local instance 10000] Rust.monadOutcomeInline

/-- `(var_of(link) - i_var) - 1` in `u16` arithmetic with overflow checks, in continuation form -/
theorem sub_sub_k {β} (a b : Nat) (k : Nat → Outcome β) :
    (Rust.sub a b >>= fun d => Rust.sub d 1 >>= k) =
      if b < a then k (a - b - 1) else .panic "attempt to subtract with overflow" := by
  unfold Rust.sub
  by_cases h1 : b ≤ a
  · by_cases h2 : 1 ≤ a - b
    · have : b < a := by omega
      simp [h1, h2, this]
    · have : ¬ b < a := by omega
      simp [h1, h2, this]
  · have : ¬ b < a := by omega
    simp [h1, this]

/-- model step of `buildTable` -/
def tblStep (A : Arr) (step : Cache → Node → Option (Nat × Bool)) (c : Cache) (i : Nat) : Option Cache :=
  (A[i]?).bind fun nd => (step c nd).map c.push

/-- the hand models with the fuel of the second phase as a parameter -/
def tableValF (A : Arr) (step : Cache → Node → Option (Nat × Bool)) (init : Bool) (fuel : Nat) : Sel Val :=
  if Select.isFalse A then Sel.none else
  match buildTable A step with
  | Option.none => Sel.panic
  | Option.some c => walkValF A (chooseTable c) init fuel

def tableClauseF (A : Arr) (step : Cache → Node → Option (Nat × Bool)) (fuel : Nat) : Sel Clause :=
  if Select.isFalse A then Sel.none else
  match buildTable A step with
  | Option.none => Sel.panic
  | Option.some c => walkClauseF A (chooseTable c) fuel

theorem tableValF_size (A : Arr) (step : Cache → Node → Option (Nat × Bool)) (init : Bool) :
    tableValF A step init A.size = tableVal A step init := rfl

theorem tableClauseF_size (A : Arr) (step : Cache → Node → Option (Nat × Bool)) :
    tableClauseF A step A.size = tableClause A step := rfl

theorem tableValF_mono {A : Arr} {step : Cache → Node → Option (Nat × Bool)} {init : Bool} {f f' : Nat} {v : Val}
    (hle : f ≤ f') (h : tableValF A step init f = Sel.some v) : tableValF A step init f' = Sel.some v := by
  unfold tableValF at h ⊢
  cases hF : Select.isFalse A with
  | true => rw [hF] at h; cases h
  | false =>
    rw [hF] at h
    simp only [Bool.false_eq_true, if_false] at h ⊢
    cases hb : buildTable A step with
    | none => rw [hb] at h; cases h
    | some c => rw [hb] at h; exact walkValF_mono hle h

theorem tableClauseF_mono {A : Arr} {step : Cache → Node → Option (Nat × Bool)} {f f' : Nat} {v : Clause}
    (hle : f ≤ f') (h : tableClauseF A step f = Sel.some v) : tableClauseF A step f' = Sel.some v := by
  unfold tableClauseF at h ⊢
  cases hF : Select.isFalse A with
  | true => rw [hF] at h; cases h
  | false =>
    rw [hF] at h
    simp only [Bool.false_eq_true, if_false] at h ⊢
    cases hb : buildTable A step with
    | none => rw [hb] at h; cases h
    | some c => rw [hb] at h; exact walkClauseF_mono hle h

/-- `iterL_rel` with an invariant of the loop state -/
theorem iterL_rel_inv {α β γ : Type} (P : β → Prop) (g : α → β → Outcome (ForInStep β)) (f : γ → α → Option γ)
    (conv : β → γ) (xs : List α)
    (h : ∀ x, x ∈ xs → ∀ b, P b → StepRel conv (g x b) (f (conv b) x))
    (hP : ∀ x, x ∈ xs → ∀ b b', P b → f (conv b) x = some (conv b') → P b') :
    ∀ b, P b → RelO ((iterL g xs b).map conv) (xs.foldlM f (conv b)) := by
  induction xs with
  | nil => intro b _; exact RelO.ok _
  | cons x xs ih =>
    intro b hb
    rw [iterL_cons, List.foldlM_cons]
    rcases h x List.mem_cons_self b hb with ⟨b', h1, h2⟩ | ⟨⟨m, h1⟩, h2⟩
    · rw [h1, h2]
      exact ih (fun y hy => h y (List.mem_cons_of_mem _ hy)) (fun y hy => hP y (List.mem_cons_of_mem _ hy)) b'
        (hP x List.mem_cons_self b b' hb h2)
    · rw [h1, h2]
      exact RelO.panic _

theorem tblStep_size {A : Arr} {step : Cache → Node → Option (Nat × Bool)} {c c' : Cache} {i : Nat}
    (h : tblStep A step c i = some c') : c'.size = c.size + 1 := by
  unfold tblStep at h
  cases hA : A[i]? with
  | none => rw [hA] at h; cases h
  | some nd =>
    rw [hA] at h
    simp only [Option.bind_some] at h
    cases hs : step c nd with
    | none => rw [hs] at h; cases h
    | some r =>
      rw [hs] at h
      simp only [Option.map_some, Option.some.injEq] at h
      rw [← h]; simp

/-- phase one is `buildTable` (the table always holds the two terminal entries: invariant `2 ≤ size`) -/
theorem table_phase1 (A : Arr) (step : Cache → Node → Option (Nat × Bool))
    (body1 : Nat → Cache → Outcome (ForInStep Cache))
    (hstep : ∀ i, i ∈ List.range' 2 (A.size - 2) → ∀ c : Cache, 2 ≤ c.size →
      StepRel id (body1 i c) (tblStep A step c i)) :
    RelO (iterL body1 (List.range' 2 (A.size - 2))
      (((Rust.vecWithCapacity (Algo.Bdd_size A)).push (0, true)).push (0, true))) (buildTable A step) := by
  have e0 : (((Rust.vecWithCapacity (Algo.Bdd_size A)).push (0, true)).push (0, true) : Cache) =
      #[(0, true), (0, true)] := rfl
  rw [e0]
  have hrel := iterL_rel_inv (fun c : Cache => 2 ≤ c.size) body1 (tblStep A step) id _ hstep
    (fun i _ c c' hc h => by have := tblStep_size h; simp only [id] at this; omega)
    #[(0, true), (0, true)] (by simp)
  rcases relO_map_inv hrel with ⟨c, h1, h2⟩ | ⟨⟨m, h1⟩, h2⟩
  · rw [h1]; unfold buildTable; unfold tblStep at h2; simp only [id] at h2; rw [h2]; exact RelO.ok _
  · rw [h1]; unfold buildTable; unfold tblStep at h2; simp only [id] at h2; rw [h2]; exact RelO.panic _

/-- phase one is `buildTable`, phase two is whatever `rest` does with the table -/
theorem table_splitV (A : Arr) (step : Cache → Node → Option (Nat × Bool)) (init : Bool) (fuel : Nat)
    (h1 : A.size ≠ 1)
    (body1 : Nat → Cache → Outcome (ForInStep Cache)) (rest : Cache → Outcome (Option (Array Bool)))
    (hstep : ∀ i, i ∈ List.range' 2 (A.size - 2) → ∀ c : Cache, 2 ≤ c.size →
      StepRel id (body1 i c) (tblStep A step c i))
    (hrest : ∀ c, selV (rest c) = walkValF A (chooseTable c) init fuel) :
    selV (iterL body1 (List.range' 2 (A.size - 2))
      (((Rust.vecWithCapacity (Algo.Bdd_size A)).push (0, true)).push (0, true)) >>= rest) =
      tableValF A step init fuel := by
  have hrel := table_phase1 A step body1 hstep
  unfold tableValF Select.isFalse
  simp only [beq_iff_eq, h1, if_false]
  generalize iterL body1 _ _ = x at hrel ⊢
  generalize buildTable A step = y at hrel ⊢
  cases hrel with
  | ok c => exact hrest c
  | panic m => rfl

theorem table_splitC (A : Arr) (step : Cache → Node → Option (Nat × Bool)) (fuel : Nat)
    (h1 : A.size ≠ 1)
    (body1 : Nat → Cache → Outcome (ForInStep Cache)) (rest : Cache → Outcome (Option (Array (Option Bool))))
    (hstep : ∀ i, i ∈ List.range' 2 (A.size - 2) → ∀ c : Cache, 2 ≤ c.size →
      StepRel id (body1 i c) (tblStep A step c i))
    (hrest : ∀ c, selC (rest c) = walkClauseF A (chooseTable c) fuel) :
    selC (iterL body1 (List.range' 2 (A.size - 2))
      (((Rust.vecWithCapacity (Algo.Bdd_size A)).push (0, true)).push (0, true)) >>= rest) =
      tableClauseF A step fuel := by
  have hrel := table_phase1 A step body1 hstep
  unfold tableClauseF Select.isFalse
  simp only [beq_iff_eq, h1, if_false]
  generalize iterL body1 _ _ = x at hrel ⊢
  generalize buildTable A step = y at hrel ⊢
  cases hrel with
  | ok c => exact hrest c
  | panic m => rfl

/-- the final case distinction of `most_positive_valuation` / `most_negative_valuation` (L125-135, L179-189) -/
theorem final_rel (c : Cache) (l h : Nat) (g : Prop) [Decidable g] (r1 r2 : Nat × Bool) :
    StepRel id
      (if (decide (l = 0) && decide (h = 0)) = true then
          (Outcome.panic "Non canonical BDD." >>= fun result => Outcome.ok (ForInStep.yield (c.push result)))
        else if decide (l = 0) = true then .ok (.yield (c.push r1))
        else if decide (h = 0) = true then .ok (.yield (c.push r2))
        else if decide g = true then .ok (.yield (c.push r1))
        else .ok (.yield (c.push r2)))
      (Option.map c.push (if l = 0 ∧ h = 0 then none else if l = 0 then some r1 else if h = 0 then some r2
        else if g then some r1 else some r2)) := by
  by_cases hl0 : l = 0
  · by_cases hh0 : h = 0
    · simp only [hl0, hh0]
      exact Or.inr ⟨⟨_, rfl⟩, rfl⟩
    · simp only [hl0, hh0]
      exact Or.inl ⟨_, rfl, rfl⟩
  · by_cases hh0 : h = 0
    · simp only [hl0, hh0]
      exact Or.inl ⟨_, rfl, rfl⟩
    · by_cases hg : g
      · simp only [hl0, hh0, hg]
        exact Or.inl ⟨_, rfl, rfl⟩
      · simp only [hl0, hh0, hg]
        exact Or.inl ⟨_, rfl, rfl⟩

theorem ltNatBool_eq (a b : Nat × Bool) : Rust.ltNatBool a b = pairLt a b := rfl

/-! ## most_positive_valuation -/

/-- **most_positive_valuation, every fuel** -/
theorem Bdd_most_positive_valuation_eq_loop (fuel : Nat) (A : Arr) (h0 : 0 < A.size) (hs : A.size ≤ 4294967296) :
    selV (Algo2.Bdd_most_positive_valuation fuel A) = tableValF A (stepPos A) true fuel := by
  by_cases h1 : A.size = 1
  · unfold Algo2.Bdd_most_positive_valuation Algo.Bdd_is_false tableValF Select.isFalse
    simp [h1, selV]
  unfold Algo2.Bdd_most_positive_valuation Algo.Bdd_is_false
  simp only [forIn_range_eq_iter, forIn_array_eq_iterL, skip_pointers_toList A hs, root_pointer_eq A h0 hs,
    num_vars_eq A h0, bind_ok, beq_iff_eq, h1, if_false]
  refine table_splitV A (stepPos A) true fuel h1 _ _ ?_ ?_
  · intro i hi c _
    simp only [var_of_eq, low_link_eq, high_link_eq, idx_eq, Algo.BddPointer_to_index, is_zero_eq, pure_eq,
      tblStep, stepPos, linkDiff]
    cases hA : A[i]? with
    | none => exact Or.inr ⟨⟨_, rfl⟩, rfl⟩
    | some nd =>
      simp only [bind_ok, Option.bind_some, sub_sub_k]
      cases hcl : c[nd.low]? with
      | none => exact Or.inr ⟨⟨_, rfl⟩, rfl⟩
      | some el =>
        cases hAl : A[nd.low]? with
        | none => exact Or.inr ⟨⟨_, rfl⟩, rfl⟩
        | some ln =>
          simp only [bind_ok, Option.bind_some]
          by_cases hlt : nd.var < ln.var
          · simp only [hlt, if_true, Option.bind_some]
            cases hch : c[nd.high]? with
            | none => exact Or.inr ⟨⟨_, rfl⟩, rfl⟩
            | some eh =>
              cases hAh : A[nd.high]? with
              | none => exact Or.inr ⟨⟨_, rfl⟩, rfl⟩
              | some hn =>
                simp only [bind_ok, Option.bind_some]
                by_cases hht : nd.var < hn.var
                · simp only [hht, if_true, Option.bind_some]
                  exact final_rel c nd.low nd.high _ _ _
                · simp only [hht, if_false]
                  exact Or.inr ⟨⟨_, rfl⟩, rfl⟩
          · simp only [hlt, if_false]
            exact Or.inr ⟨⟨_, rfl⟩, rfl⟩
  · intro c
    rw [iter_congr _ (walkStep A isTerminal (chooseTable c) (updV true))]
    · rw [walk_tail]
      have := walkV_sem A isTerminal (chooseTable c) true fuel (root A) (Array.replicate (numVars A) true)
      rw [Array.toList_replicate] at this
      unfold walkValF Select.isFalse
      simp only [beq_iff_eq, h1, if_false]
      exact selV_of_rel this
    · intro ⟨v, p⟩
      simp only [walkStep, chooseTable, updV, is_terminal_eq, low_link_eq, high_link_eq, var_of_eq, pure_eq,
        valuation_clear_eq, setIdx_eq, idx_eq, Algo.BddPointer_to_index]
      by_cases ht : isTerminal p = true
      · simp [ht]
      · simp only [ht, Bool.not_not]
        cases hp : A[p]? with
        | none => cases hc : c[p]? <;> simp
        | some nd =>
          cases hc : c[p]? with
          | none => rfl
          | some e =>
            obtain ⟨m, ch⟩ := e
            cases ch with
            | true => simp [Outcome.bind]
            | false => by_cases hx : nd.var < v.size <;> simp [hx, Outcome.bind]

/-! ## most_negative_valuation -/

/-- **most_negative_valuation, every fuel** -/
theorem Bdd_most_negative_valuation_eq_loop (fuel : Nat) (A : Arr) (h0 : 0 < A.size) (hs : A.size ≤ 4294967296) :
    selV (Algo2.Bdd_most_negative_valuation fuel A) = tableValF A (stepNeg A) false fuel := by
  by_cases h1 : A.size = 1
  · unfold Algo2.Bdd_most_negative_valuation Algo.Bdd_is_false tableValF Select.isFalse
    simp [h1, selV]
  unfold Algo2.Bdd_most_negative_valuation Algo.Bdd_is_false
  simp only [forIn_range_eq_iter, forIn_array_eq_iterL, skip_pointers_toList A hs, root_pointer_eq A h0 hs,
    num_vars_eq A h0, bind_ok, beq_iff_eq, h1, if_false]
  refine table_splitV A (stepNeg A) false fuel h1 _ _ ?_ ?_
  · intro i hi c _
    simp only [var_of_eq, low_link_eq, high_link_eq, idx_eq, Algo.BddPointer_to_index, is_zero_eq, pure_eq,
      tblStep, stepNeg, linkDiff]
    cases hA : A[i]? with
    | none => exact Or.inr ⟨⟨_, rfl⟩, rfl⟩
    | some nd =>
      simp only [bind_ok, Option.bind_some, sub_sub_k]
      cases hcl : c[nd.low]? with
      | none => exact Or.inr ⟨⟨_, rfl⟩, rfl⟩
      | some el =>
        cases hAl : A[nd.low]? with
        | none => exact Or.inr ⟨⟨_, rfl⟩, rfl⟩
        | some ln =>
          simp only [bind_ok, Option.bind_some]
          by_cases hlt : nd.var < ln.var
          · simp only [hlt, if_true, Option.bind_some]
            cases hch : c[nd.high]? with
            | none => exact Or.inr ⟨⟨_, rfl⟩, rfl⟩
            | some eh =>
              cases hAh : A[nd.high]? with
              | none => exact Or.inr ⟨⟨_, rfl⟩, rfl⟩
              | some hn =>
                simp only [bind_ok, Option.bind_some]
                by_cases hht : nd.var < hn.var
                · simp only [hht, if_true, Option.bind_some]
                  exact final_rel c nd.low nd.high _ _ _
                · simp only [hht, if_false]
                  exact Or.inr ⟨⟨_, rfl⟩, rfl⟩
          · simp only [hlt, if_false]
            exact Or.inr ⟨⟨_, rfl⟩, rfl⟩
  · intro c
    rw [iter_congr _ (walkStep A isTerminal (chooseTable c) (updV false))]
    · rw [walk_tail]
      have := walkV_sem A isTerminal (chooseTable c) false fuel (root A) (Array.replicate (numVars A) false)
      rw [Array.toList_replicate] at this
      unfold walkValF Select.isFalse
      simp only [beq_iff_eq, h1, if_false]
      exact selV_of_rel this
    · intro ⟨v, p⟩
      simp only [walkStep, chooseTable, updV, is_terminal_eq, low_link_eq, high_link_eq, var_of_eq, pure_eq,
        valuation_set_eq, setIdx_eq, idx_eq, Algo.BddPointer_to_index]
      by_cases ht : isTerminal p = true
      · simp [ht]
      · simp only [ht, Bool.not_not]
        cases hp : A[p]? with
        | none => cases hc : c[p]? <;> simp
        | some nd =>
          cases hc : c[p]? with
          | none => rfl
          | some e =>
            obtain ⟨m, ch⟩ := e
            cases ch with
            | true => by_cases hx : nd.var < v.size <;> simp [hx, Outcome.bind]
            | false => simp [Outcome.bind]

/-! ## most_fixed_clause -/

/-- second phase of the two clause selectors: the hand-written walk -/
theorem clause_phase2 (A : Arr) (c : Cache) (fuel : Nat) (h1 : A.size ≠ 1)
    (body2 : Array (Option Bool) × Nat → Outcome (ForInStep (Array (Option Bool) × Nat)))
    (hbody : ∀ st, body2 st = walkStep A isTerminal (chooseTable c) updC st) :
    selC (iter body2 fuel (Algo.BddPartialValuation_empty, root A) >>= fun st =>
        if (!Algo.BddPointer_is_terminal st.2) = true
        then (Outcome.panic "fuel" : Outcome PUnit) >>= fun _ => pure (some st.1) else pure (some st.1)) =
      walkClauseF A (chooseTable c) fuel := by
  rw [iter_congr _ _ hbody, walk_tail]
  unfold walkClauseF Select.isFalse
  simp only [beq_iff_eq, h1, if_false]
  exact selC_of_rel (walkC_sem A isTerminal (chooseTable c) fuel (root A))

/-- **most_fixed_clause, every fuel** -/
theorem Bdd_most_fixed_clause_eq_loop (fuel : Nat) (A : Arr) (h0 : 0 < A.size) (hs : A.size ≤ 4294967296) :
    selC (Algo2.Bdd_most_fixed_clause fuel A) = tableClauseF A stepFixed fuel := by
  by_cases h1 : A.size = 1
  · unfold Algo2.Bdd_most_fixed_clause Algo.Bdd_is_false tableClauseF Select.isFalse
    simp [h1, selC]
  unfold Algo2.Bdd_most_fixed_clause Algo.Bdd_is_false
  simp only [forIn_range_eq_iter, forIn_array_eq_iterL, skip_pointers_toList A hs, root_pointer_eq A h0 hs,
    bind_ok, beq_iff_eq, h1, if_false]
  refine table_splitC A stepFixed fuel h1 _ _ ?_ ?_
  · intro i hi c hc2
    simp only [low_link_eq, high_link_eq, idx_eq, Algo.BddPointer_to_index, is_zero_eq, pure_eq,
      tblStep, stepFixed, ltNatBool_eq]
    cases hA : A[i]? with
    | none => exact Or.inr ⟨⟨_, rfl⟩, rfl⟩
    | some nd =>
      simp only [bind_ok, Option.bind_some]
      obtain ⟨e0, he0⟩ : ∃ e, c[0]? = some e := ⟨c[0], Array.getElem?_eq_getElem (by omega)⟩
      by_cases hl0 : nd.low = 0
      · by_cases hh0 : nd.high = 0
        · simp only [hl0, hh0, he0, bind_ok]
          exact Or.inr ⟨⟨_, rfl⟩, rfl⟩
        · simp only [hl0, hh0, he0, bind_ok]
          cases hch : c[nd.high]? with
          | none => exact Or.inr ⟨⟨_, rfl⟩, rfl⟩
          | some eh => exact Or.inl ⟨_, rfl, rfl⟩
      · by_cases hh0 : nd.high = 0
        · simp only [hl0, hh0, he0, bind_ok]
          cases hcl : c[nd.low]? with
          | none => exact Or.inr ⟨⟨_, rfl⟩, rfl⟩
          | some el => exact Or.inl ⟨_, rfl, rfl⟩
        · simp only [hl0, hh0]
          cases hcl : c[nd.low]? with
          | none => cases hch : c[nd.high]? <;> exact Or.inr ⟨⟨_, rfl⟩, rfl⟩
          | some el =>
            cases hch : c[nd.high]? with
            | none => exact Or.inr ⟨⟨_, rfl⟩, rfl⟩
            | some eh =>
              simp only [bind_ok, Option.bind_some, Option.map_some]
              by_cases hlt : pairLt el eh = true
              · simp only [hlt]; exact Or.inl ⟨_, rfl, rfl⟩
              · simp only [hlt]; exact Or.inl ⟨_, rfl, rfl⟩
  · intro c
    refine clause_phase2 A c fuel h1 _ ?_
    intro ⟨v, p⟩
    simp only [walkStep, chooseTable, updC, is_terminal_eq, low_link_eq, high_link_eq, var_of_eq, pure_eq,
      idx_eq, Algo.BddPointer_to_index]
    by_cases ht : isTerminal p = true
    · simp [ht]
    · simp only [ht, Bool.not_not]
      cases hp : A[p]? with
      | none => cases hc : c[p]? <;> simp
      | some nd =>
        cases hc : c[p]? with
        | none => rfl
        | some e =>
          obtain ⟨m, ch⟩ := e
          cases ch <;> simp [Outcome.bind]

/-! ## most_free_clause -/

/-- **most_free_clause, every fuel** -/
theorem Bdd_most_free_clause_eq_loop (fuel : Nat) (A : Arr) (h0 : 0 < A.size) (hs : A.size ≤ 4294967296) :
    selC (Algo2.Bdd_most_free_clause fuel A) = tableClauseF A stepFree fuel := by
  by_cases h1 : A.size = 1
  · unfold Algo2.Bdd_most_free_clause Algo.Bdd_is_false tableClauseF Select.isFalse
    simp [h1, selC]
  unfold Algo2.Bdd_most_free_clause Algo.Bdd_is_false
  simp only [forIn_range_eq_iter, forIn_array_eq_iterL, skip_pointers_toList A hs, root_pointer_eq A h0 hs,
    bind_ok, beq_iff_eq, h1, if_false]
  refine table_splitC A stepFree fuel h1 _ _ ?_ ?_
  · intro i hi c hc2
    simp only [low_link_eq, high_link_eq, idx_eq, Algo.BddPointer_to_index, is_zero_eq, pure_eq,
      tblStep, stepFree, ltNatBool_eq]
    cases hA : A[i]? with
    | none => exact Or.inr ⟨⟨_, rfl⟩, rfl⟩
    | some nd =>
      simp only [bind_ok, Option.bind_some]
      obtain ⟨e0, he0⟩ : ∃ e, c[0]? = some e := ⟨c[0], Array.getElem?_eq_getElem (by omega)⟩
      by_cases hl0 : nd.low = 0
      · by_cases hh0 : nd.high = 0
        · simp only [hl0, hh0, he0, bind_ok]
          exact Or.inr ⟨⟨_, rfl⟩, rfl⟩
        · simp only [hl0, hh0, he0, bind_ok]
          cases hch : c[nd.high]? with
          | none => exact Or.inr ⟨⟨_, rfl⟩, rfl⟩
          | some eh => exact Or.inl ⟨_, rfl, rfl⟩
      · by_cases hh0 : nd.high = 0
        · simp only [hl0, hh0, he0, bind_ok]
          cases hcl : c[nd.low]? with
          | none => exact Or.inr ⟨⟨_, rfl⟩, rfl⟩
          | some el => exact Or.inl ⟨_, rfl, rfl⟩
        · simp only [hl0, hh0]
          cases hcl : c[nd.low]? with
          | none => cases hch : c[nd.high]? <;> exact Or.inr ⟨⟨_, rfl⟩, rfl⟩
          | some el =>
            cases hch : c[nd.high]? with
            | none => exact Or.inr ⟨⟨_, rfl⟩, rfl⟩
            | some eh =>
              simp only [bind_ok, Option.bind_some, Option.map_some]
              by_cases hlt : pairLt eh el = true
              · simp only [hlt]; exact Or.inl ⟨_, rfl, rfl⟩
              · simp only [hlt]; exact Or.inl ⟨_, rfl, rfl⟩
  · intro c
    refine clause_phase2 A c fuel h1 _ ?_
    intro ⟨v, p⟩
    simp only [walkStep, chooseTable, updC, is_terminal_eq, low_link_eq, high_link_eq, var_of_eq, pure_eq,
      idx_eq, Algo.BddPointer_to_index]
    by_cases ht : isTerminal p = true
    · simp [ht]
    · simp only [ht, Bool.not_not]
      cases hp : A[p]? with
      | none => cases hc : c[p]? <;> simp
      | some nd =>
        cases hc : c[p]? with
        | none => rfl
        | some e =>
          obtain ⟨m, ch⟩ := e
          cases ch <;> simp [Outcome.bind]

/-! ## translated code = hand model -/

/-- **most_positive_valuation = hand model** (at the hand model's fuel `len`; all arrays, also malformed ones) -/
theorem Bdd_most_positive_valuation_eq_model (A : Arr) (h0 : 0 < A.size) (hs : A.size ≤ 4294967296) :
    selV (Algo2.Bdd_most_positive_valuation A.size A) = mostPositiveValuation A :=
  Bdd_most_positive_valuation_eq_loop A.size A h0 hs

theorem Bdd_most_negative_valuation_eq_model (A : Arr) (h0 : 0 < A.size) (hs : A.size ≤ 4294967296) :
    selV (Algo2.Bdd_most_negative_valuation A.size A) = mostNegativeValuation A :=
  Bdd_most_negative_valuation_eq_loop A.size A h0 hs

theorem Bdd_most_fixed_clause_eq_model (A : Arr) (h0 : 0 < A.size) (hs : A.size ≤ 4294967296) :
    selC (Algo2.Bdd_most_fixed_clause A.size A) = mostFixedClause A :=
  Bdd_most_fixed_clause_eq_loop A.size A h0 hs

theorem Bdd_most_free_clause_eq_model (A : Arr) (h0 : 0 < A.size) (hs : A.size ≤ 4294967296) :
    selC (Algo2.Bdd_most_free_clause A.size A) = mostFreeClause A :=
  Bdd_most_free_clause_eq_loop A.size A h0 hs

/-- whenever the hand model returns a valuation, the translated code returns it for every fuel `≥ len` -/
theorem Bdd_most_positive_valuation_some (A : Arr) (v : Val) (h : mostPositiveValuation A = Sel.some v)
    (h0 : 0 < A.size) (hs : A.size ≤ 4294967296) (fuel : Nat) (hfuel : A.size ≤ fuel) :
    Algo2.Bdd_most_positive_valuation fuel A = .ok (some v.toArray) :=
  selV_some ((Bdd_most_positive_valuation_eq_loop fuel A h0 hs).trans (tableValF_mono hfuel h))

theorem Bdd_most_negative_valuation_some (A : Arr) (v : Val) (h : mostNegativeValuation A = Sel.some v)
    (h0 : 0 < A.size) (hs : A.size ≤ 4294967296) (fuel : Nat) (hfuel : A.size ≤ fuel) :
    Algo2.Bdd_most_negative_valuation fuel A = .ok (some v.toArray) :=
  selV_some ((Bdd_most_negative_valuation_eq_loop fuel A h0 hs).trans (tableValF_mono hfuel h))

theorem Bdd_most_fixed_clause_some (A : Arr) (c : Clause) (h : mostFixedClause A = Sel.some c)
    (h0 : 0 < A.size) (hs : A.size ≤ 4294967296) (fuel : Nat) (hfuel : A.size ≤ fuel) :
    Algo2.Bdd_most_fixed_clause fuel A = .ok (some c.toArray) :=
  selC_some ((Bdd_most_fixed_clause_eq_loop fuel A h0 hs).trans (tableClauseF_mono hfuel h))

theorem Bdd_most_free_clause_some (A : Arr) (c : Clause) (h : mostFreeClause A = Sel.some c)
    (h0 : 0 < A.size) (hs : A.size ≤ 4294967296) (fuel : Nat) (hfuel : A.size ≤ fuel) :
    Algo2.Bdd_most_free_clause fuel A = .ok (some c.toArray) :=
  selC_some ((Bdd_most_free_clause_eq_loop fuel A h0 hs).trans (tableClauseF_mono hfuel h))

/-- the contradiction: `None`, at every fuel -/
theorem Bdd_tables_none (A : Arr) (h1 : A.size = 1) (fuel : Nat) :
    Algo2.Bdd_most_positive_valuation fuel A = .ok none ∧ Algo2.Bdd_most_negative_valuation fuel A = .ok none ∧
    Algo2.Bdd_most_fixed_clause fuel A = .ok none ∧ Algo2.Bdd_most_free_clause fuel A = .ok none := by
  unfold Algo2.Bdd_most_positive_valuation Algo2.Bdd_most_negative_valuation Algo2.Bdd_most_fixed_clause
    Algo2.Bdd_most_free_clause Algo.Bdd_is_false
  simp [h1]

end B.AlgoEq2Sel
