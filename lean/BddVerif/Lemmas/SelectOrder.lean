import BddVerif.Lemmas.SelectWalk
/-!
The order used in the C11 statements is core Lean's lexicographic order on `List Bool` (`false < true`),
i.e. the derived `Ord` of `BddValuation(Vec<bool>)`: variable 0 is the most significant position.
-/
namespace B.Select

instance : Std.Asymm (fun a b : Bool => a < b) := ⟨by decide⟩
instance : Std.Trichotomous (fun a b : Bool => a < b) := ⟨by decide⟩

theorem lexLe_iff_le : ∀ v w : List Bool, lexLe v w = true ↔ v ≤ w := by
  intro v
  induction v with
  | nil => intro w; simp [lexLe]
  | cons a as ih =>
    intro w
    cases w with
    | nil => simp [lexLe]
    | cons b bs =>
      rw [List.cons_le_cons_iff, ← ih bs]
      simp only [lexLe, Bool.or_eq_true, Bool.and_eq_true, Bool.not_eq_true', beq_iff_eq]
      cases a <;> cases b <;> simp <;> decide

/-- from the order on valuation functions to the order on lists of equal length -/
theorem le_of_LexLe {v w : List Bool} (hlen : v.length = w.length) (h : LexLe (fn v) (fn w) 0 v.length) : v ≤ w := by
  rw [← lexLe_iff_le]
  exact lexLe_of_LexLe v w (fn v) (fn w) 0 hlen (by intro j _; simp [fn]) (by intro j _; simp [fn]) h

end B.Select
