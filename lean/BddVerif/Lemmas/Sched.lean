import BddVerif.Model.Sched
/-!
Helper lemmas for C19 about the scheduling model `Model/Sched.lean`: the per-thread invariant
"what is still to do, run sequentially from the locals reached so far, gives the sequential result",
its preservation by any step of any thread, and the bookkeeping of how much is left to do.
-/
namespace B.Sched

variable {Op Val S : Type}

theorem upd_same {α : Type} (g : Nat → α) (i : Nat) (a : α) : upd g i a i = a := by simp [upd]

theorem upd_other {α : Type} (g : Nat → α) (i j : Nat) (a : α) (h : j ≠ i) : upd g i a j = g j := by
  simp [upd, h]

theorem seqGo_prefix (f : Op → List Val → Val) (pool : List Val) (p : Prog Op) :
    ∀ loc : Locals Val, loc <+: seqGo f pool p loc := by
  induction p with
  | nil => intro loc; exact List.prefix_refl _
  | cons ins rest ih =>
    intro loc
    exact List.IsPrefix.trans (List.prefix_append loc _) (ih _)

theorem seqGo_length (f : Op → List Val → Val) (pool : List Val) (p : Prog Op) :
    ∀ loc : Locals Val, (seqGo f pool p loc).length = loc.length + p.length := by
  induction p with
  | nil => intro loc; simp [seqGo]
  | cons ins rest ih => intro loc; simp [seqGo, ih]; omega

theorem runSeq_length (f : Op → List Val → Val) (pool : List Val) (p : Prog Op) :
    (runSeq f p pool).length = p.length := by
  simp [runSeq, seqGo_length]

/-- the invariant of the interleaved execution w.r.t. the sequential reference -/
structure Inv (f : Op → List Val → Val) (progs : Nat → Prog Op) (pool : List Val) (w : World Op Val S) : Prop where
  pool_eq : w.pool = pool
  thread : ∀ i, seqGo f pool (w.threads i).todo (w.threads i).locals = runSeq f (progs i) pool

theorem inv_init (f : Op → List Val → Val) (progs : Nat → Prog Op) (pool : List Val) (s0 : S) :
    Inv f progs pool (init progs pool s0 : World Op Val S) :=
  ⟨rfl, fun _ => rfl⟩

theorem step_pool (sem : Sem Op Val S) (w : World Op Val S) (i : Nat) : (step sem w i).pool = w.pool := by
  unfold step
  split
  · rfl
  · split <;> rfl

/-- a step of thread `i` leaves every other thread alone -/
theorem step_other (sem : Sem Op Val S) (w : World Op Val S) (i j : Nat) (h : j ≠ i) :
    (step sem w i).threads j = w.threads j := by
  unfold step
  split
  · rfl
  · split <;> simp [upd_other _ _ _ _ h]

/-- what a step does to the stepping thread, under transparency -/
theorem step_self (sem : Sem Op Val S) (f : Op → List Val → Val) (ht : Transparent sem f)
    (w : World Op Val S) (i : Nat) (ins : Instr Op) (rest : Prog Op) (h : (w.threads i).todo = ins :: rest) :
    (step sem w i).threads i = ⟨rest, (w.threads i).locals ++ [execPure f w.pool (w.threads i).locals ins]⟩ := by
  unfold step
  rw [h]
  simp only [execPure]
  cases hop : operands w.pool (w.threads i).locals ins with
  | none => simp [upd_same]
  | some vs => simp [upd_same, ht ins.op vs w.hidden]

theorem step_done (sem : Sem Op Val S) (w : World Op Val S) (i : Nat) (h : (w.threads i).todo = []) :
    step sem w i = w := by
  unfold step; rw [h]

theorem inv_step (sem : Sem Op Val S) (f : Op → List Val → Val) (ht : Transparent sem f)
    (progs : Nat → Prog Op) (pool : List Val) (w : World Op Val S) (i : Nat)
    (hw : Inv f progs pool w) : Inv f progs pool (step sem w i) := by
  refine ⟨by rw [step_pool, hw.pool_eq], fun j => ?_⟩
  by_cases hj : j = i
  · subst hj
    cases htodo : (w.threads j).todo with
    | nil => rw [step_done sem w j htodo]; exact hw.thread j
    | cons ins rest =>
      rw [step_self sem f ht w j ins rest htodo]
      have := hw.thread j
      rw [htodo, seqGo, ← hw.pool_eq] at this
      rw [← hw.pool_eq]; exact this
  · rw [step_other sem w i j hj]; exact hw.thread j

theorem inv_runFrom (sem : Sem Op Val S) (f : Op → List Val → Val) (ht : Transparent sem f)
    (progs : Nat → Prog Op) (pool : List Val) (sched : Schedule) :
    ∀ w : World Op Val S, Inv f progs pool w → Inv f progs pool (runFrom sem w sched) := by
  induction sched with
  | nil => intro w hw; exact hw
  | cons i rest ih => intro w hw; exact ih _ (inv_step sem f ht progs pool w i hw)

/-- how much thread `j` still has to do after one step of thread `i` -/
theorem step_todo_length (sem : Sem Op Val S) (w : World Op Val S) (i j : Nat) :
    ((step sem w i).threads j).todo.length = (w.threads j).todo.length - (if i = j then 1 else 0) := by
  by_cases hj : j = i
  · subst hj
    unfold step
    split
    · next h => simp [h]
    · next ins rest h => split <;> simp [upd_same, h]
  · rw [step_other sem w i j hj]
    have : ¬ i = j := fun h => hj h.symm
    simp [this]

theorem runFrom_todo_length (sem : Sem Op Val S) (sched : Schedule) (j : Nat) :
    ∀ w : World Op Val S,
      ((runFrom sem w sched).threads j).todo.length = (w.threads j).todo.length - sched.count j := by
  induction sched with
  | nil => intro w; simp [runFrom]
  | cons i rest ih =>
    intro w
    rw [runFrom, ih, step_todo_length, List.count_cons]
    by_cases h : i = j
    · simp [h]; omega
    · simp [h]

theorem runFrom_pool (sem : Sem Op Val S) (sched : Schedule) :
    ∀ w : World Op Val S, (runFrom sem w sched).pool = w.pool := by
  induction sched with
  | nil => intro w; rfl
  | cons i rest ih => intro w; rw [runFrom, ih, step_pool]

end B.Sched
