import BddVerif.Drive.C03
import BddVerif.Drive.C06
import BddVerif.Lemmas.SupportCongr
/-!
Bridge from `Lemmas/SupportCongr.lean` to the enumeration functions the drivers C03 and C06 actually run on
wide diagrams: their valuations are the numbered overlays `overlayIdx`, so the compression theorems apply to
them as they stand. (Separate file because the drivers import `Gen.OpTables`; only definitional unfolding of
`valOn`, `bitOf`, `posIn`, `ttC` is used — nothing of the regenerated tables.)
-/
namespace B.SupportCongr
open B B.Drive

/-- `Drive.C03.valOn` is the numbered overlay -/
theorem c03_valOn_eq (U : List Nat) (i : Nat) (bg : Nat → Bool) : C03.valOn U i bg = overlayIdx bg U i := rfl

theorem c06_bitOf_eq (m i k : Nat) : C06.bitOf m i k = bitMSB m i k := rfl

theorem c06_posIn_eq (R : Array Nat) (x : Nat) : C06.posIn R x = R.toList.idxOf? x := by
  cases R with | mk l => simp [C06.posIn, List.idxOf?]

/-- the compressed table of `Drive.C06` lists the values on the numbered overlays of the all-false background -/
theorem c06_ttC_eq (X : Arr) (R : Array Nat) :
    C06.ttC X R = (Array.range (2 ^ R.size)).map fun i => evalArr X (overlayIdx (fun _ => false) R.toList i) := by
  cases R with | mk l =>
  unfold C06.ttC
  simp only [C06.posIn, List.findIdx?_toArray, List.size_toArray]
  rfl

/-- C03: agreement on `valOn U i bg` for all `i < 2^|U|` under ONE background decides equality of the functions -/
theorem c03_valOn_sound {A B : Arr} {U : List Nat}
    (hA : ∀ x ∈ supportSet A, x ∈ U) (hB : ∀ x ∈ supportSet B, x ∈ U) (bg : Nat → Bool)
    (hcmp : ∀ i, i < 2 ^ U.length → evalArr A (C03.valOn U i bg) = evalArr B (C03.valOn U i bg)) :
    ∀ v, evalArr A v = evalArr B v :=
  compress_evalArr_eq_idx hA hB bg hcmp

/-- C06: equal compressed tables over relevant variables containing both supports = equal functions -/
theorem c06_ttC_sound {X Y : Arr} {R : Array Nat}
    (hX : ∀ x ∈ supportSet X, x ∈ R.toList) (hY : ∀ x ∈ supportSet Y, x ∈ R.toList)
    (h : C06.ttC X R = C06.ttC Y R) : ∀ v, evalArr X v = evalArr Y v := by
  apply compress_evalArr_eq_idx hX hY (fun _ => false)
  intro i hi
  rw [c06_ttC_eq, c06_ttC_eq] at h
  have hi' : i < 2 ^ R.size := by simpa using hi
  have := congrArg (fun t : Array Bool => t[i]?) h
  simpa [hi'] using this

/-- … and conversely -/
theorem c06_ttC_complete {X Y : Arr} (R : Array Nat) (h : ∀ v, evalArr X v = evalArr Y v) :
    C06.ttC X R = C06.ttC Y R := by
  rw [c06_ttC_eq, c06_ttC_eq]; simp [h]

end B.SupportCongr

#print axioms B.SupportCongr.c03_valOn_eq
#print axioms B.SupportCongr.c06_bitOf_eq
#print axioms B.SupportCongr.c06_posIn_eq
#print axioms B.SupportCongr.c06_ttC_eq
#print axioms B.SupportCongr.c03_valOn_sound
#print axioms B.SupportCongr.c06_ttC_sound
#print axioms B.SupportCongr.c06_ttC_complete
