import BddVerif.Gen.Algo
import BddVerif.Model.Apply
/-!
# Equivalence "translated Rust = hand-written model": shared plumbing for the `_impl_util.rs` functions

The generated definitions of `Gen/Algo.lean` are `do` blocks in the `Outcome` monad (with the inlined instance
`Rust.monadOutcomeInline`). This file provides

* `iter g n b` — run the loop body `g` at most `n` times from the state `b`, stopping at `ForInStep.done`
  (what `for _ in [0:n] do …` means), `iterL` — the same over a list of items (`for x in xs do …`);
* the bridging lemmas `forIn_range_eq_iter`, `forIn_range_eq_iterL`, `forIn_array_eq_iterL` (any body);
* `iter_congr`/`iterL_congr`: replace the body by a pointwise equal, hand-written step function — this is how
  every "desugaring lemma" of the `AlgoEqUtil*` files is proved *against the generated definition* (the generated
  text is never copied: the files only mention `B.Gen.Algo.<fn>`);
* the small accessors (`Bdd_root_pointer`, `Bdd_low_link_of`, …) in closed form;
* `RelE`: "same result up to the error message" between `Outcome (Except String α)` (generated: a Rust `Result`
  inside the panic monad) and the hand models' `Outcome α` (`err` = returned `Err`).
-/
namespace B.AlgoEqUtil
open B B.Gen

attribute [local instance 10000] Rust.monadOutcomeInline

/-! ### the monad operations of the generated code, evaluated -/

@[simp] theorem bind_ok {α β} (a : α) (f : α → Outcome β) : (Outcome.ok a >>= f) = f a := rfl
@[simp] theorem bind_panic {α β} (m : String) (f : α → Outcome β) : (Outcome.panic m >>= f) = .panic m := rfl
@[simp] theorem bind_err {α β} (m : String) (f : α → Outcome β) : (Outcome.err m >>= f) = .err m := rfl
@[simp] theorem pure_eq {α} (a : α) : (pure a : Outcome α) = .ok a := rfl

/-- the inlined `bind` is `Outcome.bind` -/
theorem bind_eq {α β} (x : Outcome α) (f : α → Outcome β) : (x >>= f) = x.bind f := by
  cases x <;> rfl

/-! ### bounded iteration -/

/-- run the loop body `g` at most `n` times from `b`; `done` leaves the loop -/
def iter {β} (g : β → Outcome (ForInStep β)) : Nat → β → Outcome β
  | 0, b => .ok b
  | n + 1, b =>
    match g b with
    | .ok (.done b') => .ok b'
    | .ok (.yield b') => iter g n b'
    | .err m => .err m
    | .panic m => .panic m

theorem iter_zero {β} (g : β → Outcome (ForInStep β)) (b : β) : iter g 0 b = .ok b := rfl

theorem iter_succ {β} (g : β → Outcome (ForInStep β)) (n : Nat) (b : β) :
    iter g (n + 1) b =
      match g b with
      | .ok (.done b') => .ok b'
      | .ok (.yield b') => iter g n b'
      | .err m => .err m
      | .panic m => .panic m := rfl

theorem iter_congr {β} (g g' : β → Outcome (ForInStep β)) (h : ∀ b, g b = g' b) (n : Nat) (b : β) :
    iter g n b = iter g' n b := by
  have : g = g' := funext h
  rw [this]

/-- the same over a list of loop items -/
def iterL {α β} (g : α → β → Outcome (ForInStep β)) : List α → β → Outcome β
  | [], b => .ok b
  | x :: xs, b =>
    match g x b with
    | .ok (.done b') => .ok b'
    | .ok (.yield b') => iterL g xs b'
    | .err m => .err m
    | .panic m => .panic m

theorem iterL_nil {α β} (g : α → β → Outcome (ForInStep β)) (b : β) : iterL g [] b = .ok b := rfl

theorem iterL_cons {α β} (g : α → β → Outcome (ForInStep β)) (x : α) (xs : List α) (b : β) :
    iterL g (x :: xs) b =
      match g x b with
      | .ok (.done b') => .ok b'
      | .ok (.yield b') => iterL g xs b'
      | .err m => .err m
      | .panic m => .panic m := rfl

theorem iterL_congr {α β} (g g' : α → β → Outcome (ForInStep β)) (xs : List α)
    (h : ∀ x, x ∈ xs → ∀ b, g x b = g' x b) (b : β) : iterL g xs b = iterL g' xs b := by
  induction xs generalizing b with
  | nil => rfl
  | cons x xs ih =>
    rw [iterL_cons, iterL_cons, h x (List.mem_cons_self) b]
    cases g' x b with
    | ok st =>
      cases st with
      | done b' => rfl
      | yield b' => exact ih (fun y hy => h y (List.mem_cons_of_mem _ hy)) b'
    | err m => rfl
    | panic m => rfl

theorem forIn_list_eq_iterL {α β} (g : α → β → Outcome (ForInStep β)) (xs : List α) (init : β) :
    forIn xs init g = iterL g xs init := by
  induction xs generalizing init with
  | nil => rfl
  | cons x xs ih =>
    rw [List.forIn_cons, iterL_cons]
    cases g x init with
    | ok st => cases st <;> simp [ih]
    | err m => rfl
    | panic m => rfl

theorem iterL_range'_eq_iter {β} (g : β → Outcome (ForInStep β)) (n s : Nat) (init : β) :
    iterL (fun _ => g) (List.range' s n) init = iter g n init := by
  induction n generalizing s init with
  | zero => rfl
  | succ n ih =>
    rw [List.range'_succ, iterL_cons, iter_succ]
    cases g init with
    | ok st => cases st <;> simp [ih]
    | err m => rfl
    | panic m => rfl

/-- `for _ in [0:fuel] do body` is `iter body fuel` -/
theorem forIn_range_eq_iter {β} (fuel : Nat) (init : β) (g : β → Outcome (ForInStep β)) :
    forIn [0:fuel] init (fun _ => g) = iter g fuel init := by
  rw [Std.Legacy.Range.forIn_eq_forIn_range']
  simp only [Std.Legacy.Range.size, Nat.sub_zero, Nat.add_sub_cancel, Nat.div_one]
  rw [forIn_list_eq_iterL]
  exact iterL_range'_eq_iter g fuel 0 init

/-- `for i in [lo:hi] do body i` -/
theorem forIn_range_eq_iterL {β} (lo hi : Nat) (init : β) (g : Nat → β → Outcome (ForInStep β)) :
    forIn [lo:hi] init g = iterL g (List.range' lo (hi - lo)) init := by
  rw [Std.Legacy.Range.forIn_eq_forIn_range']
  simp only [Std.Legacy.Range.size, Nat.add_sub_cancel, Nat.div_one]
  rw [forIn_list_eq_iterL]

/-- `for x in arr do body x` -/
theorem forIn_array_eq_iterL {α β} (arr : Array α) (init : β) (g : α → β → Outcome (ForInStep β)) :
    forIn arr init g = iterL g arr.toList init := by
  rw [← Array.forIn_toList, forIn_list_eq_iterL]

/-- a loop body that never leaves the loop and never fails is a fold -/
theorem iterL_pure {α β} (f : β → α → β) (xs : List α) (b : β) :
    iterL (fun x b => Outcome.ok (ForInStep.yield (f b x))) xs b = .ok (xs.foldl f b) := by
  induction xs generalizing b with
  | nil => rfl
  | cons x xs ih => rw [iterL_cons]; exact ih _

/-! ### accessors in closed form -/

theorem asU32_of_lt {x : Nat} (h : x < 4294967296) : Rust.asU32 x = x := Nat.mod_eq_of_lt h

theorem root_pointer_eq (A : Arr) (h0 : 0 < A.size) (hs : A.size ≤ 4294967296) :
    Algo.Bdd_root_pointer A = .ok (root A) := by
  unfold Algo.Bdd_root_pointer Rust.sub Algo.BddPointer_from_index root
  have : 1 ≤ A.size := h0
  simp only [this, if_true, bind_ok, pure_eq]
  rw [asU32_of_lt (by omega)]

theorem root_pointer_empty (A : Arr) (h0 : A.size = 0) :
    Algo.Bdd_root_pointer A = .panic "attempt to subtract with overflow" := by
  unfold Algo.Bdd_root_pointer Rust.sub
  simp [h0]

theorem idx_eq {α} (a : Array α) (i : Nat) :
    Rust.idx a i = match a[i]? with | some x => .ok x | none => .panic "index out of bounds" := by
  unfold Rust.idx
  by_cases h : i < a.size <;> simp [h]

theorem idx_of_lt {α} (a : Array α) (i : Nat) (h : i < a.size) : Rust.idx a i = .ok a[i] := by
  unfold Rust.idx; simp [h]

theorem setIdx_eq {α} (a : Array α) (i : Nat) (x : α) :
    Rust.setIdx a i x = if i < a.size then .ok (a.setIfInBounds i x) else .panic "index out of bounds" := by
  unfold Rust.setIdx
  by_cases h : i < a.size
  · simp [h, Array.setIfInBounds]
  · simp [h]

theorem low_link_eq (A : Arr) (p : Nat) :
    Algo.Bdd_low_link_of A p = match A[p]? with | some nd => .ok nd.low | none => .panic "index out of bounds" := by
  unfold Algo.Bdd_low_link_of Algo.BddPointer_to_index
  rw [idx_eq]; cases A[p]? <;> rfl

theorem high_link_eq (A : Arr) (p : Nat) :
    Algo.Bdd_high_link_of A p = match A[p]? with | some nd => .ok nd.high | none => .panic "index out of bounds" := by
  unfold Algo.Bdd_high_link_of Algo.BddPointer_to_index
  rw [idx_eq]; cases A[p]? <;> rfl

theorem var_of_eq (A : Arr) (p : Nat) :
    Algo.Bdd_var_of A p = match A[p]? with | some nd => .ok nd.var | none => .panic "index out of bounds" := by
  unfold Algo.Bdd_var_of Algo.BddPointer_to_index
  rw [idx_eq]; cases A[p]? <;> rfl

theorem num_vars_eq (A : Arr) (h0 : 0 < A.size) : Algo.Bdd_num_vars A = .ok (numVars A) := by
  unfold Algo.Bdd_num_vars numVars
  rw [idx_of_lt A 0 h0]
  simp [h0]

theorem num_vars_empty (A : Arr) (h0 : A.size = 0) : Algo.Bdd_num_vars A = .panic "index out of bounds" := by
  unfold Algo.Bdd_num_vars
  rw [idx_eq]
  have : A[0]? = none := Array.getElem?_eq_none (by omega)
  rw [this]; rfl

theorem is_one_eq (p : Nat) : Algo.BddPointer_is_one p = decide (p = 1) := by
  unfold Algo.BddPointer_is_one; simp [BEq.beq]

theorem is_zero_eq (p : Nat) : Algo.BddPointer_is_zero p = decide (p = 0) := by
  unfold Algo.BddPointer_is_zero; simp [BEq.beq]

theorem pointers_eq (A : Arr) (hs : A.size ≤ 4294967296) : Algo.Bdd_pointers A = Array.range A.size := by
  unfold Algo.Bdd_pointers Algo.Bdd_size Algo.BddPointer_from_index
  apply Array.ext
  · simp
  · intro i h1 h2
    simp only [Array.size_map, Array.size_range] at h1
    simp only [Array.getElem_map, Array.getElem_range]
    exact asU32_of_lt (by omega)

/-! ### results up to the error message -/

/-- the generated function returned what the hand model returned: the same `Ok` value, an `Err` for an `err`
    (messages are not compared), a panic for a panic (messages are not compared) -/
inductive RelE {α : Type} : Outcome (Except String α) → Outcome α → Prop
  | ok (a : α) : RelE (.ok (.ok a)) (.ok a)
  | err (m m' : String) : RelE (.ok (.error m)) (.err m')
  | panic (m m' : String) : RelE (.panic m) (.panic m')

theorem RelE.ok_iff {α} {x : Outcome (Except String α)} {y : Outcome α} (h : RelE x y) (a : α) :
    x = .ok (.ok a) ↔ y = .ok a := by
  cases h <;> simp

theorem RelE.err_iff {α} {x : Outcome (Except String α)} {y : Outcome α} (h : RelE x y) :
    (∃ m, x = .ok (.error m)) ↔ (∃ m, y = .err m) := by
  cases h <;> simp

theorem RelE.panic_iff {α} {x : Outcome (Except String α)} {y : Outcome α} (h : RelE x y) :
    (∃ m, x = .panic m) ↔ (∃ m, y = .panic m) := by
  cases h <;> simp

/-- flatten a generated `Outcome (Except String α)` into the hand models' `Outcome α` -/
def flatE {α} : Outcome (Except String α) → Outcome α
  | .ok (.ok a) => .ok a
  | .ok (.error m) => .err m
  | .err m => .err m
  | .panic m => .panic m

theorem RelE.kind_eq {α} {x : Outcome (Except String α)} {y : Outcome α} (h : RelE x y) :
    (flatE x).kind = y.kind := by
  cases h <;> rfl

end B.AlgoEqUtil

namespace B.AlgoEqUtil
open B B.Gen

/-! ### results of the hand models that use `Option` (`none` = the Rust code panics or does not terminate) -/

/-- the generated function returned `a` where the hand model says `some a`, and panicked (index, arithmetic, or
    fuel exhaustion) where the hand model says `none`; it never returns `err` -/
inductive RelO {α : Type} : Outcome α → Option α → Prop
  | ok (a : α) : RelO (.ok a) (some a)
  | panic (m : String) : RelO (.panic m) none

theorem RelO.some_iff {α} {x : Outcome α} {y : Option α} (h : RelO x y) (a : α) : y = some a ↔ x = .ok a := by
  cases h <;> simp

theorem RelO.none_iff {α} {x : Outcome α} {y : Option α} (h : RelO x y) : y = none ↔ ∃ m, x = .panic m := by
  cases h <;> simp

theorem RelO.of_some {α} {x : Outcome α} {y : Option α} (h : RelO x y) {a : α} (hy : y = some a) : x = .ok a :=
  (h.some_iff a).1 hy

end B.AlgoEqUtil
