import BddVerif.Gen.Algo2
import BddVerif.Lemmas.AlgoEqUtilBase
import BddVerif.Lemmas.Valuation
/-!
# Translated Rust (`Gen/Algo2.lean`) = hand model (`Model/Valuation.lean`, `B.Val`): partial / total valuations

Every function of `src/_impl_bdd_partial_valuation.rs` / `src/_impl_bdd_valuation.rs` that the translator emits into
`B.Gen.Algo2` is total (no fuel); the theorems below hold for ALL inputs. The generated code works on
`Array (Option Bool)` / `Array Bool`, the hand model on `List`s: the statements go through `Array.toList`.
Where the Rust code panics on purpose (`u16::try_from(..).unwrap()`, `unreachable!`) the panic message of the
model differs from the one of the shim, hence `SameKind` (same constructor, same value under `ok`).

This file: generic "search loop" lemmas and the functions without an index cast. `AlgoEq2ValLoops.lean`: the three
`for var_id in 0..n { … get_value(var_id) … }` loops. The generated text is never quoted: every proof starts with
`unfold Algo2.<fn>` and replaces the loop body by a hand-written step through `iterL_search` / `iterL_congr`.
-/
namespace B.AlgoEq2Val
open B B.Gen B.Val B.AlgoEqUtil

attribute [local instance 10000] Rust.monadOutcomeInline

/-- same constructor; same value under `ok`; messages are not compared -/
def SameKind {α} : Outcome α → Outcome α → Prop
  | .ok a, .ok b => a = b
  | .err _, .err _ => True
  | .panic _, .panic _ => True
  | _, _ => False

theorem SameKind.refl {α} (x : Outcome α) : SameKind x x := by cases x <;> simp [SameKind]

theorem SameKind.kind_eq {α} {x y : Outcome α} (h : SameKind x y) : x.kind = y.kind := by
  cases x <;> cases y <;> simp_all [SameKind, Outcome.kind]

theorem SameKind.ok_iff {α} {x y : Outcome α} (h : SameKind x y) (a : α) : x = .ok a ↔ y = .ok a := by
  cases x <;> cases y <;> simp_all [SameKind]

/-! ### loops that leave with `return` at the first hit -/

/-- a loop whose body is "if `c x` then `return d x`" -/
theorem iterL_search {α ρ} (c : α → Bool) (d : α → ρ) (g : α → Option ρ × Unit → Outcome (ForInStep (Option ρ × Unit)))
    (xs : List α)
    (h : ∀ x, x ∈ xs → ∀ st, g x st = if c x then .ok (.done (some (d x), ())) else .ok (.yield (none, ()))) :
    iterL g xs (none, ()) = .ok ((xs.find? c).map d, ()) := by
  induction xs with
  | nil => rfl
  | cons x xs ih =>
    rw [iterL_cons, h x List.mem_cons_self]
    cases hc : c x
    · simp only [Bool.false_eq_true, if_false, List.find?_cons, hc]
      exact ih (fun y hy => h y (List.mem_cons_of_mem _ hy))
    · simp [List.find?_cons, hc]

theorem find_map_const {α ρ} (c : α → Bool) (r : ρ) (xs : List α) :
    (xs.find? c).map (fun _ => r) = if xs.all (fun x => !c x) then none else some r := by
  induction xs with
  | nil => rfl
  | cons x xs ih =>
    cases hc : c x <;> simp [List.find?_cons, hc, ih]

/-! ### `is_empty`, `cardinality`, `from` -/

theorem BddPartialValuation_is_empty_eq_model (p : Array (Option Bool)) :
    Algo2.BddPartialValuation_is_empty p = PartialVal.isEmpty p.toList := by
  unfold Algo2.BddPartialValuation_is_empty PartialVal.isEmpty
  rw [← Array.all_toList]

theorem BddPartialValuation_from_eq_model (v : Array Bool) :
    (Algo2.BddPartialValuation_from v).toList = PartialVal.ofTotal v.toList := by
  unfold Algo2.BddPartialValuation_from PartialVal.ofTotal
  simp

theorem filter_size (p : Array (Option Bool)) :
    (p.filter (fun it => it.isSome)).size = p.toList.countP (·.isSome) := by
  rw [← Array.countP_eq_size_filter, Array.countP_toList]

/-- `cardinality`, all inputs: the count when it fits `u16`, a panic (of `unwrap`) otherwise -/
theorem BddPartialValuation_cardinality_eq_model (p : Array (Option Bool)) :
    SameKind (Algo2.BddPartialValuation_cardinality p) (PartialVal.cardinality p.toList) := by
  unfold Algo2.BddPartialValuation_cardinality PartialVal.cardinality Rust.u16TryFrom Rust.unwrapR
  rw [filter_size]
  generalize p.toList.countP (·.isSome) = c
  by_cases h : c ≤ 65535
  · have h' : c < 65536 := by omega
    simp only [h, h', if_true, SameKind]
  · have h' : ¬ c < 65536 := by omega
    simp only [h, h', if_false, SameKind]

theorem BddPartialValuation_cardinality_ok (p : Array (Option Bool)) (h : p.toList.countP (·.isSome) ≤ 65535) :
    Algo2.BddPartialValuation_cardinality p = .ok (p.toList.countP (·.isSome)) ∧
    PartialVal.cardinality p.toList = .ok (p.toList.countP (·.isSome)) := by
  have hk := BddPartialValuation_cardinality_eq_model p
  have hm : PartialVal.cardinality p.toList = .ok (p.toList.countP (·.isSome)) := by
    unfold PartialVal.cardinality; simp only [h, if_true]
  exact ⟨(hk.ok_iff _).2 hm, hm⟩


/-! ### `last_fixed_variable` -/


theorem lastFixedFrom_snoc (c : Option Bool) : ∀ (l : PartialVal) (i : Nat) (acc : Option Nat),
    PartialVal.lastFixedFrom i (l ++ [c]) acc = if c.isSome then some (i + l.length) else PartialVal.lastFixedFrom i l acc := by
  intro l
  induction l with
  | nil => intro i acc; cases c <;> simp [PartialVal.lastFixedFrom]
  | cons a l ih =>
    intro i acc
    cases a <;> simp only [List.cons_append, PartialVal.lastFixedFrom, ih, List.length_cons] <;>
      (split <;> first | rfl | (congr 1; omega))

theorem rev_ind {α} {P : List α → Prop} (h0 : P []) (hs : ∀ l c, P l → P (l ++ [c])) : ∀ l, P l := by
  have : ∀ r : List α, P r.reverse := by
    intro r
    induction r with
    | nil => exact h0
    | cons c r ih => rw [List.reverse_cons]; exact hs _ c ih
  intro l
  have := this l.reverse
  rwa [List.reverse_reverse] at this

theorem find_congr {α} {c c' : α → Bool} : ∀ (xs : List α), (∀ x ∈ xs, c x = c' x) → xs.find? c = xs.find? c' := by
  intro xs
  induction xs with
  | nil => intro _; rfl
  | cons x xs ih =>
    intro h
    rw [List.find?_cons, List.find?_cons, h x List.mem_cons_self, ih (fun y hy => h y (List.mem_cons_of_mem _ hy))]

theorem find_last_eq (l : PartialVal) :
    (List.range l.length).reverse.find? (fun (i : Nat) => (l[i]?).join.isSome) = PartialVal.lastFixedFrom 0 l none := by
  induction l using rev_ind with
  | h0 => rfl
  | hs l c ih =>
    rw [lastFixedFrom_snoc, List.length_append, List.length_singleton, List.range_succ, List.reverse_append,
      List.reverse_singleton, List.singleton_append, List.find?_cons]
    have h1 : (l ++ [c])[l.length]? = some c := by simp
    rw [h1]
    cases hc : c.isSome
    · simp only [Option.join_some, hc, Bool.false_eq_true, if_false]
      rw [← ih]
      apply find_congr
      intro i hi
      simp only [List.mem_reverse, List.mem_range] at hi
      rw [List.getElem?_append_left hi]
    · simp [hc]

theorem BddPartialValuation_last_fixed_variable_eq_model (p : Array (Option Bool)) :
    Algo2.BddPartialValuation_last_fixed_variable p = .ok (PartialVal.lastFixed p.toList) := by
  unfold Algo2.BddPartialValuation_last_fixed_variable
  simp only [forIn_array_eq_iterL]
  rw [iterL_search (fun (i : Nat) => (p[i]?).join.isSome) (fun i => some (Rust.asU16 i))]
  · have hr : (Array.range p.size).reverse.toList = (List.range p.toList.length).reverse := by simp
    have hf : (fun (i : Nat) => (p[i]?).join.isSome) = (fun (i : Nat) => (p.toList[i]?).join.isSome) := by
      funext i; simp
    rw [hr, hf, find_last_eq]
    unfold PartialVal.lastFixed
    simp only [bind_ok]
    cases PartialVal.lastFixedFrom 0 p.toList none <;> rfl
  · intro x hx st
    have hx' : x < p.size := by simpa using hx
    rw [idx_of_lt p x hx']
    simp [hx']

/-! ### `PartialEq::eq` -/


/-- the three loops of `PartialEq::eq` as one Boolean -/
def eqLoops (p q : Array (Option Bool)) : Bool :=
  (List.range' 0 (min p.size q.size - 0)).all (fun (i : Nat) => !(p[i]? != q[i]?)) &&
  ((List.range' (min p.size q.size) (p.size - min p.size q.size)).all (fun (j : Nat) => !(p[j]?).join.isSome) &&
   (List.range' (min p.size q.size) (q.size - min p.size q.size)).all (fun (j : Nat) => !(q[j]?).join.isSome))

theorem eq_desugar (p q : Array (Option Bool)) : Algo2.BddPartialValuation_eq p q = .ok (eqLoops p q) := by
  unfold Algo2.BddPartialValuation_eq
  simp only [forIn_range_eq_iterL]
  rw [iterL_search (fun (i : Nat) => p[i]? != q[i]?) (fun _ => false),
    iterL_search (fun (j : Nat) => (p[j]?).join.isSome) (fun _ => false),
    iterL_search (fun (j : Nat) => (q[j]?).join.isSome) (fun _ => false)]
  · simp only [find_map_const, bind_ok, eqLoops]
    generalize (List.range' 0 (min p.size q.size - 0)).all (fun (i : Nat) => !(p[i]? != q[i]?)) = a1
    generalize (List.range' (min p.size q.size) (p.size - min p.size q.size)).all (fun (j : Nat) => !(p[j]?).join.isSome) = a2
    generalize (List.range' (min p.size q.size) (q.size - min p.size q.size)).all (fun (j : Nat) => !(q[j]?).join.isSome) = a3
    cases a1 <;> cases a2 <;> cases a3 <;> rfl
  · intro x hx st
    have hx' : x < q.size := by simp only [List.mem_range'_1] at hx; omega
    rw [idx_of_lt q x hx']
    simp [hx']
  · intro x hx st
    have hx' : x < p.size := by simp only [List.mem_range'_1] at hx; omega
    rw [idx_of_lt p x hx']
    simp [hx']
  · intro x hx st
    have hx1 : x < p.size := by simp only [List.mem_range'_1] at hx; omega
    have hx2 : x < q.size := by simp only [List.mem_range'_1] at hx; omega
    rw [idx_of_lt p x hx1, idx_of_lt q x hx2]
    simp [hx1, hx2]

theorem get_toList (p : Array (Option Bool)) (x : Nat) : PartialVal.get p.toList x = (p[x]?).join := by
  simp [PartialVal.get]

theorem eqLoops_iff (p q : Array (Option Bool)) :
    eqLoops p q = true ↔ ∀ x, PartialVal.get p.toList x = PartialVal.get q.toList x := by
  unfold eqLoops
  simp only [Bool.and_eq_true, List.all_eq_true, List.mem_range'_1, Bool.not_eq_true', get_toList]
  constructor
  · rintro ⟨h1, h2, h3⟩ x
    by_cases hx : x < min p.size q.size
    · have := h1 x ⟨by omega, by omega⟩
      have : p[x]? = q[x]? := by simpa using this
      rw [this]
    · by_cases hp : x < p.size
      · have hq : q.size ≤ x := by omega
        have := h2 x ⟨by omega, by omega⟩
        rw [Array.getElem?_eq_none hq]
        cases h : (p[x]?).join <;> simp_all
      · by_cases hq : x < q.size
        · have := h3 x ⟨by omega, by omega⟩
          rw [Array.getElem?_eq_none (by omega : p.size ≤ x)]
          cases h : (q[x]?).join <;> simp_all
        · rw [Array.getElem?_eq_none (by omega : p.size ≤ x), Array.getElem?_eq_none (by omega : q.size ≤ x)]
  · intro h
    refine ⟨?_, ?_, ?_⟩
    · intro x hx
      have := h x
      have hp : x < p.size := by omega
      have hq : x < q.size := by omega
      simp only [Array.getElem?_eq_getElem hp, Array.getElem?_eq_getElem hq, Option.join_some] at this ⊢
      simp [this]
    · intro x hx
      have := h x
      rw [Array.getElem?_eq_none (by omega : q.size ≤ x)] at this
      rw [this]; rfl
    · intro x hx
      have := h x
      rw [Array.getElem?_eq_none (by omega : p.size ≤ x)] at this
      rw [← this]; rfl

/-- `PartialEq::eq`, all inputs -/
theorem BddPartialValuation_eq_eq_model (p q : Array (Option Bool)) :
    Algo2.BddPartialValuation_eq p q = .ok (PartialVal.eq p.toList q.toList) := by
  rw [eq_desugar]
  congr 1
  rw [Bool.eq_iff_iff, eqLoops_iff, PartialVal.eq_iff]


/-- a loop without `break` whose body either updates the state or panics -/
theorem iterL_guard {α β} (c : α → Bool) (f : β → α → β) (m : String) (xs : List α) (s : β) :
    iterL (fun x s => if c x then Outcome.ok (ForInStep.yield (f s x)) else Outcome.panic m) xs s =
      if xs.all c then .ok (xs.foldl f s) else .panic m := by
  induction xs generalizing s with
  | nil => rfl
  | cons x xs ih =>
    rw [iterL_cons]
    cases hc : c x
    · simp [hc]
    · simp only [if_true, List.all_cons, hc, Bool.true_and, List.foldl_cons]
      exact ih _

theorem enumerate_toList {α} (p : Array α) : (Rust.enumerate p).toList = p.toList.mapIdx (fun i x => (i, x)) := by
  unfold Rust.enumerate
  rw [Array.toList_mapIdx]

/-! ### `Hash::hash` -/

/-- the two `Hasher` calls as the generated code records them: `(8, n)` = `write_usize(n)`, `(1, n)` = `write_u8(n)` -/
def encW : HashWrite → Nat × Nat
  | .usize n => (8, n)
  | .u8 n => (1, n)

theorem encW_inj : ∀ a b, encW a = encW b → a = b := by
  intro a b h
  cases a <;> cases b <;> simp_all [encW]

def hstep (s : Array (Nat × Nat)) (x : Nat × Option Bool) : Array (Nat × Nat) :=
  match x.2 with
  | some v => (s.push (8, x.1)).push (1, if v then 1 else 0)
  | none => s

theorem hash_fold : ∀ (l : List (Option Bool)) (k : Nat) (s : Array (Nat × Nat)),
    (l.mapIdx (fun i x => (i + k, x))).foldl hstep s = s ++ ((PartialVal.hashFrom k l).map encW).toArray := by
  intro l
  induction l with
  | nil => intro k s; simp [PartialVal.hashFrom]
  | cons a l ih =>
    intro k s
    rw [List.mapIdx_cons, List.foldl_cons]
    have : (fun i x => (i + 1 + k, x)) = (fun (i : Nat) (x : Option Bool) => (i + (k + 1), x)) := by
      funext i x; congr 1; omega
    rw [this, ih]
    cases a with
    | none => simp [hstep, PartialVal.hashFrom]
    | some v =>
      simp only [hstep, PartialVal.hashFrom, List.map_cons, encW, Nat.zero_add]
      apply Array.ext'
      simp

/-- `Hash::hash`, all inputs: the `Hasher` receives exactly the writes of the model, appended to what it had -/
theorem BddPartialValuation_hash_eq_model (p : Array (Option Bool)) (st : Array (Nat × Nat)) :
    Algo2.BddPartialValuation_hash p st = .ok (st ++ ((PartialVal.hashWrites p.toList).map encW).toArray) := by
  unfold Algo2.BddPartialValuation_hash
  simp only [forIn_array_eq_iterL]
  rw [iterL_congr _ (fun x s => Outcome.ok (ForInStep.yield (hstep s x))) _
    (by intro x _ b; rcases x with ⟨i, _ | v⟩ <;> rfl), iterL_pure, enumerate_toList]
  simp only [bind_ok, pure_eq]
  have := hash_fold p.toList 0 st
  simp only [Nat.add_zero] at this
  rw [this]; rfl

/-! ### `to_values` -/

theorem mapIdx_eq_range {α} [Inhabited α] (l : List α) (d : α) :
    l.mapIdx (fun i x => (i, x)) = (List.range l.length).map (fun i => (i, l.getD i d)) := by
  apply List.ext_getElem
  · simp
  · intro i h1 h2
    simp only [List.length_mapIdx] at h1
    simp [List.getD, List.getElem?_eq_getElem h1]

theorem foldl_push {α} (xs : List α) (s : Array α) : xs.foldl (fun s x => s.push x) s = s ++ xs.toArray := by
  induction xs generalizing s with
  | nil => simp
  | cons x xs ih => rw [List.foldl_cons, ih]; apply Array.ext'; simp

theorem to_values_desugar (v : Array Bool) :
    Algo2.BddValuation_to_values v =
      if v.size ≤ 65536 then .ok (TotalVal.toValues v.toList).toArray
      else .panic "BddValuation is limited to u16::MAX values." := by
  unfold Algo2.BddValuation_to_values
  simp only [forIn_array_eq_iterL]
  rw [iterL_congr _ (fun (x : Nat × Bool) (s : Array (Nat × Bool)) =>
      if decide (x.1 < 65536) then Outcome.ok (ForInStep.yield (s.push x))
      else Outcome.panic "BddValuation is limited to u16::MAX values.") _
    (by
      intro x _ b
      unfold Rust.u16TryFrom
      by_cases h : x.1 < 65536 <;> simp [h]),
    iterL_guard (fun (x : Nat × Bool) => decide (x.1 < 65536)) (fun (s : Array (Nat × Bool)) x => s.push x)
      "BddValuation is limited to u16::MAX values.", enumerate_toList]
  by_cases h : v.size ≤ 65536
  · have hall : (v.toList.mapIdx (fun i x => (i, x))).all (fun (x : Nat × Bool) => decide (x.1 < 65536)) = true := by
      rw [List.all_eq_true]
      intro x hx
      rw [List.mem_mapIdx] at hx
      obtain ⟨i, hi, rfl⟩ := hx
      simp only [Array.length_toList] at hi
      simp; omega
    rw [hall]
    simp only [if_true, h, bind_ok, pure_eq, foldl_push]
    unfold TotalVal.toValues
    rw [mapIdx_eq_range _ false]
    simp
  · have hall : (v.toList.mapIdx (fun i x => (i, x))).all (fun (x : Nat × Bool) => decide (x.1 < 65536)) = false := by
      rw [List.all_eq_false]
      have h' : 65536 < v.toList.length := by simp; omega
      refine ⟨(65536, v.toList[65536]), ?_, by simp⟩
      rw [List.mem_mapIdx]
      exact ⟨65536, h', rfl⟩
    rw [hall]
    simp [h]

/-! ### `BddValuation::set` / `clear` / `all_true` (no hand model: closed forms on lists) -/

theorem BddValuation_set_eq (v : Array Bool) (x : Nat) :
    Algo2.BddValuation_set v x =
      if x < v.size then .ok (v.toList.set x true).toArray else .panic "index out of bounds" := by
  unfold Algo2.BddValuation_set
  simp only [setIdx_eq]
  by_cases h : x < v.size
  · simp only [h, if_true, bind_ok, pure_eq]
    congr 1; apply Array.ext'; simp
  · simp [h]

theorem BddValuation_clear_eq (v : Array Bool) (x : Nat) :
    Algo2.BddValuation_clear v x =
      if x < v.size then .ok (v.toList.set x false).toArray else .panic "index out of bounds" := by
  unfold Algo2.BddValuation_clear
  simp only [setIdx_eq]
  by_cases h : x < v.size
  · simp only [h, if_true, bind_ok, pure_eq]
    congr 1; apply Array.ext'; simp
  · simp [h]

theorem BddValuation_all_true_eq (n : Nat) : (Algo2.BddValuation_all_true n).toList = List.replicate n true := by
  unfold Algo2.BddValuation_all_true Rust.vecRepeat
  simp

end B.AlgoEq2Val
