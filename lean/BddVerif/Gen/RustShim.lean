import BddVerif.Core.Basic
import BddVerif.Model.Outcome
import Std.Data.HashMap
import Std.Data.HashSet
/-!
HAND-WRITTEN (not generated): Lean counterparts of the `std` / crate primitives that the code produced by
`tools/rust2lean.py` (`Gen/Algo.lean`) refers to. Every function is a small total function mirroring the Rust
definition; a Rust panic is `Outcome.panic`. Core + Std only.

Conventions of the translation (see tools/rust2lean.py):
* `Vec<T>`/slices/materialised iterators → `Array T`; `HashMap`/`HashSet` → `Std.HashMap`/`Std.HashSet`;
  `Option` → `Option`; `Result<T,E>` → `Except E T`; all integer types, `BddPointer`, `BddVariable`, `BigInt` → `Nat`;
  `Bdd` → `Arr`; `BddNode` → `Node`; `BddPartialValuation` → `Array (Option Bool)`; `BddValuation` → `Array Bool`.
* `a - b` on integers is `sub` (panics on underflow); `x as u16`/`x as u32` truncate; `+`/`*` are NOT range-checked
  (no target function can reach 2^16 variables / 2^32 nodes inside the harness' sizes).
-/
namespace B.Gen.Rust
open Std

/-- `Outcome.bind`, inlined at every use: the continuation of a `do` block then is a local join point instead of
    a heap closure. (A closure keeps a second reference to every mutable array / hash map of the enclosing loop,
    which makes each update copy the container: measured quadratic behaviour on 10^4-node operands.)
    Compiled code only — `@[csimp]` swaps it in, all theorems are about `Outcome.bind`. -/
@[always_inline, inline] def bindFast {α β} (x : Outcome α) (f : α → Outcome β) : Outcome β :=
  match x with
  | .ok a => f a
  | .err m => .err m
  | .panic m => .panic m

/-- The `Monad Outcome` instance used by the generated code: the same operations as the instance of
    `Model/Outcome.lean` (`monadOutcomeInline_eq` below, by `rfl`), but inlined by the compiler. -/
@[always_inline, reducible] def monadOutcomeInline : Monad Outcome where
  pure := Outcome.ok
  bind := bindFast

theorem bindFast_eq {α β} (x : Outcome α) (f : α → Outcome β) : bindFast x f = Outcome.bind x f := by
  cases x <;> rfl

theorem monadOutcomeInline_bind {α β} (x : Outcome α) (f : α → Outcome β) :
    @bind Outcome monadOutcomeInline.toBind α β x f = @bind Outcome inferInstance α β x f := by
  cases x <;> rfl

/-- `v[i]` on a `Vec`/slice: out of bounds is a panic -/
@[inline] def idx {α} (a : Array α) (i : Nat) : Outcome α :=
  if h : i < a.size then .ok a[i] else .panic "index out of bounds"

/-- `v[i] = x` on a `Vec`/slice -/
@[inline] def setIdx {α} (a : Array α) (i : Nat) (x : α) : Outcome (Array α) :=
  if h : i < a.size then .ok (a.set i x) else .panic "index out of bounds"

/-- `Option::unwrap` -/
@[inline] def unwrap {α} : Option α → Outcome α
  | some a => .ok a
  | none => .panic "called `Option::unwrap()` on a `None` value"

/-- `Result::unwrap` -/
@[inline] def unwrapR {ε α} : Except ε α → Outcome α
  | .ok a => .ok a
  | .error _ => .panic "called `Result::unwrap()` on an `Err` value"

/-- integer subtraction on an unsigned type -/
@[inline] def sub (a b : Nat) : Outcome Nat :=
  if b ≤ a then .ok (a - b) else .panic "attempt to subtract with overflow"

@[inline] def asU8 (x : Nat) : Nat := x % 256
@[inline] def asU16 (x : Nat) : Nat := x % 65536
@[inline] def asU32 (x : Nat) : Nat := x % 4294967296
@[inline] def asU64 (x : Nat) : Nat := x % 18446744073709551616

/-- `u16::checked_add` -/
@[inline] def checkedAddU16 (a b : Nat) : Option Nat := if a + b < 65536 then some (a + b) else none
@[inline] def checkedAddU32 (a b : Nat) : Option Nat := if a + b < 4294967296 then some (a + b) else none
/-- `u16::try_from(x)` for an unsigned `x` -/
@[inline] def u16TryFrom (x : Nat) : Except Unit Nat := if x < 65536 then .ok x else .error ()

/-- `vec![x; n]` -/
@[inline] def vecRepeat {α} (x : α) (n : Nat) : Array α := Array.replicate n x
/-- `Vec::with_capacity(n)` / `Vec::new()` (capacity is not observable) -/
@[inline] def vecWithCapacity {α} (n : Nat) : Array α := Array.emptyWithCapacity n
/-- `iter.skip(n)` on a materialised iterator -/
@[inline] def skip {α} (a : Array α) (n : Nat) : Array α := a.extract n a.size
/-- `iter.enumerate()` on a materialised iterator: pairs `(index, item)` -/
@[inline] def enumerate {α} (a : Array α) : Array (Nat × α) := a.mapIdx fun i x => (i, x)
/-- `(lo..hi)` as a materialised iterator -/
@[inline] def rangeArr (lo hi : Nat) : Array Nat := (Array.range (hi - lo)).map (· + lo)
/-- `slice[lo..]` -/
@[inline] def sliceFrom {α} (a : Array α) (lo : Nat) : Outcome (Array α) :=
  if lo ≤ a.size then .ok (a.extract lo a.size) else .panic "range start index out of range for slice"
/-- `slice.split_last()` -/
@[inline] def splitLast {α} (a : Array α) : Option (α × Array α) :=
  match a.back? with
  | some x => some (x, a.pop)
  | none => none

/-- `HashMap::with_capacity_and_hasher` / `HashMap::new` (capacity and hasher are not observable) -/
@[inline] def hashMapWithCapacity {κ ν} [BEq κ] [Hashable κ] (n : Nat) : HashMap κ ν := HashMap.emptyWithCapacity n
@[inline] def hashSetWithCapacity {κ} [BEq κ] [Hashable κ] (n : Nat) : HashSet κ := HashSet.emptyWithCapacity n

/-- `Vec<BddVariable>::sort` (insertion into a sorted list; `Array.qsort` would do as well, this one is structural) -/
def sortNat (a : Array Nat) : Array Nat := (a.toList.mergeSort (fun x y => decide (x ≤ y))).toArray
/-- `Vec::dedup` — removes consecutive repeated elements -/
def dedup {α} [BEq α] (a : Array α) : Array α :=
  a.foldl (fun acc x => match acc.back? with
    | some y => if x == y then acc else acc.push x
    | none => acc.push x) #[]

/-! ### `BddPartialValuation` = `Array (Option Bool)` (src/_impl_bdd_partial_valuation.rs) -/

/-- `impl Index<BddVariable> for BddPartialValuation`: `None` beyond the length -/
@[inline] def pvalIndex (p : Array (Option Bool)) (v : Nat) : Option Bool :=
  if h : v < p.size then p[v] else none

/-- `mut_cell`: the vector is extended with `None` up to and including `index` -/
def pvalGrow (p : Array (Option Bool)) (index : Nat) : Array (Option Bool) :=
  if p.size ≤ index then p ++ Array.replicate (index + 1 - p.size) none else p

/-- `*self.mut_cell(id) = x` (`set_value`, `unset_value`, `IndexMut`) -/
def pvalSet (p : Array (Option Bool)) (id : Nat) (x : Option Bool) : Array (Option Bool) :=
  (pvalGrow p id).setIfInBounds id x

/-- `BddPartialValuation::set_value` -/
@[inline] def pvalSetValue (p : Array (Option Bool)) (id : Nat) (value : Bool) : Array (Option Bool) := pvalSet p id (some value)
/-- `BddPartialValuation::unset_value` -/
@[inline] def pvalUnsetValue (p : Array (Option Bool)) (id : Nat) : Array (Option Bool) := pvalSet p id none
/-- `impl PartialEq for BddPartialValuation`: equal up to trailing `None`s -/
def pvalEq (a b : Array (Option Bool)) : Bool :=
  (List.range (max a.size b.size)).all fun i => pvalIndex a i == pvalIndex b i


/-! ### second batch (Gen/Algo2.lean) -/

/-- `rng.gen_bool(0.5)` on the recorded list of coin flips (an exhausted list yields `false`, as the harness' `CoinRng`) -/
@[inline] def genBool (r : List Bool) : Bool × List Bool := (r.headD false, r.tail)

/-- derived `PartialOrd` on `(unsigned, bool)`: lexicographic, `false < true` -/
@[inline] def ltNatBool (a b : Nat × Bool) : Bool := decide (a.1 < b.1) || (a.1 == b.1 && !a.2 && b.2)

/-- `HashSet::from_iter` -/
def hashSetFromArr {κ} [BEq κ] [Hashable κ] (xs : Array κ) : HashSet κ := xs.foldl (fun s x => s.insert x) (HashSet.emptyWithCapacity xs.size)
/-- `.collect::<HashMap<_, _>>()` — later pairs overwrite earlier ones -/
def hashMapFromArr {κ ν} [BEq κ] [Hashable κ] (xs : Array (κ × ν)) : HashMap κ ν :=
  xs.foldl (fun m kv => m.insert kv.1 kv.2) (HashMap.emptyWithCapacity xs.size)

/-- `Iterator::cmp` on iterators of `(u16, u32, u32)` triples: lexicographic, a proper prefix is smaller -/
def cmpArrNat3 (a b : Array (Nat × Nat × Nat)) : Ordering :=
  let rec go : List (Nat × Nat × Nat) → List (Nat × Nat × Nat) → Ordering
    | [], [] => .eq
    | [], _ :: _ => .lt
    | _ :: _, [] => .gt
    | x :: xs, y :: ys =>
      match compare x.1 y.1 with
      | .eq => match compare x.2.1 y.2.1 with
        | .eq => match compare x.2.2 y.2.2 with
          | .eq => go xs ys
          | o => o
        | o => o
      | o => o
  go a.toList b.toList

end B.Gen.Rust
