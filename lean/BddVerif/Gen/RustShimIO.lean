import BddVerif.Gen.RustShim
/-!
HAND-WRITTEN (not generated): `std::io` as seen by the translated byte-level serialisation code of `Gen/Algo2.lean`.

A `&mut dyn Read` / `&mut dyn Write` is an explicit scripted device (the harness' `SReader` / `SWriter`): the bytes,
plus a script that says what each call of `read` / `write` does (`give k` = transfer at most `k` bytes, `interrupted`,
`fail`; an exhausted script transfers everything that is asked for). `read_exact` and `write_all` are std's default
implementations over `read` / `write` (retry on `Interrupted`; `Ok(0)` is `UnexpectedEof` resp. `WriteZero`).
Bytes are `Nat`s below 256.
-/
namespace B.Gen.Rust

inductive ErrorKind where
  | unexpectedEof | interrupted | writeZero | other
deriving DecidableEq, Repr, Inhabited

/-- `std::io::Error` (only its kind is observable here) -/
structure IoError where
  kind : ErrorKind
deriving DecidableEq, Repr, Inhabited

inductive IoEv where
  | give (k : Nat)
  | interrupted
  | fail
deriving DecidableEq, Repr, Inhabited

/-- `&mut dyn Read`: the bytes not yet delivered, the remaining script, and the log of calls
    (number of script entries consumed, requested buffer sizes) -/
structure Reader where
  data : List Nat
  script : List IoEv
  sp : Nat := 0
  wants : List Nat := []
  /-- buffer sizes std's `read_to_end` will ask for (environment parameter, only used by `read_to_string`) -/
  plan : List Nat := []
deriving Repr, Inhabited

/-- `&mut dyn Write`: the bytes that reached the sink and the remaining script -/
structure Writer where
  out : Array Nat := #[]
  script : List IoEv := []
  sp : Nat := 0
deriving Repr, Inhabited

/-- one call of `Read::read` with a buffer of `want` bytes -/
def Reader.read (r : Reader) (want : Nat) : Except IoError (List Nat) × Reader :=
  let r := { r with wants := r.wants ++ [want] }
  match r.script with
  | [] => (.ok (r.data.take want), { r with data := r.data.drop want })
  | .give k :: s => (.ok (r.data.take (min k want)), { r with data := r.data.drop (min k want), script := s, sp := r.sp + 1 })
  | .interrupted :: s => (.error ⟨.interrupted⟩, { r with script := s, sp := r.sp + 1 })
  | .fail :: s => (.error ⟨.other⟩, { r with script := s, sp := r.sp + 1 })

/-- std's default `read_exact`, by recursion on a bound of the number of `read` calls -/
def readExactGo : Nat → Reader → Nat → List Nat → Except IoError (List Nat) × Reader
  | 0, r, _, _ => (.error ⟨.other⟩, r)
  | fuel + 1, r, need, acc =>
    if need = 0 then (.ok acc, r) else
    match r.read need with
    | (.ok bs, r') => if bs.isEmpty then (.error ⟨.unexpectedEof⟩, r') else readExactGo fuel r' (need - bs.length) (acc ++ bs)
    | (.error e, r') => if e.kind = .interrupted then readExactGo fuel r' need acc else (.error e, r')

/-- `input.read_exact(&mut buf)`: result, the reader afterwards, the buffer afterwards (on an error its contents
    are unspecified in Rust; the buffer is left as it was) -/
def readExact (r : Reader) (buf : Array Nat) : Except IoError Unit × Reader × Array Nat :=
  match readExactGo (buf.size + r.script.length + 2) r buf.size [] with
  | (.ok bs, r') => (.ok (), r', bs.toArray)
  | (.error e, r') => (.error e, r', buf)

/-- one call of `Write::write` -/
def Writer.write (w : Writer) (buf : List Nat) : Except IoError Nat × Writer :=
  match w.script with
  | [] => (.ok buf.length, { w with out := w.out ++ buf.toArray })
  | .give k :: s => (.ok (min k buf.length), { w with out := w.out ++ (buf.take (min k buf.length)).toArray, script := s, sp := w.sp + 1 })
  | .interrupted :: s => (.error ⟨.interrupted⟩, { w with script := s, sp := w.sp + 1 })
  | .fail :: s => (.error ⟨.other⟩, { w with script := s, sp := w.sp + 1 })

def writeAllGo : Nat → Writer → List Nat → Except IoError Unit × Writer
  | 0, w, _ => (.error ⟨.other⟩, w)
  | fuel + 1, w, buf =>
    if buf.isEmpty then (.ok (), w) else
    match w.write buf with
    | (.ok n, w') => if n = 0 then (.error ⟨.writeZero⟩, w') else writeAllGo fuel w' (buf.drop n)
    | (.error e, w') => if e.kind = .interrupted then writeAllGo fuel w' buf else (.error e, w')

/-- `output.write_all(&bytes)` -/
def writeAll (w : Writer) (bytes : Array Nat) : Except IoError Unit × Writer :=
  writeAllGo (bytes.size + w.script.length + 2) w bytes.toList

/-- `x.to_le_bytes()` of an unsigned integer of `w` bytes -/
def toLeBytes : Nat → Nat → Array Nat
  | 0, _ => #[]
  | w + 1, x => #[x % 256] ++ toLeBytes w (x / 256)

/-- `uN::from_le_bytes(bytes)` -/
def fromLeBytes (bytes : Array Nat) : Nat := bytes.foldr (fun b acc => b % 256 + 256 * acc) 0

/-- a `Vec<u8>` used as `&mut dyn Write` (never fails) and back -/
def Writer.ofVec (v : Array Nat) : Writer := { out := v }
/-- a `&[u8]` used as `&mut dyn Read` and the unread rest -/
def Reader.ofSlice (v : Array Nat) : Reader := { data := v.toList, script := [] }

end B.Gen.Rust
