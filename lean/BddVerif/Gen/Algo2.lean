namespace B.Gen
end B.Gen
-- BROKEN TIE: rust2lean: src/_impl_bdd_variable_set.rs:79 (fn BddVariableSet::var_by_name): `.find()` on an iterator in hash order
