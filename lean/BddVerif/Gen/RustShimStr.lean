import BddVerif.Gen.RustShimIO
/-!
HAND-WRITTEN (not generated): characters and strings as seen by the translated code of `Gen/Algo3.lean`.
`String`/`&str` are Lean `String`s, `char` is `Char`, a `Chars`/`Peekable<Chars>` iterator is the list of the
remaining characters. The functions mirror the documented behaviour of the Rust standard library.
-/
namespace B.Gen.Rust

/-- code points with the Unicode `White_Space` property (`char::is_whitespace`) -/
def whiteSpaceCodes : List Nat :=
  [0x09, 0x0A, 0x0B, 0x0C, 0x0D, 0x20, 0x85, 0xA0, 0x1680,
   0x2000, 0x2001, 0x2002, 0x2003, 0x2004, 0x2005, 0x2006, 0x2007, 0x2008, 0x2009, 0x200A,
   0x2028, 0x2029, 0x202F, 0x205F, 0x3000]

/-- `char::is_whitespace` -/
def charIsWhitespace (c : Char) : Bool := whiteSpaceCodes.contains c.toNat

/-- `str::split(char)`: the pieces between the separators (always at least one piece) -/
def splitChars (sep : Char) : List Char → List (List Char)
  | [] => [[]]
  | c :: cs =>
    if c == sep then [] :: splitChars sep cs
    else match splitChars sep cs with
      | [] => [[c]]
      | p :: ps => (c :: p) :: ps

def strSplit (s : String) (sep : Char) : Array String := ((splitChars sep s.toList).map String.ofList).toArray

/-- `String::retain` -/
def strRetain (s : String) (f : Char → Bool) : String := String.ofList (s.toList.filter f)

inductive ParseIntError where
  | empty | invalidDigit | overflow
deriving DecidableEq, Repr, Inhabited

/-- digits of an unsigned decimal number with an overflow check against `max` -/
def parseDigits (max : Nat) : Nat → List Char → Except ParseIntError Nat
  | acc, [] => .ok acc
  | acc, c :: cs =>
    if c.isDigit then
      let v := acc * 10 + (c.toNat - 48)
      if v > max then .error .overflow else parseDigits max v cs
    else .error .invalidDigit

/-- `str::parse::<uN>()` (`from_str_radix(_, 10)` for an unsigned type): an optional leading `+`, then at least one
    ASCII digit; a lone sign or the empty string is an error; `-` is an invalid digit -/
def parseUnsigned (max : Nat) (s : String) : Except ParseIntError Nat :=
  match s.toList with
  | [] => .error .empty
  | ['+'] => .error .invalidDigit
  | ['-'] => .error .invalidDigit
  | '+' :: cs => parseDigits max 0 cs
  | cs => parseDigits max 0 cs

def parseU16 (s : String) : Except ParseIntError Nat := parseUnsigned 65535 s
def parseU32 (s : String) : Except ParseIntError Nat := parseUnsigned 4294967295 s

/-- UTF-8 encoding of one character -/
def utf8EncChar (c : Char) : List Nat :=
  let n := c.toNat
  if n < 0x80 then [n]
  else if n < 0x800 then [0xC0 + n / 64, 0x80 + n % 64]
  else if n < 0x10000 then [0xE0 + n / 4096, 0x80 + (n / 64) % 64, 0x80 + n % 64]
  else [0xF0 + n / 262144, 0x80 + (n / 4096) % 64, 0x80 + (n / 64) % 64, 0x80 + n % 64]

/-- `str::as_bytes` -/
def utf8Bytes (s : String) : Array Nat := (s.toList.flatMap utf8EncChar).toArray

def isCont (b : Nat) : Bool := 0x80 ≤ b && b ≤ 0xBF

/-- strict UTF-8 decoding (no overlong forms, no surrogates, at most U+10FFFF) -/
def utf8Dec : List Nat → Option (List Char)
  | [] => some []
  | b0 :: rest =>
    if b0 < 0x80 then (utf8Dec rest).map (Char.ofNat b0 :: ·)
    else if 0xC2 ≤ b0 && b0 ≤ 0xDF then
      match rest with
      | b1 :: r => if isCont b1 then (utf8Dec r).map (Char.ofNat ((b0 - 0xC0) * 64 + (b1 - 0x80)) :: ·) else none
      | _ => none
    else if 0xE0 ≤ b0 && b0 ≤ 0xEF then
      match rest with
      | b1 :: b2 :: r =>
        let ok1 := if b0 == 0xE0 then 0xA0 ≤ b1 && b1 ≤ 0xBF else if b0 == 0xED then 0x80 ≤ b1 && b1 ≤ 0x9F else isCont b1
        if ok1 && isCont b2 then (utf8Dec r).map (Char.ofNat ((b0 - 0xE0) * 4096 + (b1 - 0x80) * 64 + (b2 - 0x80)) :: ·) else none
      | _ => none
    else if 0xF0 ≤ b0 && b0 ≤ 0xF4 then
      match rest with
      | b1 :: b2 :: b3 :: r =>
        let ok1 := if b0 == 0xF0 then 0x90 ≤ b1 && b1 ≤ 0xBF else if b0 == 0xF4 then 0x80 ≤ b1 && b1 ≤ 0x8F else isCont b1
        if ok1 && isCont b2 && isCont b3 then
          (utf8Dec r).map (Char.ofNat ((b0 - 0xF0) * 262144 + (b1 - 0x80) * 4096 + (b2 - 0x80) * 64 + (b3 - 0x80)) :: ·)
        else none
      | _ => none
    else none

structure Utf8Error where
deriving Repr, Inhabited

/-- `String::from_utf8` -/
def stringFromUtf8 (bytes : Array Nat) : Except Utf8Error String :=
  match utf8Dec bytes.toList with
  | some cs => .ok (String.ofList cs)
  | none => .error {}

instance : ToString IoError := ⟨fun e => match e.kind with
  | .unexpectedEof => "unexpected end of file" | .interrupted => "interrupted" | .writeZero => "write zero" | .other => "io error"⟩
instance : ToString ParseIntError := ⟨fun e => match e with
  | .empty => "cannot parse integer from empty string" | .invalidDigit => "invalid digit found in string"
  | .overflow => "number too large to fit in target type"⟩
instance : ToString Utf8Error := ⟨fun _ => "invalid utf-8 sequence"⟩

/-- `slice[..hi]` -/
@[inline] def sliceTo {α} (a : Array α) (hi : Nat) : Outcome (Array α) :=
  if hi ≤ a.size then .ok (a.extract 0 hi) else .panic "range end index out of range for slice"
/-- `slice[lo..hi]` -/
@[inline] def sliceRange {α} (a : Array α) (lo hi : Nat) : Outcome (Array α) :=
  if lo > hi then .panic "slice index starts after its end"
  else if hi ≤ a.size then .ok (a.extract lo hi) else .panic "range end index out of range for slice"

/-- `Read::read_to_string` (std's default `read_to_end` + UTF-8 check). The sizes of the successive `read` calls are
    chosen by std's buffer-growth heuristics; they are an environment parameter here (`plan`, then 32). -/
def readToEndGo : Nat → Reader → List Nat → List Nat → Except IoError (List Nat) × Reader
  | 0, r, _, _ => (.error ⟨.other⟩, r)
  | fuel + 1, r, plan, acc =>
    match r.read (plan.headD 32) with
    | (.ok bs, r') => if bs.isEmpty then (.ok acc, r') else readToEndGo fuel r' plan.tail (acc ++ bs)
    | (.error e, r') => if e.kind = .interrupted then readToEndGo fuel r' plan.tail acc else (.error e, r')

/-- `input.read_to_string(&mut data)`: result (number of bytes), the reader, the string afterwards.
    Invalid UTF-8 is `ErrorKind::InvalidData` (here: `other`) and leaves the string unchanged. -/
def readToString (r : Reader) (data : String) : Except IoError Nat × Reader × String :=
  match readToEndGo (r.data.length + r.script.length + 2) r r.plan [] with
  | (.ok bs, r') =>
    (match utf8Dec bs with
     | some cs => (.ok bs.length, r', data ++ String.ofList cs)
     | none => (.error ⟨.other⟩, r', data))
  | (.error e, r') => (.error e, r', data)

end B.Gen.Rust
