import BddVerif.Props.C04
import BddVerif.Lemmas.AlgoEqApply
import BddVerif.Lemmas.AlgoEqTernary
import BddVerif.Lemmas.ExactWalkC04
import BddVerif.Lemmas.ExactWalkC04Complete
#print axioms B.Props.C04.fused2_spec
#print axioms B.Props.C04.fused2_operand
#print axioms B.Props.C04.and_consistent
#print axioms B.Props.C04.flipB_spec
#print axioms B.Props.C04.fused_eq_separate
#print axioms B.Props.C04.flip_bounds
#print axioms B.Props.C04.no_panic_of_bounds
#print axioms B.Props.C04.fused3_spec
#print axioms B.Props.C04.fused3_operand
#print axioms B.Props.C04.fused3_eq_separate
#print axioms B.Props.C04.flip_bounds3
#print axioms B.Props.C04.flip_bounds3_panic
#print axioms B.apply_with_flip_eq_canon
#print axioms B.Bdd_fused_binary_flip_op_eq_model_driver
#print axioms B.apply_with_flip_panics_flip
#print axioms B.ternary_apply_eq_canon
#print axioms B.Bdd_fused_ternary_flip_op_eq_model_driver
#print axioms B.ternary_apply_panics_flip
#print axioms B.ExactWalk.walk2_sound
#print axioms B.ExactWalk.walk3_sound
#print axioms B.ExactWalk.walk2_sound_driver
#print axioms B.ExactWalk.walk3_sound_driver
#print axioms B.ExactWalk.walk2_complete
#print axioms B.ExactWalk.walk3_complete
#print axioms B.ExactWalk.walk2_complete_driver
#print axioms B.ExactWalk.walk3_complete_driver
