import BddVerif.Props.C04
