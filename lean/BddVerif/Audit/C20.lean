import BddVerif.Props.C20
#print axioms B.Props.C20.dotStmts_eq
#print axioms B.Props.C20.dot_outcome
#print axioms B.Props.C20.dot_frame
#print axioms B.Props.C20.dot_vertices
#print axioms B.Props.C20.dot_edges
#print axioms B.Props.C20.node_edges_spec
#print axioms B.Props.C20.dot_pruned
#print axioms B.Props.C20.parse_render
#print axioms B.Props.C20.parse_render_text
#print axioms B.Props.C20.stmts_safe
#print axioms B.Props.C20.dot_eval
#print axioms B.Props.C20.dot_text_eval
#print axioms B.Props.C20.dot_eval_by_index
#print axioms B.Props.C20.dot_eval_den
#print axioms B.Props.C20.dot_write_chunking_irrelevant
#print axioms B.Props.C20.dot_write_faithful
