import BddVerif.Props.C20
import BddVerif.Lemmas.AlgoEq3DotCanon
import BddVerif.Lemmas.DotAlgoAll
#print axioms B.Props.C20.dotStmts_eq
#print axioms B.Props.C20.dot_outcome
#print axioms B.Props.C20.dot_frame
#print axioms B.Props.C20.dot_vertices
#print axioms B.Props.C20.dot_edges
#print axioms B.Props.C20.node_edges_spec
#print axioms B.Props.C20.dot_pruned
#print axioms B.Props.C20.parse_render
#print axioms B.Props.C20.parse_render_text
#print axioms B.Props.C20.stmts_safe
#print axioms B.Props.C20.dot_eval
#print axioms B.Props.C20.dot_text_eval
#print axioms B.Props.C20.dot_eval_by_index
#print axioms B.Props.C20.dot_eval_den
#print axioms B.Props.C20.dot_write_chunking_irrelevant
#print axioms B.Props.C20.dot_write_faithful
#print axioms B.Props.C20.dot_write_pieces
#print axioms B.Props.C20.dot_write_invalid_order
#print axioms B.Props.C20.dot_write_budget
#print axioms B.AlgoEq3Dot.write_bdd_as_dot_eq_writeSeq
#print axioms B.AlgoEq3Dot.write_bdd_as_dot_eq_model
#print axioms B.AlgoEq3Dot.write_bdd_as_dot_eq_model_ok
#print axioms B.AlgoEq3Dot.write_bdd_as_dot_eq_model_io
#print axioms B.AlgoEq3Dot.write_bdd_as_dot_fail_first
#print axioms B.AlgoEq3Dot.write_bdd_as_dot_empty
#print axioms B.AlgoEq3Dot.write_bdd_as_dot_mismatch
#print axioms B.AlgoEq3Dot.write_bdd_as_dot_panic_or_err
#print axioms B.AlgoEq3Dot.bdd_to_dot_string_eq_model
#print axioms B.AlgoEq3Dot.Bdd_to_dot_string_eq_model
#print axioms B.AlgoEq3Dot.Bdd_write_as_dot_string_eq_model
#print axioms B.AlgoEq3Dot.Bdd_to_dot_string_canon
#print axioms B.AlgoEq3Dot.to_dot_string_translated_eval
#print axioms B.DotAlgoAll.write_bdd_as_dot_eq_writeDotIO
