import BddVerif.Props.C20
