import BddVerif.Props.C17
