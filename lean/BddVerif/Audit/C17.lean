import BddVerif.Props.C17
import BddVerif.Lemmas.AlgoEq2RenDriver
import BddVerif.Lemmas.ExactWalkC17
import BddVerif.Lemmas.ExactWalkC17Complete
#print axioms B.Props.C17.set_num_vars_safe
#print axioms B.Props.C17.rename_variables_safe
#print axioms B.Props.C17.rename_variable_safe
#print axioms B.Props.C17.transfer_some_iff
#print axioms B.Props.C17.transfer_name_correspondence
#print axioms B.Props.C17.kept_canonical_structure
#print axioms B.AlgoEq2Ren.set_num_vars_rel
#print axioms B.AlgoEq2Ren.rename_variables_rel
#print axioms B.AlgoEq2Ren.rename_variable_rel
#print axioms B.AlgoEq2Ren.Bdd_set_num_vars_safe
#print axioms B.AlgoEq2Ren.Bdd_rename_variables_safe
#print axioms B.AlgoEq2Ren.Bdd_rename_variable_safe
#print axioms B.AlgoEq2Ren.transfer_from_rel
#print axioms B.AlgoEq2Ren.transfer_from_some_iff
#print axioms B.Props.C17.set_num_vars_canonical
#print axioms B.Props.C17.rename_variables_canonical
#print axioms B.Props.C17.rename_variable_canonical
#print axioms B.Props.C17.transfer_canonical
#print axioms B.Props.C17.kept_canon
#print axioms B.ExactWalk.sameFunctionUnder_sound
#print axioms B.ExactWalk.sameFunctionUnder_sound_wfoB
#print axioms B.ExactWalk.sameFunctionUnder_reject
#print axioms B.ExactWalk.sameFunctionUnder_reject_wfoB
