import BddVerif.Props.C17
#print axioms B.Props.C17.set_num_vars_safe
#print axioms B.Props.C17.rename_variables_safe
#print axioms B.Props.C17.rename_variable_safe
#print axioms B.Props.C17.transfer_some_iff
#print axioms B.Props.C17.transfer_name_correspondence
#print axioms B.Props.C17.kept_canonical_structure
