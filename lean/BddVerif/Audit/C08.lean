import BddVerif.Props.C08
import BddVerif.Lemmas.AlgoEqIterDriver
import BddVerif.Lemmas.AlgoEq3SatDriver
import BddVerif.Lemmas.AlgoEq4OwnedDriver
import BddVerif.Lemmas.AlgoEq4MiscDriver
import BddVerif.Lemmas.TraitTable
#print axioms B.Props.C08.paths_partition
#print axioms B.Props.C08.paths_partition_root
#print axioms B.Props.C08.extensions_spec
#print axioms B.Props.C08.sat_valuations_spec
#print axioms B.Props.C08.val_next_spec
#print axioms B.Props.C08.clause_vals_iter_eq
#print axioms B.Props.C08.clause_vals_new_panics
#print axioms B.Props.C08.unconstrained_iter_eq
#print axioms B.Props.C08.clause_vals_shape_irrelevant
#print axioms B.Props.C08.dnf_clause_vals
#print axioms B.Props.C08.path_iter_eq
#print axioms B.Props.C08.to_dnf_eq_paths
#print axioms B.Props.C08.to_dnf_eq_sat_clauses
#print axioms B.Props.C08.sat_iter_eq
#print axioms B.Props.C08.path_iter_redundant_panics
#print axioms B.Props.C08.owned_returns_bdd
#print axioms B.Props.C08.owned_same_sequences
#print axioms B.Props.C08.false_constant
#print axioms B.AlgoEqIt.path_next_eq_model
#print axioms B.AlgoEqIt.path_iter_translated
#print axioms B.AlgoEqIt.path_iter_translated_driver
#print axioms B.AlgoEqIt.path_next_redundant_panics
#print axioms B.AlgoEqIt.BddValuation_next_sim
#print axioms B.AlgoEqIt.clause_vals_translated_eq
#print axioms B.AlgoEqIt.clause_vals_translated_driver
#print axioms B.AlgoEqIt.ValuationsOfClauseIterator_new_panics
#print axioms B.AlgoEqIt.to_dnf_eq_toDnf
#print axioms B.AlgoEqIt.to_dnf_translated_eq_paths
#print axioms B.AlgoEqIt.to_dnf_translated_driver
#print axioms B.AlgoEq3Sat.sat_next_eq_model
#print axioms B.AlgoEq3Sat.Bdd_sat_valuations_eq_model
#print axioms B.AlgoEq3Sat.Bdd_sat_clauses_eq_model
#print axioms B.AlgoEq3Sat.sat_iter_translated
#print axioms B.AlgoEq3Sat.sat_clauses_translated
#print axioms B.AlgoEq3Sat.sat_iter_translated_false
#print axioms B.AlgoEq3Sat.sat_iter_translated_driver
#print axioms B.AlgoEq4.OwnedBddPathIterator_next_eq_borrowed
#print axioms B.AlgoEq4.OwnedBddPathIterator_new_eq_borrowed
#print axioms B.AlgoEq4.Bdd_into_sat_clauses_eq_borrowed
#print axioms B.AlgoEq4.OwnedBddSatisfyingValuations_next_eq_borrowed
#print axioms B.AlgoEq4.Bdd_into_sat_valuations_eq_borrowed
#print axioms B.AlgoEq4.owned_returns_bdd_translated
#print axioms B.AlgoEq4.owned_sat_iter_translated
#print axioms B.AlgoEq4.owned_path_iter_translated
#print axioms B.AlgoEq4.owned_sat_take_translated
#print axioms B.AlgoEq4.owned_path_take_translated
#print axioms B.AlgoEq4.owned_vals_back_driver
#print axioms B.AlgoEq4.owned_paths_back_driver
#print axioms B.AlgoEq4.BddValuationIterator_translated_eq
#print axioms B.AlgoEq4.BddValuationIterator_driver
#print axioms B.TraitTable.iterators_define_only_next
