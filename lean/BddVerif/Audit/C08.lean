import BddVerif.Props.C08
#print axioms B.Props.C08.paths_partition
#print axioms B.Props.C08.paths_partition_root
#print axioms B.Props.C08.extensions_spec
#print axioms B.Props.C08.sat_valuations_spec
#print axioms B.Props.C08.val_next_spec
#print axioms B.Props.C08.clause_vals_iter_eq
#print axioms B.Props.C08.clause_vals_new_panics
#print axioms B.Props.C08.unconstrained_iter_eq
#print axioms B.Props.C08.path_iter_eq
#print axioms B.Props.C08.to_dnf_eq_paths
#print axioms B.Props.C08.to_dnf_eq_sat_clauses
#print axioms B.Props.C08.sat_iter_eq
#print axioms B.Props.C08.path_iter_redundant_panics
#print axioms B.Props.C08.owned_returns_bdd
#print axioms B.Props.C08.owned_same_sequences
#print axioms B.Props.C08.false_constant
