import BddVerif.Props.C08
