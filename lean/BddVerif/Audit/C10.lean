import BddVerif.Props.C10
