import BddVerif.Props.C10
import BddVerif.Lemmas.AlgoEqIterDriver
import BddVerif.Lemmas.AlgoEq2NFOptThm
import BddVerif.Lemmas.AlgoEq2NFPanic
import BddVerif.Lemmas.AlgoEq2VarSetDriver
#print axioms B.Props.C10.conjFn_iff
#print axioms B.Props.C10.disjFn_iff
#print axioms B.Props.C10.dnfFn_iff
#print axioms B.Props.C10.cnfFn_iff
#print axioms B.Props.C10.mk_dnf_spec
#print axioms B.Props.C10.mk_cnf_spec
#print axioms B.Props.C10.mk_dnf_canon
#print axioms B.Props.C10.mk_cnf_canon
#print axioms B.Props.C10.clause_ctor_spec
#print axioms B.Props.C10.to_dnf_sem
#print axioms B.Props.C10.to_cnf_sem
#print axioms B.Props.C10.to_dnf_false
#print axioms B.Props.C10.to_cnf_false
#print axioms B.Props.C10.dnf_roundtrip
#print axioms B.Props.C10.cnf_roundtrip
#print axioms B.Props.C10.opt_dnf_roundtrip
#print axioms B.Props.C10.opt_dnf_roundtrip_exactCard
#print axioms B.Props.C10.mk_cnf_panics_iff
#print axioms B.Props.C10.to_dnf_wfo
#print axioms B.Props.C10.to_cnf_wfo
#print axioms B.Props.C10.mk_dnf_to_dnf_canon
#print axioms B.Props.C10.mk_cnf_to_cnf_canon
#print axioms B.Props.C10.mk_dnf_to_opt_dnf_canon
#print axioms B.Props.C10.opt_dnf_refuses_spurious_support
#print axioms B.Props.C10.opt_dnf_unsat
#print axioms B.AlgoEqIt.to_dnf_eq_model
#print axioms B.AlgoEqIt.to_dnf_sem_translated
#print axioms B.AlgoEqIt.to_cnf_eq_model
#print axioms B.AlgoEqIt.to_cnf_sem_translated
#print axioms B.AlgoEqIt.to_cnf_translated_driver
#print axioms B.AlgoEqIt.to_cnf_ok_or_fuel
#print axioms B.AlgoEq2NF.Bdd_mk_dnf_eq_model
#print axioms B.AlgoEq2NF.Bdd_mk_dnf_eq_canon
#print axioms B.AlgoEq2NF.Bdd_mk_cnf_eq_model
#print axioms B.AlgoEq2NF.Bdd_mk_cnf_eq_canon
#print axioms B.AlgoEq2NF.Bdd_mk_cnf_panics
#print axioms B.AlgoEq2NF.mk_disjunctive_clause_eq_model
#print axioms B.AlgoEq2NF.Bdd_to_optimized_dnf_eq_model
#print axioms B.AlgoEq2NF.Bdd_to_optimized_dnf_spec
#print axioms B.AlgoEq2NF.opt_dnf_roundtrip_translated
#print axioms B.AlgoEq2VS.mk_conjunctive_clause_rel
#print axioms B.AlgoEq2VS.mk_disjunctive_clause_rel
