import BddVerif.Props.C06
