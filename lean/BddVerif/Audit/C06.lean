import BddVerif.Props.C06
import BddVerif.Lemmas.AlgoEqRestrictThm
import BddVerif.Lemmas.AlgoEq2RelPanic
import BddVerif.Lemmas.AlgoEq2RelPickRec
import BddVerif.Lemmas.SupportCongr
import BddVerif.Lemmas.SupportCongrDrive
#print axioms B.Props.C06.from_values_last_wins
#print axioms B.Props.C06.select_canon
#print axioms B.Props.C06.select_spec
#print axioms B.Props.C06.var_select_canon
#print axioms B.Props.C06.var_select_spec
#print axioms B.Props.C06.restrict_canon
#print axioms B.Props.C06.restrict_spec
#print axioms B.Props.C06.restrict_indep
#print axioms B.Props.C06.var_restrict_spec
#print axioms B.Props.C06.restrict_wfo
#print axioms B.Props.C06.var_pick_random_canon
#print axioms B.Props.C06.var_pick_canon
#print axioms B.Props.C06.var_pick_spec
#print axioms B.Props.C06.var_pick_random_spec
#print axioms B.Props.C06.pick_spec
#print axioms B.Props.C06.pick_random_spec
#print axioms B.Props.C06.pick_canon
#print axioms B.Props.C06.pick_nil
#print axioms B.Props.C06.pick_random_canon
#print axioms B.Props.C06.pick_random_draws
#print axioms B.Props.C06.pick_out_of_range
#print axioms B.AlgoEqR.restriction_eq_model
#print axioms B.AlgoEqR.Bdd_restrict_eq_model
#print axioms B.AlgoEqR.Bdd_var_restrict_eq_model
#print axioms B.AlgoEqR.restriction_translated_canon
#print axioms B.AlgoEqR.Bdd_restrict_translated_canon
#print axioms B.AlgoEqR.restriction_eq_model_driver
#print axioms B.AlgoEqR.from_values_eq_model
#print axioms B.AlgoEqR.mk_partial_valuation_eq_model
#print axioms B.AlgoEqR.restriction_const
#print axioms B.AlgoEq2Rel.Bdd_select_eq_model
#print axioms B.AlgoEq2Rel.Bdd_select_eq_canon
#print axioms B.AlgoEq2Rel.Bdd_var_select_eq_canon
#print axioms B.AlgoEq2Rel.Bdd_var_pick_eq_canon
#print axioms B.AlgoEq2Rel.Bdd_var_pick_random_eq_canon
#print axioms B.AlgoEq2Rel.Bdd_pick_eq_model
#print axioms B.AlgoEq2Rel.Bdd_pick_spec
#print axioms B.AlgoEq2Rel.Bdd_pick_random_eq_model
#print axioms B.AlgoEq2Rel.Bdd_pick_random_spec
#print axioms B.AlgoEq2Rel.Bdd_pick_panics
#print axioms B.AlgoEq2Rel.sorted_eq_model
#print axioms B.SupportCongr.evalArr_congr_supportSet
#print axioms B.SupportCongr.compress_evalArr_eq
#print axioms B.SupportCongr.compress_evalArr_conn
#print axioms B.SupportCongr.compress_evalArr_proj
#print axioms B.SupportCongr.sameOn_iff
#print axioms B.SupportCongr.c06_ttC_sound
#print axioms B.SupportCongr.c06_ttC_complete
