import BddVerif.Props.C18
import BddVerif.Lemmas.AlgoEq2ValSpec
import BddVerif.Lemmas.AlgoEq2Cmp
import BddVerif.Lemmas.AlgoEq4Display
import BddVerif.Lemmas.AlgoEq4Misc
import BddVerif.Lemmas.TraitTable
#print axioms B.Props.C18.pv_eq_iff
#print axioms B.Props.C18.pv_eq_equivalence
#print axioms B.Props.C18.pv_hash_congr
#print axioms B.Props.C18.pv_to_values
#print axioms B.Props.C18.pv_write
#print axioms B.Props.C18.pv_history
#print axioms B.Props.C18.pv_history_eq
#print axioms B.Props.C18.pv_history_length
#print axioms B.Props.C18.pv_rebuild
#print axioms B.Props.C18.total_partial_roundtrip
#print axioms B.Props.C18.partial_total_roundtrip
#print axioms B.Props.C18.of_total_get
#print axioms B.Props.C18.valuation_bdd_spec
#print axioms B.Props.C18.valuation_bdd_canonical
#print axioms B.Props.C18.valuation_bdd_inj
#print axioms B.Props.C18.valuation_bdd_card
#print axioms B.Props.C18.extends_iff
#print axioms B.Props.C18.total_extends_iff
#print axioms B.Props.C18.total_extends_iff_all
#print axioms B.Props.C18.loops_agree
#print axioms B.Props.C18.cmp_structural_linear_order
#print axioms B.Props.C18.cmp_structural_le
#print axioms B.Props.C18.cmp_size_spec
#print axioms B.Props.C18.cmp_cardinality_spec
#print axioms B.Props.C18.cmp_cardinality_strict_spec
#print axioms B.Props.C18.cmp_implies_spec
#print axioms B.AlgoEq2Val.BddPartialValuation_eq_eq_model
#print axioms B.AlgoEq2Val.BddPartialValuation_hash_eq_model
#print axioms B.AlgoEq2Val.BddPartialValuation_extends_eq_model
#print axioms B.AlgoEq2Val.BddValuation_extends_eq_model
#print axioms B.AlgoEq2Val.BddValuation_try_from_eq_model
#print axioms B.AlgoEq2Val.Bdd_from_eq_model
#print axioms B.AlgoEq2Val.eq_spec
#print axioms B.AlgoEq2Val.hash_congr
#print axioms B.AlgoEq2Val.extends_spec
#print axioms B.AlgoEq2Val.try_from_from
#print axioms B.AlgoEq2Cmp.Bdd_cmp_structural_eq_model
#print axioms B.AlgoEq2Cmp.Bdd_cmp_cardinality_eq_model
#print axioms B.AlgoEq2Cmp.Bdd_cmp_cardinality_strict_eq_model
#print axioms B.AlgoEq2Cmp.Bdd_cmp_implies_eq_model
#print axioms B.AlgoEq2Cmp.cmp_implies_spec
#print axioms B.AlgoEq2Cmp.cmp_cardinality_spec
#print axioms B.AlgoEq2Cmp.cmp_structural_linear_order
#print axioms B.AlgoEq4.BddValuation_fmt_eq
#print axioms B.AlgoEq4.BddValuation_vector_eq
#print axioms B.AlgoEq4.BddValuation_index_eq
#print axioms B.AlgoEq4.BddPartialValuation_index_eq
#print axioms B.AlgoEq4.BddPartialValuation_default_eq
#print axioms B.TraitTable.key_types_derive_eq_hash
