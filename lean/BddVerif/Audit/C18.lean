import BddVerif.Props.C18
