import BddVerif.Props.C15
#print axioms B.Props.C15.eval_expr_spec
#print axioms B.Props.C15.eval_expr_canonical
#print axioms B.Props.C15.eval_expr_none_iff
#print axioms B.Props.C15.eval_expression_outcome
#print axioms B.Props.C15.eval_string_spec
#print axioms B.Props.C15.to_expr_sem
#print axioms B.Props.C15.to_expr_roundtrip
#print axioms B.Props.C15.to_expr_roundtrip_text
#print axioms B.Props.C15.connective_tables
#print axioms B.Props.C15.macro_table_ok
#print axioms B.Props.C15.macro_ops_intended
