import BddVerif.Props.C15
