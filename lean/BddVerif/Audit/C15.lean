import BddVerif.Props.C15
import BddVerif.Lemmas.AlgoEq3ExprDriver
import BddVerif.Lemmas.AlgoEq3ExprString
import BddVerif.Lemmas.AlgoEq4Support
#print axioms B.Props.C15.eval_expr_spec
#print axioms B.Props.C15.eval_expr_canonical
#print axioms B.Props.C15.eval_expr_none_iff
#print axioms B.Props.C15.eval_expression_outcome
#print axioms B.Props.C15.eval_string_spec
#print axioms B.Props.C15.to_expr_sem
#print axioms B.Props.C15.to_expr_roundtrip
#print axioms B.Props.C15.to_expr_roundtrip_text
#print axioms B.Props.C15.connective_tables
#print axioms B.Props.C15.macro_table_ok
#print axioms B.Props.C15.macro_ops_intended
#print axioms B.AlgoEq3Expr.BooleanExpression_fmt_eq_model
#print axioms B.AlgoEq3Expr.BooleanExpression_fmt_fuel_panic
#print axioms B.AlgoEq3Expr.genDisplay_eq_model
#print axioms B.AlgoEq3Expr.safe_eval_eq_model
#print axioms B.AlgoEq3Expr.safe_eval_none_iff
#print axioms B.AlgoEq3Expr.safe_eval_some_canon
#print axioms B.AlgoEq3Expr.eval_expression_eq_model
#print axioms B.AlgoEq3Expr.eval_expression_panic_iff
#print axioms B.AlgoEq3Expr.eval_eq_model_driver
#print axioms B.AlgoEq3Expr.to_boolean_expression_rel
#print axioms B.AlgoEq3Expr.to_boolean_expression_eq_model
#print axioms B.AlgoEq3Expr.to_boolean_expression_sem
#print axioms B.AlgoEq3Expr.to_boolean_expression_eq_model_driver
#print axioms B.AlgoEq3Expr.export_eval_roundtrip_translated
#print axioms B.AlgoEq3Expr.eval_expression_string_rel
#print axioms B.AlgoEq3Expr.eval_expression_string_rel_closed
#print axioms B.AlgoEq3Expr.eval_expression_string_rel_driver
#print axioms B.AlgoEq4.BooleanExpression_support_set_eq
#print axioms B.AlgoEq4.BooleanExpression_support_set_mem
