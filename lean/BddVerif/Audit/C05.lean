import BddVerif.Props.C05
