import BddVerif.Props.C05
import BddVerif.Lemmas.AlgoEqLimit
import BddVerif.Lemmas.AlgoEqDry
import BddVerif.Lemmas.AlgoEq2Cmp
#print axioms B.Props.C05.limit_spec
#print axioms B.Props.C05.limit_spec_public
#print axioms B.Props.C05.limit_some_iff
#print axioms B.Props.C05.limit_none_iff
#print axioms B.Props.C05.dry_limit
#print axioms B.Props.C05.dry_none_iff
#print axioms B.Props.C05.dry_nonempty
#print axioms B.Props.C05.dry_count_ge
#print axioms B.Props.C05.dry_run_spec
#print axioms B.Props.C05.imp_consistent
#print axioms B.Props.C05.implies_check
#print axioms B.Props.C05.cmp_implies_spec
#print axioms B.Props.C05.cmp_implies_vars
#print axioms B.AlgoDL.apply_with_flip_and_limit_eq_model
#print axioms B.AlgoDL.apply_with_flip_and_limit_spec
#print axioms B.AlgoDL.apply_with_flip_and_limit_eq_model_driver
#print axioms B.AlgoDL.Bdd_binary_op_with_limit_eq_model
#print axioms B.AlgoDL.apply_with_flip_and_limit_panic_flip
#print axioms B.AlgoDL.estimated_apply_complexity_eq_model
#print axioms B.AlgoDL.estimated_apply_complexity_eq_model_driver
#print axioms B.AlgoDL.Bdd_check_binary_op_eq_model
#print axioms B.AlgoDL.estimated_apply_complexity_panic_flip
#print axioms B.AlgoEq2Cmp.Bdd_cmp_implies_eq_model
#print axioms B.AlgoEq2Cmp.cmp_implies_spec
#print axioms B.AlgoEq2Cmp.lim_cmpImplies_eq
