import BddVerif.Props.C05
#print axioms B.Props.C05.limit_spec
#print axioms B.Props.C05.limit_spec_public
#print axioms B.Props.C05.limit_some_iff
#print axioms B.Props.C05.limit_none_iff
#print axioms B.Props.C05.dry_limit
#print axioms B.Props.C05.dry_none_iff
#print axioms B.Props.C05.dry_nonempty
#print axioms B.Props.C05.dry_count_ge
#print axioms B.Props.C05.dry_run_spec
#print axioms B.Props.C05.imp_consistent
#print axioms B.Props.C05.implies_check
#print axioms B.Props.C05.cmp_implies_spec
#print axioms B.Props.C05.cmp_implies_vars
