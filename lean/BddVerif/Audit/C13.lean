import BddVerif.Props.C13
