import BddVerif.Props.C13
import BddVerif.Props.C13Count
import BddVerif.Lemmas.AlgoEqUtilSpec
import BddVerif.Lemmas.AlgoEq2BytesSpec
import BddVerif.Lemmas.AlgoEq3TextDriver
#print axioms B.Props.C13.read_text_total
#print axioms B.Props.C13.read_text_io_total
#print axioms B.Props.C13.read_bytes_total
#print axioms B.Props.C13.read_bytes_io_total
#print axioms B.Props.C13.from_nodes_total
#print axioms B.Props.C13.face_value_chars
#print axioms B.Props.C13.face_value
#print axioms B.Props.C13.accepted_fields_fit
#print axioms B.Props.C13.from_nodes_wf
#print axioms B.Props.C13.validate_total
#print axioms B.Props.C13.validate_wf
#print axioms B.Props.C13.wf_eval_terminates
#print axioms B.Props.C13.from_nodes_eval_terminates
#print axioms B.Props.C13.validate_eval_terminates
#print axioms B.Props.C13.wf_ops_accept
#print axioms B.Props.C13.wf_ops_accept_validate
#print axioms B.Serial.showNat_parseUInt
#print axioms B.Serial.dfs_total
#print axioms B.Props.C13.from_nodes_count_agrees
#print axioms B.Props.C13.validate_count_agrees
#print axioms B.AlgoEqUtil.Bdd_from_nodes_spec
#print axioms B.AlgoEqUtil.Bdd_from_nodes_total
#print axioms B.AlgoEqUtil.Bdd_validate_spec
#print axioms B.AlgoEqUtil.Bdd_validate_total
#print axioms B.AlgoEqUtil.Bdd_validate_eq_model_driver
#print axioms B.AlgoEq2Bytes.read_bytes_total
#print axioms B.AlgoEq2Bytes.read_bytes_io_total
#print axioms B.AlgoEq2Bytes.Bdd_from_bytes_eq_model
#print axioms B.Props.C13.validate_ok_iff
#print axioms B.Props.C13.validate_err_of
#print axioms B.Props.C13.validate_exhaustive
#print axioms B.Props.C13.validate_err_iff
#print axioms B.Props.C13.validate_outcome
#print axioms B.Props.C13.wf_count_agrees
#print axioms B.Props.C13.validate_count_eq_eval
#print axioms B.Props.C13.from_nodes_count_eq_eval
#print axioms B.Serial.rangeLoop_err
#print axioms B.Serial.dfs_closed
#print axioms B.Serial.dfs_run
#print axioms B.AlgoEq3Text.Bdd_read_as_string_never_panics
#print axioms B.AlgoEq3Text.Bdd_read_as_string_ok_iff
#print axioms B.AlgoEq3Text.Bdd_read_as_string_err_iff
#print axioms B.AlgoEq3Text.Bdd_from_string_panics
#print axioms B.AlgoEq3Text.Bdd_read_as_string_slice
