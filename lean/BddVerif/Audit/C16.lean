import BddVerif.Props.C16
#print axioms B.Props.C16.valid_name_iff
#print axioms B.Props.C16.forbidden_covers_grammar
#print axioms B.Props.C16.name_index_bijection
#print axioms B.Props.C16.name_round_trips
#print axioms B.Props.C16.anonymous_set
#print axioms B.Props.C16.constant_spec
#print axioms B.Props.C16.literal_spec
#print axioms B.Props.C16.literal_by_name_spec
#print axioms B.Props.C16.valuation_bdd_spec
#print axioms B.Props.C16.sat_exactly_k_canon
#print axioms B.Props.C16.sat_up_to_k_canon
#print axioms B.Props.C16.sat_exactly_k_spec
#print axioms B.Props.C16.sat_up_to_k_spec
#print axioms B.Props.C16.sat_list_as_set
#print axioms B.Props.C16.sat_out_of_range
