import BddVerif.Props.C16
import BddVerif.Lemmas.AlgoEq2VarSetDriver
import BddVerif.Lemmas.AlgoEq3NamesProtocol
import BddVerif.Lemmas.AlgoEq4Names
import BddVerif.Lemmas.AlgoEq4Display
#print axioms B.Props.C16.valid_name_iff
#print axioms B.Props.C16.forbidden_covers_grammar
#print axioms B.Props.C16.name_index_bijection
#print axioms B.Props.C16.name_round_trips
#print axioms B.Props.C16.anonymous_set
#print axioms B.Props.C16.constant_spec
#print axioms B.Props.C16.literal_spec
#print axioms B.Props.C16.literal_by_name_spec
#print axioms B.Props.C16.valuation_bdd_spec
#print axioms B.Props.C16.sat_exactly_k_canon
#print axioms B.Props.C16.sat_up_to_k_canon
#print axioms B.Props.C16.sat_exactly_k_spec
#print axioms B.Props.C16.sat_up_to_k_spec
#print axioms B.Props.C16.sat_list_as_set
#print axioms B.Props.C16.sat_out_of_range
#print axioms B.AlgoEq2VS.new_anonymous_eq_model
#print axioms B.AlgoEq2VS.new_anonymous_faithful
#print axioms B.AlgoEq2VS.var_by_name_eq
#print axioms B.AlgoEq2VS.name_of_rel
#print axioms B.AlgoEq2VS.mk_literal_translated_spec
#print axioms B.AlgoEq2VS.mk_var_by_name_rel
#print axioms B.AlgoEq2VS.Bdd_from_eq_model
#print axioms B.AlgoEq2VS.Bdd_from_spec
#print axioms B.AlgoEq2VS.mk_sat_exactly_k_eq_model
#print axioms B.AlgoEq2VS.mk_sat_up_to_k_eq_model
#print axioms B.AlgoEq2VS.mk_sat_exactly_k_canon
#print axioms B.AlgoEq2VS.mk_sat_up_to_k_canon
#print axioms B.AlgoEq2VS.mk_sat_k_panics
#print axioms B.AlgoEq2VS.mk_sat_exactly_k_eq_model_small
#print axioms B.AlgoEq3Names.BddVariableSet_new_eq_model
#print axioms B.AlgoEq3Names.BddVariableSet_new_ok
#print axioms B.AlgoEq3Names.BddVariableSet_new_panic_iff
#print axioms B.AlgoEq3Names.BddVariableSet_variables_eq
#print axioms B.AlgoEq3Names.BddVariableSet_variable_names_eq
#print axioms B.AlgoEq3Names.make_variable_eq_model
#print axioms B.AlgoEq3Names.make_variables_eq_model
#print axioms B.AlgoEq3Names.build_eq_model
#print axioms B.AlgoEq3Names.protocol_eq_model
#print axioms B.AlgoEq3Names.protocol_ok
#print axioms B.AlgoEq3Names.protocol_panic_iff
#print axioms B.AlgoEq3Names.protocol_eq_new
#print axioms B.AlgoEq3Names.protocol_boundary
#print axioms B.AlgoEq4.BddVariableSet_from_iter_eq_protocol
#print axioms B.AlgoEq4.BddVariableSet_from_iter_eq_new
#print axioms B.AlgoEq4.BddVariableSet_from_iter_panic_iff
#print axioms B.AlgoEq4.from_iter_boundary
#print axioms B.AlgoEq4.variable_name_assignment_getElem?
#print axioms B.AlgoEq4.BddVariableSet_fmt_eq
#print axioms B.Props.C16.sat_k_beyond_length
