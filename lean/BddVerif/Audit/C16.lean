import BddVerif.Props.C16
