import BddVerif.Props.C07
import BddVerif.Lemmas.C02HistorySubst
#print axioms B.Props.C07.substitute_spec
#print axioms B.Props.C07.substitute_safe_canonical
#print axioms B.C02H.substitute_canonical
