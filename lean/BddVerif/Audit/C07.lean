import BddVerif.Props.C07
