import BddVerif.Props.C07
import BddVerif.Lemmas.C02HistorySubst
import BddVerif.Lemmas.AlgoEq2RenDriver
import BddVerif.Lemmas.SubstituteCanonical
import BddVerif.Lemmas.ExactWalkC07
import BddVerif.Lemmas.ExactWalkC07Complete
#print axioms B.Props.C07.substitute_spec
#print axioms B.Props.C07.substitute_safe_canonical
#print axioms B.C02H.substitute_canonical
#print axioms B.AlgoEq2Ren.Bdd_substitute_eq_model
#print axioms B.AlgoEq2Ren.Bdd_substitute_spec
#print axioms B.AlgoEq2Ren.substitute_absent
#print axioms B.Ren.Subst.substitute_eq_canon
#print axioms B.ExactWalk.compositionExact_sound
#print axioms B.ExactWalk.compositionExact_sound_wfoB
#print axioms B.ExactWalk.compositionExact_reject
#print axioms B.ExactWalk.compositionExact_reject_wfoB
