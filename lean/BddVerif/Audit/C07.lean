import BddVerif.Props.C07
#print axioms B.Props.C07.substitute_spec
#print axioms B.Props.C07.substitute_safe_canonical
