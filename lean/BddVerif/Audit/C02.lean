import BddVerif.Props.C02
