import BddVerif.Props.C02
import BddVerif.Lemmas.AlgoEqApply
#print axioms B.Props.C02.canonical_unique
#print axioms B.Props.C02.canonical_same_observables
#print axioms B.Props.C02.is_false_exact
#print axioms B.Props.C02.is_true_exact
#print axioms B.Props.C02.canonical_structure
#print axioms B.Props.C02.check_is_exact
#print axioms B.Props.C02.binary_canonicalizes
#print axioms B.Props.C02.ternary_canonicalizes
#print axioms B.Props.C02.and_true_canonicalizes
#print axioms B.Props.C02.not_canonical
#print axioms B.Props.C02.built_canonical
#print axioms B.Props.C02.built_unique
#print axioms B.Props.C02.built_same_observables
#print axioms B.Props.C02.built_passes_check
#print axioms B.apply_with_flip_eq_canon
