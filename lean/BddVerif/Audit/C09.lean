import BddVerif.Props.C09
import BddVerif.Lemmas.AlgoEqUtilSpec
import BddVerif.Lemmas.AlgoEq2RenDriver
import BddVerif.Props.C09F64
import BddVerif.Lemmas.TraitTable
#print axioms B.Props.C09.cnt_eq_filter_length
#print axioms B.Props.C09.all_vals_enumeration
#print axioms B.Props.C09.exact_card_spec
#print axioms B.Props.C09.exact_card_canonical
#print axioms B.Props.C09.exact_card_red
#print axioms B.Props.C09.exact_card_le
#print axioms B.Props.C09.clause_card_spec
#print axioms B.Props.C09.clause_card_eq_iterator_count
#print axioms B.Props.C09.clause_card_eq_iterator_count_canonical
#print axioms B.Props.C09.card_or_and
#print axioms B.Props.C09.card_not
#print axioms B.Props.C09.exact_card_apply
#print axioms B.Props.C09.card_or_and_model
#print axioms B.Props.C09.card_not_model
#print axioms B.Props.C09.support_set_nodes
#print axioms B.Props.C09.support_exact_reduced
#print axioms B.Props.C09.support_exact
#print axioms B.Props.C09.size_per_variable_partition
#print axioms B.AlgoEqUtil.Bdd_exact_cardinality_spec
#print axioms B.AlgoEqUtil.Bdd_exact_clause_cardinality_spec
#print axioms B.AlgoEqUtil.Bdd_exact_cardinality_eq_model_driver
#print axioms B.AlgoEqUtil.Bdd_support_set_spec
#print axioms B.AlgoEqUtil.Bdd_support_set_exact
#print axioms B.AlgoEq2Ren.size_per_variable_eq_model
#print axioms B.Props.C09.f64_round_rel
#print axioms B.Props.C09.f64_add_rounding
#print axioms B.Props.C09.f64_mulPow2_exact
#print axioms B.Props.C09.f64_bits_roundtrip
#print axioms B.Props.C09.exactCard_is_count
#print axioms B.Props.C09.pathDepth_le
#print axioms B.Props.C09.cardinality_f64_total
#print axioms B.Props.C09.cardinality_f64_fin
#print axioms B.Props.C09.cardinality_f64_inf
#print axioms B.Props.C09.cardinality_f64_spec
#print axioms B.Props.C09.cardinality_f64_spec_n
#print axioms B.Props.C09.cardinality_f64_spec_size
#print axioms B.Props.C09.cardinality_f64_overflow
#print axioms B.Props.C09.cardinality_f64_zero_iff
#print axioms B.Props.C09.cardinality_f64_unguarded_defect
#print axioms B.Props.C09.f64_ofNat_small
#print axioms B.Props.C09.cardinality_f64_exact_small
#print axioms B.Props.C09.cardinality_f64_exact_le52
#print axioms B.Count.cardGoF_eq_fast
#print axioms B.F64.add_comm
#print axioms B.TraitTable.iterators_define_only_next
