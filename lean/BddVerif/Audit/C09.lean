import BddVerif.Props.C09
