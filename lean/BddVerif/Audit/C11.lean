import BddVerif.Props.C11
#print axioms B.Props.C11.none_on_false
#print axioms B.Props.C11.witness_sat
#print axioms B.Props.C11.first_valuation_least
#print axioms B.Props.C11.last_valuation_greatest
#print axioms B.Props.C11.first_clause_path
#print axioms B.Props.C11.last_clause_path
#print axioms B.Props.C11.most_positive_spec
#print axioms B.Props.C11.most_negative_spec
#print axioms B.Props.C11.most_fixed_spec
#print axioms B.Props.C11.most_free_spec
#print axioms B.Props.C11.random_valuation_sat
#print axioms B.Props.C11.random_clause_path
#print axioms B.Props.C11.necessary_clause_sound
#print axioms B.Props.C11.necessary_clause_exact
#print axioms B.Props.C11.is_clause_spec
#print axioms B.Props.C11.is_valuation_spec
