import BddVerif.Props.C11
