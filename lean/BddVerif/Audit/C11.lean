import BddVerif.Props.C11
import BddVerif.Lemmas.AlgoEqUtilSpec
import BddVerif.Lemmas.AlgoEq2SelectSpec
#print axioms B.Props.C11.none_on_false
#print axioms B.Props.C11.witness_sat
#print axioms B.Props.C11.first_valuation_least
#print axioms B.Props.C11.last_valuation_greatest
#print axioms B.Props.C11.first_clause_path
#print axioms B.Props.C11.last_clause_path
#print axioms B.Props.C11.most_positive_spec
#print axioms B.Props.C11.most_negative_spec
#print axioms B.Props.C11.most_fixed_spec
#print axioms B.Props.C11.most_free_spec
#print axioms B.Props.C11.random_valuation_sat
#print axioms B.Props.C11.random_clause_path
#print axioms B.Props.C11.necessary_clause_sound
#print axioms B.Props.C11.necessary_clause_exact
#print axioms B.Props.C11.is_clause_spec
#print axioms B.Props.C11.is_valuation_spec
#print axioms B.AlgoEqUtil.Bdd_sat_witness_spec
#print axioms B.AlgoEqUtil.Bdd_is_clause_spec
#print axioms B.AlgoEqUtil.Bdd_is_valuation_spec
#print axioms B.AlgoEqUtil.Bdd_is_clause_eq_model_driver
#print axioms B.AlgoEqUtil.Bdd_is_valuation_eq_model_driver
#print axioms B.AlgoEq2Sel.Bdd_first_valuation_spec
#print axioms B.AlgoEq2Sel.Bdd_last_valuation_spec
#print axioms B.AlgoEq2Sel.Bdd_first_clause_spec
#print axioms B.AlgoEq2Sel.Bdd_last_clause_spec
#print axioms B.AlgoEq2Sel.Bdd_most_positive_valuation_spec
#print axioms B.AlgoEq2Sel.Bdd_most_negative_valuation_spec
#print axioms B.AlgoEq2Sel.Bdd_most_fixed_clause_spec
#print axioms B.AlgoEq2Sel.Bdd_most_free_clause_spec
#print axioms B.AlgoEq2Sel.Bdd_necessary_clause_exact
#print axioms B.AlgoEq2Sel.Bdd_random_valuation_spec
#print axioms B.AlgoEq2Sel.Bdd_random_clause_spec
#print axioms B.AlgoEq2Sel.selectors_eq_model_driver
