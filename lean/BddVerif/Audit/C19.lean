import BddVerif.Props.C19
import BddVerif.Lemmas.TraitTable
#print axioms B.Props.C19.sched_irrelevant
#print axioms B.Props.C19.pool_unchanged
#print axioms B.Props.C19.deterministic
#print axioms B.Props.C19.sched_irrelevant_pure
#print axioms B.Props.C19.prefix_at_any_time
#print axioms B.Props.C19.steps_commute
#print axioms B.Props.C19.hidden_state_matters
#print axioms B.Props.C19.leaky_not_transparent
#print axioms B.Props.C19.shared_state_inventory_allowed
#print axioms B.Props.C19.no_unsorted_hash_iteration
#print axioms B.Props.C19.hash_iteration_sites_classified
#print axioms B.Props.C19.allowed_only_unsafe_blocks
#print axioms B.SchedT.semTr_transparent
#print axioms B.SchedT.semTrH_transparent
#print axioms B.Props.C19.sched_irrelevant_translated
#print axioms B.Props.C19.sched_irrelevant_translated_hidden
#print axioms B.Props.C19.deterministic_translated
#print axioms B.Props.C19.pool_unchanged_translated
#print axioms B.Props.C19.prefix_at_any_time_translated
#print axioms B.TraitTable.key_types_derive_eq_hash
#print axioms B.TraitTable.iterators_define_only_next
