import BddVerif.Props.C19
