import BddVerif.Props.C01
#print axioms B.Props.C01.builtin_tables_consistent
#print axioms B.Props.C01.connective_numbers
#print axioms B.Props.C01.ite_table_consistent
#print axioms B.Props.C01.ite_connective
