import BddVerif.Props.C01
import BddVerif.Lemmas.AlgoEqUtilSpec
import BddVerif.Lemmas.AlgoEqApply
import BddVerif.Lemmas.AlgoEqTernary
import BddVerif.Lemmas.AlgoEq2RelPanic
import BddVerif.Lemmas.AlgoEq3ExprIte
import BddVerif.Lemmas.TraitTable
#print axioms B.Props.C01.apply_pointwise
#print axioms B.Props.C01.eager_lazy_same
#print axioms B.Props.C01.apply_canonical_form
#print axioms B.Props.C01.builtin_tables_consistent
#print axioms B.Props.C01.builtin_pointwise
#print axioms B.Props.C01.builtin_tables_check
#print axioms B.Props.C01.connective_numbers
#print axioms B.Props.C01.ite_table_check
#print axioms B.Props.C01.ite_connective
#print axioms B.Props.C01.ternary_pointwise
#print axioms B.Props.C01.ternary_eager_lazy_same
#print axioms B.Props.C01.if_then_else_pointwise
#print axioms B.Props.C01.ite_table_consistent
#print axioms B.Props.C01.table_checks_sound
#print axioms B.Props.C01.not_pointwise
#print axioms B.Props.C01.not_canonical_form
#print axioms B.AlgoEqUtil.Bdd_not_eq_model
#print axioms B.AlgoEqUtil.Bdd_not_canon
#print axioms B.AlgoEqUtil.Bdd_eval_in_spec
#print axioms B.AlgoEqUtil.Bdd_eval_in_eq_model_driver
#print axioms B.apply_with_flip_eq_model
#print axioms B.apply_with_flip_eq_canon
#print axioms B.apply_with_flip_eq_model_driver
#print axioms B.Bdd_binary_op_eq_model_driver
#print axioms B.apply_with_flip_panics_mismatch
#print axioms B.ternary_apply_eq_model
#print axioms B.ternary_apply_eq_canon
#print axioms B.Bdd_ternary_op_eq_model_driver
#print axioms B.AlgoEq2Rel.Bdd_and_eq_canon
#print axioms B.AlgoEq2Rel.Bdd_or_eq_canon
#print axioms B.AlgoEq2Rel.Bdd_xor_eq_canon
#print axioms B.AlgoEq2Rel.Bdd_imp_eq_canon
#print axioms B.AlgoEq2Rel.Bdd_iff_eq_canon
#print axioms B.AlgoEq2Rel.Bdd_and_not_eq_canon
#print axioms B.AlgoEq2Rel.connectives_panic_mismatch
#print axioms B.AlgoEq3Expr.ite_function_eq
#print axioms B.AlgoEq3Expr.Bdd_if_then_else_eq_model
#print axioms B.AlgoEq3Expr.Bdd_if_then_else_eq_canon
#print axioms B.AlgoEq3Expr.Bdd_if_then_else_eq_model_driver
#print axioms B.AlgoEq3Expr.Bdd_if_then_else_panics_mismatch
#print axioms B.TraitTable.key_types_derive_eq_hash
