import BddVerif.Props.C12
