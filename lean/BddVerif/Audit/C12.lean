import BddVerif.Props.C12
import BddVerif.Lemmas.AlgoEq2BytesSpec
import BddVerif.Lemmas.AlgoEq3TextDriver
import BddVerif.Lemmas.AlgoEq4Misc
import BddVerif.Lemmas.AlgoEq4Display
#print axioms B.Props.C12.text_roundtrip_chars
#print axioms B.Props.C12.text_roundtrip
#print axioms B.Props.C12.bytes_roundtrip
#print axioms B.Props.C12.nodes_roundtrip
#print axioms B.Props.C12.bytes_len
#print axioms B.Props.C12.record_len_is_ten
#print axioms B.Props.C12.widths_are_u16_u32
#print axioms B.Props.C12.decodeRecs_size
#print axioms B.Props.C12.text_ws_tolerant
#print axioms B.Props.C12.text_roundtrip_ws
#print axioms B.Props.C12.chunking_irrelevant_read_bytes
#print axioms B.Props.C12.chunking_irrelevant_read_text
#print axioms B.Props.C12.chunking_irrelevant_write_bytes
#print axioms B.Props.C12.chunking_irrelevant_write_text
#print axioms B.Props.C12.roundtrip_under_chunking
#print axioms B.Props.C12.io_error_propagates_read_bytes
#print axioms B.Props.C12.io_error_propagates_read_text
#print axioms B.Props.C12.io_error_propagates_write
#print axioms B.Serial.parseUInt_showNat
#print axioms B.Serial.layout_ok
#print axioms B.Serial.utf8Decode_encode
#print axioms B.AlgoEq2Bytes.Bdd_write_as_bytes_eq_model
#print axioms B.AlgoEq2Bytes.Bdd_read_as_bytes_eq_model
#print axioms B.AlgoEq2Bytes.Bdd_to_bytes_eq_model
#print axioms B.AlgoEq2Bytes.Bdd_from_bytes_eq_model
#print axioms B.AlgoEq2Bytes.bytes_roundtrip
#print axioms B.AlgoEq2Bytes.chunking_irrelevant_read_bytes
#print axioms B.AlgoEq2Bytes.chunking_irrelevant_write_bytes
#print axioms B.AlgoEq2Bytes.io_error_propagates_read_bytes
#print axioms B.AlgoEq2Bytes.io_error_propagates_write_bytes
#print axioms B.Props.C12.std_twin_eq
#print axioms B.AlgoEq3Text.Bdd_write_as_string_eq_model
#print axioms B.AlgoEq3Text.Bdd_write_as_string_accepting
#print axioms B.AlgoEq3Text.Bdd_write_as_string_err_iff
#print axioms B.AlgoEq3Text.Bdd_fmt_eq_model
#print axioms B.AlgoEq3Text.Bdd_read_as_string_eq_model
#print axioms B.AlgoEq3Text.Bdd_from_string_eq_model
#print axioms B.AlgoEq3Text.Bdd_from_string_to_string
#print axioms B.AlgoEq3Text.Bdd_write_as_string_driver
#print axioms B.AlgoEq3Text.Bdd_read_as_string_driver
#print axioms B.AlgoEq4.Bdd_to_nodes_eq_model
#print axioms B.AlgoEq4.from_nodes_to_nodes_translated
#print axioms B.AlgoEq4.BddPointer_fmt_eq
#print axioms B.AlgoEq4.BddVariable_fmt_eq
