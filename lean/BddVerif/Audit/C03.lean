import BddVerif.Props.C03
