import BddVerif.Props.C03
import BddVerif.Lemmas.AlgoEqNestedDriver
import BddVerif.Lemmas.AlgoEq2RelPanic
import BddVerif.Lemmas.AlgoEq2RelQuant
import BddVerif.Lemmas.SupportCongr
import BddVerif.Lemmas.SupportCongrDrive
#print axioms B.Props.C03.var_exists_canon
#print axioms B.Props.C03.var_for_all_canon
#print axioms B.Props.C03.var_exists_spec
#print axioms B.Props.C03.var_for_all_spec
#print axioms B.Props.C03.var_quant_indep
#print axioms B.Props.C03.realign_canon
#print axioms B.Props.C03.realign_fixpoint_iff_canonical
#print axioms B.Props.C03.realign_unique
#print axioms B.Props.C03.nested_canon
#print axioms B.Props.C03.nested_den
#print axioms B.Props.C03.nested_indep
#print axioms B.Props.C03.nested_tables_irrelevant
#print axioms B.Props.C03.binary_op_with_exists_canon
#print axioms B.Props.C03.binary_op_with_for_all_canon
#print axioms B.Props.C03.binary_op_with_exists_spec
#print axioms B.Props.C03.binary_op_with_for_all_spec
#print axioms B.Props.C03.exists_spec
#print axioms B.Props.C03.for_all_spec
#print axioms B.Props.C03.exists_for_all_canon
#print axioms B.Props.C03.quant_indep
#print axioms B.Props.C03.quant_list_invariant
#print axioms B.Props.C03.exists_singleton_eq_var_exists
#print axioms B.Props.C03.results_canonical
#print axioms B.Props.C03.nested_or_spec
#print axioms B.Props.C03.nested_and_spec
#print axioms B.Props.C03.panic_conditions
#print axioms B.AlgoEq.fix_bdd_alignment_eq_model
#print axioms B.AlgoEq.fix_bdd_alignment_eq_canon
#print axioms B.AlgoEq.inner_apply_eq_model
#print axioms B.AlgoEq.nested_apply_eq_model
#print axioms B.AlgoEq.nested_apply_eq_canon
#print axioms B.AlgoEq.nested_apply_panic
#print axioms B.AlgoEq.binary_op_nested_eq_model
#print axioms B.AlgoEq.nested_apply_eq_model_driver
#print axioms B.AlgoEq2Rel.Bdd_var_exists_eq_canon
#print axioms B.AlgoEq2Rel.Bdd_var_for_all_eq_canon
#print axioms B.AlgoEq2Rel.Bdd_exists_eq_model
#print axioms B.AlgoEq2Rel.Bdd_for_all_eq_model
#print axioms B.AlgoEq2Rel.Bdd_binary_op_with_exists_eq_model
#print axioms B.AlgoEq2Rel.Bdd_var_exists_panics
#print axioms B.SupportCongr.evalArr_congr_supportSet
#print axioms B.SupportCongr.compress_evalArr_eq
#print axioms B.SupportCongr.compress_evalArr_conn
#print axioms B.SupportCongr.compress_evalArr_proj
#print axioms B.SupportCongr.sameOn_iff
#print axioms B.SupportCongr.c03_valOn_sound
