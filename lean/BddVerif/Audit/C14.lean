import BddVerif.Props.C14
#print axioms B.Props.C14.parse_total
#print axioms B.Props.C14.tokenize_total
#print axioms B.Props.C14.tokenize_consumes
#print axioms B.Props.C14.parse_tokens_total
#print axioms B.Props.C14.parse_tokens_iff_grammar
#print axioms B.Props.C14.parse_iff_grammar
#print axioms B.Props.C14.grammar_unambiguous
#print axioms B.Props.C14.rejected_iff_not_grammar
#print axioms B.Props.C14.print_parse_tokens
#print axioms B.Props.C14.tokenize_display
#print axioms B.Props.C14.print_parse
#print axioms B.Props.C14.print_parse_needs_safe_names
#print axioms B.Props.C14.special_chars_not_in_names
