import BddVerif.Props.C14
