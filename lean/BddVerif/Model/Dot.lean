import BddVerif.Model.Apply
import BddVerif.Model.Outcome
import BddVerif.Model.Serial
/-!
Executable model of the `.dot` export (`src/_impl_bdd/_impl_export_dot.rs:36-91`, `write_bdd_as_dot`).

`dotStmts A names pruned` is the sequence of statements the Rust function writes, one per `writeln!`;
`render` produces the exact text (every statement followed by `\n`), `parseLine` / `parseDot` read the
text back (labels without `"`; a label containing a line feed breaks the line structure and is refused
by `parseDot`), `evalGraph` evaluates the graph that was read back (a missing edge or an undeclared
vertex means 0).

Panics of the Rust code: `var_names.len() != bdd.num_vars()` (explicit `panic!`), `var_names[var]` out
of bounds for a decision node whose variable is not below `num_vars` (only possible for an invalid Bdd),
`self.0[0]` on an empty node vector (not constructible through the API). All text goes to a `Vec<u8>`, so
a panic discards everything: the outcome is `panic`, never a partial text.
Only core + Std; the fixed pieces of text are explicit `List Char` literals so that the kernel can
compute with them.
-/
namespace B.Dot

inductive Style where
  | filled
  | dotted
deriving DecidableEq, Repr, Inhabited

/-- one `writeln!` of `write_bdd_as_dot` -/
inductive Stmt where
  /-- `digraph G {` -/
  | header
  /-- `init__ [label="", style=invis, height=0, width=0];` -/
  | initNode
  /-- `init__ -> p;` -/
  | initEdge (p : Nat)
  /-- `b [shape=box, label="b", style=filled, shape=box, height=0.3, width=0.3];` -/
  | terminal (b : Bool)
  /-- `p[label="name"];` -/
  | vertex (p : Nat) (label : String)
  /-- `p -> q [style=filled];` / `p -> q [style=dotted];` -/
  | edge (p q : Nat) (s : Style)
  /-- `}` -/
  | footer
deriving DecidableEq, Repr, Inhabited

/-! ### statements -/

/-- the three (or fewer, when pruned) statements of decision node `p` -/
def nodeStmts (A : Arr) (names : List String) (pruned : Bool) (p : Nat) : List Stmt :=
  let nd := nodeAt A p
  [Stmt.vertex p (names[nd.var]?.getD "")] ++
  (if !pruned || nd.high != 0 then [Stmt.edge p nd.high .filled] else []) ++
  (if !pruned || nd.low != 0 then [Stmt.edge p nd.low .dotted] else [])

/-- the decision nodes: `bdd.pointers().skip(2)` -/
def innerPtrs (A : Arr) : List Nat := List.range' 2 (A.size - 2)

def preamble (A : Arr) (pruned : Bool) : List Stmt :=
  [Stmt.header, Stmt.initNode, Stmt.initEdge (root A)] ++
  (if pruned then [] else [Stmt.terminal false]) ++ [Stmt.terminal true]

/-- the statements written for a Bdd, assuming no panic -/
def stmtsOf (A : Arr) (names : List String) (pruned : Bool) : List Stmt :=
  preamble A pruned ++ (innerPtrs A).flatMap (nodeStmts A names pruned) ++ [Stmt.footer]

/-- `write_bdd_as_dot` up to rendering -/
def dotStmts (A : Arr) (names : List String) (pruned : Bool) : Outcome (List Stmt) :=
  if A.size = 0 then .panic "index out of bounds: the node vector is empty"
  else if names.length ≠ numVars A then .panic "Bdd is incompatible with the variable set"
  else if (innerPtrs A).any (fun p => decide (names.length ≤ (nodeAt A p).var)) then
    .panic "index out of bounds: var_names[var]"
  else .ok (stmtsOf A names pruned)

/-! ### rendering -/

def digitChar (d : Nat) : Char := Char.ofNat (48 + d)

/-- decimal digits, as printed by `{}` for an unsigned integer -/
def digits (n : Nat) : List Char :=
  if n < 10 then [digitChar n] else digits (n / 10) ++ [digitChar (n % 10)]
decreasing_by omega

def tHeader : List Char :=
  ['d', 'i', 'g', 'r', 'a', 'p', 'h', ' ', 'G', ' ', '{']
def tInitNode : List Char :=
  ['i', 'n', 'i', 't', '_', '_', ' ', '[', 'l', 'a', 'b', 'e', 'l', '=', '"', '"', ',', ' ', 's', 't', 'y', 'l', 'e', '=', 'i', 'n', 'v', 'i', 's', ',', ' ', 'h', 'e', 'i', 'g', 'h', 't', '=', '0', ',', ' ', 'w', 'i', 'd', 't', 'h', '=', '0', ']', ';']
def tInitEdge : List Char :=
  ['i', 'n', 'i', 't', '_', '_', ' ', '-', '>', ' ']
def tTermA : List Char :=
  [' ', '[', 's', 'h', 'a', 'p', 'e', '=', 'b', 'o', 'x', ',', ' ', 'l', 'a', 'b', 'e', 'l', '=', '"']
def tTermB : List Char :=
  ['"', ',', ' ', 's', 't', 'y', 'l', 'e', '=', 'f', 'i', 'l', 'l', 'e', 'd', ',', ' ', 's', 'h', 'a', 'p', 'e', '=', 'b', 'o', 'x', ',', ' ', 'h', 'e', 'i', 'g', 'h', 't', '=', '0', '.', '3', ',', ' ', 'w', 'i', 'd', 't', 'h', '=', '0', '.', '3', ']', ';']
def tLabelA : List Char :=
  ['[', 'l', 'a', 'b', 'e', 'l', '=', '"']
def tLabelB : List Char :=
  ['"', ']', ';']
def tArrow : List Char :=
  [' ', '-', '>', ' ']
def tFilled : List Char :=
  [' ', '[', 's', 't', 'y', 'l', 'e', '=', 'f', 'i', 'l', 'l', 'e', 'd', ']', ';']
def tDotted : List Char :=
  [' ', '[', 's', 't', 'y', 'l', 'e', '=', 'd', 'o', 't', 't', 'e', 'd', ']', ';']
def tFooter : List Char :=
  ['}']

def styleText : Style → List Char
  | .filled => tFilled
  | .dotted => tDotted

def boolNat (b : Bool) : Nat := if b then 1 else 0

/-- the characters of one statement (without the line feed) -/
def renderStmt : Stmt → List Char
  | .header => tHeader
  | .initNode => tInitNode
  | .initEdge p => tInitEdge ++ (digits p ++ [';'])
  | .terminal b => digits (boolNat b) ++ (tTermA ++ (digits (boolNat b) ++ tTermB))
  | .vertex p l => digits p ++ (tLabelA ++ (l.toList ++ tLabelB))
  | .edge p q s => digits p ++ (tArrow ++ (digits q ++ styleText s))
  | .footer => tFooter

/-- the exact text of `write_bdd_as_dot` -/
def render (ss : List Stmt) : String :=
  String.ofList (ss.flatMap fun s => renderStmt s ++ ['\n'])

/-- `bdd_to_dot_string` / `Bdd::to_dot_string` -/
def toDotString (A : Arr) (names : List String) (pruned : Bool) : Outcome String :=
  (dotStmts A names pruned).map render

/-! ### `write_as_dot_string` into an arbitrary sink -/

/-- the bytes of the text (`String` is UTF-8) -/
def textBytes (t : String) : List UInt8 := t.toUTF8.toList

/-- `write_as_dot_string(output, …)` with a scripted sink (`B.Serial.Ev`: one event per `write` call).
    Every `writeln!` is `Write::write_fmt`, i.e. a sequence of `write_all` calls on consecutive pieces of the text
    (how the text is cut into pieces is a detail of `format_args!`): `writeDotPieces` for a given division.
    Result: `Ok`?, the bytes that reached the sink. -/
def writeDotPieces (pieces : List (List UInt8)) (script : List Serial.Ev) : Bool × List UInt8 :=
  let r := Serial.writePieces script pieces
  (r.1, r.2.1)

/-- how `format_args!` cuts one `writeln!` into the pieces that `write_fmt` hands to `write_all`: literal fragments
    and `{}` arguments alternate, the line feed belongs to the last literal fragment (checked against the code by the
    `C20.pieces` stream of the harness and by `Lemmas/AlgoEq3Dot*.lean` against the translated function). An empty
    piece (the empty name) causes no `write` call. -/
def stmtPieces : Stmt → List (List Char)
  | .header => [tHeader ++ ['\n']]
  | .initNode => [tInitNode ++ ['\n']]
  | .initEdge p => [tInitEdge, digits p, [';', '\n']]
  | .terminal b => [digits (boolNat b) ++ (tTermA ++ (digits (boolNat b) ++ tTermB)) ++ ['\n']]
  | .vertex p l => [digits p, tLabelA, l.toList, tLabelB ++ ['\n']]
  | .edge p q s => [digits p, tArrow, digits q, styleText s ++ ['\n']]
  | .footer => [tFooter ++ ['\n']]

/-- the `write_all` pieces of a sequence of statements, as bytes -/
def piecesOf (ss : List Stmt) : List (List UInt8) :=
  (ss.flatMap stmtPieces).map fun cs => textBytes (String.ofList cs)

/-- the decision nodes whose variable has a name, up to the first one that has none -/
def namedPrefix (A : Arr) (names : List String) : List Nat :=
  (innerPtrs A).takeWhile fun p => decide ((nodeAt A p).var < names.length)

/-- `write_as_dot_string(output, …)` = `write_bdd_as_dot` with a scripted sink, in the order of the code:
    the two entry checks (panics before anything is written); then one `write_all(..)?` per piece — a sink error is
    returned at once; the name of a node's variable is looked up when the loop reaches that node, so
    `var_names[var]` out of bounds panics only after everything before that node has been written successfully.
    Result: `Ok`?, the bytes that reached the sink. -/
def writeDotIO (A : Arr) (names : List String) (pruned : Bool) (script : List Serial.Ev) :
    Outcome (Bool × List UInt8) :=
  if A.size = 0 then .panic "index out of bounds: the node vector is empty"
  else if names.length ≠ numVars A then .panic "Bdd is incompatible with the variable set"
  else
    let good := namedPrefix A names
    if good.length = (innerPtrs A).length then
      .ok (writeDotPieces (piecesOf (stmtsOf A names pruned)) script)
    else
      let r := writeDotPieces (piecesOf (preamble A pruned ++ good.flatMap (nodeStmts A names pruned))) script
      if r.1 then .panic "index out of bounds: var_names[var]" else .ok r

/-- a sink with a byte budget (`write` accepts what is left of the budget — a short write where it ends — and fails
    with a hard error once nothing is left), driven by `write_all` piece by piece: an empty piece causes no call -/
def budgetPieces : Nat → List (List UInt8) → Bool × List UInt8
  | _, [] => (true, [])
  | b, p :: ps =>
    if p.length = 0 then budgetPieces b ps
    else if p.length ≤ b then
      let r := budgetPieces (b - p.length) ps
      (r.1, p ++ r.2)
    else (false, p.take b)

/-- `write_as_dot_string` into a sink with a byte budget, in the order of the code (as `writeDotIO`) -/
def writeDotBudget (A : Arr) (names : List String) (pruned : Bool) (budget : Nat) : Outcome (Bool × List UInt8) :=
  if A.size = 0 then .panic "index out of bounds: the node vector is empty"
  else if names.length ≠ numVars A then .panic "Bdd is incompatible with the variable set"
  else
    let good := namedPrefix A names
    if good.length = (innerPtrs A).length then
      .ok (budgetPieces budget (piecesOf (stmtsOf A names pruned)))
    else
      let r := budgetPieces budget (piecesOf (preamble A pruned ++ good.flatMap (nodeStmts A names pruned)))
      if r.1 then .panic "index out of bounds: var_names[var]" else .ok r

/-! ### reading the text back -/

def stripPrefix : List Char → List Char → Option (List Char)
  | [], cs => some cs
  | _ :: _, [] => none
  | p :: ps, c :: cs => if p = c then stripPrefix ps cs else none

def parseNat (cs : List Char) : Nat := cs.foldl (fun a c => 10 * a + (c.toNat - 48)) 0

/-- a line that starts with a digit: edge, vertex or terminal -/
def parseDigitLed (cs : List Char) : Option Stmt :=
  let ds := cs.takeWhile Char.isDigit
  let r := cs.dropWhile Char.isDigit
  match stripPrefix tArrow r with
  | some r2 =>
    let qs := r2.takeWhile Char.isDigit
    let r3 := r2.dropWhile Char.isDigit
    if qs = [] then none
    else if r3 = tFilled then some (.edge (parseNat ds) (parseNat qs) .filled)
    else if r3 = tDotted then some (.edge (parseNat ds) (parseNat qs) .dotted)
    else none
  | none =>
    match stripPrefix tLabelA r with
    | some r2 =>
      let name := r2.takeWhile (fun c => c != '"')
      let r3 := r2.dropWhile (fun c => c != '"')
      if r3 = tLabelB then some (.vertex (parseNat ds) (String.ofList name)) else none
    | none =>
      match stripPrefix tTermA r with
      | some r2 =>
        let ls := r2.takeWhile Char.isDigit
        let r3 := r2.dropWhile Char.isDigit
        if r3 = tTermB ∧ ls = ds then
          (if ds = ['0'] then some (.terminal false) else if ds = ['1'] then some (.terminal true) else none)
        else none
      | none => none

/-- a line that does not start with a digit: header, footer, the invisible entry vertex, the entry edge -/
def parseKeyword (cs : List Char) : Option Stmt :=
  if cs = tHeader then some .header
  else if cs = tFooter then some .footer
  else if cs = tInitNode then some .initNode
  else
    match stripPrefix tInitEdge cs with
    | some r =>
      let ds := r.takeWhile Char.isDigit
      let r2 := r.dropWhile Char.isDigit
      if ds ≠ [] ∧ r2 = [';'] then some (.initEdge (parseNat ds)) else none
    | none => none

/-- one line of the text (without its line feed) -/
def parseLine (cs : List Char) : Option Stmt :=
  match cs with
  | [] => none
  | c :: _ => if c.isDigit then parseDigitLed cs else parseKeyword cs

/-- split at line feeds; every line is terminated by one -/
def splitLines : List Char → List Char → Option (List (List Char))
  | [], [] => some []
  | [], _ :: _ => none
  | c :: rest, cur =>
    if c = '\n' then (splitLines rest []).map (fun ls => cur.reverse :: ls)
    else splitLines rest (c :: cur)

/-- the whole text: every line must parse -/
def parseDot (text : String) : Option (List Stmt) :=
  match splitLines text.toList [] with
  | none => none
  | some ls => ls.mapM parseLine

/-! ### the graph that was read back -/

def entryAt : Stmt → Option Nat
  | .initEdge p => some p
  | _ => none

def vertexAt (p : Nat) : Stmt → Option String
  | .vertex q l => if q = p then some l else none
  | _ => none

def edgeAt (p : Nat) (st : Style) : Stmt → Option Nat
  | .edge q r s => if q = p ∧ s = st then some r else none
  | _ => none

/-- a terminal vertex is identified by its id, which is also its label -/
def terminalAt (p : Nat) : Stmt → Option Bool
  | .terminal b => if boolNat b = p then some b else none
  | _ => none

def entryOf (ss : List Stmt) : Option Nat := ss.findSome? entryAt
def findVertex (ss : List Stmt) (p : Nat) : Option String := ss.findSome? (vertexAt p)
def findEdge (ss : List Stmt) (p : Nat) (st : Style) : Option Nat := ss.findSome? (edgeAt p st)
def findTerminal (ss : List Stmt) (p : Nat) : Option Bool := ss.findSome? (terminalAt p)

/-- walk from vertex `p`: a terminal vertex gives its label, a decision vertex is left through its solid
    edge if its label is true in `val` and through its dotted edge otherwise; a missing edge, an undeclared
    vertex or exhausted fuel give 0 -/
def evalGraph (ss : List Stmt) (val : String → Bool) : Nat → Nat → Bool
  | fuel, p =>
    match findTerminal ss p with
    | some b => b
    | none =>
      match fuel with
      | 0 => false
      | fuel + 1 =>
        match findVertex ss p with
        | none => false
        | some l =>
          match findEdge ss p (if val l then .filled else .dotted) with
          | none => false
          | some q => evalGraph ss val fuel q

/-- evaluate from the entry edge -/
def evalDot (ss : List Stmt) (val : String → Bool) (fuel : Nat) : Bool :=
  match entryOf ss with
  | some p => evalGraph ss val fuel p
  | none => false

end B.Dot
