import BddVerif.Core.Basic
import BddVerif.Model.Outcome
/-!
# Executable model of the serialisation code (C12, C13)

Anchors: `src/_impl_bdd/_impl_serialisation.rs` (`write_as_string`, `read_as_string`, `write_as_bytes`,
`read_as_bytes`), `src/_impl_bdd_pointer.rs`, `src/_impl_bdd_variable.rs` (`to_le_bytes`/`from_le_bytes`),
`src/_impl_bdd/_impl_util.rs` (`to_nodes`, `from_nodes`, `validate`), `src/_impl_bdd_valuation.rs` (`eval_in`).

Conventions
* a Rust panic (index out of bounds, `unwrap`) is the explicit outcome `Outcome.panic`; every `xs[i]` of the
  Rust code is an `idx`/`aidx` here, so "the length test guards the index" is a theorem, not a definition;
* a loop that might not terminate has a fuel and returns `none` (= *diverge*) when the fuel is exhausted;
* `std::io::{Read, Write}` are scripted environments: `Reader`/`List Ev`; the helper loops of std
  (`read_exact`, `read_to_end`/`read_to_string`, `write_all`, `write_fmt`) are modelled from their documentation;
* `str::parse::<u16/u32>` is the decimal grammar `parseUInt`, `char::is_whitespace` the list `whiteSpace`;
* the byte layout (`recordLen`, offsets and widths of the three fields) is NOT in this file: `Model/Serial.lean`
  instantiates it from the regenerated `Gen.recordLen` / `Gen.fieldLayout` (the theorems are about that
  instance), `Model/SerialStd.lean` from the documented constants (the drivers replay that one, so that they still
  build and decide cases when the translator reports a broken tie; `Props/C12.std_twin_eq` proves the two equal).
Core only (no Std, no Mathlib).
-/
set_option linter.unusedVariables false

namespace B.Serial
open B

/-! ## Partial indexing (a Rust `xs[i]`) -/

def idx {α} (xs : List α) (i : Nat) : Outcome α :=
  match xs[i]? with
  | some x => .ok x
  | none => .panic "index out of bounds"

def aidx {α} (xs : Array α) (i : Nat) : Outcome α :=
  match xs[i]? with
  | some x => .ok x
  | none => .panic "index out of bounds"

/-! ## Decimal printer (`Display for u16/u32`) and parser (`FromStr for u16/u32`) -/

def digitChar (d : Nat) : Char := Char.ofNat (48 + d)

/-- `char::to_digit(10)`: ASCII digits only -/
def digitVal? (c : Char) : Option Nat :=
  if 48 ≤ c.toNat ∧ c.toNat ≤ 57 then some (c.toNat - 48) else none

/-- `Display` of an unsigned integer: no sign, no leading zero, `0` for zero -/
def showNat (k : Nat) : List Char :=
  if k < 10 then [digitChar k] else showNat (k / 10) ++ [digitChar (k % 10)]
termination_by k
decreasing_by omega

/-- digit loop of `from_ascii_radix` (radix 10) with `checked_mul`/`checked_add` against `max` -/
def parseDigits (max : Nat) : Nat → List Char → Option Nat
  | acc, [] => some acc
  | acc, c :: cs =>
    match digitVal? c with
    | none => none
    | some d => if acc * 10 + d ≤ max then parseDigits max (acc * 10 + d) cs else none

/-- `from_ascii_radix` for an unsigned type: empty = error, a lone sign = error, one leading `+` is
    dropped, a `-` is not (it is then an invalid digit), then digits only; overflow = error -/
def parseUInt (max : Nat) (s : List Char) : Option Nat :=
  match s with
  | [] => none
  | [c] => if c = '+' ∨ c = '-' then none else parseDigits max 0 [c]
  | c :: rest => if c = '+' then parseDigits max 0 rest else parseDigits max 0 (c :: rest)

def u16Max : Nat := 65535
def u32Max : Nat := 4294967295

/-! ## `char::is_whitespace` = Unicode `White_Space` -/

def whiteSpace : List Nat :=
  [0x09, 0x0A, 0x0B, 0x0C, 0x0D, 0x20, 0x85, 0xA0, 0x1680,
   0x2000, 0x2001, 0x2002, 0x2003, 0x2004, 0x2005, 0x2006, 0x2007, 0x2008, 0x2009, 0x200A,
   0x2028, 0x2029, 0x202F, 0x205F, 0x3000]

def isWhitespace (c : Char) : Bool := whiteSpace.contains c.toNat

/-! ## Text format -/

/-- `str::split(sep)`: always at least one piece; `n` separators give `n + 1` pieces -/
def splitOn (sep : Char) : List Char → List (List Char)
  | [] => [[]]
  | c :: cs =>
    if c = sep then [] :: splitOn sep cs
    else match splitOn sep cs with
      | [] => [[c]]
      | p :: ps => (c :: p) :: ps

def liftOpt {α} (o : Option α) : Outcome α :=
  match o with
  | some a => .ok a
  | none => .err "parse error"

/-- one `var,low,high` record (the body of the `for` loop of `read_as_string`) -/
def parseRecord (s : List Char) : Outcome Node :=
  let items := splitOn ',' s
  if items.length ≠ 3 then .err "Expected `var,low,high`" else
  match idx items 0 with
  | .panic m => .panic m
  | .err m => .err m
  | .ok i0 =>
    match liftOpt (parseUInt u16Max i0) with
    | .panic m => .panic m
    | .err m => .err m
    | .ok v =>
      match idx items 1 with
      | .panic m => .panic m
      | .err m => .err m
      | .ok i1 =>
        match liftOpt (parseUInt u32Max i1) with
        | .panic m => .panic m
        | .err m => .err m
        | .ok l =>
          match idx items 2 with
          | .panic m => .panic m
          | .err m => .err m
          | .ok i2 =>
            match liftOpt (parseUInt u32Max i2) with
            | .panic m => .panic m
            | .err m => .err m
            | .ok h => .ok ⟨v, l, h⟩

def parseRecords : List (List Char) → Arr → Outcome Arr
  | [], acc => .ok acc
  | p :: ps, acc =>
    match parseRecord p with
    | .ok nd => parseRecords ps (acc.push nd)
    | .err m => .err m
    | .panic m => .panic m

/-- `read_as_string` after `read_to_string`: `retain` non-whitespace, split on `|`, drop empty pieces -/
def parseText (s : List Char) : Outcome Arr :=
  parseRecords ((splitOn '|' (s.filter fun c => !isWhitespace c)).filter fun p => !p.isEmpty) #[]

/-- the pieces handed to `write_all` by `write!`: `"|"`, then per node the three numbers, two commas, `"|"` -/
def nodePieces (nd : Node) : List (List Char) :=
  [showNat nd.var, [','], showNat nd.low, [','], showNat nd.high, ['|']]

def textPieces (A : Arr) : List (List Char) := ['|'] :: A.toList.flatMap nodePieces

/-- `to_string` / `write_as_string` into a sink that accepts everything -/
def writeText (A : Arr) : List Char := (textPieces A).flatten

/-! ## UTF-8 (`String::from_utf8` as used by `read_to_string`; `str::as_bytes`) -/

def isCont (b : Nat) : Bool := 0x80 ≤ b && b ≤ 0xBF

/-- well-formed UTF-8 byte sequences (Unicode Table 3-7), over byte values -/
def utf8DecNat : List Nat → Option (List Char)
  | [] => some []
  | b0 :: rest =>
    if b0 < 0x80 then (utf8DecNat rest).map (Char.ofNat b0 :: ·)
    else if 0xC2 ≤ b0 ∧ b0 ≤ 0xDF then
      match rest with
      | b1 :: r1 =>
        if isCont b1 then (utf8DecNat r1).map (Char.ofNat ((b0 - 0xC0) * 64 + (b1 - 0x80)) :: ·) else none
      | _ => none
    else if 0xE0 ≤ b0 ∧ b0 ≤ 0xEF then
      match rest with
      | b1 :: b2 :: r2 =>
        if isCont b1 && isCont b2 && (b0 != 0xE0 || 0xA0 ≤ b1) && (b0 != 0xED || b1 ≤ 0x9F) then
          (utf8DecNat r2).map (Char.ofNat ((b0 - 0xE0) * 4096 + (b1 - 0x80) * 64 + (b2 - 0x80)) :: ·)
        else none
      | _ => none
    else if 0xF0 ≤ b0 ∧ b0 ≤ 0xF4 then
      match rest with
      | b1 :: b2 :: b3 :: r3 =>
        if isCont b1 && isCont b2 && isCont b3 && (b0 != 0xF0 || 0x90 ≤ b1) && (b0 != 0xF4 || b1 ≤ 0x8F) then
          (utf8DecNat r3).map
            (Char.ofNat ((b0 - 0xF0) * 262144 + (b1 - 0x80) * 4096 + (b2 - 0x80) * 64 + (b3 - 0x80)) :: ·)
        else none
      | _ => none
    else none
termination_by l => l.length
decreasing_by all_goals (simp_wf; try omega)

def utf8Decode (bs : List UInt8) : Option (List Char) := utf8DecNat (bs.map (·.toNat))

def utf8EncChar (c : Char) : List Nat :=
  let n := c.toNat
  if n < 0x80 then [n]
  else if n < 0x800 then [0xC0 + n / 64, 0x80 + n % 64]
  else if n < 0x10000 then [0xE0 + n / 4096, 0x80 + n / 64 % 64, 0x80 + n % 64]
  else [0xF0 + n / 262144, 0x80 + n / 4096 % 64, 0x80 + n / 64 % 64, 0x80 + n % 64]

def utf8Encode (s : List Char) : List UInt8 := (s.flatMap utf8EncChar).map (·.toUInt8)

/-- `read_as_string` on a reader that delivers `bytes` and then end of input -/
def readText (bytes : List UInt8) : Outcome Arr :=
  match utf8Decode bytes with
  | none => .err "stream did not contain valid UTF-8"
  | some s => parseText s

/-! ## Binary format -/

/-- `to_le_bytes` of an unsigned integer of `w` bytes -/
def leBytes : Nat → Nat → List UInt8
  | 0, _ => []
  | w + 1, x => (x % 256).toUInt8 :: leBytes w (x / 256)

/-- `from_le_bytes` -/
def leVal : List UInt8 → Nat
  | [] => 0
  | b :: bs => b.toNat + 256 * leVal bs

def slice (buf : List UInt8) (ow : Nat × Nat) : List UInt8 := (buf.drop ow.1).take ow.2

/-! ## Scripted I/O environment -/

/-- one call of `read`/`write`: transfer at most `k` bytes, fail with `ErrorKind::Interrupted`, or fail
    with another error kind. An exhausted script transfers everything that is asked for. -/
inductive Ev where
  | give (k : Nat)
  | interrupted
  | fail
deriving DecidableEq, Repr, Inhabited

structure Reader where
  data : List UInt8
  script : List Ev
deriving Repr

inductive ReadRes where
  | bytes (bs : List UInt8)
  | interrupted
  | failed
deriving Repr

/-- `Read::read(&mut buf)` with `buf.len() = want` -/
def Reader.read (r : Reader) (want : Nat) : ReadRes × Reader :=
  match r.script with
  | [] => (.bytes (r.data.take want), ⟨r.data.drop want, []⟩)
  | .give k :: s => (.bytes (r.data.take (min k want)), ⟨r.data.drop (min k want), s⟩)
  | .interrupted :: s => (.interrupted, ⟨r.data, s⟩)
  | .fail :: s => (.failed, ⟨r.data, s⟩)

theorem Reader.read_bytes {r r' : Reader} {want : Nat} {bs} (h : r.read want = (.bytes bs, r')) :
    bs.length ≤ want ∧ r'.script.length ≤ r.script.length ∧ r'.data.length + bs.length = r.data.length := by
  unfold Reader.read at h
  split at h <;> simp only [Prod.mk.injEq, ReadRes.bytes.injEq, reduceCtorEq, false_and] at h
  · obtain ⟨rfl, rfl⟩ := h
    rename_i hs
    refine ⟨?_, ?_, ?_⟩ <;> simp [hs] <;> omega
  · obtain ⟨rfl, rfl⟩ := h
    rename_i hs
    refine ⟨?_, ?_, ?_⟩ <;> simp [hs] <;> omega

theorem Reader.read_interrupted {r r' : Reader} {want : Nat} (h : r.read want = (.interrupted, r')) :
    r'.script.length < r.script.length ∧ r'.data = r.data := by
  unfold Reader.read at h
  split at h <;> simp only [Prod.mk.injEq, reduceCtorEq, false_and, true_and] at h
  subst h
  rename_i hs; simp [hs]

inductive ExactRes where
  | ok (bs : List UInt8)
  | eof
  | failed
deriving Repr

/-- `Read::read_exact` (default implementation): retry on `Interrupted`, `Ok(0)` = `UnexpectedEof`,
    other errors returned -/
def readExact (r : Reader) (need : Nat) (acc : List UInt8) : ExactRes × Reader :=
  if need = 0 then (.ok acc, r) else
  match h : r.read need with
  | (.bytes bs, r') =>
    if _hz : bs.length = 0 then (.eof, r') else readExact r' (need - bs.length) (acc ++ bs)
  | (.interrupted, r') => readExact r' need acc
  | (.failed, r') => (.failed, r')
termination_by need + r.script.length
decreasing_by
  · have := Reader.read_bytes h; omega
  · have := Reader.read_interrupted h; omega

theorem readExact_progress {r r' : Reader} {need : Nat} {acc bs}
    (h : readExact r need acc = (.ok bs, r')) : r'.data.length + need ≤ r.data.length ∧
      r'.script.length ≤ r.script.length := by
  fun_induction readExact r need acc with
  | case1 r acc => simp at h; obtain ⟨_, rfl⟩ := h; simp
  | case2 r need acc hn bs0 r0 hr hz => simp at h
  | case3 r need acc hn bs0 r0 hr hz ih =>
    have := Reader.read_bytes hr
    have := ih h; omega
  | case4 r need acc hn r0 hr ih =>
    have h1 := Reader.read_interrupted hr
    have h2 := ih h; rw [h1.2] at h2; omega
  | case5 r need acc hn r0 hr => simp at h

/-- `read_to_end` (as used by `read_to_string`): repeated `read` into buffers whose sizes `wants` are chosen
    by std's growth heuristics (an environment parameter here; `32` once the list is exhausted); retry on
    `Interrupted`, `Ok(0)` = end of input, other errors returned. -/
def readToEnd (r : Reader) (wants : List Nat) (acc : List UInt8) : Option (List UInt8) × Reader :=
  match h : r.read (wants.headD 32) with
  | (.bytes bs, r') =>
    if _hz : bs.length = 0 then (some acc, r') else readToEnd r' wants.tail (acc ++ bs)
  | (.interrupted, r') => readToEnd r' wants.tail acc
  | (.failed, r') => (none, r')
termination_by r.data.length + r.script.length
decreasing_by
  · have := Reader.read_bytes h; omega
  · obtain ⟨h1, h2⟩ := Reader.read_interrupted h; rw [h2]; omega

/-- `read_as_string(input)` -/
def readTextIO (r : Reader) (wants : List Nat) : Outcome Arr × Reader :=
  match readToEnd r wants [] with
  | (none, r') => (.err "io error", r')
  | (some bytes, r') => (readText bytes, r')

inductive WriteRes where
  | accepted (n : Nat)
  | interrupted
  | failed
deriving Repr

/-- `Write::write(buf)`: result, the bytes that reached the sink, the remaining script -/
def sWrite (script : List Ev) (buf : List UInt8) : WriteRes × List UInt8 × List Ev :=
  match script with
  | [] => (.accepted buf.length, buf, [])
  | .give k :: s => (.accepted (min k buf.length), buf.take (min k buf.length), s)
  | .interrupted :: s => (.interrupted, [], s)
  | .fail :: s => (.failed, [], s)

/-- `Write::write_all`: retry on `Interrupted`, `Ok(0)` = `WriteZero` error, other errors returned;
    (ok?, bytes that reached the sink, remaining script) -/
def writeAll (script : List Ev) (buf : List UInt8) : Bool × List UInt8 × List Ev :=
  if buf.length = 0 then (true, [], script) else
  match script with
  | [] => (true, buf, [])
  | .give k :: s =>
    if min k buf.length = 0 then (false, [], s) else
    let (ok, out, s') := writeAll s (buf.drop (min k buf.length))
    (ok, buf.take (min k buf.length) ++ out, s')
  | .interrupted :: s => writeAll s buf
  | .fail :: s => (false, [], s)
termination_by script.length

/-- a sequence of `write_all` calls, each followed by `?` -/
def writePieces (script : List Ev) : List (List UInt8) → Bool × List UInt8 × List Ev
  | [] => (true, [], script)
  | p :: ps =>
    match writeAll script p with
    | (false, out, s') => (false, out, s')
    | (true, out, s') =>
      let (ok, out', s'') := writePieces s' ps
      (ok, out ++ out', s'')

/-- ASCII text as bytes (`str::as_bytes` of the formatted pieces, which are ASCII) -/
def asciiBytes (s : List Char) : List UInt8 := s.map fun c => c.toNat.toUInt8

/-- `write_as_string(output)` -/
def writeTextIO (A : Arr) (script : List Ev) : Bool × List UInt8 × List Ev :=
  writePieces script ((textPieces A).map asciiBytes)

/-! ## `to_nodes` / `from_nodes` -/

def toNodes (A : Arr) : Arr := A

/-- `BddNode::is_terminal`, `is_zero`, `is_one` -/
def isTerminalNode (nd : Node) : Bool := nd.low == nd.high && (nd.low == 1 || nd.low == 0)
def isZeroNode (nd : Node) : Bool := isTerminalNode nd && nd.low == 0
def isOneNode (nd : Node) : Bool := isTerminalNode nd && nd.low == 1

/-- the `for node in data.iter().skip(2)` loop of `from_nodes` -/
def fromNodesLoop (d : Arr) (numVars : Nat) : List Node → Outcome Unit
  | [] => .ok ()
  | nd :: rest =>
    if nd.var ≥ numVars then .err "Invalid variable" else
    if nd.low ≥ d.size then .err "Invalid low-link" else
    if nd.high ≥ d.size then .err "Invalid high-link" else
    match aidx d nd.low with
    | .panic m => .panic m
    | .err m => .err m
    | .ok lc =>
      if lc.var ≤ nd.var then .err "Low link breaks ordering" else
      match aidx d nd.high with
      | .panic m => .panic m
      | .err m => .err m
      | .ok hc =>
        if hc.var ≤ nd.var then .err "High link breaks ordering" else
        fromNodesLoop d numVars rest

/-- `Bdd::from_nodes(data)` -/
def fromNodes (d : Arr) : Outcome Arr :=
  if d.size = 0 then .err "No nodes" else
  match aidx d 0 with
  | .panic m => .panic m
  | .err m => .err m
  | .ok n0 =>
    if !isZeroNode n0 then .err "Node at position 0 must be the zero literal." else
    match (if d.size > 1 then aidx d 1 else .ok n0) with
    | .panic m => .panic m
    | .err m => .err m
    | .ok n1 =>
      if d.size > 1 && !isOneNode n1 then .err "Node at position 1 must be the one literal" else
      if d.size > 1 && n1.var != n0.var then .err "Terminal nodes must use the same variable." else
      match fromNodesLoop d n0.var (d.toList.drop 2) with
      | .panic m => .panic m
      | .err m => .err m
      | .ok () => .ok d

/-! ## `validate` -/

/-- the `while let Some(top) = stack.pop()` loop; head of the list = top of the stack; `none` = fuel
    exhausted (the loop of the Rust code has no bound of its own) -/
def dfs (A : Arr) : Nat → List Nat → Array Bool → Option (Outcome (Array Bool))
  | _, [], vis => some (.ok vis)
  | 0, _ :: _, _ => none
  | fuel + 1, top :: stack, vis =>
    match aidx vis top with
    | .panic m => some (.panic m)
    | .err m => some (.err m)
    | .ok true => dfs A fuel stack vis
    | .ok false =>
      match aidx A top with
      | .panic m => some (.panic m)
      | .err m => some (.err m)
      | .ok node =>
        match aidx A node.low with
        | .panic m => some (.panic m)
        | .err m => some (.err m)
        | .ok lc =>
          match aidx A node.high with
          | .panic m => some (.panic m)
          | .err m => some (.err m)
          | .ok hc =>
            if lc.var ≤ node.var || hc.var ≤ node.var then some (.err "Found broken child ordering")
            else dfs A fuel (node.high :: node.low :: stack) (vis.setIfInBounds top true)

/-- the range checks `for node_pointer in self.pointers().skip(2)` -/
def rangeLoop (size numVars : Nat) : List Node → Outcome Unit
  | [] => .ok ()
  | nd :: rest =>
    if nd.var ≥ numVars then .err "Found invalid variable" else
    if nd.low ≥ size then .err "Found invalid low-link" else
    if nd.high ≥ size then .err "Found invalid high-link" else
    rangeLoop size numVars rest

/-- fuel given to the DFS of `validate`: every iteration pops one entry and at most `size - 2` iterations
    push two -/
def dfsFuel (A : Arr) : Nat := 2 * A.size + 1

/-- `Bdd::validate()`; `none` = does not terminate within the fuel -/
def validate (A : Arr) : Option (Outcome Unit) :=
  if A.size = 0 then some (.err "No nodes") else
  match aidx A 0 with          -- `self.num_vars()` = `self.0[0].var`
  | .panic m => some (.panic m)
  | .err m => some (.err m)
  | .ok n0 =>
    if A.size = 1 then
      (if A != #[⟨n0.var, 0, 0⟩] then some (.err "Malformed false BDD.") else some (.ok ()))
    else if A.size = 2 then
      (if A != #[⟨n0.var, 0, 0⟩, ⟨n0.var, 1, 1⟩] then some (.err "Malformed true BDD.") else some (.ok ()))
    else
    match aidx A 1 with
    | .panic m => some (.panic m)
    | .err m => some (.err m)
    | .ok n1 =>
      if n0 != ⟨n0.var, 0, 0⟩ || n1 != ⟨n0.var, 1, 1⟩ then some (.err "Malformed terminal nodes.") else
      match rangeLoop A.size n0.var (A.toList.drop 2) with
      | .panic m => some (.panic m)
      | .err m => some (.err m)
      | .ok () =>
        -- `visited[0] = true; visited[1] = true;` are in range because the size is at least 3 here
        if A.size < 2 then some (.panic "index out of bounds") else
        let vis := ((Array.replicate A.size false).setIfInBounds 0 true).setIfInBounds 1 true
        match dfs A (dfsFuel A) [A.size - 1] vis with
        | none => none
        | some (.panic m) => some (.panic m)
        | some (.err m) => some (.err m)
        | some (.ok vis') =>
          if vis'.all id then some (.ok ()) else some (.err "BDD has unreachable nodes.")

/-! ## `eval_in` -/

/-- the `while !node.is_terminal()` loop of `eval_in`; `none` = fuel exhausted -/
def evalLoop (A : Arr) (val : Array Bool) : Nat → Nat → Option (Outcome Bool)
  | _, 0 => some (.ok false)
  | _, 1 => some (.ok true)
  | 0, _ + 2 => none
  | fuel + 1, p + 2 =>
    match aidx A (p + 2) with
    | .panic m => some (.panic m)
    | .err m => some (.err m)
    | .ok nd =>
      match aidx val nd.var with
      | .panic m => some (.panic m)
      | .err m => some (.err m)
      | .ok b => evalLoop A val fuel (if b then nd.high else nd.low)

/-- `Bdd::eval_in(valuation)` with an explicit fuel (release build: the `debug_assert` is absent);
    the root pointer of an empty node vector does not exist (`len() - 1` underflows) -/
def evalIn (A : Arr) (val : Array Bool) (fuel : Nat) : Option (Outcome Bool) :=
  if A.size = 0 then some (.panic "attempt to subtract with overflow") else
  evalLoop A val fuel (A.size - 1)

end B.Serial
