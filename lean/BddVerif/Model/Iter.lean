import BddVerif.Model.Apply
import BddVerif.Model.Outcome
/-!
Executable model of the enumeration code (property C08).

(a) Faithful step functions, one per Rust function, same tests in the same order; every `panic!`,
    `assert!`, `unreachable!`, out-of-bounds index is an explicit `Outcome.panic`; loops whose
    termination depends on the input (`continue_path`, the `to_dnf` loop, "collect the iterator") take a
    fuel and report `Outcome.panic "fuel"` when it runs out (a diverging Rust loop) — the theorems in
    `Props/C08.lean` show that this never happens on reduced arrays with the stated fuel.

      src/_impl_bdd_partial_valuation.rs   `pvGet` `pvSet` (`get_value`, `mut_cell` + assignment), `toValues`
      src/_impl_bdd_path_iterator.rs       `continuePath` `makeClause` `pathInit` `popLoop` `pathNext`
      src/_impl_bdd_valuation.rs:99-127    `valNext` (`BddValuation::next`)
      src/_impl_iterator_valuations_of_clause.rs  `cvEmpty` `cvNew` `cvUnconstrained` `cvNext`
      src/_impl_bdd_satisfying_valuations.rs      `satInit` `satNext`, owned variants `Owned*`
      src/_impl_bdd/_impl_dnf.rs:143-187   `dnfLoop` `toDnf`

    A Rust `Vec` used as a stack is a `List` whose HEAD is the top of the stack.

(b) Recursive specifications: `paths` (low branch first, zero children skipped), `extensions`
    (all total valuations extending a clause, variable 0 least significant, increasing), `satSpec`.
-/
namespace B.Iter
open B

/-- `BddPartialValuation`: the raw `Vec<Option<bool>>` (any length; missing positions are unset) -/
abbrev PV := List (Option Bool)
/-- `BddValuation`: `Vec<bool>` -/
abbrev Valn := List Bool

/-- `get_value` -/
def pvGet (c : PV) (i : Nat) : Option Bool := (c[i]?).getD none
/-- `mut_cell`: the vector grows with `None` until index `i` exists -/
def pvCell (c : PV) (i : Nat) : PV := c ++ List.replicate (i + 1 - c.length) none
/-- `set_value` / `unset_value` / `path[var] = …` -/
def pvSet (c : PV) (i : Nat) (x : Option Bool) : PV := (pvCell c i).set i x
/-- what an observer sees over `n` variables (`get_value` for each variable below `n`) -/
def pvNorm (n : Nat) (c : PV) : PV := (List.range n).map (pvGet c)
/-- `to_values`: the set positions with their values, increasing -/
def toValuesFrom : Nat → PV → List (Nat × Bool)
  | _, [] => []
  | i, none :: cs => toValuesFrom (i + 1) cs
  | i, some b :: cs => (i, b) :: toValuesFrom (i + 1) cs
def toValues (c : PV) : List (Nat × Bool) := toValuesFrom 0 c

/-- the Boolean assignment read off a `BddValuation` (positions beyond the vector are irrelevant) -/
def valOf (w : Valn) : Nat → Bool := fun k => w.getD k false

/-! ## Path iterator -/

/-- `continue_path`: extend the path, low link unless it is zero -/
def continuePath (A : Arr) : Nat → List Nat → Outcome (List Nat)
  | _, [] => .panic "assert: path is empty"
  | fuel, top :: rest =>
    if top = 1 then .ok (top :: rest) else
    match fuel with
    | 0 => .panic "fuel"
    | f + 1 =>
      match A[top]? with
      | none => .panic "index out of bounds"
      | some nd =>
        if nd.low ≠ 0 then continuePath A f (nd.low :: top :: rest)
        else if nd.high ≠ 0 then continuePath A f (nd.high :: top :: rest)
        else .panic "The given BDD is not canonical."

/-- `make_clause`: the loop runs from the bottom of the stack to the top; with the head of the list
    being the top, the recursion below performs the `set_value` calls in exactly that order -/
def makeClause (A : Arr) : List Nat → Outcome PV
  | [] => .panic "path.len() - 1"
  | [_] => .ok []
  | next :: this :: rest =>
    match makeClause A (this :: rest) with
    | .ok acc =>
      match A[this]? with
      | none => .panic "index out of bounds"
      | some nd =>
        if nd.low = next then .ok (pvSet acc nd.var (some false))
        else if nd.high = next then .ok (pvSet acc nd.var (some true))
        else .panic "Path is not valid"
    | .err m => .err m
    | .panic m => .panic m

/-- fuel that is enough for `continue_path` on every acyclic array -/
def cpFuel (A : Arr) : Nat := A.size + 1

/-- `BddPathIterator::new` -/
def pathInit (A : Arr) : Outcome (List Nat) :=
  if A.size = 1 then .ok [] else continuePath A (cpFuel A) [root A]

/-- the `while let Some(top) = self.stack.last()` loop of `next`; every iteration pops or breaks -/
def popLoop (A : Arr) : Nat → List Nat → Outcome (List Nat)
  | _, [] => .ok []
  | lastChild, top :: rest =>
    match A[top]? with
    | none => .panic "index out of bounds"
    | some nd =>
      if nd.low = lastChild then
        if nd.high = 0 then popLoop A top rest
        else if nd.low = nd.high then .panic "The BDD is not canonical."
        else continuePath A (cpFuel A) (nd.high :: top :: rest)
      else if nd.high = lastChild then popLoop A top rest
      else .panic "unreachable: Invalid path data in iterator."

/-- `BddPathIterator::next` -/
def pathNext (A : Arr) : List Nat → Outcome (Option PV × List Nat)
  | [] => .ok (none, [])
  | top :: rest =>
    match makeClause A (top :: rest) with
    | .ok item =>
      match popLoop A top rest with
      | .ok st => .ok (some item, st)
      | .err m => .err m
      | .panic m => .panic m
    | .err m => .err m
    | .panic m => .panic m

/-- collect an iterator given by its step function (`Iterator::collect`); `fuel` bounds the number of
    calls of `next` -/
def collect {σ α : Type} (step : σ → Outcome (Option α × σ)) : Nat → σ → Outcome (List α)
  | 0, _ => .panic "fuel"
  | f + 1, s =>
    match step s with
    | .ok (none, _) => .ok []
    | .ok (some a, s') =>
      match collect step f s' with
      | .ok l => .ok (a :: l)
      | .err m => .err m
      | .panic m => .panic m
    | .err m => .err m
    | .panic m => .panic m

/-- `bdd.sat_clauses().collect()` -/
def pathList (A : Arr) (fuel : Nat) : Outcome (List PV) :=
  match pathInit A with
  | .ok st => collect (pathNext A) fuel st
  | .err m => .err m
  | .panic m => .panic m

/-! ## Valuations of a clause -/

/-- the loop of `BddValuation::next` from position `i` on (the carry is `true` for as long as the loop
    runs); `g` is `clause.get_value` -/
def valNextGo (g : Nat → Option Bool) : Nat → Valn → Outcome (Option Valn)
  | _, [] => .ok none
  | i, b :: rest =>
    match g i with
    | some x =>
      if x = b then
        match valNextGo g (i + 1) rest with
        | .ok r => .ok (r.map (b :: ·))
        | .err m => .err m
        | .panic m => .panic m
      else .panic "assert_eq: clause and valuation disagree"
    | none =>
      if b then
        match valNextGo g (i + 1) rest with
        | .ok r => .ok (r.map (false :: ·))
        | .err m => .err m
        | .panic m => .panic m
      else .ok (some (true :: rest))

/-- `BddValuation::next(&self, clause)` -/
def valNext (v : Valn) (clause : PV) : Outcome (Option Valn) := valNextGo (pvGet clause) 0 v

/-- `ValuationsOfClauseIterator` -/
structure CV where
  next : Option Valn
  clause : PV
deriving Repr

def cvEmpty : CV := ⟨none, []⟩
def cvUnconstrained (n : Nat) : CV := ⟨some (List.replicate n false), []⟩

/-- the `flip_value` loop of `new`: indexing beyond the valuation panics -/
def flipAll : List (Nat × Bool) → Valn → Outcome Valn
  | [], v => .ok v
  | (i, b) :: rest, v =>
    if b then
      if i < v.length then flipAll rest (v.set i (!(v.getD i false)))
      else .panic "index out of bounds (flip_value)"
    else flipAll rest v

/-- `ValuationsOfClauseIterator::new(clause, num_vars)` -/
def cvNew (clause : PV) (n : Nat) : Outcome CV :=
  match flipAll (toValues clause) (List.replicate n false) with
  | .ok v => .ok ⟨some v, clause⟩
  | .err m => .err m
  | .panic m => .panic m

/-- `ValuationsOfClauseIterator::next` -/
def cvNext (s : CV) : Outcome (Option Valn × CV) :=
  match s.next with
  | none => .ok (none, s)
  | some v =>
    match valNext v s.clause with
    | .ok r => .ok (some v, { s with next := r })
    | .err m => .err m
    | .panic m => .panic m

/-! ## Satisfying valuations: chaining of the two iterators -/

/-- `BddSatisfyingValuations` (the borrowed Bdd is a parameter of the step function) -/
structure SatSt where
  stack : List Nat
  vals : CV
deriving Repr

/-- `Bdd::sat_valuations` -/
def satInit (A : Arr) : Outcome SatSt :=
  match pathInit A with
  | .ok st =>
    match pathNext A st with
    | .ok (some first, st') =>
      match cvNew first (numVars A) with
      | .ok cv => .ok ⟨st', cv⟩
      | .err m => .err m
      | .panic m => .panic m
    | .ok (none, st') => .ok ⟨st', cvEmpty⟩
    | .err m => .err m
    | .panic m => .panic m
  | .err m => .err m
  | .panic m => .panic m

/-- `BddSatisfyingValuations::next` -/
def satNext (A : Arr) (s : SatSt) : Outcome (Option Valn × SatSt) :=
  match cvNext s.vals with
  | .ok (some v, cv) => .ok (some v, { s with vals := cv })
  | .ok (none, cv) =>
    match pathNext A s.stack with
    | .ok (some nextPath, st') =>
      match cvNew nextPath (numVars A) with
      | .ok cv' =>
        match cvNext cv' with
        | .ok (r, cv'') => .ok (r, ⟨st', cv''⟩)
        | .err m => .err m
        | .panic m => .panic m
      | .err m => .err m
      | .panic m => .panic m
    | .ok (none, st') => .ok (none, ⟨st', cv⟩)
    | .err m => .err m
    | .panic m => .panic m
  | .err m => .err m
  | .panic m => .panic m

/-- `bdd.sat_valuations().collect()` -/
def satList (A : Arr) (fuel : Nat) : Outcome (List Valn) :=
  match satInit A with
  | .ok st => collect (satNext A) fuel st
  | .err m => .err m
  | .panic m => .panic m

/-! ## Owned variants: the same code, the iterator owns the Bdd and gives it back through `From` -/

/-- `OwnedBddPathIterator` -/
structure OwnedPath where
  bdd : Arr
  stack : List Nat
deriving Repr

/-- `OwnedBddPathIterator::new` / `Bdd::into_sat_clauses` -/
def ownedPathInit (A : Arr) : Outcome OwnedPath :=
  match pathInit A with
  | .ok st => .ok ⟨A, st⟩
  | .err m => .err m
  | .panic m => .panic m

def ownedPathNext (s : OwnedPath) : Outcome (Option PV × OwnedPath) :=
  match pathNext s.bdd s.stack with
  | .ok (r, st) => .ok (r, { s with stack := st })
  | .err m => .err m
  | .panic m => .panic m

/-- `impl From<OwnedBddPathIterator> for Bdd` -/
def OwnedPath.intoBdd (s : OwnedPath) : Arr := s.bdd

/-- `OwnedBddSatisfyingValuations` (`num_vars` is stored when the iterator is made) -/
structure OwnedSat where
  numVars : Nat
  paths : OwnedPath
  vals : CV
deriving Repr

/-- `Bdd::into_sat_valuations` -/
def ownedSatInit (A : Arr) : Outcome OwnedSat :=
  match ownedPathInit A with
  | .ok p =>
    match ownedPathNext p with
    | .ok (some first, p') =>
      match cvNew first (numVars A) with
      | .ok cv => .ok ⟨numVars A, p', cv⟩
      | .err m => .err m
      | .panic m => .panic m
    | .ok (none, p') => .ok ⟨numVars A, p', cvEmpty⟩
    | .err m => .err m
    | .panic m => .panic m
  | .err m => .err m
  | .panic m => .panic m

def ownedSatNext (s : OwnedSat) : Outcome (Option Valn × OwnedSat) :=
  match cvNext s.vals with
  | .ok (some v, cv) => .ok (some v, { s with vals := cv })
  | .ok (none, cv) =>
    match ownedPathNext s.paths with
    | .ok (some nextPath, p') =>
      match cvNew nextPath s.numVars with
      | .ok cv' =>
        match cvNext cv' with
        | .ok (r, cv'') => .ok (r, { s with paths := p', vals := cv'' })
        | .err m => .err m
        | .panic m => .panic m
      | .err m => .err m
      | .panic m => .panic m
    | .ok (none, p') => .ok (none, { s with paths := p', vals := cv })
    | .err m => .err m
    | .panic m => .panic m
  | .err m => .err m
  | .panic m => .panic m

/-- `impl From<OwnedBddSatisfyingValuations> for Bdd` -/
def OwnedSat.intoBdd (s : OwnedSat) : Arr := s.paths.intoBdd

/-- run an iterator for at most `k` items, giving the items and the state reached -/
def takeK {σ α : Type} (step : σ → Outcome (Option α × σ)) : Nat → σ → Outcome (List α × σ)
  | 0, s => .ok ([], s)
  | k + 1, s =>
    match step s with
    | .ok (none, s') => .ok ([], s')
    | .ok (some a, s') =>
      match takeK step k s' with
      | .ok (l, s'') => .ok (a :: l, s'')
      | .err m => .err m
      | .panic m => .panic m
    | .err m => .err m
    | .panic m => .panic m

/-! ## `to_dnf` -/

/-- the `while let Some((node, go_low)) = stack.pop()` loop; `res` is `results` -/
def dnfLoop (A : Arr) : Nat → List (Nat × Option Bool) → PV → List PV → Outcome (List PV)
  | _, [], _, res => .ok res
  | 0, _ :: _, _, _ => .panic "fuel"
  | f + 1, (node, go) :: stk, path, res =>
    if node = 0 then dnfLoop A f stk path res
    else if node = 1 then dnfLoop A f stk path (res ++ [path])
    else
      match A[node]? with
      | none => .panic "index out of bounds"
      | some nd =>
        match go with
        | some true =>
          dnfLoop A f ((nd.low, some true) :: (node, some false) :: stk) (pvSet path nd.var (some false)) res
        | some false =>
          dnfLoop A f ((nd.high, some true) :: (node, none) :: stk) (pvSet path nd.var (some true)) res
        | none => dnfLoop A f stk (pvSet path nd.var none) res

/-- `Bdd::to_dnf` -/
def toDnf (A : Arr) (fuel : Nat) : Outcome (List PV) := dnfLoop A fuel [(root A, some true)] [] []

/-! ## Recursive specifications -/

/-- clauses of the root-to-one paths below `p`, low branch first, zero children skipped; `acc` holds the
    literals chosen above `p` -/
def pathsF (A : Arr) : Nat → Nat → PV → List PV
  | _, 0, _ => []
  | _, 1, acc => [acc]
  | 0, _, _ => []
  | f + 1, p, acc =>
    match A[p]? with
    | none => []
    | some nd =>
      pathsF A f nd.low (pvSet acc nd.var (some false)) ++ pathsF A f nd.high (pvSet acc nd.var (some true))

/-- fuel `p` suffices in post-order arrays (children have smaller indices), as for `ev` -/
def paths (A : Arr) (p : Nat) (acc : PV) : List PV := pathsF A p p acc

/-- the clauses of a diagram as partial valuations of length `numVars A` -/
def pathsOf (A : Arr) : List PV := paths A (root A) (List.replicate (numVars A) none)

/-- all total valuations extending a clause of length `n`, variable 0 least significant, increasing -/
def extensions : PV → List Valn
  | [] => [[]]
  | some b :: cs => (extensions cs).map (b :: ·)
  | none :: cs => (extensions cs).flatMap fun t => [false :: t, true :: t]

/-- specification of `sat_valuations` -/
def satSpec (A : Arr) : List Valn := (pathsOf A).flatMap extensions

/-- a valuation (as a function) satisfies a clause -/
def Sat (c : PV) (v : Nat → Bool) : Prop := ∀ i b, pvGet c i = some b → v i = b

/-- little-endian value of a valuation (variable 0 is the least significant bit) -/
def leNum : Valn → Nat
  | [] => 0
  | b :: t => (if b then 1 else 0) + 2 * leNum t

/-- number of unset positions -/
def freeCount (c : PV) : Nat := (c.filter (· == none)).length

end B.Iter
