import BddVerif.Model.Rename
import BddVerif.Model.Nested
/-!
Executable model of `Bdd::substitute` (`src/_impl_bdd/_impl_util.rs` 572-635), as the code is after
commit 772e69f (every variable `≥ var` is shifted, not only the support of `self`).

Both paths: the "safe" one (`var` not in the support of `function`): `∃ var. (var ⇔ function) ∧ self`
through `binary_op_with_exists`; the "clash" one: a proxy variable `var' = var + 1` is created by
`set_num_vars(+1)` and `rename_variables` (all their assertions are `panic` outcomes, as are
`checked_add(1).unwrap()`, `from_index`'s `u16::try_from(..).unwrap()` and `remove(&var).unwrap()`),
eliminated by the nested `and`+`exists`, and the shift is reversed.
-/
namespace B.Ren.Subst
/-- `Bdd::mk_var(num_vars, var)` = `mk_literal(num_vars, var, true)` -/
def mkVar (n x : Nat) : Arr := (mkTrue n).push ⟨x, 0, 1⟩

/-- `Bdd::binary_op_with_exists` with the `num_vars` mismatch panic of `nested_apply` made explicit -/
def binaryOpWithExistsO (L R : Arr) (op : Op2) (vars : List Nat) : Outcome Arr :=
  if numVars L ≠ numVars R then .panic "Var count mismatch: BDDs are not compatible"
  else .ok (binaryOpWithExists L R op vars)

/-- the shift `input ↦ input + 1` for `input` in `lo..n` -/
def shiftUp (lo n : Nat) : VarMap := fun y => if lo ≤ y ∧ y < n then some (y + 1) else none

/-- the reversed map of `shiftUp (x + 1) n`: keys are the shifted values `x + 2 ..= n` -/
def shiftDown (x n : Nat) : VarMap := fun z => if x + 2 ≤ z ∧ z ≤ n then some (z - 1) else none

/-- `self.substitute(var, function)` with `self = f`, `function = g` -/
def substitute (f : Arr) (x : Nat) (g : Arr) : Outcome Arr :=
  if !(supportSet f).contains x then .ok f
  else if !(supportSet g).contains x then
    let varBdd := mkVar (numVars f) x
    let iff := applyWithFlip varBdd g Gen.iff_ none none none
    binaryOpWithExistsO f iff Gen.and_ [x]
  else
    let n := numVars f
    -- `BddVariable::from_index(input + 1)` inside the loop / `checked_add(1).unwrap()`
    if 65536 ≤ n + 1 then .panic "the proxy variable cannot be created (u16 overflow)"
    else do
      let f1 ← setNumVars f (n + 1)
      let f2 ← renameVariables f1 (shiftUp x n)
      -- `permutation.remove(&var).unwrap()`
      if ¬ x < n then .panic "unwrap on None: var is not a key of the permutation"
      else
        let gn := numVars g
        if 65536 ≤ gn + 1 then .panic "checked_add overflow"
        else do
          let g1 ← setNumVars g (gn + 1)
          let g2 ← renameVariables g1 (shiftUp (x + 1) n)
          let varBdd := mkVar (numVars f2) (x + 1)
          let iff := applyWithFlip varBdd g2 Gen.iff_ none none none
          let sub ← binaryOpWithExistsO f2 iff Gen.and_ [x + 1]
          let s1 ← renameVariables sub (shiftDown x n)
          -- `substituted.num_vars() - 1` on u16
          if numVars s1 = 0 then .panic "attempt to subtract with overflow"
          else setNumVars s1 (numVars s1 - 1)

end B.Ren.Subst