import BddVerif.Model.Apply
/-!
Executable model of `ternary_apply` (src/_impl_bdd/_impl_ternary_ops.rs:40-216) and of `Bdd::not`
(src/_impl_bdd/_impl_boolean_ops.rs:10-26). Same recursion scheme as `Model/Apply.lean`.
-/
namespace B
open Std

abbrev Op3 := Option Bool → Option Bool → Option Bool → Option Bool

structure St3 where
  res : Arr
  existing : HashMap Node Nat
  finished : HashMap (Nat × Nat × Nat) Nat
  nonEmpty : Bool

def findOrPush3 (s : St3) (node : Node) : St3 × Nat :=
  match s.existing[node]? with
  | some i => (s, i)
  | none => ({ s with res := s.res.push node, existing := s.existing.insert node s.res.size }, s.res.size)

def solve3 (op : Op3) (rec : Nat → Nat → Nat → St3 → St3 × Nat) (a b c : Nat) (s : St3) : St3 × Nat :=
  match op (asBool a) (asBool b) (asBool c) with
  | some r => (s, ofBool r)
  | none => rec a b c s

def finish3 (s : St3) (t : Nat × Nat × Nat) (d lo hi : Nat) (flipOut : Bool) : St3 × Nat :=
  let s1 : St3 := if lo = 1 ∨ hi = 1 then { s with nonEmpty := true } else s
  if lo = hi then ({ s1 with finished := s1.finished.insert t lo }, lo)
  else
    let node : Node := if flipOut then ⟨d, hi, lo⟩ else ⟨d, lo, hi⟩
    let fp := findOrPush3 s1 node
    ({ fp.1 with finished := fp.1.finished.insert t fp.2 }, fp.2)

/-- linear-use version of `finish3` for compiled code (see `finishFast`) -/
def finish3Fast (s : St3) (t : Nat × Nat × Nat) (d lo hi : Nat) (flipOut : Bool) : St3 × Nat :=
  match s with
  | ⟨res, existing, finished, ne⟩ =>
    let ne' : Bool := if lo = 1 ∨ hi = 1 then true else ne
    if lo = hi then (⟨res, existing, finished.insert t lo, ne'⟩, lo)
    else
      let node : Node := if flipOut then ⟨d, hi, lo⟩ else ⟨d, lo, hi⟩
      match existing[node]? with
      | some i => (⟨res, existing, finished.insert t i, ne'⟩, i)
      | none =>
        let i := res.size
        (⟨res.push node, existing.insert node i, finished.insert t i, ne'⟩, i)

@[csimp] theorem finish3_eq_fast : @finish3 = @finish3Fast := by
  funext s t d lo hi flipOut
  obtain ⟨res, existing, finished, ne⟩ := s
  unfold finish3 finish3Fast findOrPush3
  by_cases h1 : lo = 1 ∨ hi = 1 <;> by_cases h2 : lo = hi <;> simp only [h1, h2, if_true, if_false]
  all_goals (split <;> rename_i h <;> simp only [h])

structure Ctx3 where
  A : Arr
  B : Arr
  C : Arr
  n : Nat
  op : Op3
  fa : Option Nat
  fb : Option Nat
  fc : Option Nat
  fo : Option Nat

def applyStep3 (Γ : Ctx3) (rec : Nat → Nat → Nat → St3 → St3 × Nat) (a b c : Nat) (s : St3) : St3 × Nat :=
  match s.finished[(a, b, c)]? with
  | some p => (s, p)
  | none =>
    let d := min (nodeAt Γ.A a).var (min (nodeAt Γ.B b).var (nodeAt Γ.C c).var)
    let ka := kids Γ.A a d Γ.fa
    let kb := kids Γ.B b d Γ.fb
    let kc := kids Γ.C c d Γ.fc
    if Γ.fo = some d then
      let r1 := solve3 Γ.op rec ka.1 kb.1 kc.1 s
      let r2 := solve3 Γ.op rec ka.2 kb.2 kc.2 r1.1
      finish3 r2.1 (a, b, c) d r1.2 r2.2 true
    else
      let r1 := solve3 Γ.op rec ka.2 kb.2 kc.2 s
      let r2 := solve3 Γ.op rec ka.1 kb.1 kc.1 r1.1
      finish3 r2.1 (a, b, c) d r2.2 r1.2 false

def applyRec3 (Γ : Ctx3) : Nat → Nat → Nat → Nat → St3 → St3 × Nat
  | 0 => fun _ _ _ s => (s, 0)
  | fuel + 1 => applyStep3 Γ (applyRec3 Γ fuel)

def initSt3 (n : Nat) : St3 :=
  { res := mkTrue n,
    existing := ((HashMap.emptyWithCapacity 16).insert (zeroN n) 0).insert (oneN n) 1,
    finished := HashMap.emptyWithCapacity 16,
    nonEmpty := false }

def ternaryApply (A B C : Arr) (op : Op3) (fa fb fc fo : Option Nat) : Arr :=
  let n := numVars A
  let Γ : Ctx3 := ⟨A, B, C, n, op, fa, fb, fc, fo⟩
  let out := applyRec3 Γ (n + 2) (root A) (root B) (root C) (initSt3 n)
  if out.1.nonEmpty then out.1.res else mkFalse n

/-- `BddPointer::flip_if_terminal` -/
def flipIfTerminal (p : Nat) : Nat := if p = 0 then 1 else if p = 1 then 0 else p

/-- `Bdd::not`: constants are swapped, otherwise only the links into terminals are flipped -/
def bddNot (A : Arr) : Arr :=
  if A.size = 2 then mkFalse (numVars A)
  else if A.size = 1 then mkTrue (numVars A)
  else A.mapIdx fun i nd => if i < 2 then nd else ⟨nd.var, flipIfTerminal nd.low, flipIfTerminal nd.high⟩

end B
