import BddVerif.Model.SerialBase
import BddVerif.Gen.Consts
/-!
# Executable model of the serialisation code (C12, C13) — the part that depends on the byte layout

Everything that does not mention the layout (text format, decimal grammar, UTF-8, the scripted I/O environment,
`read_exact`/`read_to_end`/`write_all`, `from_nodes`, `validate`, `eval_in`) is in `Model/SerialBase.lean`.
Here `write_as_bytes`/`read_as_bytes` are instantiated with the REGENERATED layout `Gen.recordLen` /
`Gen.fieldLayout`, so a change of the Rust layout re-checks every proof about them.
-/
set_option linter.unusedVariables false

namespace B.Serial
open B

/-! ## Binary format -/

/-- (offset, width) of field `i` (0 = var, 1 = low link, 2 = high link) in the regenerated layout -/
def fieldAt (i : Nat) : Nat × Nat := Gen.fieldLayout.getD i (0, 0)

def varW : Nat := (fieldAt 0).2
def lowW : Nat := (fieldAt 1).2
def highW : Nat := (fieldAt 2).2

/-- the three `write_all` calls of `write_as_bytes` for one node -/
def nodeBytePieces (nd : Node) : List (List UInt8) :=
  [leBytes varW nd.var, leBytes lowW nd.low, leBytes highW nd.high]

def encodeNode (nd : Node) : List UInt8 := (nodeBytePieces nd).flatten

/-- the `mk_node(from_le_bytes([buf[0], buf[1]]), …)` of `read_as_bytes` on a full record buffer -/
def decodeNode (buf : List UInt8) : Node :=
  ⟨leVal (slice buf (fieldAt 0)), leVal (slice buf (fieldAt 1)), leVal (slice buf (fieldAt 2))⟩

def bytePieces (A : Arr) : List (List UInt8) := A.toList.flatMap nodeBytePieces

/-- `to_bytes` -/
def writeBytes (A : Arr) : List UInt8 := (bytePieces A).flatten

/-- `Gen.recordLen` is positive (otherwise `read_as_bytes` would never reach the end of input) -/
theorem recordLen_pos : 0 < Gen.recordLen := by decide


/-- `read_as_bytes`: records until `read_exact` reports `UnexpectedEof` (a trailing partial record is
    dropped silently); any other error is returned. The Boolean tells whether the result is `Ok`. -/
def readBytesIO (r : Reader) (acc : Arr) : Outcome Arr × Reader :=
  match h : readExact r Gen.recordLen [] with
  | (.ok buf, r') => readBytesIO r' (acc.push (decodeNode buf))
  | (.eof, r') => (.ok acc, r')
  | (.failed, r') => (.err "io error", r')
termination_by r.data.length
decreasing_by
  have := readExact_progress h
  have := recordLen_pos
  omega

/-- `from_bytes` / `read_as_bytes` on a reader that delivers `bytes` and then end of input -/
def readBytes (bytes : List UInt8) : Outcome Arr := (readBytesIO ⟨bytes, []⟩ #[]).1

/-- `write_as_bytes(output)` -/
def writeBytesIO (A : Arr) (script : List Ev) : Bool × List UInt8 × List Ev :=
  writePieces script (bytePieces A)

end B.Serial
