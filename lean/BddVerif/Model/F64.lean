import BddVerif.Model.Count
/-!
Executable, exact software model of `Bdd::cardinality` (`src/_impl_bdd/_impl_util.rs` 183-232), the
IEEE-754 binary64 variant of the model count.

## The numbers

Every finite non-negative binary64 value is an integer multiple of `2^-1074` (the smallest subnormal),
so it is modelled by that multiple, a natural number `s` ("scaled value", value `= s / 2^1074`):
`1.0 = fin (2^1074)`, the largest finite value is `fin ((2^53 - 1) * 2^2045)`, `2^1024` would be
`2^2098`. A natural `s` is the scaled value of a binary64 number iff it has at most 53 significant bits
and is below `2^2098` (`F64.Rep`); subnormals are the `s < 2^52`, covered by the same definition
because they share the exponent of the smallest normal numbers. Nothing in the type assumes that the
values are integers: that the values met by `cardinality` are (scaled) integers — so never subnormal —
is a theorem (`Lemmas/F64Card.lean`: `Good.int`).

* `round53 s`: round-to-nearest, ties-to-even, of the exact scaled value `s` to 53 significant bits
  (exponent unbounded above; below, the quantum is the fixed `2^-1074`, i.e. `s < 2^53` is exact — that is
  exactly IEEE gradual underflow).
* `ofExact s`: IEEE result of an operation whose exact result is `s`: `round53`, then overflow to `+inf`
  when the *rounded* value reaches `2^1024`.
* `add`: `x + y` (exact sum of two scaled naturals, then `ofExact`; `inf + x = inf`; NaN propagates).
* `pow2i k`: `2.0_f64.powi(k)`, `k ≥ 0`: repeated squaring of `2.0` (compiler-rt `__powidf2`, or LLVM's
  `ldexp` fold) — every intermediate is a power of two, exact while `≤ 2^1023`, `+inf` from `2^1024` on.
* `mulPow2 x k`: `x * 2.0_f64.powi(k)`: the power first, then the product. A product of a finite value
  with a finite power of two is exact (the scaled significand does not change) unless it overflows;
  `0 * inf = NaN`, `x * inf = inf` for `x ≠ 0`.
* `scale x k`: the closure `scale` of the Rust code (`value == 0.0 ↦ 0.0`).

## The traversal

Same explicit-stack/cache loop as `exact_cardinality`, modelled like `Count.cardGo` by a cache-passing
recursion (`cardGoF`, with a linear-use twin `cardGoFFast` and a proved `@[csimp]` equation); the panics
(index out of range, `u16` underflow of `low_var - node_var - 1`, divergence) are those of
`Count.cardOk`. `cardF64O` is the outcome, `cardF64` the value on normal return, `cardF64Bits` the
predicted `f64::to_bits()`. The last lines of the function are `finalF` (zero entry ↦ `0.0`, else the product
with `2.0.powi(root variable)`, `NaN ↦ INFINITY`); `finalUnguarded`/`cardF64_unguarded` record the code
before commit 316b6bb, whose unguarded product returned `+inf` for unsatisfiable non-canonical diagrams
with root variable ≥ 1024.

Core only (no Std/Mathlib), total, executable.
-/
namespace B

/-- non-negative binary64 values: `fin s` is the finite value `s · 2^-1074`; `nan` only arises as `0 · inf` -/
inductive F64 where
  | fin (s : Nat)
  | inf
  | nan
deriving DecidableEq, Repr, Inhabited

namespace F64

/-- scaled value of `1.0` -/
def U : Nat := 2 ^ 1074
/-- scaled value of `2^1024` (first value that is not finite) -/
def Top : Nat := 2 ^ 2098
/-- scaled value of the overflow threshold `2^1024 - 2^970 = 2^1024·(1 - 2^-54)`: exact results from
    here on round to `+inf`, exact results below round to a finite value -/
def Thr : Nat := 2 ^ 2098 - 2 ^ 2044

def zero : F64 := fin 0
def one : F64 := fin U

/-- `x == 0.0` -/
def isZero : F64 → Bool
  | fin 0 => true
  | _ => false

def isNan : F64 → Bool
  | nan => true
  | _ => false

/-- round to nearest, ties to even, to 53 significant bits -/
def round53 (s : Nat) : Nat :=
  if s < 2 ^ 53 then s
  else
    let k := s.log2 - 52
    let q := s / 2 ^ k
    let r := s % 2 ^ k
    let h := 2 ^ (k - 1)
    if r < h ∨ (r = h ∧ q % 2 = 0) then q * 2 ^ k else (q + 1) * 2 ^ k

/-- IEEE result (round to nearest even, overflow to `+inf`) of an operation with exact scaled result `s` -/
def ofExact (s : Nat) : F64 :=
  let r := round53 s
  if r < Top then fin r else inf

/-- the scaled natural `s` is a binary64 value: at most 53 significant bits, below `2^1024` -/
def Rep (s : Nat) : Prop := s < Top ∧ s % 2 ^ (s.log2 - 52) = 0

instance (s : Nat) : Decidable (Rep s) := by unfold Rep; infer_instance

/-- `x` is (the model of) a binary64 value -/
def Valid : F64 → Prop
  | fin s => Rep s
  | _ => True

/-- `x + y` -/
def add : F64 → F64 → F64
  | nan, _ => nan
  | _, nan => nan
  | inf, _ => inf
  | _, inf => inf
  | fin a, fin b => ofExact (a + b)

/-- `2.0_f64.powi(k as i32)` for `0 ≤ k` -/
def pow2i (k : Nat) : F64 := if k < 1024 then fin (2 ^ k * U) else inf

/-- `x * 2.0_f64.powi(k)`: the power is computed first (`pow2i`), then the product -/
def mulPow2 (x : F64) (k : Nat) : F64 :=
  match pow2i k with
  | fin _ =>
    -- finite power of two: the product is exact unless it overflows
    match x with
    | fin s => if s * 2 ^ k < Top then fin (s * 2 ^ k) else inf
    | inf => inf
    | nan => nan
  | _ =>
    -- the power overflowed to `+inf`
    match x with
    | fin 0 => nan
    | nan => nan
    | _ => inf

/-- the closure `scale` in `cardinality`: `if value == 0.0 { 0.0 } else { value * 2.0_f64.powi(skipped) }` -/
def scale (x : F64) (k : Nat) : F64 := if x.isZero then zero else mulPow2 x k

/-- `f64::to_bits` (sign bit 0; the one NaN is printed as the canonical quiet NaN) -/
def toBits : F64 → Nat
  | fin s => if s < 2 ^ 52 then s else (s.log2 - 52) * 2 ^ 52 + s / 2 ^ (s.log2 - 52)
  | inf => 2047 * 2 ^ 52
  | nan => 2047 * 2 ^ 52 + 2 ^ 51

/-- `f64::from_bits` for patterns with sign bit 0 (every NaN pattern is `nan`) -/
def ofBits (b : Nat) : F64 :=
  let e := b / 2 ^ 52
  let m := b % 2 ^ 52
  if e = 0 then fin m
  else if e ≥ 2047 then (if e = 2047 ∧ m = 0 then inf else nan)
  else fin ((2 ^ 52 + m) * 2 ^ (e - 1))

/-- the integer `c` as a binary64 value when it is one (used for `c < 2^53`) -/
def ofNat (c : Nat) : F64 := ofExact (c * U)

end F64

namespace Count
open F64

abbrev CacheF := Array (Option F64)

/-- `vec![None; len]` with `cache[0] = Some(0.0)`, `cache[1] = Some(1.0)` -/
def initCacheF (A : Arr) : CacheF :=
  ((Array.replicate A.size (none : Option F64)).setIfInBounds 0 (some F64.zero)).setIfInBounds 1 (some F64.one)

/-- `scale(cache[low], low_var - node_var - 1) + scale(cache[high], high_var - node_var - 1)` -/
def cardNodeF (A : Arr) (nd : Node) (xl xh : F64) : F64 :=
  F64.add (F64.scale xl (varAt A nd.low - nd.var - 1)) (F64.scale xh (varAt A nd.high - nd.var - 1))

/-- one visit of pointer `p` by the cached depth-first traversal (see `Count.cardGo`) -/
def cardGoF (A : Arr) : Nat → Nat → CacheF → CacheF
  | 0, _, c => c
  | fuel + 1, p, c =>
    match c.getD p none with
    | some _ => c
    | none =>
      let nd := nodeAt A p
      let c2 := cardGoF A fuel nd.low (cardGoF A fuel nd.high c)
      match c2.getD nd.low none, c2.getD nd.high none with
      | some xl, some xh => c2.setIfInBounds p (some (cardNodeF A nd xl xh))
      | _, _ => c2

theorem setF_none_eq (c : CacheF) (p : Nat) (h : c.getD p none = none) : c.setIfInBounds p none = c := by
  apply Array.ext_getElem?
  intro i
  rw [Array.getElem?_setIfInBounds]
  by_cases hpi : p = i
  · subst hpi
    by_cases hs : p < c.size
    · rw [Array.getD_eq_getD_getElem?, Array.getElem?_eq_getElem hs] at h
      simp only [Option.getD_some] at h
      simp [hs, h]
    · simp [hs]
  · simp [hpi]

/-- linear-use twin of `cardGoF` (one void write makes the cache an owned array, cf. `Count.cardGoFast`) -/
def cardGoFFast (A : Arr) : Nat → Nat → CacheF → CacheF
  | 0, _, c => c
  | fuel + 1, p, c =>
    match c.getD p none with
    | some _ => c
    | none =>
      let c := c.setIfInBounds p none
      let nd := nodeAt A p
      let c2 := cardGoFFast A fuel nd.low (cardGoFFast A fuel nd.high c)
      match c2.getD nd.low none, c2.getD nd.high none with
      | some xl, some xh => c2.setIfInBounds p (some (cardNodeF A nd xl xh))
      | _, _ => c2

@[csimp] theorem cardGoF_eq_fast : @cardGoF = @cardGoFFast := by
  funext A fuel
  induction fuel with
  | zero => funext p c; rfl
  | succ fuel ih =>
    funext p c
    simp only [cardGoF, cardGoFFast]
    split
    · rfl
    · rename_i h
      rw [setF_none_eq c p h, ih]

/-- the cache when the loop ends -/
def cardCacheF (A : Arr) : CacheF := cardGoF A (cardFuel A) (root A) (initCacheF A)

/-- the end of `cardinality` (after commit 316b6bb): `let last = cache.last; if last == 0.0 { return 0.0 }`,
    then `r = last * 2.0.powi(var of the last node)` and `NaN ↦ INFINITY` -/
def finalF (x : F64) (v : Nat) : F64 :=
  if x.isZero then F64.zero
  else
    let r := F64.mulPow2 x v
    if r.isNan then F64.inf else r

/-- the end of `cardinality` BEFORE commit 316b6bb (kept for the record of the defect): the product was not
    guarded against a zero entry, so `0.0 * inf = NaN ↦ INFINITY` -/
def finalUnguarded (x : F64) (v : Nat) : F64 :=
  let r := F64.mulPow2 x v
  if r.isNan then F64.inf else r

/-- `Bdd::cardinality` with its panics explicit: `is_false ↦ 0.0`; otherwise the root entry, `0.0` if that
    is `0.0`, else times `2.0.powi(var of the last node)` with `NaN ↦ INFINITY`. `fin` selects the end of
    the function (`finalF`: the code as it is; `finalUnguarded`: the code before 316b6bb). -/
def cardF64With (fin : F64 → Nat → F64) (A : Arr) : Outcome F64 :=
  if A.size = 0 then .panic "empty node vector"
  else if A.size = 1 then .ok F64.zero
  else if !cardOk A then .panic "index out of bounds / u16 overflow / divergence in cardinality"
  else match (cardCacheF A).getD (root A) none with
    | some x => .ok (fin x (varAt A (root A)))
    | none => .panic "unwrap on None"

/-- `Bdd::cardinality` (current code) -/
def cardF64O (A : Arr) : Outcome F64 := cardF64With finalF A

end Count

open Count in
/-- `Bdd::cardinality` on normal return (`nan` stands for a panic; never the case for `WFo` arrays:
    `Props.C09.cardinality_f64_total`) -/
def cardF64 (A : Arr) : F64 := match cardF64O A with | .ok x => x | _ => F64.nan

open Count in
/-- `Bdd::cardinality` as it was before commit 316b6bb (unguarded final product), for the record -/
def cardF64_unguarded (A : Arr) : F64 := match cardF64With finalUnguarded A with | .ok x => x | _ => F64.nan

/-- predicted `cardinality().to_bits()` -/
def cardF64Bits (A : Arr) : Nat := (cardF64 A).toBits

end B
