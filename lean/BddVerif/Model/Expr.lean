import BddVerif.Model.Parser
import BddVerif.Model.Ternary
import BddVerif.Gen.OpTables
/-!
Executable model of expression evaluation and export:

* `evalBool` — the meaning of a `BooleanExpression` (pointwise evaluation of the tree), the SPEC;
* `evalExpr` = `BddVariableSet::safe_eval_expression` (`_impl_boolean_expression.rs:66-110`), connective by
  connective: `and/or/xor/imp/iff` are `apply` with the regenerated tables, `not` is `Bdd::not`,
  `Cond` is `Bdd::if_then_else` = `ternary_apply` with `ite_function`; `None` for an unknown name;
* `evalExprO`/`evalStringO` = `eval_expression` / `eval_expression_string` (the `unwrap()`s are panics);
* `toExpr` = `Bdd::to_boolean_expression` (`_impl_util.rs:304-376`) with its five node shapes; the
  `panic!("Invalid node …")` arm and the two indexing panics (`var_names[…]`, `results[…]`) are explicit.

A variable set is the list of its names (`var_names`); `var_index_mapping` is the position in that
list (the names of a `BddVariableSet` are distinct).
-/
namespace B.ExprM
open B B.Parser

/-- pointwise meaning of an expression under an assignment of its names -/
def evalBool : Expr → (Name → Bool) → Bool
  | .const b, _ => b
  | .var s, ρ => ρ s
  | .not e, ρ => !evalBool e ρ
  | .and l r, ρ => evalBool l ρ && evalBool r ρ
  | .or l r, ρ => evalBool l ρ || evalBool r ρ
  | .xor l r, ρ => evalBool l ρ != evalBool r ρ
  | .imp l r, ρ => !evalBool l ρ || evalBool r ρ
  | .iff l r, ρ => evalBool l ρ == evalBool r ρ
  | .cond c t e, ρ => if evalBool c ρ then evalBool t ρ else evalBool e ρ

/-- `var_by_name`: position of the name in `var_names` -/
def indexOfName : List Name → Name → Option Nat
  | [], _ => none
  | x :: xs, s => if x = s then some 0 else (indexOfName xs s).map (· + 1)

/-- `Bdd::mk_var(num_vars, var)` -/
def mkVar (n x : Nat) : Arr := (mkTrue n).push ⟨x, 0, 1⟩

/-- `safe_eval_expression` -/
def evalExpr (vars : List Name) : Expr → Option Arr
  | .const b => some (if b then mkTrue vars.length else mkFalse vars.length)
  | .var s => (indexOfName vars s).map (mkVar vars.length)
  | .not e => (evalExpr vars e).map bddNot
  | .and l r =>
    (evalExpr vars l).bind fun a => (evalExpr vars r).bind fun b => some (applyWithFlip a b Gen.and_ none none none)
  | .or l r =>
    (evalExpr vars l).bind fun a => (evalExpr vars r).bind fun b => some (applyWithFlip a b Gen.or_ none none none)
  | .xor l r =>
    (evalExpr vars l).bind fun a => (evalExpr vars r).bind fun b => some (applyWithFlip a b Gen.xor_ none none none)
  | .imp l r =>
    (evalExpr vars l).bind fun a => (evalExpr vars r).bind fun b => some (applyWithFlip a b Gen.imp_ none none none)
  | .iff l r =>
    (evalExpr vars l).bind fun a => (evalExpr vars r).bind fun b => some (applyWithFlip a b Gen.iff_ none none none)
  | .cond c t e =>
    (evalExpr vars c).bind fun a => (evalExpr vars t).bind fun b => (evalExpr vars e).bind fun d =>
      some (ternaryApply a b d Gen.ite_ none none none none)

/-- `eval_expression`: `safe_eval_expression(..).unwrap()` -/
def evalExprO (vars : List Name) (e : Expr) : Outcome Arr :=
  match evalExpr vars e with
  | some r => .ok r
  | none => .panic "called `Option::unwrap()` on a `None` value"

/-- `eval_expression_string`: `try_from(..).unwrap()` then `eval_expression` -/
def evalStringO (vars : List Name) (s : List Char) : Outcome Arr :=
  match parse s with
  | .ok e => evalExprO vars e
  | .err m => .panic ("called `Result::unwrap()` on an `Err` value: " ++ m)
  | .panic m => .panic m

/-- names occurring in an expression (`support_set`, as a list) -/
def names : Expr → List Name
  | .const _ => []
  | .var s => [s]
  | .not e => names e
  | .and l r | .or l r | .xor l r | .imp l r | .iff l r => names l ++ names r
  | .cond c t e => names c ++ names t ++ names e

/-! ### export -/

def isTerminal (p : Nat) : Bool := p < 2

/-- the body of the loop of `to_boolean_expression` for one node -/
def toExprNode (vars : List Name) (results : Array Expr) (nd : Node) : Outcome Expr :=
  match vars[nd.var]? with
  | none => .panic "index out of bounds: var_names"
  | some name =>
    if isTerminal nd.low && isTerminal nd.high then
      if nd.high = 1 && nd.low = 0 then .ok (.var name)
      else if nd.high = 0 && nd.low = 1 then .ok (.not (.var name))
      else .panic "Invalid node in bdd."
    else if isTerminal nd.low then
      match results[nd.high]? with
      | none => .panic "index out of bounds: results"
      | some h => if nd.low = 0 then .ok (.and (.var name) h) else .ok (.or (.not (.var name)) h)
    else if isTerminal nd.high then
      match results[nd.low]? with
      | none => .panic "index out of bounds: results"
      | some l => if nd.high = 0 then .ok (.and (.not (.var name)) l) else .ok (.or (.var name) l)
    else
      match results[nd.high]?, results[nd.low]? with
      | some h, some l => .ok (.or (.and (.var name) h) (.and (.not (.var name)) l))
      | _, _ => .panic "index out of bounds: results"

/-- the loop `for node in 2..self.0.len()` over the remaining nodes -/
def toExprFold (vars : List Name) : List Node → Array Expr → Outcome (Array Expr)
  | [], res => .ok res
  | nd :: tl, res =>
    match toExprNode vars res nd with
    | .ok e => toExprFold vars tl (res.push e)
    | .err m => .err m
    | .panic m => .panic m

/-- `Bdd::to_boolean_expression` -/
def toExpr (vars : List Name) (A : Arr) : Outcome Expr :=
  if A.size = 1 then .ok (.const false)
  else if A.size = 2 then .ok (.const true)
  else
    match toExprFold vars (A.toList.drop 2) #[.const false, .const true] with
    | .ok res => .ok (res.back?.getD (.const true))   -- `results.last().unwrap()`: never empty
    | .err m => .err m
    | .panic m => .panic m

end B.ExprM
