import BddVerif.Model.Parser
/-!
The INDEPENDENT reference parser used by the drivers of C14/C15 to decide the grammar clause of the
property on the implementation's observed outcome: a flat lexer in accumulator style (no token tree,
parentheses are ordinary tokens) followed by a classical recursive-descent parser with one token of
look-ahead for the declarative grammar
    iff ::= imp '<=>' iff | imp      imp ::= cond '=>' imp | cond     cond ::= or '?' or ':' or | or
    or ::= and '|' or | and          and ::= xor '&' and | xor        xor ::= term '^' xor | term
    term ::= '!' term | id | true | false | '(' iff ')'
It shares no code and no strategy with the model of the real parser (`Parser.parse`, which splits a
token tree at the first occurrence of the loosest operator). `Lemmas/ParserRef*.lean` prove that it
decides exactly the flat grammar `DerF`, hence agrees with the model on every string.
Executable, core only (imports the model file only for the type `Expr`).
-/
namespace B.ParserRef
open B

inductive FTok where
  | lp | rp | bang | amp | bar | hat | arrow | darrow | quest | colon
  | ident (s : List Char)
deriving DecidableEq, Repr

/-- Unicode `White_Space` code points, listed one by one (deliberately not the model's `isWs`) -/
def wsCodes : List Nat :=
  [0x09, 0x0A, 0x0B, 0x0C, 0x0D, 0x20, 0x85, 0xA0, 0x1680, 0x2000, 0x2001, 0x2002, 0x2003, 0x2004, 0x2005,
   0x2006, 0x2007, 0x2008, 0x2009, 0x200A, 0x2028, 0x2029, 0x202F, 0x205F, 0x3000]

def refWs (c : Char) : Bool := wsCodes.contains c.toNat

/-- characters that end an identifier according to the documentation of `NOT_IN_VAR_NAME` (lib.rs) -/
def refSpecial (c : Char) : Bool := "!&|^=<>()?:".toList.contains c

def flush (cur : List Char) (acc : List FTok) : List FTok :=
  if cur.isEmpty then acc else FTok.ident cur.reverse :: acc

/-- flat lexer, accumulator style; `none` = lexical error. `cur` = reversed pending identifier -/
def refLex : List Char → List Char → List FTok → Option (List FTok)
  | [], cur, acc => some (flush cur acc).reverse
  | '<' :: '=' :: '>' :: tl, cur, acc => refLex tl [] (FTok.darrow :: flush cur acc)
  | '=' :: '>' :: tl, cur, acc => refLex tl [] (FTok.arrow :: flush cur acc)
  | c :: tl, cur, acc =>
    if refWs c then refLex tl [] (flush cur acc)
    else if c == '(' then refLex tl [] (FTok.lp :: flush cur acc)
    else if c == ')' then refLex tl [] (FTok.rp :: flush cur acc)
    else if c == '!' then refLex tl [] (FTok.bang :: flush cur acc)
    else if c == '&' then refLex tl [] (FTok.amp :: flush cur acc)
    else if c == '|' then refLex tl [] (FTok.bar :: flush cur acc)
    else if c == '^' then refLex tl [] (FTok.hat :: flush cur acc)
    else if c == '?' then refLex tl [] (FTok.quest :: flush cur acc)
    else if c == ':' then refLex tl [] (FTok.colon :: flush cur acc)
    else if refSpecial c then none      -- a lone `=`, `<`, `>`
    else refLex tl (c :: cur) acc

abbrev PRes := Option (Expr × List FTok)

/-- right-associative binary level: `next (op level)?` -/
def binLevel (next self : List FTok → PRes) (op : FTok) (mk : Expr → Expr → Expr) (ts : List FTok) : PRes :=
  match next ts with
  | some (l, t :: rest) =>
    if t = op then
      match self rest with
      | some (r, rest') => some (mk l r, rest')
      | none => none
    else some (l, t :: rest)
  | r => r

/-- recursive descent; level 0 term, 1 xor, 2 and, 3 or, 4 cond, 5 imp, 6 iff; fuel bounds the depth -/
def refParse : Nat → Nat → List FTok → PRes
  | 0, _, _ => none
  | fuel + 1, 0, ts =>
    match ts with
    | FTok.bang :: rest => (refParse fuel 0 rest).map fun (e, r) => (Expr.not e, r)
    | FTok.ident s :: rest =>
      some ((if s = "true".toList then Expr.const true else if s = "false".toList then Expr.const false else Expr.var s), rest)
    | FTok.lp :: rest =>
      match refParse fuel 6 rest with
      | some (e, FTok.rp :: rest') => some (e, rest')
      | _ => none
    | _ => none
  | fuel + 1, 1, ts => binLevel (refParse fuel 0) (refParse fuel 1) FTok.hat Expr.xor ts
  | fuel + 1, 2, ts => binLevel (refParse fuel 1) (refParse fuel 2) FTok.amp Expr.and ts
  | fuel + 1, 3, ts => binLevel (refParse fuel 2) (refParse fuel 3) FTok.bar Expr.or ts
  | fuel + 1, 4, ts =>
    match refParse fuel 3 ts with
    | some (c, FTok.quest :: rest) =>
      match refParse fuel 3 rest with
      | some (t, FTok.colon :: rest') =>
        match refParse fuel 3 rest' with
        | some (e, rest'') => some (Expr.cond c t e, rest'')
        | none => none
      | _ => none
    | r => r
  | fuel + 1, 5, ts => binLevel (refParse fuel 4) (refParse fuel 5) FTok.arrow Expr.imp ts
  | fuel + 1, _, ts => binLevel (refParse fuel 5) (refParse fuel 6) FTok.darrow Expr.iff ts

/-- the reference answer: `some e` iff the string is in the documented language, `e` its tree -/
def reference (s : List Char) : Option Expr :=
  match refLex s [] [] with
  | none => none
  | some ts =>
    match refParse (8 * ts.length + 16) 6 ts with
    | some (e, []) => some e
    | _ => none

end B.ParserRef
