import BddVerif.Model.Outcome
import BddVerif.Gen.Consts
/-!
Executable model of the Boolean-expression parser and printer
(`src/boolean_expression/mod.rs`, `_impl_parser.rs`, `Display` in `_impl_boolean_expression.rs`).

* Strings are `List Char` (the Rust code iterates over `chars()`); a variable name is a `List Char`.
* `tokGroup` = `tokenize_group`: the `Peekable<Chars>` iterator is the remaining list, the recursive
  call for `(` returns the unread rest. The recursion is well-founded on the length of the input; the
  check "the nested call consumed something" is a modelling artefact which is *proved* never to fire
  (`Lemmas/ParserTotal.lean: tokGroup_rest_le`, part of `parse_total`).
* `parseFormula`/`iffP`/`impP`/`condP`/`orP`/`andP`/`xorP`/`terminalP` = the eight parsing functions,
  one per precedence level, each splitting at the FIRST top-level occurrence of its operator
  (`index_of_first` = `position`), well-founded on (size of the token tree, level).
* slicing `&data[a..b]` panics in Rust when `a > b`; the only slice whose bounds are not trivially
  ordered is the middle one of `cond()`, and it is modelled with its panic.
* `display` = `impl Display for BooleanExpression`.
Core only.
-/
namespace B

/-- a variable name / a string: the sequence of its `char`s -/
abbrev Name := List Char

/-- `BooleanExpression` -/
inductive Expr where
  | const (b : Bool)
  | var (s : Name)
  | not (e : Expr)
  | and (l r : Expr)
  | or (l r : Expr)
  | xor (l r : Expr)
  | imp (l r : Expr)
  | iff (l r : Expr)
  | cond (c t e : Expr)
deriving DecidableEq, Repr, Inhabited

/-- `ExprToken` -/
inductive Tok where
  | not | and | or | xor | imp | iff | colon | qmark
  | id (s : Name)
  | group (ts : List Tok)
deriving Repr, Inhabited

namespace Parser

/-- constructor number of a token -/
def Tok.tag : Tok → Nat
  | .not => 0 | .and => 1 | .or => 2 | .xor => 3 | .imp => 4 | .iff => 5 | .colon => 6 | .qmark => 7
  | .id _ => 8 | .group _ => 9

/-- `*t == token` (derived `PartialEq`) where `token` is one of the eight payload-free tokens — the only
    way the parser ever compares tokens (`index_of_first(data, ExprToken::Iff)`, `data[0] == ExprToken::Not`);
    for those, equality is equality of constructors. -/
def Tok.eqK (t k : Tok) : Bool := Tok.tag t == Tok.tag k

mutual
/-- number of tokens in a token tree (termination measure of the parser) -/
def Tok.size : Tok → Nat
  | .group ts => 1 + sizeL ts
  | _ => 1
def sizeL : List Tok → Nat
  | [] => 0
  | t :: ts => Tok.size t + sizeL ts
end

/-! ### Tokenizer -/

/-- `char::is_whitespace`: the Unicode `White_Space` property -/
def isWs (c : Char) : Bool :=
  let n := c.toNat
  (9 ≤ n && n ≤ 13) || n == 0x20 || n == 0x85 || n == 0xA0 || n == 0x1680 ||
  (0x2000 ≤ n && n ≤ 0x200A) || n == 0x2028 || n == 0x2029 || n == 0x202F || n == 0x205F || n == 0x3000

/-- the loop condition of the identifier scanner: `c.is_whitespace() || NOT_IN_VAR_NAME.contains(c)` -/
def stopsName (c : Char) : Bool := isWs c || Gen.notInVarName.contains c

/-- the `while let Some(c) = data.peek()` loop: (characters pushed to the name, unread rest) -/
def nameRest : List Char → List Char × List Char
  | [] => ([], [])
  | c :: tl => if stopsName c then ([], c :: tl) else ((c :: (nameRest tl).1), (nameRest tl).2)

abbrev TokRes := Outcome (List Tok × List Char)

/-- `output.push(t)` followed by the rest of the loop -/
def push (t : Tok) : TokRes → TokRes
  | .ok (ts, r) => .ok (t :: ts, r)
  | .err m => .err m
  | .panic m => .panic m

theorem nameRest_le (l : List Char) : (nameRest l).2.length ≤ l.length := by
  induction l with
  | nil => simp [nameRest]
  | cons c tl ih =>
    unfold nameRest
    split
    · simp
    · simp only [List.length_cons]; omega

/-- `tokenize_group(data, top_level)`: tokens of the group and the unread rest of the iterator -/
def tokGroup (data : List Char) (top : Bool) : TokRes :=
  match data with
  | [] => if top then .ok ([], []) else .err "Expected ')'."
  | c :: tl =>
    if isWs c then tokGroup tl top
    else if c = '!' then push .not (tokGroup tl top)
    else if c = '&' then push .and (tokGroup tl top)
    else if c = '|' then push .or (tokGroup tl top)
    else if c = '^' then push .xor (tokGroup tl top)
    else if c = ':' then push .colon (tokGroup tl top)
    else if c = '?' then push .qmark (tokGroup tl top)
    else if c = '=' then
      match tl with
      | d :: tl' => if d = '>' then push .imp (tokGroup tl' top) else .err "Expected '>' after '='."
      | [] => .err "Expected '>' after '='."
    else if c = '<' then
      match tl with
      | d :: tl' =>
        if d = '=' then
          match tl' with
          | e :: tl'' => if e = '>' then push .iff (tokGroup tl'' top) else .err "Expected '>' after '='."
          | [] => .err "Expected '>' after '='."
        else .err "Expected '=' after '<'."
      | [] => .err "Expected '=' after '<'."
    else if c = '>' then .err "Unexpected '>'."
    else if c = ')' then (if !top then .ok ([], tl) else .err "Unexpected ')'.")
    else if c = '(' then
      match tokGroup tl false with
      | .ok (inner, rest) =>
        if _h : rest.length < (c :: tl).length then push (.group inner) (tokGroup rest top)
        else .panic "model artefact: nested tokenize_group consumed nothing"
      | .err m => .err m
      | .panic m => .panic m
    else
      if _h : (nameRest tl).2.length < (c :: tl).length then
        push (.id (c :: (nameRest tl).1)) (tokGroup (nameRest tl).2 top)
      else .panic "model artefact: identifier scanner consumed nothing"
termination_by data.length
decreasing_by
  all_goals simp_wf
  all_goals (try simp only [List.length_cons] at *)
  all_goals omega

/-! ### Parser -/

/-- `index_of_first(data, token)` = `data.iter().position(|t| *t == token)` -/
def indexOfFirst : List Tok → Tok → Option Nat
  | [], _ => none
  | t :: ts, k => if Tok.eqK t k then some 0 else (indexOfFirst ts k).map (· + 1)

def kwTrue : Name := ['t', 'r', 'u', 'e']
def kwFalse : Name := ['f', 'a', 'l', 's', 'e']

theorem sizeL_take_le (l : List Tok) (n : Nat) : sizeL (l.take n) ≤ sizeL l := by
  induction l generalizing n with
  | nil => simp [sizeL]
  | cons t ts ih =>
    cases n with
    | zero => simp [sizeL]
    | succ n => simp only [List.take_succ_cons, sizeL]; have := ih n; omega

theorem sizeL_drop_le (l : List Tok) (n : Nat) : sizeL (l.drop n) ≤ sizeL l := by
  induction l generalizing n with
  | nil => simp [sizeL]
  | cons t ts ih =>
    cases n with
    | zero => simp
    | succ n => simp only [List.drop_succ_cons, sizeL]; have := ih n; omega

theorem Tok.size_pos (t : Tok) : 0 < Tok.size t := by
  cases t <;> simp [Tok.size] <;> omega

theorem sizeL_take_lt {l : List Tok} {k : Tok} {i : Nat} (h : indexOfFirst l k = some i) :
    sizeL (l.take i) < sizeL l := by
  induction l generalizing i with
  | nil => simp [indexOfFirst] at h
  | cons t ts ih =>
    unfold indexOfFirst at h
    split at h
    · cases h; simp only [List.take_zero, sizeL]; have := Tok.size_pos t; omega
    · cases hi : indexOfFirst ts k with
      | none => simp [hi] at h
      | some j =>
        simp only [hi, Option.map_some, Option.some.injEq] at h
        subst h
        simp only [List.take_succ_cons, sizeL]
        have := ih hi; omega

theorem sizeL_drop_lt {l : List Tok} {k : Tok} {i : Nat} (h : indexOfFirst l k = some i) :
    sizeL (l.drop (i + 1)) < sizeL l := by
  induction l generalizing i with
  | nil => simp [indexOfFirst] at h
  | cons t ts ih =>
    unfold indexOfFirst at h
    split at h
    · cases h
      simp only [Nat.zero_add, List.drop_succ_cons, List.drop_zero, sizeL]
      have := Tok.size_pos t; omega
    · cases hi : indexOfFirst ts k with
      | none => simp [hi] at h
      | some j =>
        simp only [hi, Option.map_some, Option.some.injEq] at h
        subst h
        simp only [List.drop_succ_cons, sizeL]
        have := ih hi; omega

theorem sizeL_mid_lt {l : List Tok} {k : Tok} {c : Nat} (q : Nat) (h : indexOfFirst l k = some c) :
    sizeL ((l.take c).drop (q + 1)) < sizeL l :=
  Nat.lt_of_le_of_lt (sizeL_drop_le _ _) (sizeL_take_lt h)

/-- `data.len() == 1 && matches!(data[0], ExprToken::Tokens(..))` -/
def isSingleGroup : List Tok → Bool
  | [.group _] => true
  | _ => false

mutual

/-- `parse_formula` -/
def parseFormula (data : List Tok) : Outcome Expr :=
  if isSingleGroup data then terminalP data   -- the "fast-forward" branch for `(...)`
  else iffP data
termination_by (sizeL data, 8)
decreasing_by all_goals simp_wf; all_goals (apply Prod.Lex.right; omega)

/-- step 1: `<=>` -/
def iffP (data : List Tok) : Outcome Expr :=
  match _h : indexOfFirst data .iff with
  | some i =>
    (impP (data.take i)).bind fun l =>
    (iffP (data.drop (i + 1))).bind fun r => .ok (.iff l r)
  | none => impP data
termination_by (sizeL data, 7)
decreasing_by
  · simp_wf; exact Prod.Lex.left _ _ (sizeL_take_lt _h)
  · simp_wf; exact Prod.Lex.left _ _ (sizeL_drop_lt _h)
  · simp_wf; apply Prod.Lex.right; omega

/-- step 2: `=>` -/
def impP (data : List Tok) : Outcome Expr :=
  match _h : indexOfFirst data .imp with
  | some i =>
    (condP (data.take i)).bind fun l =>
    (impP (data.drop (i + 1))).bind fun r => .ok (.imp l r)
  | none => condP data
termination_by (sizeL data, 6)
decreasing_by
  · simp_wf; exact Prod.Lex.left _ _ (sizeL_take_lt _h)
  · simp_wf; exact Prod.Lex.left _ _ (sizeL_drop_lt _h)
  · simp_wf; apply Prod.Lex.right; omega

/-- step 3: `cond ? then : else` (first `?`, first `:`) -/
def condP (data : List Tok) : Outcome Expr :=
  match _hq : indexOfFirst data .qmark, _hc : indexOfFirst data .colon with
  | none, none => orP data
  | some q, some c =>
    if c < q then .err "Expected `?` before `:`."
    else
      (orP (data.take q)).bind fun a =>
      -- `&data[(question_token + 1)..colon_token]` panics when the start exceeds the end
      if q + 1 > c then .panic "slice index starts after its end" else
      (orP ((data.take c).drop (q + 1))).bind fun b =>
      (orP (data.drop (c + 1))).bind fun d => .ok (.cond a b d)
  | none, some _ => .err "Expected `?` but only found `:`."
  | some _, none => .err "Expected `:` but only found `?`."
termination_by (sizeL data, 5)
decreasing_by
  · simp_wf; apply Prod.Lex.right; omega
  · simp_wf; exact Prod.Lex.left _ _ (sizeL_take_lt _hq)
  · simp_wf; exact Prod.Lex.left _ _ (sizeL_mid_lt q _hc)
  · simp_wf; exact Prod.Lex.left _ _ (sizeL_drop_lt _hc)

/-- step 4: `|` -/
def orP (data : List Tok) : Outcome Expr :=
  match _h : indexOfFirst data .or with
  | some i =>
    (andP (data.take i)).bind fun l =>
    (orP (data.drop (i + 1))).bind fun r => .ok (.or l r)
  | none => andP data
termination_by (sizeL data, 4)
decreasing_by
  · simp_wf; exact Prod.Lex.left _ _ (sizeL_take_lt _h)
  · simp_wf; exact Prod.Lex.left _ _ (sizeL_drop_lt _h)
  · simp_wf; apply Prod.Lex.right; omega

/-- step 5: `&` -/
def andP (data : List Tok) : Outcome Expr :=
  match _h : indexOfFirst data .and with
  | some i =>
    (xorP (data.take i)).bind fun l =>
    (andP (data.drop (i + 1))).bind fun r => .ok (.and l r)
  | none => xorP data
termination_by (sizeL data, 3)
decreasing_by
  · simp_wf; exact Prod.Lex.left _ _ (sizeL_take_lt _h)
  · simp_wf; exact Prod.Lex.left _ _ (sizeL_drop_lt _h)
  · simp_wf; apply Prod.Lex.right; omega

/-- step 6: `^` -/
def xorP (data : List Tok) : Outcome Expr :=
  match _h : indexOfFirst data .xor with
  | some i =>
    (terminalP (data.take i)).bind fun l =>
    (xorP (data.drop (i + 1))).bind fun r => .ok (.xor l r)
  | none => terminalP data
termination_by (sizeL data, 2)
decreasing_by
  · simp_wf; exact Prod.Lex.left _ _ (sizeL_take_lt _h)
  · simp_wf; exact Prod.Lex.left _ _ (sizeL_drop_lt _h)
  · simp_wf; apply Prod.Lex.right; omega

/-- step 7: terminals and negations -/
def terminalP (data : List Tok) : Outcome Expr :=
  match data with
  | [] => .err "Expected formula, found nothing :("
  | .not :: rest => (terminalP rest).bind fun e => .ok (.not e)
  | _ :: _ :: _ => .err "Expected variable name or (...), but found several tokens."
  | [.id name] =>
    if name = kwTrue then .ok (.const true)
    else if name = kwFalse then .ok (.const false)
    else .ok (.var name)
  | [.group inner] => parseFormula inner
  | [_] => .err "Expected variable name or (...), but found an operator."
termination_by (sizeL data, 1)
decreasing_by
  · simp_wf; apply Prod.Lex.left; simp [sizeL, Tok.size]
  · simp_wf; apply Prod.Lex.left; simp [sizeL, Tok.size]

end

/-- `parse_boolean_expression` = `BooleanExpression::try_from(&str)` -/
def parse (s : List Char) : Outcome Expr :=
  match tokGroup s true with
  | .ok (ts, _) => parseFormula ts
  | .err m => .err m
  | .panic m => .panic m

/-! ### Printer -/

/-- `impl Display for BooleanExpression` -/
def display : Expr → List Char
  | .const true => kwTrue
  | .const false => kwFalse
  | .var s => s
  | .not e => '!' :: display e
  | .and l r => '(' :: display l ++ [' ', '&', ' '] ++ display r ++ [')']
  | .or l r => '(' :: display l ++ [' ', '|', ' '] ++ display r ++ [')']
  | .xor l r => '(' :: display l ++ [' ', '^', ' '] ++ display r ++ [')']
  | .imp l r => '(' :: display l ++ [' ', '=', '>', ' '] ++ display r ++ [')']
  | .iff l r => '(' :: display l ++ [' ', '<', '=', '>', ' '] ++ display r ++ [')']
  | .cond c t e => '(' :: display c ++ [' ', '?', ' '] ++ display t ++ [' ', ':', ' '] ++ display e ++ [')']

end Parser
end B
