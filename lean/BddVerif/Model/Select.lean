import BddVerif.Model.Apply
/-!
Executable model of the witness / clause selectors

* `src/_impl_bdd/_impl_valuation_utils.rs`: `first_valuation`, `last_valuation`, `first_clause`,
  `last_clause`, `most_positive_valuation`, `most_negative_valuation`, `most_fixed_clause`,
  `most_free_clause`, `random_valuation`, `random_clause`, `necessary_clause`;
* `src/_impl_bdd/_impl_util.rs`: `sat_witness`, `is_valuation`, `is_clause`.

Conventions
* a valuation (`BddValuation(Vec<bool>)`) is a `List Bool`, a clause (`BddPartialValuation(Vec<Option<bool>>)`)
  is a `List (Option Bool)` that grows exactly as `mut_cell` grows the vector (`setC`);
* every `while` loop is a recursion on a fuel equal to the number of nodes: a walk that does not repeat a node
  takes fewer steps, a walk that repeats a node never ends in the Rust code, so running out of fuel is exactly
  non-termination;
* inner functions return `Option`: `none` = the Rust code panics (index out of bounds, `panic!("Non canonical
  BDD.")`, `unreachable!()`, arithmetic underflow of the `u16` level difference — a panic with overflow checks,
  a wrap-around without) or does not terminate. The public selectors return `Sel`: `panic` for that case,
  `none` / `some` for the `Option` the Rust function returns. Nothing is totalised silently;
* the random selectors receive their coin flips as a `List Bool`, consumed in the order in which the Rust
  code calls `rng.gen_bool(0.5)`; an exhausted list yields `false` (as the harness's `CoinRng` does).
Only core (the driver is a compiled `lean_exe`).
-/
namespace B.Select

/-- result of a selector: the Rust `Option`, or a panic / non-termination -/
inductive Sel (α : Type) where
  | panic
  | none
  | some (a : α)
deriving Repr, DecidableEq

abbrev Val := List Bool
abbrev Clause := List (Option Bool)

/-- `Bdd::is_false` -/
def isFalse (A : Arr) : Bool := A.size == 1
/-- `Bdd::is_true` -/
def isTrue (A : Arr) : Bool := A.size == 2

/-- `valuation.0[x] = b` (panics when out of bounds) -/
def setBit (v : Val) (x : Nat) (b : Bool) : Option Val :=
  if x < v.length then some (v.set x b) else none

/-- `BddPartialValuation::set_value` through `mut_cell`: pad with `None` while `len <= index` -/
def setC (c : Clause) (x : Nat) (b : Bool) : Clause :=
  (c ++ List.replicate (x + 1 - c.length) none).set x (some b)

/-- `get_value`: `None` beyond the end of the vector -/
def getC (c : Clause) (x : Nat) : Option Bool := (c[x]?).getD none

/-- One descent from pointer `p`: `while !stop(node) { child = choose(node); record (var, child); node = child link }`.
    Returns the decisions `(variable, branch)` in the order they are taken. -/
def descend (A : Arr) (stop : Nat → Bool) (choose : Nat → Node → Option Bool) :
    Nat → Nat → Option (List (Nat × Bool))
  | 0, p => if stop p then some [] else none
  | fuel + 1, p =>
    if stop p then some [] else
    match A[p]? with
    | none => none
    | some nd =>
      match choose p nd with
      | none => none
      | some b => (descend A stop choose fuel (if b then nd.high else nd.low)).map ((nd.var, b) :: ·)

/-- `BddPointer::is_terminal` -/
def isTerminal (p : Nat) : Bool := p < 2

/-- The valuation written by a walk that starts from `all_false` (`init = false`) or `all_true`
    (`init = true`) and overwrites the variable of every decision whose branch differs from `init`. -/
def foldV (init : Bool) : List (Nat × Bool) → Val → Option Val
  | [], v => some v
  | (x, b) :: ds, v => if b = init then foldV init ds v else (setBit v x b).bind (foldV init ds)

/-! Compiled fast path of `foldV` (the `List.set` of the definition is linear in the index, which makes a walk with
    many writes quadratic at 65 533 variables): the same loop on an array, proved equal and installed with `csimp`.
    The definition above is what all theorems are about. -/
def foldVA (init : Bool) : List (Nat × Bool) → Array Bool → Option (Array Bool)
  | [], a => some a
  | (x, b) :: ds, a =>
    if b = init then foldVA init ds a
    else if x < a.size then foldVA init ds (a.setIfInBounds x b) else none

def foldVFast (init : Bool) (ds : List (Nat × Bool)) (v : Val) : Option Val :=
  (foldVA init ds v.toArray).map Array.toList

theorem foldVA_spec (init : Bool) : ∀ (ds : List (Nat × Bool)) (a : Array Bool),
    (foldVA init ds a).map Array.toList = foldV init ds a.toList := by
  intro ds
  induction ds with
  | nil => intro a; simp [foldVA, foldV]
  | cons d ds ih =>
    intro a
    obtain ⟨x, b⟩ := d
    by_cases hb : b = init
    · simp [foldVA, foldV, hb, ih]
    · by_cases hx : x < a.size
      · simp [foldVA, foldV, hb, hx, setBit, ih]
      · simp [foldVA, foldV, hb, hx, setBit]

@[csimp] theorem foldV_eq_fast : @foldV = @foldVFast := by
  funext init ds v
  unfold foldVFast
  rw [foldVA_spec]

/-- The clause written by a walk that records every decision. -/
def foldC (ds : List (Nat × Bool)) : Clause := ds.foldl (fun c d => setC c d.1 d.2) []

/-! Compiled fast path of `foldC`: `set_value` on an array. -/
def setCA (a : Array (Option Bool)) (x : Nat) (b : Bool) : Array (Option Bool) :=
  if x < a.size then a.setIfInBounds x (some b)
  else (a ++ Array.replicate (x - a.size) none).push (some b)

theorem setCA_spec (a : Array (Option Bool)) (x : Nat) (b : Bool) :
    (setCA a x b).toList = setC a.toList x b := by
  unfold setCA setC
  by_cases hx : x < a.size
  · have : x + 1 - a.size = 0 := by omega
    simp [hx, this]
  · have h1 : x + 1 - a.toList.length = (x - a.size) + 1 := by simp; omega
    simp only [hx, if_false, h1, Array.toList_push, Array.toList_append, Array.toList_replicate]
    rw [List.replicate_succ', ← List.append_assoc]
    have hlen : (a.toList ++ List.replicate (x - a.size) none).length = x := by simp; omega
    rw [List.set_append_right _ _ (by omega)]
    simp [hlen]

def foldCFast (ds : List (Nat × Bool)) : Clause :=
  (ds.foldl (fun a d => setCA a d.1 d.2) #[]).toList

theorem foldCA_spec : ∀ (ds : List (Nat × Bool)) (a : Array (Option Bool)),
    (ds.foldl (fun a d => setCA a d.1 d.2) a).toList = ds.foldl (fun c d => setC c d.1 d.2) a.toList := by
  intro ds
  induction ds with
  | nil => intro a; rfl
  | cons d ds ih => intro a; simp only [List.foldl_cons]; rw [ih, setCA_spec]

@[csimp] theorem foldC_eq_fast : @foldC = @foldCFast := by
  funext ds
  unfold foldCFast foldC
  rw [foldCA_spec]

def ofOpt {α : Type} : Option α → Sel α
  | Option.none => Sel.panic
  | Option.some a => Sel.some a

/-- greedy choice of `first_valuation` / `first_clause`: high only if the low link is zero -/
def chooseFirst (_ : Nat) (nd : Node) : Option Bool := some (nd.low == 0)
/-- greedy choice of `last_valuation` / `last_clause`: low only if the high link is zero -/
def chooseLast (_ : Nat) (nd : Node) : Option Bool := some (!(nd.high == 0))

def walkVal (A : Arr) (choose : Nat → Node → Option Bool) (init : Bool) : Sel Val :=
  if isFalse A then Sel.none else
  ofOpt ((descend A isTerminal choose A.size (root A)).bind
    fun ds => foldV init ds (List.replicate (numVars A) init))

def walkClause (A : Arr) (choose : Nat → Node → Option Bool) : Sel Clause :=
  if isFalse A then Sel.none else
  ofOpt ((descend A isTerminal choose A.size (root A)).map foldC)

/-- `first_valuation` (lines 11-28) -/
def firstValuation (A : Arr) : Sel Val := walkVal A chooseFirst false
/-- `last_valuation` (lines 34-51) -/
def lastValuation (A : Arr) : Sel Val := walkVal A chooseLast true
/-- `first_clause` (lines 55-73) -/
def firstClause (A : Arr) : Sel Clause := walkClause A chooseFirst
/-- `last_clause` (lines 77-99) -/
def lastClause (A : Arr) : Sel Clause := walkClause A chooseLast

/-! ### bottom-up tables (`most_*`) -/

abbrev Cache := Array (Nat × Bool)

/-- `for i in self.pointers().skip(2) { …; cache.push(result) }` starting from the two terminal entries -/
def buildTable (A : Arr) (step : Cache → Node → Option (Nat × Bool)) : Option Cache :=
  (List.range' 2 (A.size - 2)).foldlM
    (fun (c : Cache) i => (A[i]?).bind fun nd => (step c nd).map c.push)
    #[(0, true), (0, true)]

/-- `cache[link].0 + ((var_of(link) - i_var) - 1)` in `u16`; `none` when the subtraction underflows -/
def linkDiff (A : Arr) (c : Cache) (ivar link : Nat) : Option Nat :=
  (c[link]?).bind fun e => (A[link]?).bind fun ln =>
    if ivar < ln.var then some (e.1 + (ln.var - ivar - 1)) else none

/-- lines 114-138 -/
def stepPos (A : Arr) (c : Cache) (nd : Node) : Option (Nat × Bool) :=
  (linkDiff A c nd.var nd.low).bind fun ld => (linkDiff A c nd.var nd.high).bind fun hd =>
    if nd.low = 0 ∧ nd.high = 0 then none
    else if nd.low = 0 then some (hd + 1, true)
    else if nd.high = 0 then some (ld, false)
    else if hd + 1 > ld then some (hd + 1, true)
    else some (ld, false)

/-- lines 168-192 -/
def stepNeg (A : Arr) (c : Cache) (nd : Node) : Option (Nat × Bool) :=
  (linkDiff A c nd.var nd.low).bind fun ld => (linkDiff A c nd.var nd.high).bind fun hd =>
    if nd.low = 0 ∧ nd.high = 0 then none
    else if nd.low = 0 then some (hd, true)
    else if nd.high = 0 then some (ld + 1, false)
    else if hd > ld + 1 then some (hd, true)
    else some (ld + 1, false)

/-- derived `Ord` of `(usize, bool)`: lexicographic, `false < true` -/
def pairLt (a b : Nat × Bool) : Bool := a.1 < b.1 || (a.1 == b.1 && !a.2 && b.2)

/-- lines 221-238 -/
def stepFixed (c : Cache) (nd : Node) : Option (Nat × Bool) :=
  if nd.low = 0 ∧ nd.high = 0 then none
  else if nd.low = 0 then (c[nd.high]?).map fun h => (h.1 + 1, true)
  else if nd.high = 0 then (c[nd.low]?).map fun l => (l.1 + 1, false)
  else (c[nd.high]?).bind fun h => (c[nd.low]?).map fun l =>
    if pairLt l h then (h.1 + 1, true) else (l.1 + 1, false)

/-- lines 271-288 -/
def stepFree (c : Cache) (nd : Node) : Option (Nat × Bool) :=
  if nd.low = 0 ∧ nd.high = 0 then none
  else if nd.low = 0 then (c[nd.high]?).map fun h => (h.1 + 1, true)
  else if nd.high = 0 then (c[nd.low]?).map fun l => (l.1 + 1, false)
  else (c[nd.high]?).bind fun h => (c[nd.low]?).map fun l =>
    if pairLt h l then (h.1 + 1, true) else (l.1 + 1, false)

/-- the second phase follows the recorded child -/
def chooseTable (c : Cache) (p : Nat) (_ : Node) : Option Bool := (c[p]?).map (·.2)

def tableVal (A : Arr) (step : Cache → Node → Option (Nat × Bool)) (init : Bool) : Sel Val :=
  if isFalse A then Sel.none else
  match buildTable A step with
  | Option.none => Sel.panic
  | Option.some c => walkVal A (chooseTable c) init

def tableClause (A : Arr) (step : Cache → Node → Option (Nat × Bool)) : Sel Clause :=
  if isFalse A then Sel.none else
  match buildTable A step with
  | Option.none => Sel.panic
  | Option.some c => walkClause A (chooseTable c)

/-- `most_positive_valuation` (lines 105-153) -/
def mostPositiveValuation (A : Arr) : Sel Val := tableVal A (stepPos A) true
/-- `most_negative_valuation` (lines 159-207) -/
def mostNegativeValuation (A : Arr) : Sel Val := tableVal A (stepNeg A) false
/-- `most_fixed_clause` (lines 212-253) -/
def mostFixedClause (A : Arr) : Sel Clause := tableClause A stepFixed
/-- `most_free_clause` (lines 258-303) -/
def mostFreeClause (A : Arr) : Sel Clause := tableClause A stepFree

/-! ### random selectors -/

/-- next coin: `rng.gen_bool(0.5)` -/
def coin (fl : List Bool) : Bool × List Bool := (fl.headD false, fl.tail)

/-- the branch taken at a decision node by both random selectors (a coin only if both links are non-zero) -/
def randChild (nd : Node) (fl : List Bool) : Bool × List Bool :=
  if nd.low = 0 then (true, fl) else if nd.high = 0 then (false, fl) else coin fl

/-- body of `for i_var in 0..num_vars` (lines 317-338): `k` iterations left, current variable `i` -/
def randValLoop (A : Arr) : Nat → Nat → Nat → List Bool → Option Val
  | 0, _, _, _ => some []
  | k + 1, i, p, fl =>
    match A[p]? with
    | none => none
    | some nd =>
      if nd.var ≠ i then
        let c := coin fl
        (randValLoop A k (i + 1) p c.2).map (c.1 :: ·)
      else
        let c := randChild nd fl
        (randValLoop A k (i + 1) (if c.1 then nd.high else nd.low) c.2).map (c.1 :: ·)

/-- `random_valuation` (lines 310-341) -/
def randomValuation (A : Arr) (fl : List Bool) : Sel Val :=
  if isFalse A then Sel.none else ofOpt (randValLoop A (numVars A) 0 (root A) fl)

/-- `while !node.is_one()` of `random_clause` (lines 355-370) -/
def randClauseLoop (A : Arr) : Nat → Nat → List Bool → Option (List (Nat × Bool))
  | 0, p, _ => if p = 1 then some [] else none
  | fuel + 1, p, fl =>
    if p = 1 then some [] else
    match A[p]? with
    | none => none
    | some nd =>
      let c := randChild nd fl
      (randClauseLoop A fuel (if c.1 then nd.high else nd.low) c.2).map ((nd.var, c.1) :: ·)

/-- `random_clause` (lines 348-373) -/
def randomClause (A : Arr) (fl : List Bool) : Sel Clause :=
  if isFalse A then Sel.none else ofOpt ((randClauseLoop A A.size (root A) fl).map foldC)

/-! ### `sat_witness` (`_impl_util.rs:272-293`) -/

/-- one iteration of the backward parent search on a decision node `i`; state = (`find`, valuation) -/
def witStep (A : Arr) (st : Nat × Val) (i : Nat) : Option (Nat × Val) :=
  (A[i]?).bind fun nd =>
    (if nd.low = st.1 then (setBit st.2 nd.var false).map fun v => (i, v) else some st).bind fun st1 =>
      if nd.high = st1.1 then (setBit st1.2 nd.var true).map fun v => (i, v) else some st1

def satWitness (A : Arr) : Sel Val :=
  if isFalse A then Sel.none else
  ofOpt (((List.range' 2 (A.size - 2)).foldlM (witStep A) (1, List.replicate (numVars A) false)).map (·.2))

/-! Compiled fast path of `sat_witness`: the same parent search with the valuation in an array. -/
def setBitA (v : Array Bool) (x : Nat) (b : Bool) : Option (Array Bool) :=
  if x < v.size then some (v.setIfInBounds x b) else none

theorem setBitA_spec (v : Array Bool) (x : Nat) (b : Bool) :
    (setBitA v x b).map Array.toList = setBit v.toList x b := by
  unfold setBitA setBit
  by_cases hx : x < v.size <;> simp [hx]

/-- the loop of `sat_witness` on an array valuation -/
def witLoopA (A : Arr) : List Nat → Nat → Array Bool → Option (Array Bool)
  | [], _, v => some v
  | i :: rest, find, v =>
    match A[i]? with
    | none => none
    | some nd =>
      match (if nd.low = find then (setBitA v nd.var false).map fun v1 => (i, v1) else some (find, v)) with
      | none => none
      | some (f1, v1) =>
        if nd.high = f1 then
          match setBitA v1 nd.var true with
          | none => none
          | some v2 => witLoopA A rest i v2
        else witLoopA A rest f1 v1

theorem witLoopA_spec (A : Arr) : ∀ (l : List Nat) (find : Nat) (v : Array Bool),
    (witLoopA A l find v).map Array.toList = (l.foldlM (witStep A) (find, v.toList)).map (·.2) := by
  intro l
  induction l with
  | nil => intro find v; simp [witLoopA]
  | cons i rest ih =>
    intro find v
    rw [List.foldlM_cons]
    unfold witLoopA witStep
    cases hnd : A[i]? with
    | none => simp
    | some nd =>
      simp only [Option.bind_some]
      by_cases hl : nd.low = find
      · have e1 := setBitA_spec v nd.var false
        cases h1 : setBitA v nd.var false with
        | none =>
          rw [h1] at e1
          simp only [Option.map_none] at e1
          simp [hl, ← e1]
        | some v1 =>
          rw [h1] at e1
          simp only [Option.map_some] at e1
          simp only [hl, if_true, Option.map_some, ← e1, Option.bind_some]
          by_cases hh : nd.high = i
          · have e2 := setBitA_spec v1 nd.var true
            cases h2 : setBitA v1 nd.var true with
            | none => rw [h2] at e2; simp only [Option.map_none] at e2; simp [hh, ← e2]
            | some v2 =>
              rw [h2] at e2; simp only [Option.map_some] at e2
              simp only [hh, if_true, ← e2, Option.map_some]
              exact ih i v2
          · simp only [hh, if_false]
            exact ih i v1
      · simp only [hl, if_false, Option.bind_some]
        by_cases hh : nd.high = find
        · have e2 := setBitA_spec v nd.var true
          cases h2 : setBitA v nd.var true with
          | none => rw [h2] at e2; simp only [Option.map_none] at e2; simp [hh, ← e2]
          | some v2 =>
            rw [h2] at e2; simp only [Option.map_some] at e2
            simp only [hh, if_true, ← e2, Option.map_some]
            exact ih i v2
        · simp only [hh, if_false]
          exact ih find v

def satWitnessFast (A : Arr) : Sel Val :=
  if isFalse A then Sel.none else
  ofOpt ((witLoopA A (List.range' 2 (A.size - 2)) 1 (Array.replicate (numVars A) false)).map Array.toList)

@[csimp] theorem satWitness_eq_fast : @satWitness = @satWitnessFast := by
  funext A
  unfold satWitness satWitnessFast
  rw [witLoopA_spec]
  simp

/-! ### `is_valuation`, `is_clause` (`_impl_util.rs:461-517`) -/

/-- `is_clause`: `none` = does not terminate / index panic -/
def isClauseLoop (A : Arr) : Nat → Nat → Option Bool
  | 0, p => if p = 1 then some true else none
  | fuel + 1, p =>
    if p = 1 then some true else
    if p = 0 then some false else
    match A[p]? with
    | none => none
    | some nd =>
      if nd.low = 0 then isClauseLoop A fuel nd.high
      else if nd.high = 0 then isClauseLoop A fuel nd.low
      else some false

def isClause (A : Arr) : Option Bool := isClauseLoop A A.size (root A)

/-- `is_valuation` with the counter `expected_variable` -/
def isValuationLoop (A : Arr) : Nat → Nat → Nat → Option Bool
  | 0, p, e => if p = 1 then (A[1]?).map (fun t => t.var == e) else none
  | fuel + 1, p, e =>
    if p = 1 then (A[1]?).map (fun t => t.var == e) else
    if p = 0 then some false else
    match A[p]? with
    | none => none
    | some nd =>
      if nd.var ≠ e then some false
      else if nd.low = 0 then isValuationLoop A fuel nd.high (e + 1)
      else if nd.high = 0 then isValuationLoop A fuel nd.low (e + 1)
      else some false

def isValuation (A : Arr) : Option Bool := isValuationLoop A A.size (root A) 0

/-! ### `necessary_clause` (`_impl_valuation_utils.rs:379-480`) -/

/-- `a[i] = true` (panics when out of bounds) -/
def setTrue (a : Array Bool) (i : Nat) : Option (Array Bool) :=
  if i < a.size then some (a.setIfInBounds i true) else none

/-- `for v in lo..hi { a[v] = true }` -/
def markRange (a : Array Bool) (lo hi : Nat) : Option (Array Bool) :=
  (List.range' lo (hi - lo)).foldlM setTrue a

/-- the list of decision-node indices `self.pointers().skip(2)` -/
def ids (A : Arr) : List Nat := List.range' 2 (A.size - 2)

/-- pass one (lines 398-406) -/
def pass1 (A : Arr) (any : Array Bool) : Option (Array Bool) :=
  (ids A).foldlM (fun s id => (A[id]?).bind fun nd =>
    if !(nd.low == 0 || nd.high == 0) then setTrue s nd.var else some s) any

/-- inner loop of pass two for the variable `x` (lines 416-439), with its `break` -/
def pass2Inner (A : Arr) (x : Nat) : List Nat → Array Bool → Option (Array Bool)
  | [], s => some s
  | id :: rest, s =>
    match A[id]? with
    | none => none
    | some nd =>
      match A[nd.high]?, A[nd.low]? with
      | some hn, some ln =>
        if nd.high = 0 then
          if nd.var + 1 ≤ x ∧ x < ln.var then markRange s (nd.var + 1) ln.var else pass2Inner A x rest s
        else if nd.low = 0 then
          if nd.var + 1 ≤ x ∧ x < hn.var then markRange s (nd.var + 1) hn.var else pass2Inner A x rest s
        else
          match setTrue s nd.var with
          | none => none
          | some s1 =>
            if nd.var ≤ x ∧ x < max hn.var ln.var then markRange s1 nd.var (max hn.var ln.var)
            else pass2Inner A x rest s1
      | _, _ => none

/-- pass two (lines 411-440) -/
def pass2 (A : Arr) (n : Nat) (any : Array Bool) : Option (Array Bool) :=
  (List.range n).foldlM (fun s x =>
    match s[x]? with
    | none => none
    | some true => some s
    | some false => pass2Inner A x (ids A) s) any

/-- pass three (lines 443-455): state = (`seen_zero`, `seen_one`) -/
def pass3 (A : Arr) (any : Array Bool) (z o : Array Bool) : Option (Array Bool × Array Bool) :=
  (ids A).foldlM (fun (st : Array Bool × Array Bool) id => (A[id]?).bind fun nd =>
    match any[nd.var]? with
    | none => none
    | some true => some st
    | some false =>
      if nd.high = 0 then (setTrue st.1 nd.var).map fun z' => (z', st.2)
      else if nd.low = 0 then (setTrue st.2 nd.var).map fun o' => (st.1, o')
      else some st) (z, o)

/-- the final `match (seen_zero[i], seen_one[i], seen_any[i])` (lines 457-477) -/
def assemble (any z o : Array Bool) (n : Nat) : Option Clause :=
  (List.range n).foldlM (fun (c : Clause) i =>
    match z[i]?, o[i]?, any[i]? with
    | some zi, some oi, some ai =>
      if ai || (zi && oi) then some c
      else if zi then some (setC c i false)
      else if oi then some (setC c i true)
      else none
    | _, _, _ => none) []

def necessaryClause (A : Arr) : Sel Clause :=
  if isFalse A then Sel.none else
  if isTrue A then Sel.some [] else
  let n := numVars A
  let f := Array.replicate n false
  ofOpt ((A[root A]?).bind fun rt =>
    (markRange f 0 rt.var).bind fun any0 =>
    (pass1 A any0).bind fun any1 =>
    (pass2 A n any1).bind fun any2 =>
    (pass3 A any2 f f).bind fun zo =>
    assemble any2 zo.1 zo.2 n)

end B.Select
