import BddVerif.Model.Apply
import BddVerif.Model.Outcome
import BddVerif.Gen.OpTables
/-!
Executable model of the relation-like operations of `src/_impl_bdd/_impl_relation_ops.rs`
(`var_select`, `select`, `var_restrict`, `restrict`, `restriction()`, `var_pick`, `var_pick_random`,
`pick`, `pick_random`, `sorted`, and the one-variable quantifiers `var_exists` / `var_for_all` they
use), of the literal / clause constructors of `src/_impl_bdd/_impl_util.rs` (`mk_var`, `mk_not_var`,
`mk_literal`, `mk_partial_valuation`) and of `BddPartialValuation::{from_values, set_value,
get_value, to_values}` (`src/_impl_bdd_partial_valuation.rs`).

Conventions
* every binary operation of the Rust code is `apply_with_flip`, i.e. `applyWithFlip` of `Model/Apply.lean`
  with the regenerated tables `Gen.and_`, `Gen.or_`, `Gen.and_not_`;
* the explicit stack of `restriction()` is replaced by recursion on a fuel (`num_vars + 2`, one more than
  the longest path), consulting `new_id` at entry — the same tests in the same order;
* the random generator is a parameter: one `Bool` for `var_pick_random`, a `List Bool` for `pick_random`,
  consumed in the order in which the Rust recursion draws (see `rPickRandom`);
* the plain functions are total on all arrays and follow the code on every *valid* `Bdd` and every variable
  `< num_vars`; the `…O` variants add the only reachable panics of this file (`check_flip_bounds` of
  `apply_with_flip` for a picked / quantified variable `≥ num_vars`) as an explicit `Outcome.panic`.
Only core + Std (the driver is a compiled `lean_exe`).
-/
namespace B
open Std

/-! ### literals (`_impl_util.rs:411-429`) -/

/-- `Bdd::mk_var` -/
def mkVar (n x : Nat) : Arr := (mkTrue n).push ⟨x, 0, 1⟩
/-- `Bdd::mk_not_var` -/
def mkNotVar (n x : Nat) : Arr := (mkTrue n).push ⟨x, 1, 0⟩
/-- `Bdd::mk_literal` -/
def mkLiteral (n x : Nat) (b : Bool) : Arr := if b then mkVar n x else mkNotVar n x

/-! ### partial valuations (`BddPartialValuation(Vec<Option<bool>>)`) -/

abbrev PVal := List (Option Bool)

/-- `get_value` / `Index<BddVariable>`: `None` beyond the end of the vector -/
def PVal.get (pv : PVal) (x : Nat) : Option Bool := (pv[x]?).getD none

/-- `set_value` through `mut_cell`: pad with `None` while `len <= index`, then overwrite the cell -/
def PVal.set (pv : PVal) (x : Nat) (b : Bool) : PVal :=
  List.set (pv ++ List.replicate (x + 1 - pv.length) none) x (some b)

/-- `from_values`: the writes are performed in slice order, so the LAST literal of a variable wins -/
def fromValues (lits : List (Nat × Bool)) : PVal :=
  lits.foldl (fun pv l => pv.set l.1 l.2) []

/-- `to_values` from position `i` on: the fixed variables in increasing order -/
def PVal.toValuesFrom : Nat → PVal → List (Nat × Bool)
  | _, [] => []
  | i, none :: t => PVal.toValuesFrom (i + 1) t
  | i, some b :: t => (i, b) :: PVal.toValuesFrom (i + 1) t

/-- `to_values` -/
def PVal.toValues (pv : PVal) : List (Nat × Bool) := PVal.toValuesFrom 0 pv

/-- `mk_partial_valuation` on the list of fixed literals (increasing variables): the Rust loop runs over
    `to_values().rev()`, so the node of the LAST variable is pushed first (on top of the `true` Bdd, whose
    root pointer is 1) and the node of the first variable is pushed last and becomes the root.
    `clauseArr n ((x,b) :: t)` = `clauseArr n t` with the node of `x` pushed, which is the same thing as
    `foldl push (mkTrue n) (reverse …)` (theorem `B.Rel.clauseArr_eq_foldl` in `Lemmas/RelPVal.lean`). -/
def clauseArr (n : Nat) : List (Nat × Bool) → Arr
  | [] => mkTrue n
  | (x, b) :: t =>
    let A := clauseArr n t
    A.push (if b then ⟨x, 0, root A⟩ else ⟨x, root A, 0⟩)

/-- `Bdd::mk_partial_valuation` -/
def mkPartialValuation (n : Nat) (pv : PVal) : Arr := clauseArr n pv.toValues

/-! ### selection (`_impl_relation_ops.rs:141-152`) -/

/-- `Bdd::and` -/
def bddAnd (A B : Arr) : Arr := applyWithFlip A B Gen.and_ none none none

/-- `var_select`: `self.and(mk_literal(num_vars, variable, value))` -/
def varSelect (A : Arr) (x : Nat) (b : Bool) : Arr := bddAnd A (mkLiteral (numVars A) x b)

/-- `select`: `self.and(mk_partial_valuation(num_vars, from_values(variables)))` -/
def select (A : Arr) (lits : List (Nat × Bool)) : Arr :=
  bddAnd A (mkPartialValuation (numVars A) (fromValues lits))

/-! ### one-variable quantifiers (`_impl_relation_ops.rs:19-39`) -/

namespace Rel
/-- `var_exists`: `fused_binary_flip_op((self, None), (self, Some(x)), None, or)` -/
def varExists (A : Arr) (x : Nat) : Arr := applyWithFlip A A Gen.or_ none (some x) none
/-- `var_for_all`: the same with `and` -/
def varForAll (A : Arr) (x : Nat) : Arr := applyWithFlip A A Gen.and_ none (some x) none
end Rel

/-! ### restriction (`_impl_relation_ops.rs:181-267`) -/

namespace Rel

/-- mutable state of `restriction()`: `output`, `node_cache`, `new_id` (a `Vec<Option<BddPointer>>` in the
    Rust code, indexed by the pointers of the operand; here a finite map) -/
structure RSt where
  out : Arr
  cache : HashMap Node Nat
  newId : HashMap Nat Nat

/-- lines 241-256: both children translated -/
def restrictFinish (s : RSt) (p var newLow newHigh : Nat) : RSt × Nat :=
  if newHigh = newLow then
    ({ s with newId := s.newId.insert p newHigh }, newHigh)
  else
    let node : Node := ⟨var, newLow, newHigh⟩
    match s.cache[node]? with
    | some i => ({ s with newId := s.newId.insert p i }, i)
    | none =>
      let i := s.out.size
      ({ out := s.out.push node, cache := s.cache.insert node i, newId := s.newId.insert p i }, i)

/-- `restrictFinish` with every field of the state used linearly (no hidden copy of `out` / `node_cache` /
    `new_id` while the state is uniquely referenced). Compiled code uses this version (`@[csimp]`, justified by
    the equation below); all theorems are about `restrictFinish`. Without it the model is quadratic on operands
    with > 10^5 nodes. -/
def restrictFinishFast (s : RSt) (p var newLow newHigh : Nat) : RSt × Nat :=
  match s with
  | ⟨out, cache, newId⟩ =>
    if newHigh = newLow then (⟨out, cache, newId.insert p newHigh⟩, newHigh)
    else
      let node : Node := ⟨var, newLow, newHigh⟩
      match cache[node]? with
      | some i => (⟨out, cache, newId.insert p i⟩, i)
      | none =>
        let i := out.size
        (⟨out.push node, cache.insert node i, newId.insert p i⟩, i)

@[csimp] theorem restrictFinish_eq_fast : @restrictFinish = @restrictFinishFast := by
  funext s p var newLow newHigh
  obtain ⟨out, cache, newId⟩ := s
  unfold restrictFinish restrictFinishFast
  by_cases h : newHigh = newLow <;> simp only [h, if_true, if_false]

/-- one visit of pointer `p` (the body of the `while let Some(top) = stack.pop()` loop together with the
    re-visits of `top` after its children are done): `new_id` is consulted first; on a restricted variable
    only the relevant child is translated and its new id is copied; otherwise the HIGH child is translated
    first, then the low one -/
def restrictStep (A : Arr) (pv : PVal) (rec : Nat → RSt → RSt × Nat) (p : Nat) (s : RSt) : RSt × Nat :=
  match s.newId[p]? with
  | some q => (s, q)
  | none =>
    let nd := nodeAt A p
    match pv.get nd.var with
    | some value =>
      let link := if value then nd.high else nd.low
      let r := rec link s
      ({ r.1 with newId := r.1.newId.insert p r.2 }, r.2)
    | none =>
      let rh := rec nd.high s
      let rl := rec nd.low rh.1
      restrictFinish rl.1 p nd.var rl.2 rh.2

/-- linear-use recording of `new_id[top] = Some(new_link)` for compiled code -/
def setIdFast (s : RSt) (p q : Nat) : RSt :=
  match s with
  | ⟨out, cache, newId⟩ => ⟨out, cache, newId.insert p q⟩

/-- `restrictStep` with the state used linearly in the restricted-variable branch; compiled code uses this
    version (`@[csimp]`), all theorems are about `restrictStep` -/
def restrictStepFast (A : Arr) (pv : PVal) (rec : Nat → RSt → RSt × Nat) (p : Nat) (s : RSt) : RSt × Nat :=
  match s.newId[p]? with
  | some q => (s, q)
  | none =>
    let nd := nodeAt A p
    match pv.get nd.var with
    | some value =>
      match rec (if value then nd.high else nd.low) s with
      | (s1, q) => (setIdFast s1 p q, q)
    | none =>
      let rh := rec nd.high s
      let rl := rec nd.low rh.1
      restrictFinish rl.1 p nd.var rl.2 rh.2

@[csimp] theorem restrictStep_eq_fast : @restrictStep = @restrictStepFast := by
  funext A pv rec p s
  unfold restrictStep restrictStepFast
  cases s.newId[p]? with
  | some q => rfl
  | none =>
    simp only
    cases pv.get (nodeAt A p).var with
    | none => rfl
    | some value =>
      simp only
      generalize rec (if value = true then (nodeAt A p).high else (nodeAt A p).low) s = r
      obtain ⟨⟨out, cache, newId⟩, q⟩ := r
      rfl

def restrictRec (A : Arr) (pv : PVal) : Nat → Nat → RSt → RSt × Nat
  | 0 => fun _ s => (s, 0)
  | fuel + 1 => restrictStep A pv (restrictRec A pv fuel)

/-- lines 186-195 -/
def initRSt (n : Nat) : RSt :=
  { out := mkTrue n,
    cache := ((HashMap.emptyWithCapacity 16).insert (zeroN n) 0).insert (oneN n) 1,
    newId := ((HashMap.emptyWithCapacity 16).insert 0 0).insert 1 1 }

end Rel

/-- `restriction(bdd, values)`: constants are returned unchanged; if the new root is the zero terminal the
    result is the one-node `false` Bdd, otherwise the output array as it is -/
def restriction (A : Arr) (pv : PVal) : Arr :=
  if A.size = 2 ∨ A.size = 1 then A
  else
    let n := numVars A
    let r := Rel.restrictRec A pv (n + 2) (root A) (Rel.initRSt n)
    if r.2 = 0 then mkFalse n else r.1.out

/-- `restrict` -/
def restrict (A : Arr) (lits : List (Nat × Bool)) : Arr := restriction A (fromValues lits)
/-- `var_restrict` -/
def varRestrict (A : Arr) (x : Nat) (b : Bool) : Arr := restrict A [(x, b)]

/-! ### picking (`_impl_relation_ops.rs:77-137`) -/

/-- `var_pick_random` with the drawn coin as a parameter: `preferred = self.var_select(x, coin)`,
    result `= self and_not flip_x(preferred)` -/
def varPickRandom (A : Arr) (x : Nat) (coin : Bool) : Arr :=
  applyWithFlip A (varSelect A x coin) Gen.and_not_ none (some x) none

/-- `var_pick`: the preferred value is `false` -/
def varPick (A : Arr) (x : Nat) : Arr :=
  applyWithFlip A (varSelect A x false) Gen.and_not_ none (some x) none

/-- `Vec::dedup`: consecutive repeated elements are removed (the first of a run is kept) -/
def dedupAdj : List Nat → List Nat
  | [] => []
  | [a] => [a]
  | a :: b :: t => if a = b then dedupAdj (b :: t) else a :: dedupAdj (b :: t)

/-- `sorted`: `variables.sort(); variables.dedup()` — ascending, and (since the fix of `sorted`) without
    repetitions -/
def sortedVars (vars : List Nat) : List Nat := dedupAdj (vars.mergeSort (fun a b => decide (a ≤ b)))

/-- `r_pick` of `pick`; the variable list is given LAST VARIABLE FIRST (`split_last` of the sorted slice
    is the head of the reversed list) -/
def rPick : Arr → List Nat → Arr
  | A, [] => A
  | A, x :: rest => bddAnd (rPick (Rel.varExists A x) rest) (varPick A x)

/-- `pick` -/
def pick (A : Arr) (vars : List Nat) : Arr := rPick A (sortedVars vars).reverse

/-- next coin of the generator (the harness's `CoinRng` answers `false` once its list is exhausted) -/
def drawCoin (flips : List Bool) : Bool × List Bool := (flips.headD false, flips.tail)

/-- `r_pick` of `pick_random`, variables LAST FIRST; returns the unconsumed flips. The recursive call is
    evaluated BEFORE `var_pick_random` draws (`let picked = r_pick(…, rng); picked.and(&set.var_pick_random(…, rng))`),
    so the coins are consumed by the variables in ascending order. -/
def rPickRandom : Arr → List Nat → List Bool → Arr × List Bool
  | A, [], flips => (A, flips)
  | A, x :: rest, flips =>
    let r := rPickRandom (Rel.varExists A x) rest flips
    let c := drawCoin r.2
    (bddAnd r.1 (varPickRandom A x c.1), c.2)

/-- `pick_random` -/
def pickRandom (A : Arr) (vars : List Nat) (flips : List Bool) : Arr :=
  (rPickRandom A (sortedVars vars).reverse flips).1

/-- number of coins `pick_random` draws: one per DISTINCT variable -/
def pickRandomDraws (vars : List Nat) : Nat := (sortedVars vars).length

/-! ### the reachable panics: `check_flip_bounds` -/

def flipPanic (n x : Nat) : String := s!"Cannot flip variable {x} in Bdd with {n} variables."

def Rel.varExistsO (A : Arr) (x : Nat) : Outcome Arr :=
  if x < numVars A then .ok (Rel.varExists A x) else .panic (flipPanic (numVars A) x)
def Rel.varForAllO (A : Arr) (x : Nat) : Outcome Arr :=
  if x < numVars A then .ok (Rel.varForAll A x) else .panic (flipPanic (numVars A) x)
def varPickO (A : Arr) (x : Nat) : Outcome Arr :=
  if x < numVars A then .ok (varPick A x) else .panic (flipPanic (numVars A) x)
def varPickRandomO (A : Arr) (x : Nat) (coin : Bool) : Outcome Arr :=
  if x < numVars A then .ok (varPickRandom A x coin) else .panic (flipPanic (numVars A) x)
/-- the first thing `r_pick` does is `set.var_exists(last)` with the LARGEST variable, which panics iff some
    variable is out of range (all intermediate sets keep `num_vars`) -/
def pickO (A : Arr) (vars : List Nat) : Outcome Arr :=
  if vars.all (· < numVars A) then .ok (pick A vars) else .panic "Cannot flip variable"
def pickRandomO (A : Arr) (vars : List Nat) (flips : List Bool) : Outcome Arr :=
  if vars.all (· < numVars A) then .ok (pickRandom A vars flips) else .panic "Cannot flip variable"

end B
