import BddVerif.Model.SerialBase
/-!
# The byte-layout dependent part of the serialisation model with the DOCUMENTED layout written out

`u16` variable at offset 0, `u32` low link at offset 2, `u32` high link at offset 6, 10 bytes per record, little
endian. Same definitions as `Model/Serial.lean` with `Gen.recordLen`/`Gen.fieldLayout` replaced by constants: the
drivers of C12/C13 replay THIS instance, so that they build (and decide concrete cases) even when the translator
cannot regenerate `Gen/Consts.lean` from a changed source. `B.Props.C12.std_twin_eq` proves that the two instances
are the same functions as long as the regenerated constants are these.
-/
set_option linter.unusedVariables false

namespace B.Serial
open B

def recordLenS : Nat := 10
def fieldLayoutS : List (Nat × Nat) := [(0, 2), (2, 4), (6, 4)]

/-- (offset, width) of field `i` (0 = var, 1 = low link, 2 = high link) in the documented layout -/
def fieldAtS (i : Nat) : Nat × Nat := fieldLayoutS.getD i (0, 0)

def varWS : Nat := (fieldAtS 0).2
def lowWS : Nat := (fieldAtS 1).2
def highWS : Nat := (fieldAtS 2).2

/-- the three `write_all` calls of `write_as_bytes` for one node -/
def nodeBytePiecesS (nd : Node) : List (List UInt8) :=
  [leBytes varWS nd.var, leBytes lowWS nd.low, leBytes highWS nd.high]

def encodeNodeS (nd : Node) : List UInt8 := (nodeBytePiecesS nd).flatten

/-- the `mk_node(from_le_bytes([buf[0], buf[1]]), …)` of `read_as_bytes` on a full record buffer -/
def decodeNodeS (buf : List UInt8) : Node :=
  ⟨leVal (slice buf (fieldAtS 0)), leVal (slice buf (fieldAtS 1)), leVal (slice buf (fieldAtS 2))⟩

def bytePiecesS (A : Arr) : List (List UInt8) := A.toList.flatMap nodeBytePiecesS

/-- `to_bytes` -/
def writeBytesS (A : Arr) : List UInt8 := (bytePiecesS A).flatten

/-- `recordLenS` is positive (otherwise `read_as_bytes` would never reach the end of input) -/
theorem recordLenS_pos : 0 < recordLenS := by decide


/-- `read_as_bytes`: records until `read_exact` reports `UnexpectedEof` (a trailing partial record is
    dropped silently); any other error is returned. The Boolean tells whether the result is `Ok`. -/
def readBytesIOS (r : Reader) (acc : Arr) : Outcome Arr × Reader :=
  match h : readExact r recordLenS [] with
  | (.ok buf, r') => readBytesIOS r' (acc.push (decodeNodeS buf))
  | (.eof, r') => (.ok acc, r')
  | (.failed, r') => (.err "io error", r')
termination_by r.data.length
decreasing_by
  have := readExact_progress h
  have := recordLenS_pos
  omega

/-- `from_bytes` / `read_as_bytes` on a reader that delivers `bytes` and then end of input -/
def readBytesS (bytes : List UInt8) : Outcome Arr := (readBytesIOS ⟨bytes, []⟩ #[]).1

/-- `write_as_bytes(output)` -/
def writeBytesIOS (A : Arr) (script : List Ev) : Bool × List UInt8 × List Ev :=
  writePieces script (bytePiecesS A)

end B.Serial
