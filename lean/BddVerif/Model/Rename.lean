import BddVerif.Model.Apply
import BddVerif.Model.Outcome
/-!
Executable model of the "unsafe" structural operations of `src/_impl_bdd/_impl_util.rs`
(`support_set` 543-551, `set_num_vars` 32-46, `rename_variables` 56-85, `rename_variable` 96-128)
and of `BddVariableSet::transfer_from` (`src/_impl_bdd_variable_set.rs` 317-370), as the code is
after commit 80c63d2 (`rename_variables` skips the two terminal nodes).

Every `assert!`, `panic!`, out-of-bounds index and `unreachable!()` is a `panic` outcome; the `None`
of `transfer_from` is the `err` outcome. Core only.
-/
namespace B.Ren
/-- insertion into a strictly increasing list, no duplicates -/
def insertU (x : Nat) : List Nat → List Nat
  | [] => [x]
  | y :: ys => if x < y then x :: y :: ys else if x = y then y :: ys else y :: insertU x ys

/-- `Bdd::support_set` followed by the `sort()` every caller here performs: the variables of the decision
    nodes (`nodes().skip(2)`), strictly increasing. Callers that only use `contains` use `List.contains`. -/
def supportSet (A : Arr) : List Nat :=
  ((A.toList.drop 2).map (·.var)).foldr insertU []

/-- `for i in 0..(len - 1) { assert!(v[i] < v[i + 1]) }` / `for i in 1..len { if v[i] <= v[i-1] … }` -/
def chainLt : List Nat → Bool
  | [] => true
  | [_] => true
  | a :: b :: t => decide (a < b) && chainLt (b :: t)

/-- rewrite the variable of every decision node (`iter_mut().skip(2)`), links untouched -/
def mapVars (g : Nat → Nat) (A : Arr) : Arr :=
  A.mapIdx fun i nd => if i < 2 then nd else { nd with var := g nd.var }

/-- `self.0[0].var = new_value; if self.0.len() > 1 { self.0[1].var = new_value }` -/
def setTerm (nv : Nat) (A : Arr) : Arr :=
  A.mapIdx fun i nd => if i < 2 then { nd with var := nv } else nd

/-- `Bdd::set_num_vars(new_value)`. (`self.0[0]` on an empty vector would be an index panic.) -/
def setNumVars (A : Arr) (nv : Nat) : Outcome Arr :=
  if A.size = 0 then .panic "index out of bounds: the Bdd has no node"
  else if (A.toList.drop 2).any (fun nd => decide (nv ≤ nd.var)) then
    .panic "BDD contains a variable which is invalid with the new variable count"
  else .ok (setTerm nv A)

/-- a `HashMap<BddVariable, BddVariable>` seen through `get` -/
abbrev VarMap := Nat → Option Nat

/-- `HashMap::from` a sequence of insertions: the last insertion of a key wins -/
def varMapOfList (l : List (Nat × Nat)) : VarMap := fun x => l.reverse.lookup x

/-- `permutation.get(it).cloned().unwrap_or(*it)` -/
def applyMap (π : VarMap) (x : Nat) : Nat := (π x).getD x

/-- `Bdd::rename_variables(permutation)` -/
def renameVariables (A : Arr) (π : VarMap) : Outcome Arr :=
  let cur := supportSet A
  if cur.isEmpty then .ok A
  else
    let after := cur.map (applyMap π)
    if !(after.all fun x => decide (x < numVars A)) then .panic "assert: every new variable is valid"
    else if !(chainLt after) then .panic "assert: variables still sorted after the permutation"
    else .ok (mapVars (applyMap π) A)

/-- `Bdd::rename_variable(old_id, new_id)`. The loop `for i in (low+1)..high { if support.contains(i) … }`
    is the test "some support variable lies strictly between"; the final loop visits ALL nodes,
    terminals included. -/
def renameVariable (A : Arr) (old new : Nat) : Outcome Arr :=
  let n := numVars A
  if ¬ old < n then .panic "assert!(old_id < num_vars)"
  else if ¬ new < n then .panic "assert!(new_id < num_vars)"
  else if old = new then .ok A
  else
    let sup := supportSet A
    let lo := min old new
    let hi := max old new
    if sup.any (fun i => decide (lo < i) && decide (i < hi)) then .panic "cannot rename: a variable in between is present"
    else if sup.contains new then .panic "cannot rename: the new variable is present"
    else .ok (A.map fun nd => if nd.var = old then { nd with var := new } else nd)

/-- the loop of `transfer_from` over the sorted support: `ctx.name_of(var)` (index panic if the source
    set is too short), then `self.var_by_name(name)` (`None` ends the whole function) -/
def translateSupport (tgt src : List String) : List Nat → Outcome (List Nat)
  | [] => .ok []
  | x :: xs =>
    match src[x]? with
    | none => .panic "name_of: index out of bounds"
    | some nm =>
      match tgt.idxOf? nm with
      | none => .err "the variable does not exist in the new context"
      | some id => (translateSupport tgt src xs).map (id :: ·)

/-- the copying loop of `transfer_from`; `map.get(&node.var)` failing is `unreachable!()` -/
def copyNodes (map : List (Nat × Nat)) : List Node → Option (List Node)
  | [] => some []
  | nd :: t =>
    match map.lookup nd.var with
    | none => none
    | some nv => (copyNodes map t).map (⟨nv, nd.low, nd.high⟩ :: ·)

/-- `target.transfer_from(bdd, source)`; a variable set is the list of its (distinct) names,
    `err` = `None` -/
def transferFrom (tgt : List String) (A : Arr) (src : List String) : Outcome Arr :=
  if A.size = 1 then .ok (mkFalse tgt.length)
  else if A.size = 2 then .ok (mkTrue tgt.length)
  else
    let old := supportSet A
    match translateSupport tgt src old with
    | .panic m => .panic m
    | .err m => .err m
    | .ok new =>
      if !(chainLt new) then .err "the variables exist, but not in a compatible order"
      else
        match copyNodes (old.zip new) (A.toList.drop 2) with
        | none => .panic "unreachable!()"
        | some nodes => .ok (mkTrue tgt.length ++ nodes.toArray)

end B.Ren