/-!
Model of a multi-threaded client of the library (property C19, DESIGN.md §7 C19).

Threads run operation sequences over a shared pool of values. A step of thread `i` reads the pool and
thread `i`'s own locals, and appends one result to thread `i`'s own locals. Nothing else is written —
except a *hidden state* `S`, which stands for anything an implementation could share behind the API
(a global cache, a `static mut`, a `thread_local!`, the per-process `RandomState` seed, interior
mutability inside a pool element): the semantics of an operation may read and modify it freely
(`Sem.exec : Op → List Val → S → Val × S`).

MODELLING ASSUMPTION (stated as the hypothesis `Transparent sem f` of every theorem in
`Props/C19.lean`): the *result* of every operation is a FUNCTION `f : Op → List Val → Val` of the
operation and the values of its operands, whatever the hidden state is. That each modelled library
operation is such a function is what the models of the other properties establish (they are Lean
functions of the operands' node arrays), and what the shared-state inventory, the `Send`/`Sync`
instantiations and the correspondence under real threads of C19 tie to the Rust code.

The model has no memory: data races and memory-model effects of real hardware cannot be exhibited by
it (Rust's type system excludes them for safe code). Core only, total functions; an instruction whose
operand reference dangles yields the explicit outcome `none` (never a silent default).
-/
namespace B.Sched

/-- an operand: element `i` of the shared pool, or the thread's own `i`-th earlier result -/
inductive Ref where
  | pool (i : Nat)
  | loc (i : Nat)
deriving DecidableEq, Repr

structure Instr (Op : Type) where
  op : Op
  args : List Ref
deriving Repr

abbrev Prog (Op : Type) := List (Instr Op)

/-- results of one thread so far, oldest first; `none` = the instruction had a dangling operand -/
abbrev Locals (Val : Type) := List (Option Val)

/-- operation semantics with a hidden shared state -/
structure Sem (Op Val S : Type) where
  exec : Op → List Val → S → Val × S

/-- the semantics of a plain function: no hidden state at all -/
def Sem.pure {Op Val : Type} (f : Op → List Val → Val) : Sem Op Val Unit := ⟨fun o vs _ => (f o vs, ())⟩

/-- results do not depend on the hidden state (the hidden state itself may change arbitrarily) -/
def Transparent {Op Val S : Type} (sem : Sem Op Val S) (f : Op → List Val → Val) : Prop :=
  ∀ o vs s, (sem.exec o vs s).1 = f o vs

variable {Op Val S : Type}

def fetch (pool : List Val) (loc : Locals Val) : Ref → Option Val
  | .pool i => pool[i]?
  | .loc i => (loc[i]?).join

/-- operand values of an instruction, `none` if some reference dangles (or refers to a `none`) -/
def operands (pool : List Val) (loc : Locals Val) (ins : Instr Op) : Option (List Val) :=
  ins.args.mapM (fetch pool loc)

/-! ### sequential reference: one program, alone, on the pool -/

def execPure (f : Op → List Val → Val) (pool : List Val) (loc : Locals Val) (ins : Instr Op) : Option Val :=
  (operands pool loc ins).map (f ins.op)

def seqGo (f : Op → List Val → Val) (pool : List Val) : Prog Op → Locals Val → Locals Val
  | [], loc => loc
  | ins :: rest, loc => seqGo f pool rest (loc ++ [execPure f pool loc ins])

/-- `runSeq f prog pool`: the result list of `prog` run alone -/
def runSeq (f : Op → List Val → Val) (prog : Prog Op) (pool : List Val) : Locals Val :=
  seqGo f pool prog []

/-! ### the concurrent system -/

structure Thread (Op Val : Type) where
  todo : Prog Op
  locals : Locals Val

structure World (Op Val S : Type) where
  pool : List Val
  hidden : S
  threads : Nat → Thread Op Val

def upd {α : Type} (g : Nat → α) (i : Nat) (a : α) : Nat → α := fun j => if j = i then a else g j

/-- one step of thread `i` (scheduling a finished thread is a no-op) -/
def step (sem : Sem Op Val S) (w : World Op Val S) (i : Nat) : World Op Val S :=
  match (w.threads i).todo with
  | [] => w
  | ins :: rest =>
    match operands w.pool (w.threads i).locals ins with
    | none => { w with threads := upd w.threads i ⟨rest, (w.threads i).locals ++ [none]⟩ }
    | some vs =>
      let r := sem.exec ins.op vs w.hidden
      { w with hidden := r.2, threads := upd w.threads i ⟨rest, (w.threads i).locals ++ [some r.1]⟩ }

abbrev Schedule := List Nat

def init (progs : Nat → Prog Op) (pool : List Val) (s0 : S) : World Op Val S :=
  ⟨pool, s0, fun i => ⟨progs i, []⟩⟩

def runFrom (sem : Sem Op Val S) (w : World Op Val S) : Schedule → World Op Val S
  | [] => w
  | i :: rest => runFrom sem (step sem w i) rest

/-- the world after the interleaving `sched`, starting with hidden state `s0` -/
def run (sem : Sem Op Val S) (sched : Schedule) (progs : Nat → Prog Op) (pool : List Val) (s0 : S) :
    World Op Val S :=
  runFrom sem (init progs pool s0) sched

/-- every thread's result list -/
def results (w : World Op Val S) : Nat → Locals Val := fun i => (w.threads i).locals

/-- every thread gets at least as many turns as its program has instructions -/
def Complete (sched : Schedule) (progs : Nat → Prog Op) : Prop :=
  ∀ i, (progs i).length ≤ sched.count i

/-- round-robin schedule for threads `0..n-1`, `k` rounds -/
def roundRobin (n : Nat) : Nat → Schedule
  | 0 => []
  | k + 1 => List.range n ++ roundRobin n k

/-- one thread after the other -/
def oneByOne (n k : Nat) : Schedule := (List.range n).flatMap fun i => List.replicate k i

end B.Sched
