import BddVerif.Model.Apply
import BddVerif.Model.Outcome
/-!
Executable model of the counting / support functions of `src/_impl_bdd/_impl_util.rs`:
`exact_cardinality` (140-179), `exact_clause_cardinality` (232-265), `support_set` (537-545),
`size_per_variable` (522-534).

`exact_cardinality` keeps a `Vec<Option<BigInt>>` cache indexed by node, pre-filled with
`cache[0] = 0`, `cache[1] = 1`, and an explicit stack holding the root. A node on top of the stack is
popped if it is cached; it is computed from its children if both are cached; otherwise the uncached
children are pushed (`low` first, then `high`, so `high` is on top and is completed first). The model
replaces the stack by recursion: `cardGo` returns at once on a cached pointer, otherwise visits `high`,
then `low` (each visit re-tests the cache at entry, exactly what the Rust loop does when the pushed
child reaches the top of the stack), then writes the node's own entry.

**Precondition and panics.** The Rust code indexes `cache[low]`, reads `var_of(low)` and evaluates the
`u16` expression `low_var - node_var - 1` for every node reachable from the root. A link outside the
array is an index panic; `low_var ≤ node_var` is an arithmetic overflow (a panic with overflow checks
on, a silent wrap-around to a shift of up to 65 535 bits in a release build — the value is then
meaningless); a cycle makes the loop push for ever. `cardOk` tests exactly the nodes reachable from the
root for these three conditions, and `Count.exactCardO`/`Count.clauseCardO` return the explicit outcome `panic`
when the test fails (for the overflow case this models the checked build; the release build's wrapped
value is *not* modelled, and the harness never feeds such an input). Under `WFo A n` — what
`validate()`/`from_nodes` guarantee — the test always succeeds (`Lemmas/Count.lean: cardOk_of_wfo`), and
every theorem is stated about `exactCardO A = .ok …`, so no default value is ever relied upon.
`exactCard A : Nat` is the count on normal return (`0` on `panic`; use it only together with
`exactCardO_ok`).

Core + Std only. Exported at `B` level: `exactCard`, `clauseCard`, `supportSet`, `sizePerVariable`; everything
else lives in `B.Count`.
-/
namespace B.Count

/-- `Bdd::var_of`: the variable stored in the node at pointer `p` (terminals store `num_vars`) -/
def varAt (A : Arr) (p : Nat) : Nat := (nodeAt A p).var

abbrev Cache := Array (Option Nat)

/-- `vec![None; len]` with `cache[0] = Some(0)`, `cache[1] = Some(1)` -/
def initCache (A : Arr) : Cache :=
  ((Array.replicate A.size (none : Option Nat)).setIfInBounds 0 (some 0)).setIfInBounds 1 (some 1)

/-- value written for a node whose children's entries are `cl`, `ch`:
    `weighted = true`: `cl · 2^(low_var − node_var − 1) + ch · 2^(high_var − node_var − 1)` (exact_cardinality);
    `weighted = false`: `cl + ch` (exact_clause_cardinality). The subtraction is the truncated one of
    `Nat`; it coincides with the Rust `u16` expression whenever that does not overflow (see `cardOk`). -/
def cardNode (A : Arr) (weighted : Bool) (nd : Node) (cl ch : Nat) : Nat :=
  if weighted then
    cl * 2 ^ (varAt A nd.low - nd.var - 1) + ch * 2 ^ (varAt A nd.high - nd.var - 1)
  else cl + ch

/-- one visit of pointer `p` by the cached depth-first traversal; the fuel bounds the depth -/
def cardGo (A : Arr) (weighted : Bool) : Nat → Nat → Cache → Cache
  | 0, _, c => c
  | fuel + 1, p, c =>
    match c.getD p none with
    | some _ => c
    | none =>
      let nd := nodeAt A p
      let c2 := cardGo A weighted fuel nd.low (cardGo A weighted fuel nd.high c)
      match c2.getD nd.low none, c2.getD nd.high none with
      | some cl, some ch => c2.setIfInBounds p (some (cardNode A weighted nd cl ch))
      | _, _ => c2

/-- writing `None` over an entry that is `None` (or outside the vector) changes nothing -/
theorem set_none_eq (c : Cache) (p : Nat) (h : c.getD p none = none) : c.setIfInBounds p none = c := by
  apply Array.ext_getElem?
  intro i
  rw [Array.getElem?_setIfInBounds]
  by_cases hpi : p = i
  · subst hpi
    by_cases hs : p < c.size
    · rw [Array.getD_eq_getD_getElem?, Array.getElem?_eq_getElem hs] at h
      simp only [Option.getD_some] at h
      simp [hs, h]
    · simp [hs]
  · simp [hpi]

/-- `cardGo` with one extra, void write (`cache[p] = None` where it is `None` already) in front of the
    recursive calls. The Lean compiler otherwise treats the cache parameter as *borrowed* and copies the
    whole array at every `setIfInBounds` (quadratic on diagrams with > 10⁵ nodes); the void write makes it
    an owned, destructively updated array — as the Rust `Vec` is. Compiled code uses this version
    (`cardGo_eq_fast` below is a proved `@[csimp]` equation); all theorems are about `cardGo`. -/
def cardGoFast (A : Arr) (weighted : Bool) : Nat → Nat → Cache → Cache
  | 0, _, c => c
  | fuel + 1, p, c =>
    match c.getD p none with
    | some _ => c
    | none =>
      let c := c.setIfInBounds p none
      let nd := nodeAt A p
      let c2 := cardGoFast A weighted fuel nd.low (cardGoFast A weighted fuel nd.high c)
      match c2.getD nd.low none, c2.getD nd.high none with
      | some cl, some ch => c2.setIfInBounds p (some (cardNode A weighted nd cl ch))
      | _, _ => c2

@[csimp] theorem cardGo_eq_fast : @cardGo = @cardGoFast := by
  funext A w fuel
  induction fuel with
  | zero => funext p c; rfl
  | succ fuel ih =>
    funext p c
    simp only [cardGo, cardGoFast]
    split
    · rfl
    · rename_i h
      rw [set_none_eq c p h, ih]

/-- depth bound: a root-to-terminal path of a valid diagram has at most `num_vars + 1` nodes, a path
    along which the stored variables strictly increase has at most `len` nodes -/
def cardFuel (A : Arr) : Nat := max A.size (numVars A) + 2

/-- the cache when the loop ends -/
def cardCache (A : Arr) (weighted : Bool) : Cache :=
  cardGo A weighted (cardFuel A) (root A) (initCache A)

/-- pointers reachable from `p` through decision nodes inside the array (terminal pointers are
    pre-cached and never expanded) -/
def reachGo (A : Arr) : Nat → Nat → Array Bool → Array Bool
  | 0, _, seen => seen
  | fuel + 1, p, seen =>
    if p < 2 || p ≥ A.size || seen.getD p true then seen
    else
      let nd := nodeAt A p
      reachGo A fuel nd.low (reachGo A fuel nd.high (seen.setIfInBounds p true))

/-- what the Rust loop needs of a visited node: both links inside the array and the stored variable
    strictly below the stored variables of both children -/
def nodeOk (A : Arr) (p : Nat) : Bool :=
  let nd := nodeAt A p
  decide (nd.low < A.size) && decide (nd.high < A.size) &&
  decide (nd.var < varAt A nd.low) && decide (nd.var < varAt A nd.high)

/-- every decision node reachable from the root passes `nodeOk` (`reachGo` never marks a terminal pointer) -/
def cardOk (A : Arr) : Bool :=
  let seen := reachGo A (A.size + 1) (root A) (Array.replicate A.size false)
  (List.range A.size).all fun p => p < 2 || !(seen.getD p false) || nodeOk A p

/-- `Bdd::exact_cardinality` with its panics explicit -/
def exactCardO (A : Arr) : Outcome Nat :=
  if A.size = 0 then .panic "empty node vector"
  else if A.size = 1 then .ok 0
  else if !cardOk A then .panic "index out of bounds / u16 overflow / divergence in exact_cardinality"
  else match (cardCache A true).getD (root A) none with
    | some x => .ok (x * 2 ^ varAt A (root A))
    | none => .panic "unwrap on None"

/-- `Bdd::exact_clause_cardinality` with its panics explicit (no subtraction here, but the same
    index and termination conditions) -/
def clauseCardO (A : Arr) : Outcome Nat :=
  if A.size = 0 then .panic "empty node vector"
  else if A.size = 1 then .ok 0
  else if !cardOk A then .panic "index out of bounds / divergence in exact_clause_cardinality"
  else match (cardCache A false).getD (root A) none with
    | some x => .ok x
    | none => .panic "unwrap on None"

end B.Count

namespace B
open B.Count

/-- the exact model count on normal return (`Count.exactCardO_ok`: always the case for `WFo` arrays) -/
def exactCard (A : Arr) : Nat := match exactCardO A with | .ok x => x | _ => 0
/-- the number of paths to `1` on normal return -/
def clauseCard (A : Arr) : Nat := match clauseCardO A with | .ok x => x | _ => 0

end B

namespace B.Count

/-! ### support_set / size_per_variable

Both scan *all* nodes from index 2 on (reachable or not) and collect the stored variables in a
`HashSet`/`HashMap`; the harness sorts the result, the model builds the sorted list directly. -/

/-- insertion into a strictly increasing list, no duplicates -/
def insSorted (x : Nat) : List Nat → List Nat
  | [] => [x]
  | y :: ys => if x < y then x :: y :: ys else if x = y then y :: ys else y :: insSorted x ys

/-- the variables of the decision nodes, in array order -/
def decisionVars (A : Arr) : List Nat := (A.toList.drop 2).map (·.var)

/-- insert-or-increment in an association list sorted by key -/
def bump (x : Nat) : List (Nat × Nat) → List (Nat × Nat)
  | [] => [(x, 1)]
  | (y, c) :: ys =>
    if x < y then (x, 1) :: (y, c) :: ys else if x = y then (y, c + 1) :: ys else (y, c) :: bump x ys

end B.Count

namespace B
open B.Count

/-- `Bdd::support_set` as a strictly increasing list -/
def supportSet (A : Arr) : List Nat := (decisionVars A).foldl (fun acc x => insSorted x acc) []

/-- `Bdd::size_per_variable` as an association list sorted by variable -/
def sizePerVariable (A : Arr) : List (Nat × Nat) := (decisionVars A).foldl (fun acc x => bump x acc) []

end B
