/-!
Outcome of a modelled Rust operation that can fail: `ok` (returned / `Ok` / `Some`), `err` (returned
`Err`/`None` — a refusal that is part of the API), `panic` (an `assert!`, `panic!`, `unwrap()`,
out-of-bounds index or arithmetic overflow check in the Rust code). Never totalise silently.
-/
namespace B

inductive Outcome (α : Type) where
  | ok (a : α)
  | err (msg : String)
  | panic (msg : String)
deriving Repr, Inhabited

namespace Outcome
def map {α β} (f : α → β) : Outcome α → Outcome β
  | ok a => ok (f a)
  | err m => err m
  | panic m => panic m
def bind {α β} (x : Outcome α) (f : α → Outcome β) : Outcome β :=
  match x with
  | ok a => f a
  | err m => err m
  | panic m => panic m
instance : Monad Outcome where
  pure := ok
  bind := bind
def isOk {α} : Outcome α → Bool | ok _ => true | _ => false
def isPanic {α} : Outcome α → Bool | panic _ => true | _ => false
def isErr {α} : Outcome α → Bool | err _ => true | _ => false
/-- `ok`, `err` or `panic` (messages are never compared) -/
def kind {α} : Outcome α → String | ok _ => "ok" | err _ => "err" | panic _ => "panic"
def toOption {α} : Outcome α → Option α | ok a => some a | _ => none
end Outcome
end B
