import BddVerif.Core.Basic
import Std.Data.HashMap
/-!
Executable model of `apply_with_flip` (src/_impl_bdd/_impl_boolean_ops.rs:234-381).

The explicit task stack of the Rust code is replaced by recursion: the model calls itself on the
sub-task that the Rust code would find on top of its stack first (`comp_high`, unless the output is
flipped on the decision variable, then `comp_low`), consults `finished` at entry, and performs the
`terminal_lookup` before recursing — the same tests in the same order.
Only core + `Std.Data.HashMap`; no Mathlib (the driver is a compiled `lean_exe`).
-/
namespace B
open Std

def zeroN (n : Nat) : Node := ⟨n, 0, 0⟩
def oneN (n : Nat) : Node := ⟨n, 1, 1⟩
def mkFalse (n : Nat) : Arr := #[zeroN n]
def mkTrue (n : Nat) : Arr := #[zeroN n, oneN n]
/-- `Bdd::num_vars`: the variable stored in the zero terminal -/
def numVars (A : Arr) : Nat := (A[0]?.getD default).var
/-- `Bdd::root_pointer`: the last node -/
def root (A : Arr) : Nat := A.size - 1

abbrev Op2 := Option Bool → Option Bool → Option Bool
/-- `BddPointer::as_bool` -/
def asBool (p : Nat) : Option Bool := if p = 0 then some false else if p = 1 then some true else none
/-- `BddPointer::from_bool` -/
def ofBool (b : Bool) : Nat := if b then 1 else 0
def nodeAt (A : Arr) (p : Nat) : Node := A[p]?.getD default

/-- children of pointer p when expanding on decision variable d (with optional input flip):
    `(low, high)` as computed in lines 292-307 -/
def kids (A : Arr) (p d : Nat) (flip : Option Nat) : Nat × Nat :=
  let nd := nodeAt A p
  if nd.var ≠ d then (p, p)
  else if flip = some nd.var then (nd.high, nd.low) else (nd.low, nd.high)

/-- mutable state of one run: `result`, `existing`, `finished`, `is_not_empty` -/
structure St where
  res : Arr
  existing : HashMap Node Nat
  finished : HashMap (Nat × Nat) Nat
  nonEmpty : Bool

def findOrPush (s : St) (node : Node) : St × Nat :=
  match s.existing[node]? with
  | some i => (s, i)
  | none => ({ s with res := s.res.push node, existing := s.existing.insert node s.res.size }, s.res.size)

/-- a sub-task: terminal look-up first, otherwise the recursive computation -/
def solve (op : Op2) (rec : Nat → Nat → St → St × Nat) (a b : Nat) (s : St) : St × Nat :=
  match op (asBool a) (asBool b) with
  | some c => (s, ofBool c)
  | none => rec a b s

/-- lines 327-352: both sub-results known -/
def finish (s : St) (l r d lo hi : Nat) (flipOut : Bool) : St × Nat :=
  let s1 : St := if lo = 1 ∨ hi = 1 then { s with nonEmpty := true } else s
  if lo = hi then ({ s1 with finished := s1.finished.insert (l, r) lo }, lo)
  else
    let node : Node := if flipOut then ⟨d, hi, lo⟩ else ⟨d, lo, hi⟩
    let fp := findOrPush s1 node
    ({ fp.1 with finished := fp.1.finished.insert (l, r) fp.2 }, fp.2)

/-- `finish` with every field of the state used linearly (no hidden copy of `res`/`existing`/
    `finished` while the state is uniquely referenced). Compiled code uses this version
    (`@[csimp]` replaces `finish` by it — justified by the equation below); all theorems are
    about `finish`. Without it the model is quadratic on operands with > 10^5 nodes. -/
def finishFast (s : St) (l r d lo hi : Nat) (flipOut : Bool) : St × Nat :=
  match s with
  | ⟨res, existing, finished, ne⟩ =>
    let ne' : Bool := if lo = 1 ∨ hi = 1 then true else ne
    if lo = hi then (⟨res, existing, finished.insert (l, r) lo, ne'⟩, lo)
    else
      let node : Node := if flipOut then ⟨d, hi, lo⟩ else ⟨d, lo, hi⟩
      match existing[node]? with
      | some i => (⟨res, existing, finished.insert (l, r) i, ne'⟩, i)
      | none =>
        let i := res.size
        (⟨res.push node, existing.insert node i, finished.insert (l, r) i, ne'⟩, i)

@[csimp] theorem finish_eq_fast : @finish = @finishFast := by
  funext s l r d lo hi flipOut
  obtain ⟨res, existing, finished, ne⟩ := s
  unfold finish finishFast findOrPush
  by_cases h1 : lo = 1 ∨ hi = 1 <;> by_cases h2 : lo = hi <;> simp only [h1, h2, if_true, if_false]
  all_goals (split <;> rename_i h <;> simp only [h])

/-- static context of one `apply_with_flip` call -/
structure Ctx where
  L : Arr
  R : Arr
  n : Nat
  op : Op2
  fl : Option Nat
  fr : Option Nat
  fo : Option Nat

def applyStep (Γ : Ctx) (rec : Nat → Nat → St → St × Nat) (l r : Nat) (s : St) : St × Nat :=
  match s.finished[(l, r)]? with
  | some p => (s, p)
  | none =>
    let d := min (nodeAt Γ.L l).var (nodeAt Γ.R r).var
    let kl := kids Γ.L l d Γ.fl
    let kr := kids Γ.R r d Γ.fr
    if Γ.fo = some d then
      let r1 := solve Γ.op rec kl.1 kr.1 s
      let r2 := solve Γ.op rec kl.2 kr.2 r1.1
      finish r2.1 l r d r1.2 r2.2 true
    else
      let r1 := solve Γ.op rec kl.2 kr.2 s
      let r2 := solve Γ.op rec kl.1 kr.1 r1.1
      finish r2.1 l r d r2.2 r1.2 false

def applyRec (Γ : Ctx) : Nat → Nat → Nat → St → St × Nat
  | 0 => fun _ _ s => (s, 0)
  | fuel + 1 => applyStep Γ (applyRec Γ fuel)

/-- lines 250-266: result starts as the `true` Bdd, both terminals are in `existing` -/
def initSt (n : Nat) : St :=
  { res := mkTrue n,
    existing := ((HashMap.emptyWithCapacity 16).insert (zeroN n) 0).insert (oneN n) 1,
    finished := HashMap.emptyWithCapacity 16,
    nonEmpty := false }

/-- `apply_with_flip`; the bound checks on flips (`check_flip_bounds`) are the caller's concern -/
def applyWithFlip (L R : Arr) (op : Op2) (fl fr fo : Option Nat) : Arr :=
  let n := numVars L
  let Γ : Ctx := ⟨L, R, n, op, fl, fr, fo⟩
  let out := applyRec Γ (n + 2) (root L) (root R) (initSt n)
  if out.1.nonEmpty then out.1.res else mkFalse n

end B
