import BddVerif.Model.Relation
import BddVerif.Model.Count
/-!
Executable model of the normal-form code (property C10).

  src/_impl_bdd_partial_valuation.rs      `clauseEq` (`PartialEq`), `isEmptyClause`, `pvUnset`
                                          (`PVal`, `PVal.get`, `PVal.set`, `PVal.toValues` are in `Model/Relation.lean`)
  src/_impl_bdd_variable_set.rs:160-223   `mkConjClause`, `mkDisjClause` (shadow root)
  src/_impl_bdd/_impl_dnf.rs:10-57        `mkDnf`
  src/_impl_bdd/_impl_cnf.rs:9-56         `mkCnf`
  src/_impl_bdd/_impl_dnf.rs:143-187      `toDnf` (explicit stack of (node, phase))
  src/_impl_bdd/_impl_cnf.rs:140-187      `toCnf`
  src/_impl_bdd/_impl_dnf.rs:198-315      `toOptimizedDnf`

Conventions
* a `BddPartialValuation` is the raw `Vec<Option<bool>>` (`PVal = List (Option Bool)`, any length);
* every `assert!` / `assert_eq!` is an explicit `Outcome.panic`; a fuel that runs out (a Rust loop or
  recursion that would not terminate) is `Outcome.panic "fuel"`;
* a Rust loop `for (i, x) in v.iter().enumerate().rev() { push … }` is written as the structural recursion
  that treats the TAIL of the vector first (that is the same order of pushes);
* the loop variable `var` of `mk_dnf::_rec` / `mk_cnf::_rec` only moves from `0` up to `num_vars` in steps of
  one (`var += 1; continue` and `_rec(var + 1, …)`, both guarded by `var != num_vars`), so it is represented by
  its distance `k = num_vars - var` to `num_vars`; the `assert!(var < num_vars)` of line 27 can then never fire
  (the code reaches it only when `var != num_vars`) and has no counterpart.
Only core + Std.
-/
namespace B.NF
open B

/-! ### `BddPartialValuation` -/

/-- `impl PartialEq for BddPartialValuation`: equal on the common prefix, the longer one has only `None`
    after it -/
def clauseEq (a b : PVal) : Bool :=
  let m := min a.length b.length
  (a.take m == b.take m) && (a.drop m).all (·.isNone) && (b.drop m).all (·.isNone)

/-- `BddPartialValuation::is_empty` -/
def isEmptyClause (c : PVal) : Bool := c.all (·.isNone)

/-- `unset_value` / `pv[x] = None` through `mut_cell`: pad with `None` while `len <= index`, then clear -/
def pvUnset (pv : PVal) (x : Nat) : PVal :=
  List.set (pv ++ List.replicate (x + 1 - pv.length) none) x none

/-! ### single clauses (`_impl_bdd_variable_set.rs:160-223`) -/

def assertIndex : String := "assertion failed: index < self.num_vars as usize"

/-- `mk_conjunctive_clause` on the entries `i, i+1, …` of the vector: the loop runs over the entries in
    REVERSE order, so the entries after `i` are pushed first -/
def conjFrom (n : Nat) : Nat → List (Option Bool) → Outcome Arr
  | _, [] => .ok (mkTrue n)
  | i, x :: t =>
    match conjFrom n (i + 1) t with
    | .ok A =>
      match x with
      | none => .ok A
      | some b =>
        if i < n then .ok (A.push (if b then ⟨i, 0, root A⟩ else ⟨i, root A, 0⟩))
        else .panic assertIndex
    | e => e

/-- `BddVariableSet::mk_conjunctive_clause` -/
def mkConjClause (n : Nat) (c : PVal) : Outcome Arr := conjFrom n 0 c

/-- the loop of `mk_disjunctive_clause` with its `shadow_root` (second component) -/
def disjFrom (n : Nat) : Nat → List (Option Bool) → Outcome (Arr × Nat)
  | _, [] => .ok (mkTrue n, 0)
  | i, x :: t =>
    match disjFrom n (i + 1) t with
    | .ok (A, sh) =>
      match x with
      | none => .ok (A, sh)
      | some b =>
        if i < n then
          let A' := A.push (if b then ⟨i, sh, 1⟩ else ⟨i, 1, sh⟩)
          .ok (A', root A')
        else .panic assertIndex
    | .err m => .err m
    | .panic m => .panic m

/-- `BddVariableSet::mk_disjunctive_clause` -/
def mkDisjClause (n : Nat) (c : PVal) : Outcome Arr :=
  if isEmptyClause c then .ok (mkFalse n) else (disjFrom n 0 c).map (·.1)

/-! ### `mk_dnf` / `mk_cnf` -/

/-- `Bdd::or` -/
def bddOr (A B : Arr) : Arr := applyWithFlip A B Gen.or_ none none none
/-- `Bdd::and` -/
def bddAnd (A B : Arr) : Arr := applyWithFlip A B Gen.and_ none none none
/-- `Bdd::and_not` -/
def bddAndNot (A B : Arr) : Arr := applyWithFlip A B Gen.and_not_ none none none

/-- `for cx in &dnf[1..] { assert_eq!(*cx, c); }` with `c = dnf[0]` -/
def allDuplicates : List PVal → Bool
  | [] => true
  | c :: rest => rest.all (fun cx => clauseEq cx c)

def assertDup : String := "assertion `left == right` failed (remaining clauses are not duplicates)"

/-- the three-way split of lines 36-46 -/
def splitNone (cs : List PVal) (var : Nat) : List PVal := cs.filter (fun c => c.get var == none)
def splitTrue (cs : List PVal) (var : Nat) : List PVal := cs.filter (fun c => c.get var == some true)
def splitFalse (cs : List PVal) (var : Nat) : List PVal := cs.filter (fun c => c.get var == some false)

/-- `mk_dnf::_rec(var, num_vars, dnf)` with `var = n - k` -/
def mkDnfRec (n : Nat) : Nat → List PVal → Outcome Arr
  | 0, cs =>
    match cs with
    | [] => .ok (mkFalse n)
    | c :: _ => if allDuplicates cs then .ok (mkPartialValuation n c) else .panic assertDup
  | k + 1, cs =>
    match cs with
    | [] => .ok (mkFalse n)
    | [c] => .ok (mkPartialValuation n c)
    | _ :: _ :: _ =>
      let var := n - (k + 1)
      if !(cs.any fun c => (c.get var).isSome) then mkDnfRec n k cs
      else
        match mkDnfRec n k (splitNone cs var) with
        | .ok dc =>
          match mkDnfRec n k (splitTrue cs var) with
          | .ok ht =>
            match mkDnfRec n k (splitFalse cs var) with
            | .ok hf => .ok (bddOr (bddOr dc ht) hf)
            | e => e
          | e => e
        | e => e

/-- `Bdd::mk_dnf(num_vars, dnf)` = `BddVariableSet::mk_dnf` -/
def mkDnf (n : Nat) (cs : List PVal) : Outcome Arr := mkDnfRec n n cs

/-- `mk_cnf::_rec(var, ctx, cnf)` with `var = n - k` -/
def mkCnfRec (n : Nat) : Nat → List PVal → Outcome Arr
  | 0, cs =>
    match cs with
    | [] => .ok (mkTrue n)
    | c :: _ => if allDuplicates cs then mkDisjClause n c else .panic assertDup
  | k + 1, cs =>
    match cs with
    | [] => .ok (mkTrue n)
    | [c] => mkDisjClause n c
    | _ :: _ :: _ =>
      let var := n - (k + 1)
      if !(cs.any fun c => (c.get var).isSome) then mkCnfRec n k cs
      else
        match mkCnfRec n k (splitNone cs var) with
        | .ok dc =>
          match mkCnfRec n k (splitTrue cs var) with
          | .ok ht =>
            match mkCnfRec n k (splitFalse cs var) with
            | .ok hf => .ok (bddAnd (bddAnd dc ht) hf)
            | e => e
          | e => e
        | e => e

/-- `Bdd::mk_cnf(ctx, cnf)` = `BddVariableSet::mk_cnf` -/
def mkCnf (n : Nat) (cs : List PVal) : Outcome Arr := mkCnfRec n n cs

/-! ### `to_dnf` (explicit stack; the HEAD of the list is the top of the stack) -/

/-- the `while let Some((node, go_low)) = stack.pop()` loop; one unit of fuel per iteration -/
def dnfLoop (A : Arr) : Nat → List (Nat × Option Bool) → PVal → List PVal → Outcome (List PVal)
  | _, [], _, res => .ok res
  | 0, _ :: _, _, _ => .panic "fuel"
  | fuel + 1, (node, phase) :: stk, path, res =>
    if node = 0 then dnfLoop A fuel stk path res
    else if node = 1 then dnfLoop A fuel stk path (res ++ [path])
    else
      let nd := nodeAt A node
      match phase with
      | some true => dnfLoop A fuel ((nd.low, some true) :: (node, some false) :: stk) (path.set nd.var false) res
      | some false => dnfLoop A fuel ((nd.high, some true) :: (node, none) :: stk) (path.set nd.var true) res
      | none => dnfLoop A fuel stk (pvUnset path nd.var) res

/-- number of loop iterations that certainly suffices for a diagram over `n` variables:
    a terminal takes 1 iteration, a decision node 3 plus those of its two sub-diagrams -/
def dnfFuel (n : Nat) : Nat := 4 * 2 ^ n

/-- `Bdd::to_dnf` -/
def toDnf (A : Arr) : Outcome (List PVal) :=
  dnfLoop A (dnfFuel (numVars A)) [(root A, some true)] [] []

/-! ### `to_cnf` (recursive in the Rust code; fuel = recursion depth) -/

/-- `build_recursive(bdd, path, node, results)`; returns the mutated `path` and `results`;
    `none` = the recursion is deeper than the fuel (impossible on a valid diagram with fuel `num_vars + 1`) -/
def cnfRec (A : Arr) : Nat → Nat → PVal → List PVal → Option (PVal × List PVal)
  | 0, _, _, _ => none
  | fuel + 1, node, path, res =>
    if node = 0 then some (path, res ++ [path])
    else if node = 1 then some (path, res)
    else
      let nd := nodeAt A node
      let afterLow : Option (PVal × List PVal) :=
        if nd.low ≠ 1 then
          (cnfRec A fuel nd.low (path.set nd.var true) res).map fun r => (pvUnset r.1 nd.var, r.2)
        else some (path, res)
      match afterLow with
      | none => none
      | some (path1, res1) =>
        if nd.high ≠ 1 then
          (cnfRec A fuel nd.high (path1.set nd.var false) res1).map fun r => (pvUnset r.1 nd.var, r.2)
        else some (path1, res1)

/-- `Bdd::to_cnf` -/
def toCnf (A : Arr) : Outcome (List PVal) :=
  match cnfRec A (numVars A + 2) (root A) [] [] with
  | some r => .ok r.2
  | none => .panic "fuel"

/-! ### `to_optimized_dnf` -/

/-- insertion into a strictly increasing list -/
def insSorted (x : Nat) : List Nat → List Nat
  | [] => [x]
  | y :: t => if x < y then x :: y :: t else if x = y then y :: t else y :: insSorted x t

/-- `Vec::from_iter(bdd.support_set())` followed by `sort()`: the distinct variables of the decision nodes,
    increasing -/
def supportSorted (A : Arr) : List Nat :=
  (A.toList.drop 2).foldl (fun acc nd => insSorted nd.var acc) []

/-- `usize::MAX` (64-bit target) -/
def usizeMax : Nat := 18446744073709551615

/-- `var_for_all` -/
def varForAll (A : Arr) (x : Nat) : Arr := applyWithFlip A A Gen.and_ none (some x) none
/-- `var_exists` -/
def varExists (A : Arr) (x : Nat) : Arr := applyWithFlip A A Gen.or_ none (some x) none

/-- lines 238-248: the variable whose universal projection has the largest cardinality (first one wins ties;
    a projection of cardinality zero never replaces the initial `(support[0], 0)`) -/
def bestCore (card : Arr → Nat) (bdd : Arr) (support : List Nat) (s0 : Nat) : Nat × Nat :=
  support.foldl (fun best var =>
    let c := card (varForAll bdd var)
    if c > best.2 then (var, c) else best) (s0, 0)

/-- lines 265-270: drop the variables of the core that the remaining formula does not need -/
def pruneRemaining (bdd core remaining : Arr) (coreSupport : List Nat) : Arr :=
  coreSupport.foldl (fun rem var =>
    let simplified := varExists rem var
    if bddOr simplified core == bdd then simplified else rem) remaining

/-- lines 277-287: the variable with the smallest `|bdd[var:=1]| + |bdd[var:=0]|` (first one wins ties) -/
def bestBranch (bdd : Arr) (support : List Nat) (s0 : Nat) : Nat × Nat :=
  support.foldl (fun best var =>
    let size := (varRestrict bdd var true).size + (varRestrict bdd var false).size
    if size < best.2 then (var, size) else best) (s0, usizeMax)

/-- lines 250-275 of `_rec`: if some universal projection is non-empty, emit the clauses of the largest
    "common core" first (`rec` is the recursive call) and continue with what the core does not cover, minus
    the variables it no longer needs; otherwise continue with `bdd` itself.
    Returns `partial_clause`, `results` and the shadowing `bdd` of line 251. -/
def optAfterCore (card : Arr → Nat) (rec : Arr → PVal → List PVal → Outcome (PVal × List PVal))
    (bdd : Arr) (pc : PVal) (res : List PVal) (support : List Nat) (s0 : Nat) : Outcome (PVal × List PVal × Arr) :=
  let best := bestCore card bdd support s0
  if best.2 ≠ 0 then
    let core := varForAll bdd best.1
    match rec core pc res with
    | .ok (pc1, res1) =>
      let remaining := bddAndNot bdd core
      if remaining.size = 1 then .panic "assertion failed: !remaining.is_false()"
      else .ok (pc1, res1, pruneRemaining bdd core remaining (supportSorted core))
    | .err m => .err m
    | .panic m => .panic m
  else .ok (pc, res, bdd)

/-- lines 277-305 of `_rec`: branch on the best variable, `true` first -/
def optBranch (rec : Arr → PVal → List PVal → Outcome (PVal × List PVal))
    (rest : Arr) (pc1 : PVal) (res1 : List PVal) (support : List Nat) (s0 : Nat) : Outcome (PVal × List PVal) :=
  let var := (bestBranch rest support s0).1
  match rec (varRestrict rest var true) (pc1.set var true) res1 with
  | .ok (pc2, res2) =>
    match rec (varRestrict rest var false) (pc2.set var false) res2 with
    | .ok (pc3, res3) => .ok (pvUnset pc3 var, res3)
    | e => e
  | e => e

/-- `_to_optimized_dnf::_rec(bdd, partial_clause, results, interrupt)` with the trivial interrupt;
    `card` is `Bdd::exact_cardinality`; fuel = recursion depth -/
def optRec (card : Arr → Nat) : Nat → Arr → PVal → List PVal → Outcome (PVal × List PVal)
  | 0, _, _, _ => .panic "fuel"
  | fuel + 1, bdd, pc, res =>
    if bdd.size = 1 then .ok (pc, res)
    else if bdd.size = 2 then .ok (pc, res ++ [pc])
    else
      match supportSorted bdd with
      | [] => .panic "assertion failed: !support.is_empty()"
      | s0 :: tl =>
        match optAfterCore card (optRec card fuel) bdd pc res (s0 :: tl) s0 with
        | .ok (pc1, res1, rest) => optBranch (optRec card fuel) rest pc1 res1 (s0 :: tl) s0
        | .err m => .err m
        | .panic m => .panic m

/-- `Bdd::to_optimized_dnf`, parametrised by the model of `exact_cardinality` -/
def toOptimizedDnfWith (card : Arr → Nat) (A : Arr) : Outcome (List PVal) :=
  if A.size = 1 then .ok []
  else if A.size = 2 then .ok [[]]
  else
    match optRec card (numVars A + 2) A [] [] with
    | .ok r => .ok r.2
    | .err m => .err m
    | .panic m => .panic m

/-- `Bdd::to_optimized_dnf` with `exact_cardinality` = `B.exactCard` of `Model/Count.lean` -/
def toOptimizedDnf (A : Arr) : Outcome (List PVal) := toOptimizedDnfWith B.exactCard A

end B.NF
