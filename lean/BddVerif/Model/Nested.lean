import BddVerif.Model.Apply
import BddVerif.Gen.OpTables
/-!
Executable model of `src/_impl_bdd/_impl_nested_ops.rs` (`nested_apply`, `inner_apply`,
`fix_bdd_alignment`, `binary_op_with_exists/for_all`, `binary_op_nested`) and of the quantifiers of
`src/_impl_bdd/_impl_relation_ops.rs` (`var_exists`, `var_for_all`, `exists`, `for_all`, `project`).

As in `Model/Apply.lean` each explicit task stack is replaced by recursion on a level fuel: the Rust
loops push `comp_low` and then `comp_high` (resp. `old_low`, then `old_high`), so the HIGH sub-task is
on top of the stack and is processed first; a sub-task consults its cache at entry (that is what the
loop does when a task reaches the top), and the terminal look-up precedes the cache look-up.
Only core + `Std.Data.HashMap`.
-/
namespace B
open Std

/-! ### `fix_bdd_alignment` -/

/-- state of `fix_bdd_alignment`: the new array `result` and `pointer_map` (old pointer ↦ new pointer) -/
structure RSt where
  out : Arr
  map : HashMap Nat Nat

/-- one node of the DFS (lines 196-228). `rec` is the same procedure with less fuel; it is a no-op on a
    pointer that already has a translation (line 197), so calling it on both children, HIGH first, is
    what the loop does after `stack.push(old_low); stack.push(old_high)`. -/
def realignStep (A : Arr) (rec : Nat → RSt → RSt) (p : Nat) (s : RSt) : RSt :=
  match s.map[p]? with
  | some _ => s
  | none =>
    let nd := nodeAt A p
    let s1 := rec nd.high s
    let s2 := rec nd.low s1
    match s2.map[nd.low]?, s2.map[nd.high]? with
    | some lo, some hi =>
      { out := s2.out.push ⟨nd.var, lo, hi⟩, map := s2.map.insert p s2.out.size }
    | _, _ => s2   -- unreachable with sufficient fuel (the Rust loop would not terminate either)

/-- `realignStep` with the state used linearly (no hidden copy of `out`/`map` while the state is
    uniquely referenced). Compiled code uses this version (`@[csimp]`, justified by the equation
    below); all theorems are about `realignStep`. -/
def realignStepFast (A : Arr) (rec : Nat → RSt → RSt) (p : Nat) (s : RSt) : RSt :=
  match s.map[p]? with
  | some _ => s
  | none =>
    let nd := nodeAt A p
    match rec nd.low (rec nd.high s) with
    | ⟨out, map⟩ =>
      match map[nd.low]?, map[nd.high]? with
      | some lo, some hi =>
        let i := out.size
        ⟨out.push ⟨nd.var, lo, hi⟩, map.insert p i⟩
      | _, _ => ⟨out, map⟩

@[csimp] theorem realignStep_eq_fast : @realignStep = @realignStepFast := by
  funext A rec p s
  unfold realignStep realignStepFast
  split
  · rfl
  · simp only

def realignRec (A : Arr) : Nat → Nat → RSt → RSt
  | 0 => fun _ s => s
  | fuel + 1 => realignStep A (realignRec A fuel)

def realignInit (n : Nat) : RSt :=
  { out := mkTrue n, map := ((HashMap.emptyWithCapacity 16).insert 0 0).insert 1 1 }

/-- `fix_bdd_alignment(bdd, root)` -/
def realign (A : Arr) (r : Nat) : Arr :=
  let n := numVars A
  if r = 0 then mkFalse n
  else if r = 1 then mkTrue n
  else (realignRec A (n + 2) r (realignInit n)).out

/-! ### `inner_apply` and `nested_apply` -/

/-- mutable state of one `nested_apply` run: `result`, `node_cache`, `outer_cache`, `inner_cache` -/
structure NSt where
  res : Arr
  nodes : HashMap Node Nat
  outer : HashMap (Nat × Nat) Nat
  inner : HashMap (Nat × Nat) Nat

/-- look the node up in `node_cache`, otherwise push it (`root_pointer()` after the push = old size) -/
def nFindOrPush (s : NSt) (node : Node) : NSt × Nat :=
  match s.nodes[node]? with
  | some i => (s, i)
  | none => ({ s with res := s.res.push node, nodes := s.nodes.insert node s.res.size }, s.res.size)

/-- linear-use twin of `nFindOrPush` for compiled code (see `realignStepFast`) -/
def nFindOrPushFast (s : NSt) (node : Node) : NSt × Nat :=
  match s with
  | ⟨res, nodes, outer, inner⟩ =>
    match nodes[node]? with
    | some i => (⟨res, nodes, outer, inner⟩, i)
    | none =>
      let i := res.size
      (⟨res.push node, nodes.insert node i, outer, inner⟩, i)

@[csimp] theorem nFindOrPush_eq_fast : @nFindOrPush = @nFindOrPushFast := by
  funext s node
  obtain ⟨res, nodes, outer, inner⟩ := s
  unfold nFindOrPush nFindOrPushFast
  simp only

/-- a sub-task: terminal look-up first (`op(..).map(from_bool)`), otherwise cache / recursion -/
def nSolve (op : Op2) (rec : Nat → Nat → NSt → NSt × Nat) (a b : Nat) (s : NSt) : NSt × Nat :=
  match op (asBool a) (asBool b) with
  | some c => (s, ofBool c)
  | none => rec a b s

/-- lines 136-157: both sub-results of an inner task are known -/
def innerFinish (s : NSt) (l r d lo hi : Nat) : NSt × Nat :=
  if lo = hi then ({ s with inner := s.inner.insert (l, r) lo }, lo)
  else
    let fp := nFindOrPush s ⟨d, lo, hi⟩
    ({ fp.1 with inner := fp.1.inner.insert (l, r) fp.2 }, fp.2)

/-- linear-use twin of `innerFinish` for compiled code -/
def innerFinishFast (s : NSt) (l r d lo hi : Nat) : NSt × Nat :=
  match s with
  | ⟨res, nodes, outer, inner⟩ =>
    if lo = hi then (⟨res, nodes, outer, inner.insert (l, r) lo⟩, lo)
    else
      match nodes[(⟨d, lo, hi⟩ : Node)]? with
      | some i => (⟨res, nodes, outer, inner.insert (l, r) i⟩, i)
      | none =>
        let i := res.size
        (⟨res.push ⟨d, lo, hi⟩, nodes.insert ⟨d, lo, hi⟩ i, outer, inner.insert (l, r) i⟩, i)

@[csimp] theorem innerFinish_eq_fast : @innerFinish = @innerFinishFast := by
  funext s l r d lo hi
  obtain ⟨res, nodes, outer, inner⟩ := s
  unfold innerFinish innerFinishFast nFindOrPush
  by_cases h : lo = hi <;> simp only [h, if_true, if_false]
  split <;> rfl

/-- one task of `inner_apply` (lines 93-166): both operands are pointers INTO the result array -/
def innerStep (op : Op2) (rec : Nat → Nat → NSt → NSt × Nat) (l r : Nat) (s : NSt) : NSt × Nat :=
  match s.inner[(l, r)]? with
  | some p => (s, p)
  | none =>
    let d := min (nodeAt s.res l).var (nodeAt s.res r).var
    let kl := kids s.res l d none
    let kr := kids s.res r d none
    let r1 := nSolve op rec kl.2 kr.2 s
    let r2 := nSolve op rec kl.1 kr.1 r1.1
    innerFinish r2.1 l r d r2.2 r1.2

def innerRec (op : Op2) : Nat → Nat → Nat → NSt → NSt × Nat
  | 0 => fun _ _ s => (s, 0)
  | fuel + 1 => innerStep op (innerRec op fuel)

/-- `inner_apply(bdd, left, right, node_cache, task_cache, op)`: returns the new state and the pointer -/
def innerApply (op : Op2) (l r : Nat) (s : NSt) : NSt × Nat :=
  innerRec op (numVars s.res + 2) l r s

/-- static context of one `nested_apply` call -/
structure NCtx where
  L : Arr
  R : Arr
  trigger : Nat → Bool
  outer : Op2
  inner : Op2

/-- lines 330-366: both sub-results of an outer task are known -/
def nestedFinish (Γ : NCtx) (s : NSt) (l r d lo hi : Nat) : NSt × Nat :=
  if lo = hi then ({ s with outer := s.outer.insert (l, r) lo }, lo)
  else if Γ.trigger d then
    let ir := innerApply Γ.inner lo hi s
    ({ ir.1 with outer := ir.1.outer.insert (l, r) ir.2 }, ir.2)
  else
    let fp := nFindOrPush s ⟨d, lo, hi⟩
    ({ fp.1 with outer := fp.1.outer.insert (l, r) fp.2 }, fp.2)

/-- linear-use twin of `nestedFinish` for compiled code -/
def nestedFinishFast (Γ : NCtx) (s : NSt) (l r d lo hi : Nat) : NSt × Nat :=
  if lo = hi then
    match s with
    | ⟨res, nodes, outer, inner⟩ => (⟨res, nodes, outer.insert (l, r) lo, inner⟩, lo)
  else if Γ.trigger d then
    match innerApply Γ.inner lo hi s with
    | (⟨res, nodes, outer, inner⟩, p) => (⟨res, nodes, outer.insert (l, r) p, inner⟩, p)
  else
    match s with
    | ⟨res, nodes, outer, inner⟩ =>
      match nodes[(⟨d, lo, hi⟩ : Node)]? with
      | some i => (⟨res, nodes, outer.insert (l, r) i, inner⟩, i)
      | none =>
        let i := res.size
        (⟨res.push ⟨d, lo, hi⟩, nodes.insert ⟨d, lo, hi⟩ i, outer.insert (l, r) i, inner⟩, i)

@[csimp] theorem nestedFinish_eq_fast : @nestedFinish = @nestedFinishFast := by
  funext Γ s l r d lo hi
  unfold nestedFinish nestedFinishFast
  by_cases h : lo = hi
  · simp only [h, if_true]
  · simp only [h, if_false]
    by_cases ht : Γ.trigger d = true
    · simp only [ht, if_true]
    · simp only [ht, if_false, Bool.false_eq_true]
      obtain ⟨res, nodes, outer, inner⟩ := s
      unfold nFindOrPush
      simp only
      split <;> rfl

/-- one task of the outer loop (lines 287-375); no flips -/
def nestedStep (Γ : NCtx) (rec : Nat → Nat → NSt → NSt × Nat) (l r : Nat) (s : NSt) : NSt × Nat :=
  match s.outer[(l, r)]? with
  | some p => (s, p)
  | none =>
    let d := min (nodeAt Γ.L l).var (nodeAt Γ.R r).var
    let kl := kids Γ.L l d none
    let kr := kids Γ.R r d none
    let r1 := nSolve Γ.outer rec kl.2 kr.2 s
    let r2 := nSolve Γ.outer rec kl.1 kr.1 r1.1
    nestedFinish Γ r2.1 l r d r2.2 r1.2

def nestedRec (Γ : NCtx) : Nat → Nat → Nat → NSt → NSt × Nat
  | 0 => fun _ _ s => (s, 0)
  | fuel + 1 => nestedStep Γ (nestedRec Γ fuel)

/-- lines 259-277: result starts as the `true` Bdd, both terminals are in `node_cache` -/
def nestedInit (n : Nat) : NSt :=
  { res := mkTrue n,
    nodes := ((HashMap.emptyWithCapacity 16).insert (zeroN n) 0).insert (oneN n) 1,
    outer := HashMap.emptyWithCapacity 16,
    inner := HashMap.emptyWithCapacity 16 }

/-- state and root-task pointer at the end of the outer loop (before `fix_bdd_alignment`) -/
def nestedRun (L R : Arr) (trigger : Nat → Bool) (outer inner : Op2) : NSt × Nat :=
  let n := numVars L
  nestedRec ⟨L, R, trigger, outer, inner⟩ (n + 2) (root L) (root R) (nestedInit n)

/-- `nested_apply` = `Bdd::binary_op_nested`; the `num_vars` mismatch panic is `nestedApplyO` -/
def nestedApply (L R : Arr) (trigger : Nat → Bool) (outer inner : Op2) : Arr :=
  let out := nestedRun L R trigger outer inner
  realign out.1.res out.2

/-- with the panic of lines 250-257 made explicit -/
def nestedApplyO (L R : Arr) (trigger : Nat → Bool) (outer inner : Op2) : Option Arr :=
  if numVars L ≠ numVars R then none else some (nestedApply L R trigger outer inner)

/-- `HashSet::from_iter(variables)` then `set.contains` -/
def trigOfList (vars : List Nat) : Nat → Bool := fun x => vars.contains x

/-- `Bdd::binary_op_with_exists` -/
def binaryOpWithExists (L R : Arr) (op : Op2) (vars : List Nat) : Arr :=
  nestedApply L R (trigOfList vars) op Gen.or_

/-- `Bdd::binary_op_with_for_all` -/
def binaryOpWithForAll (L R : Arr) (op : Op2) (vars : List Nat) : Arr :=
  nestedApply L R (trigOfList vars) op Gen.and_

/-- `Bdd::exists` (= deprecated `Bdd::project`) -/
def bddExists (A : Arr) (vars : List Nat) : Arr := binaryOpWithExists A A Gen.and_ vars

/-- `Bdd::for_all` -/
def bddForAll (A : Arr) (vars : List Nat) : Arr := binaryOpWithForAll A A Gen.and_ vars

/-- `Bdd::var_exists` (= deprecated `var_project`); `check_flip_bounds` panics iff `x ≥ num_vars` -/
def varExists (A : Arr) (x : Nat) : Arr := applyWithFlip A A Gen.or_ none (some x) none

/-- `Bdd::var_for_all` -/
def varForAll (A : Arr) (x : Nat) : Arr := applyWithFlip A A Gen.and_ none (some x) none

/-- `var_exists` with the `check_flip_bounds` panic (`x ≥ num_vars`) made explicit: `none` = panic -/
def varExistsO (A : Arr) (x : Nat) : Option Arr := if x < numVars A then some (varExists A x) else none

/-- `var_for_all` with the `check_flip_bounds` panic made explicit -/
def varForAllO (A : Arr) (x : Nat) : Option Arr := if x < numVars A then some (varForAll A x) else none

end B
