import BddVerif.Model.Count
import BddVerif.Gen.OpTables
/-!
Executable model of `src/_impl_bdd_partial_valuation.rs`, of the conversions / `extends` of
`src/_impl_bdd_valuation.rs` (namespace `B.Val`) and of the five comparators of
`src/_impl_bdd/_impl_sort.rs` (namespace `B.Cmp`). Nothing is declared directly in `B`.

* `BddPartialValuation(Vec<Option<bool>>)` is `Val.PartialVal := List (Option Bool)`; a `BddVariable(u16)` is a
  `Nat` index (the theorems need no bound on it except where the code itself casts, see `u16`).
* `BddValuation(Vec<bool>)` is `Val.TotalVal := List Bool`.
* `x as u16` (in `BddValuation::num_vars`, in the loop of `BddPartialValuation::extends`) is modelled as
  written: `u16 n = n % 65536`; `u16::try_from(len)` in `TryFrom` is the explicit `Err` branch. A partial
  valuation that fixes `BddVariable(65535)` has a vector of 65 536 cells: before the repair a854d97 both
  `extends` and `TryFrom` narrowed that length to 0 (finding of this check, now in corpus/C18.cases).
  Vectors of more than 65 536 cells cannot be built by `set_value`/`unset_value` (ids are `u16`); the
  theorems that mention an index cast carry the hypothesis `length ≤ 65536`.
* The three functions that loop `for var_id in 0..n { … get_value(var_id) … }` are given twice: the
  literal transcription (`extendsLoop`, `toTotalLoop`, `TotalVal.extendsLoop`, quadratic on lists) and a
  linear list recursion (`extends_`, `toTotal`, `TotalVal.extends_`) used by the driver;
  `Lemmas/Valuation.lean` proves them equal (`extends_eq_loop`, `toTotal_eq_loop`, `textends_eq_loop`).
* `Hash::hash` is modelled by the exact sequence of `write_usize`/`write_u8` calls (`hashWrites`): equal
  sequences give equal hashes for *any* `Hasher` — that is the trusted contract; the harness observes
  real `DefaultHasher` values.
* `Ordering` is Lean's `Ordering` (`lt`/`eq`/`gt` = `Less`/`Equal`/`Greater`).
-/
namespace B.Val

abbrev PartialVal := List (Option Bool)
abbrev TotalVal := List Bool

/-- `x as u16` for a `usize` -/
def u16 (n : Nat) : Nat := n % 65536

/-- one call on the `Hasher` -/
inductive HashWrite where
  | usize (n : Nat)
  | u8 (n : Nat)
deriving DecidableEq, Repr

namespace PartialVal

/-- `BddPartialValuation::empty` -/
def empty : PartialVal := []

/-- `get_value` / `Index<BddVariable>`: the cell if `index < len`, otherwise `None` -/
def get (p : PartialVal) (x : Nat) : Option Bool := (p[x]?).join

/-- `has_value` -/
def has (p : PartialVal) (x : Nat) : Bool := (get p x).isSome

/-- the `while self.0.len() <= index { push(None) }` loop of `mut_cell` -/
def grow (p : PartialVal) (x : Nat) : PartialVal := p ++ List.replicate (x + 1 - p.length) none

/-- `*mut_cell(id) = c` (also `IndexMut`: `p[id] = c`) -/
def setCell (p : PartialVal) (x : Nat) (c : Option Bool) : PartialVal := (grow p x).set x c

/-- `set_value` -/
def set (p : PartialVal) (x : Nat) (b : Bool) : PartialVal := setCell p x (some b)
/-- `unset_value` (grows the vector too, as the Rust code does) -/
def unset (p : PartialVal) (x : Nat) : PartialVal := setCell p x none

/-- `from_values`: later entries win -/
def fromValues (vals : List (Nat × Bool)) : PartialVal := vals.foldl (fun p xb => set p xb.1 xb.2) empty

def toValuesFrom : Nat → PartialVal → List (Nat × Bool)
  | _, [] => []
  | i, none :: cs => toValuesFrom (i + 1) cs
  | i, some b :: cs => (i, b) :: toValuesFrom (i + 1) cs

/-- `to_values`: the fixed cells in increasing order of the variable -/
def toValues (p : PartialVal) : List (Nat × Bool) := toValuesFrom 0 p

/-- `is_empty` -/
def isEmpty (p : PartialVal) : Bool := p.all (·.isNone)

/-- `cardinality`: number of fixed variables (`u16::try_from(..).unwrap()` is a panic above 65535) -/
def cardinality (p : PartialVal) : Outcome Nat :=
  let c := p.countP (·.isSome)
  if c ≤ 65535 then .ok c else .panic "u16::try_from(count).unwrap()"

def lastFixedFrom : Nat → PartialVal → Option Nat → Option Nat
  | _, [], acc => acc
  | i, none :: cs, acc => lastFixedFrom (i + 1) cs acc
  | i, some _ :: cs, _ => lastFixedFrom (i + 1) cs (some i)

/-- `last_fixed_variable` (the Rust loop scans from the end; the result is the largest fixed index,
    stored through `i as u16`) -/
def lastFixed (p : PartialVal) : Option Nat := (lastFixedFrom 0 p none).map u16

/-- `PartialEq::eq`: the common prefix cell by cell, every cell beyond it must be `None` -/
def eq : PartialVal → PartialVal → Bool
  | [], q => q.all (·.isNone)
  | p, [] => p.all (·.isNone)
  | a :: p, b :: q => a == b && eq p q

def hashFrom : Nat → PartialVal → List HashWrite
  | _, [] => []
  | i, none :: cs => hashFrom (i + 1) cs
  | i, some b :: cs => HashWrite.usize i :: HashWrite.u8 (if b then 1 else 0) :: hashFrom (i + 1) cs

/-- `Hash::hash`: for every fixed cell `write_usize(var); write_u8(value)` in increasing order -/
def hashWrites (p : PartialVal) : List HashWrite := hashFrom 0 p

/-- `BddPartialValuation::extends`, literally: `for index in 0..valuation.0.len()` with
    `var = BddVariable(index as u16)`, `if expected.is_some() && self.get_value(var) != expected { return false }`
    (the length is no longer narrowed since the repair a854d97; the index still is, which is the identity
    for every vector of at most 65 536 cells, i.e. for everything `set_value`/`unset_value` can build) -/
def extendsLoop (self valuation : PartialVal) : Bool :=
  (List.range valuation.length).all fun index =>
    let x := u16 index
    let expected := get valuation x
    !(expected.isSome && get self x != expected)

def extAux : PartialVal → PartialVal → Bool
  | _, [] => true
  | [], e :: vs => e.isNone && extAux [] vs
  | s :: ss, e :: vs => (e.isNone || s == e) && extAux ss vs

/-- `BddPartialValuation::extends`, walking both vectors at once (`= extendsLoop`) -/
def extends_ (self valuation : PartialVal) : Bool :=
  if valuation.length ≤ 65536 then extAux self valuation else extendsLoop self valuation

/-- `From<BddValuation> for BddPartialValuation` -/
def ofTotal (v : TotalVal) : PartialVal := v.map some

/-- `TryFrom<BddPartialValuation> for BddValuation`, literally: `none` is `Err(())`;
    `u16::try_from(len)` must succeed (else `Err`), the result has `len` variables, every one of which
    must be fixed -/
def toTotalLoop (p : PartialVal) : Option TotalVal :=
  if p.length ≤ 65535 then (List.range (u16 p.length)).mapM fun x => get p x else none

def allSome : PartialVal → Option TotalVal
  | [] => some []
  | none :: _ => none
  | some b :: cs => (allSome cs).map (b :: ·)

/-- `TryFrom<BddPartialValuation> for BddValuation` in one pass (`= toTotalLoop`) -/
def toTotal (p : PartialVal) : Option TotalVal := if p.length ≤ 65535 then allSome p else none

end PartialVal

namespace TotalVal

/-- `BddValuation::num_vars`: `self.0.len() as u16` -/
def numVars (v : TotalVal) : Nat := u16 v.length

/-- `BddValuation::extends`, literally: `for var_id in 0..self.num_vars()`; cells of the partial
    valuation at or beyond `num_vars` are not looked at -/
def extendsLoop (self : TotalVal) (valuation : PartialVal) : Bool :=
  (List.range (numVars self)).all fun x =>
    match PartialVal.get valuation x with
    | some value => value == self.getD x false
    | none => true

def extAux : TotalVal → PartialVal → Bool
  | [], _ => true
  | _ :: _, [] => true
  | s :: ss, e :: vs => (match e with | some b => b == s | none => true) && extAux ss vs

/-- `BddValuation::extends` walking both vectors at once (`= extendsLoop`) -/
def extends_ (self : TotalVal) (valuation : PartialVal) : Bool :=
  extAux (self.take (numVars self)) valuation

/-- `BddValuation::to_values` -/
def toValues (v : TotalVal) : List (Nat × Bool) := (List.range v.length).map fun i => (i, v.getD i false)

/-- the node pushed for variable `i` when the current root is `r` -/
def valNode (v : TotalVal) (i r : Nat) : Node :=
  if v.getD i false then ⟨i, 0, r⟩ else ⟨i, r, 0⟩

/-- the loop `for i_var in (0..n).rev()` of `From<BddValuation> for Bdd`, entered with `k` variables
    still to do: variable `k-1` is pushed next, pointing to the current root -/
def pushDown (v : TotalVal) : Nat → Arr → Arr
  | 0, A => A
  | k + 1, A => pushDown v k (A.push (valNode v k (root A)))

/-- `Bdd::from(valuation)`: `mk_true(num_vars)` followed by one node per variable, last variable first -/
def toBdd (v : TotalVal) : Arr := pushDown v (numVars v) (mkTrue (numVars v))

end TotalVal

end B.Val

/-! ### Comparators (`_impl_sort.rs`) -/
namespace B.Cmp
open B.Count

/-- `cmp_size` -/
def cmpSize (a b : Arr) : Ordering := compare a.size b.size

/-- `cmp_cardinality`: `a.exact_cardinality().cmp(&b.exact_cardinality())`, a panic propagates -/
def cmpCardinality (a b : Arr) : Outcome Ordering :=
  (exactCardO a).bind fun x => (exactCardO b).bind fun y => .ok (compare x y)

/-- `cmp_cardinality_strict`: `None` for different variable counts (nothing is computed then) -/
def cmpCardinalityStrict (a b : Arr) : Outcome (Option Ordering) :=
  if numVars a = numVars b then (cmpCardinality a b).map some else .ok none

/-- `Bdd::binary_op_with_limit(2, a, b, imp).unwrap_or_else(mk_false).is_true()`.

    `apply_with_flip_and_limit` with limit 2 starts from the two-node result array and returns `None`
    at the first `push_node` (size 3 > 2); if nothing is ever pushed it executes exactly the steps of
    `apply_with_flip` and returns the same value (the final `size > limit` test cannot fire: the array
    still has 2 nodes). In `apply_with_flip` the array only grows, and the returned Bdd is that array
    (when `is_not_empty`) or the one-node `false`. Hence: the limited call returns a Bdd with
    `is_true()` ⇔ the unrestricted result has exactly 2 nodes; in every other case (`None` replaced by
    `false`, or `false` itself) `is_true()` is false, and so is `size = 2` of the unrestricted result
    (≥ 3 nodes or 1 node). -/
def impliesB (a b : Arr) : Bool := (applyWithFlip a b Gen.imp_ none none none).size == 2

/-- `cmp_implies` -/
def cmpImplies (a b : Arr) : Option Ordering :=
  if numVars a = numVars b then
    let ab := impliesB a b
    let ba := impliesB b a
    if ab && ba then some .eq else if ab then some .lt else if ba then some .gt else none
  else none

/-- derived `Ord` of the triple `(var, low_link, high_link)` -/
def cmpNode (x y : Node) : Ordering :=
  (compare x.var y.var).then ((compare x.low y.low).then (compare x.high y.high))

/-- `Iterator::cmp`: lexicographic, a proper prefix is `Less` -/
def cmpNodes : List Node → List Node → Ordering
  | [], [] => .eq
  | [], _ :: _ => .lt
  | _ :: _, [] => .gt
  | x :: xs, y :: ys => match cmpNode x y with
    | .eq => cmpNodes xs ys
    | o => o

/-- `cmp_structural` -/
def cmpStructural (a b : Arr) : Ordering := cmpNodes a.toList b.toList

end B.Cmp
