import BddVerif.Model.Apply
import BddVerif.Model.Ternary
import BddVerif.Model.Outcome
import BddVerif.Gen.OpTables
import Std.Data.HashSet
/-!
Executable models of

* `apply_with_flip_and_limit` (src/_impl_bdd/_impl_boolean_ops.rs:508-673) — `applyLimit`: the recursion of
  `Model/Apply.lean` with the early exit of lines 629-632 (a node was pushed and now `result.size() > limit`),
  the `limit == 0` early return (lines 532-535) and the end-of-run test (lines 660-672);
* `estimated_apply_complexity` (lines 397-501) — `dryRun` (with the limit test of lines 450-454) and `dryFull`
  (the same traversal without any limit: the "task count" the property speaks about);
* `cmp_implies` (src/_impl_bdd/_impl_sort.rs:37-56) — `cmpImplies`;
* the public entry points with their panics (`check_flip_bounds`, variable-count mismatch) as explicit
  `Outcome.panic` values: `fusedBinaryFlipOp`, `fusedBinaryFlipOpWithLimit`, `checkFusedBinaryFlipOp`,
  `fusedTernaryFlipOp`.

The explicit stack of `estimated_apply_complexity` pops a task, expands it and pushes both children; the child
pushed last is popped first and its whole sub-DAG is processed before the other child is popped. That is the
recursion below (first `comp_high`, then `comp_low`; reversed when the output is flipped on the decision
variable). Core + Std only.
-/
namespace B.Lim
open Std

/-! ### `apply_with_flip_and_limit` -/

/-- lines 608-636 with the size test after the push -/
def finishLim (lim : Nat) (s : St) (l r d lo hi : Nat) (flipOut : Bool) : Option (St × Nat) :=
  let s1 : St := if lo = 1 ∨ hi = 1 then { s with nonEmpty := true } else s
  if lo = hi then some ({ s1 with finished := s1.finished.insert (l, r) lo }, lo)
  else
    let node : Node := if flipOut then ⟨d, hi, lo⟩ else ⟨d, lo, hi⟩
    match s1.existing[node]? with
    | some i => some ({ s1 with finished := s1.finished.insert (l, r) i }, i)
    | none =>
      -- `result.push_node(node); if result.size() > limit { return None; }`
      if (s1.res.push node).size > lim then none
      else
        some ({ s1 with res := s1.res.push node, existing := s1.existing.insert node s1.res.size,
                        finished := s1.finished.insert (l, r) s1.res.size }, s1.res.size)

/-- `finishLim` with every field of the state used linearly (no hidden copy of `res` / `existing` /
    `finished` while the state is uniquely referenced). Compiled code uses this version (`@[csimp]` replaces
    `finishLim` by it — justified by the equation below); all theorems are about `finishLim`. Without it the
    model is quadratic on results with > 10^5 nodes. -/
def finishLimFast (lim : Nat) (s : St) (l r d lo hi : Nat) (flipOut : Bool) : Option (St × Nat) :=
  match s with
  | ⟨res, existing, finished, ne⟩ =>
    let ne' : Bool := if lo = 1 ∨ hi = 1 then true else ne
    if lo = hi then some (⟨res, existing, finished.insert (l, r) lo, ne'⟩, lo)
    else
      let node : Node := if flipOut then ⟨d, hi, lo⟩ else ⟨d, lo, hi⟩
      match existing[node]? with
      | some i => some (⟨res, existing, finished.insert (l, r) i, ne'⟩, i)
      | none =>
        if res.size + 1 > lim then none
        else
          let i := res.size
          some (⟨res.push node, existing.insert node i, finished.insert (l, r) i, ne'⟩, i)

@[csimp] theorem finishLim_eq_fast : @finishLim = @finishLimFast := by
  funext lim s l r d lo hi flipOut
  obtain ⟨res, existing, finished, ne⟩ := s
  unfold finishLim finishLimFast
  by_cases h1 : lo = 1 ∨ hi = 1 <;> by_cases h2 : lo = hi <;> simp only [h1, h2, if_true, if_false]
  all_goals (split <;> rename_i h <;> simp only [h, Array.size_push])

def solveLim (op : Op2) (rec : Nat → Nat → St → Option (St × Nat)) (a b : Nat) (s : St) : Option (St × Nat) :=
  match op (asBool a) (asBool b) with
  | some c => some (s, ofBool c)
  | none => rec a b s

def applyStepLim (Γ : Ctx) (lim : Nat) (rec : Nat → Nat → St → Option (St × Nat)) (l r : Nat) (s : St) :
    Option (St × Nat) :=
  match s.finished[(l, r)]? with
  | some p => some (s, p)
  | none =>
    let d := min (nodeAt Γ.L l).var (nodeAt Γ.R r).var
    let kl := kids Γ.L l d Γ.fl
    let kr := kids Γ.R r d Γ.fr
    if Γ.fo = some d then
      match solveLim Γ.op rec kl.1 kr.1 s with
      | none => none
      | some r1 =>
        match solveLim Γ.op rec kl.2 kr.2 r1.1 with
        | none => none
        | some r2 => finishLim lim r2.1 l r d r1.2 r2.2 true
    else
      match solveLim Γ.op rec kl.2 kr.2 s with
      | none => none
      | some r1 =>
        match solveLim Γ.op rec kl.1 kr.1 r1.1 with
        | none => none
        | some r2 => finishLim lim r2.1 l r d r2.2 r1.2 false

def applyRecLim (Γ : Ctx) (lim : Nat) : Nat → Nat → Nat → St → Option (St × Nat)
  | 0 => fun _ _ s => some (s, 0)
  | fuel + 1 => applyStepLim Γ lim (applyRecLim Γ lim fuel)

/-- `apply_with_flip_and_limit` after the bound checks -/
def applyLimit (lim : Nat) (L R : Arr) (op : Op2) (fl fr fo : Option Nat) : Option Arr :=
  let n := numVars L
  if lim = 0 then none
  else
    let Γ : Ctx := ⟨L, R, n, op, fl, fr, fo⟩
    match applyRecLim Γ lim (n + 2) (root L) (root R) (initSt n) with
    | none => none
    | some out =>
      if out.1.nonEmpty then
        if out.1.res.size > lim then none else some out.1.res
      else some (mkFalse n)

/-! ### `estimated_apply_complexity` -/

/-- `finished` (a set here) and `is_not_empty` -/
structure DSt where
  visited : HashSet (Nat × Nat)
  nonEmpty : Bool

/-- one popped task, limited version -/
def dryVisitLim (Γ : Ctx) (lim : Nat) (rec : Nat → Nat → DSt → Option DSt) (l r : Nat) (s : DSt) : Option DSt :=
  match Γ.op (asBool l) (asBool r) with
  | some c => some { s with nonEmpty := s.nonEmpty || c }
  | none =>
    if s.visited.contains (l, r) then some s
    else
      let s1 : DSt := { s with visited := s.visited.insert (l, r) }
      if s1.visited.size > lim then none
      else
        let d := min (nodeAt Γ.L l).var (nodeAt Γ.R r).var
        let kl := kids Γ.L l d Γ.fl
        let kr := kids Γ.R r d Γ.fr
        if Γ.fo = some d then
          match rec kl.1 kr.1 s1 with
          | none => none
          | some s2 => rec kl.2 kr.2 s2
        else
          match rec kl.2 kr.2 s1 with
          | none => none
          | some s2 => rec kl.1 kr.1 s2

def dryRecLim (Γ : Ctx) (lim : Nat) : Nat → Nat → Nat → DSt → Option DSt
  | 0 => fun _ _ s => some s
  | fuel + 1 => dryVisitLim Γ lim (dryRecLim Γ lim fuel)

/-- one popped task, no limit -/
def dryVisit (Γ : Ctx) (rec : Nat → Nat → DSt → DSt) (l r : Nat) (s : DSt) : DSt :=
  match Γ.op (asBool l) (asBool r) with
  | some c => { s with nonEmpty := s.nonEmpty || c }
  | none =>
    if s.visited.contains (l, r) then s
    else
      let s1 : DSt := { s with visited := s.visited.insert (l, r) }
      let d := min (nodeAt Γ.L l).var (nodeAt Γ.R r).var
      let kl := kids Γ.L l d Γ.fl
      let kr := kids Γ.R r d Γ.fr
      if Γ.fo = some d then rec kl.2 kr.2 (rec kl.1 kr.1 s1)
      else rec kl.1 kr.1 (rec kl.2 kr.2 s1)

def dryRec (Γ : Ctx) : Nat → Nat → Nat → DSt → DSt
  | 0 => fun _ _ s => s
  | fuel + 1 => dryVisit Γ (dryRec Γ fuel)

def initDSt : DSt := { visited := HashSet.emptyWithCapacity 16, nonEmpty := false }

/-- `estimated_apply_complexity` after the bound checks -/
def dryRun (lim : Nat) (L R : Arr) (op : Op2) (fl fr fo : Option Nat) : Option (Bool × Nat) :=
  let n := numVars L
  let Γ : Ctx := ⟨L, R, n, op, fl, fr, fo⟩
  (dryRecLim Γ lim (n + 2) (root L) (root R) initDSt).map fun s => (s.nonEmpty, s.visited.size)

/-- the same traversal without a limit: (non-emptiness flag, number of expanded tasks) -/
def dryFull (L R : Arr) (op : Op2) (fl fr fo : Option Nat) : Bool × Nat :=
  let n := numVars L
  let Γ : Ctx := ⟨L, R, n, op, fl, fr, fo⟩
  let s := dryRec Γ (n + 2) (root L) (root R) initDSt
  (s.nonEmpty, s.visited.size)

/-! ### public entry points: panics are outcomes -/

/-- `check_flip_bounds`: `false` = the Rust code panics -/
def flipOk (n : Nat) : Option Nat → Bool
  | none => true
  | some x => decide (x < n)

/-- `Bdd::fused_binary_flip_op` (and `binary_op` with no flips) -/
def fusedBinaryFlipOp (L R : Arr) (op : Op2) (fl fr fo : Option Nat) : Outcome Arr :=
  if numVars R ≠ numVars L then .panic "Var count mismatch"
  else if !(flipOk (numVars L) fl && flipOk (numVars L) fr && flipOk (numVars L) fo) then
    .panic "Cannot flip variable"
  else .ok (applyWithFlip L R op fl fr fo)

/-- `Bdd::fused_binary_flip_op_with_limit` (and `binary_op_with_limit` with no flips) -/
def fusedBinaryFlipOpWithLimit (lim : Nat) (L R : Arr) (op : Op2) (fl fr fo : Option Nat) : Outcome (Option Arr) :=
  if numVars R ≠ numVars L then .panic "Var count mismatch"
  else if !(flipOk (numVars L) fl && flipOk (numVars L) fr && flipOk (numVars L) fo) then
    .panic "Cannot flip variable"
  else .ok (applyLimit lim L R op fl fr fo)

/-- `Bdd::check_fused_binary_flip_op` (and `check_binary_op` with no flips) -/
def checkFusedBinaryFlipOp (lim : Nat) (L R : Arr) (op : Op2) (fl fr fo : Option Nat) : Outcome (Option (Bool × Nat)) :=
  if numVars R ≠ numVars L then .panic "Var count mismatch"
  else if !(flipOk (numVars L) fl && flipOk (numVars L) fr && flipOk (numVars L) fo) then
    .panic "Cannot flip variable"
  else .ok (dryRun lim L R op fl fr fo)

/-- `Bdd::fused_ternary_flip_op` (and `ternary_op` with no flips) -/
def fusedTernaryFlipOp (A B C : Arr) (op : Op3) (fa fb fc fo : Option Nat) : Outcome Arr :=
  if numVars A ≠ numVars B ∨ numVars B ≠ numVars C then .panic "Var count mismatch"
  else if !(flipOk (numVars A) fa && flipOk (numVars A) fb && flipOk (numVars A) fc && flipOk (numVars A) fo) then
    .panic "Cannot flip variable"
  else .ok (ternaryApply A B C op fa fb fc fo)

/-! ### `cmp_implies` -/

/-- `Bdd::is_true` -/
def isTrueB (A : Arr) : Bool := A.size == 2

/-- `Bdd::cmp_implies`: two implication checks with limit 2 (a refused check counts as `false`) -/
def cmpImplies (a b : Arr) : Option Ordering :=
  if numVars a = numVars b then
    let ab := (applyLimit 2 a b Gen.imp_ none none none).getD (mkFalse (numVars a))
    let ba := (applyLimit 2 b a Gen.imp_ none none none).getD (mkFalse (numVars a))
    if isTrueB ab && isTrueB ba then some .eq
    else if isTrueB ab then some .lt
    else if isTrueB ba then some .gt
    else none
  else none

end B.Lim
