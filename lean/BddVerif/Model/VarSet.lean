import BddVerif.Model.Relation
import BddVerif.Gen.Consts
import Std.Data.HashMap
import Std.Data.HashSet
/-!
Executable model of `BddVariableSet` / `BddVariableSetBuilder`
(`src/_impl_bdd_variable_set.rs`, `src/_impl_bdd_variable_set_builder.rs`), of
`impl From<BddValuation> for Bdd` (`src/_impl_bdd_valuation.rs:182-202`) and of the threshold
constructors `mk_sat_up_to_k` / `mk_sat_exactly_k` (`_impl_bdd_variable_set.rs:243-299`).

* `var_names : Vec<String>` is an `Array String`, `var_index_mapping : HashMap<String, u16>` is a
  `Std.HashMap String Nat` (never iterated, so the iteration order of the Rust map is not observable),
  `var_names_set : HashSet<String>` of the builder is a `Std.HashSet String`.
* every `panic!`, `assert!`, `unwrap_or_else(|| panic!(…))` and out-of-bounds index is an explicit
  `Outcome.panic`. `debug_assert!`s (`mk_var`, `mk_not_var`, `mk_literal` of the variable set) are NOT
  modelled: the harness is a release build, where they are compiled out, and the harness never calls these
  three functions with a variable outside the set.
* the literal constructors `Bdd::mk_var`, `mk_not_var`, `mk_literal`, partial valuations (`PVal`,
  `PVal.set`) and the chain builder `clauseArr` are those of `Model/Relation.lean`.
Only core + Std.
-/
namespace B.VS
open Std

/-- `u16::MAX - 1` -/
def limit : Nat := 65534

/-- `!name.chars().any(|c| NOT_IN_VAR_NAME.contains(&c))`; the empty name is valid -/
def validName (s : String) : Bool := !(s.toList.any fun c => Gen.notInVarName.contains c)

/-- `BddVariableSet { num_vars, var_names, var_index_mapping }` -/
structure VarSet where
  numVars : Nat
  names : Array String
  index : HashMap String Nat

/-- `names.iter().enumerate().map(|(id, name)| (name, id)).collect::<HashMap<_, _>>()` resp. the
    insertion loop of `build`: a later occurrence of a name overwrites the earlier one -/
def buildIndex : List String → Nat → HashMap String Nat → HashMap String Nat
  | [], _, m => m
  | s :: rest, i, m => buildIndex rest (i + 1) (m.insert s i)

/-- `BddVariableSet::new` (lines 28-61): the length test, then the names in order, then the size of the
    collected map against the number of names -/
def new (vars : List String) : Outcome VarSet :=
  if vars.length ≥ limit then .panic "Too many BDD variables."
  else if vars.any (fun s => !validName s) then .panic "Variable name is invalid."
  else
    let m := buildIndex vars 0 {}
    if m.size ≠ vars.length then .panic "Existing duplicated BDD variable."
    else .ok ⟨vars.length, vars.toArray, m⟩

/-- the name of anonymous variable `i` -/
def anonName (i : Nat) : String := "x_" ++ toString i

/-- `BddVariableSet::new_anonymous` (the argument is a `u16`) -/
def newAnonymous (k : Nat) : Outcome VarSet :=
  if k ≥ limit then .panic "Too many BDD variables."
  else
    let names := (List.range k).map anonName
    .ok ⟨k, names.toArray, buildIndex names 0 {}⟩

/-- `BddVariableSetBuilder { var_names, var_names_set }` -/
structure Builder where
  names : Array String
  set : HashSet String

/-- `BddVariableSetBuilder::new` -/
def Builder.empty : Builder := ⟨#[], {}⟩

/-- `make_variable`: the limit, then the duplicate test, then the forbidden characters -/
def Builder.makeVariable (b : Builder) (name : String) : Outcome (Builder × Nat) :=
  let id := b.names.size
  if id ≥ limit then .panic "Too many BDD variables."
  else if b.set.contains name then .panic "BDD variable already exists."
  else if !validName name then .panic "Variable name is invalid."
  else .ok (⟨b.names.push name, b.set.insert name⟩, id)

/-- `make_variables`: `names.iter().map(|name| self.make_variable(name)).collect()` -/
def Builder.makeVariables (b : Builder) : List String → Outcome (Builder × List Nat)
  | [] => .ok (b, [])
  | s :: rest =>
    match b.makeVariable s with
    | .ok (b1, x) =>
      match Builder.makeVariables b1 rest with
      | .ok (b2, xs) => .ok (b2, x :: xs)
      | .err m => .err m
      | .panic m => .panic m
    | .err m => .err m
    | .panic m => .panic m

/-- `build` -/
def Builder.build (b : Builder) : VarSet :=
  ⟨b.names.size, b.names, buildIndex b.names.toList 0 {}⟩

/-- the whole builder protocol on a list of names -/
def viaBuilder (vars : List String) : Outcome (VarSet × List Nat) :=
  match Builder.empty.makeVariables vars with
  | .ok (b, xs) => .ok (b.build, xs)
  | .err m => .err m
  | .panic m => .panic m

/-- `var_by_name` -/
def VarSet.varByName (vs : VarSet) (name : String) : Option Nat := vs.index[name]?

/-- `name_of`: `self.var_names[variable.0 as usize].clone()` -/
def VarSet.nameOf (vs : VarSet) (x : Nat) : Outcome String :=
  match vs.names[x]? with
  | some s => .ok s
  | none => .panic "index out of bounds"

/-- `variables` -/
def VarSet.variables (vs : VarSet) : List Nat := List.range vs.numVars

/-- `variable_names` -/
def VarSet.variableNames (vs : VarSet) : List String := vs.names.toList

def VarSet.mkTrue (vs : VarSet) : Arr := B.mkTrue vs.numVars
def VarSet.mkFalse (vs : VarSet) : Arr := B.mkFalse vs.numVars
/-- `mk_var` for a variable of the set (the `debug_assert!` is compiled out in release builds) -/
def VarSet.mkVar (vs : VarSet) (x : Nat) : Arr := B.mkVar vs.numVars x
def VarSet.mkNotVar (vs : VarSet) (x : Nat) : Arr := B.mkNotVar vs.numVars x
def VarSet.mkLiteral (vs : VarSet) (x : Nat) (b : Bool) : Arr := B.mkLiteral vs.numVars x b

/-- `mk_var_by_name`: an unknown name panics -/
def VarSet.mkVarByName (vs : VarSet) (name : String) : Outcome Arr :=
  match vs.varByName name with
  | some x => .ok (vs.mkVar x)
  | none => .panic "Variable is not known in this set."

/-- `mk_not_var_by_name` -/
def VarSet.mkNotVarByName (vs : VarSet) (name : String) : Outcome Arr :=
  match vs.varByName name with
  | some x => .ok (vs.mkNotVar x)
  | none => .panic "Variable is not known in this set."

/-! ### `Bdd::from(BddValuation)` -/

/-- the literals `(i, b_i)`, `(i+1, b_{i+1})`, … of a total valuation -/
def litsFrom : Nat → List Bool → List (Nat × Bool)
  | _, [] => []
  | i, b :: t => (i, b) :: litsFrom (i + 1) t

/-- `impl From<BddValuation> for Bdd`: starting from the `true` Bdd, for `i` from the last variable down
    to 0, push `⟨i, 0, root⟩` if the value is true and `⟨i, root, 0⟩` otherwise — `clauseArr` pushes the
    node of the LAST literal of its list first, which is this loop. -/
def valuationBdd (bs : List Bool) : Arr := clauseArr bs.length (litsFrom 0 bs)

/-! ### `mk_conjunctive_clause` and the threshold constructors -/

/-- `mk_conjunctive_clause`: iterates the cells from the last to the first; a fixed cell whose index is not
    a variable of the set trips `assert!(index < self.num_vars as usize)` -/
def mkConjunctiveClause (n : Nat) (pv : PVal) : Outcome Arr :=
  if pv.toValues.all (fun l => decide (l.1 < n)) then .ok (clauseArr n pv.toValues)
  else .panic "assertion failed: index < self.num_vars as usize"

/-- `for var in variables { valuation.set_value(*var, false) }` from the empty valuation -/
def allFalse (vars : List Nat) : PVal := vars.foldl (fun pv x => pv.set x false) []

/-- `Bdd::fused_binary_flip_op((&result, None), (&var_is_false, None), Some(var), and)` with
    `var_is_false = mk_not_var(var)` -/
def propagate (n : Nat) (result : Arr) (x : Nat) : Arr :=
  applyWithFlip result (mkNotVar n x) Gen.and_ none none (some x)

/-- the inner loop: `for var in variables { result_plus_one = result_plus_one.or(&propagate) }` -/
def satRound (n : Nat) (vars : List Nat) (result init : Arr) : Arr :=
  vars.foldl (fun acc x => applyWithFlip acc (propagate n result x) Gen.or_ none none none) init

/-- `k` rounds of the outer loop of `mk_sat_exactly_k`: every round starts from `mk_false` -/
def exactlyRounds (n : Nat) (vars : List Nat) : Nat → Arr → Arr
  | 0, r => r
  | k + 1, r => exactlyRounds n vars k (satRound n vars r (B.mkFalse n))

/-- `k` rounds of the outer loop of `mk_sat_up_to_k`: every round starts from a clone of `result` -/
def upToRounds (n : Nat) (vars : List Nat) : Nat → Arr → Arr
  | 0, r => r
  | k + 1, r => upToRounds n vars k (satRound n vars r r)

/-- `mk_sat_exactly_k(k, variables)` of a set with `n` variables -/
def mkSatExactlyK (n k : Nat) (vars : List Nat) : Outcome Arr :=
  match mkConjunctiveClause n (allFalse vars) with
  | .ok c => .ok (exactlyRounds n vars k c)
  | .err m => .err m
  | .panic m => .panic m

/-- `mk_sat_up_to_k(k, variables)` of a set with `n` variables -/
def mkSatUpToK (n k : Nat) (vars : List Nat) : Outcome Arr :=
  match mkConjunctiveClause n (allFalse vars) with
  | .ok c => .ok (upToRounds n vars k c)
  | .err m => .err m
  | .panic m => .panic m

end B.VS
