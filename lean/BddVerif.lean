import BddVerif.Core.Sim4
