//! Text forms of strings and expression trees shared by c14.rs and c15.rs.
//!
//! Strings travel percent-encoded (`enc`): printable ASCII except space, `%`, `~`, `;` is literal,
//! every other byte of the UTF-8 form is `%XX`. Expression trees travel as S-expressions without
//! spaces: `c1 c0 v(<name>) not(e) and(l,r) or(l,r) xor(l,r) imp(l,r) iff(l,r) ite(c,t,e)`, names
//! percent-encoded with everything except `[A-Za-z0-9_]` escaped.
#![allow(dead_code)]
use biodivine_lib_bdd::boolean_expression::BooleanExpression;
use biodivine_lib_bdd::boolean_expression::BooleanExpression::*;

pub fn s(x: &str) -> String { x.to_string() }

pub fn enc(x: &str) -> String {
    let mut o = String::new();
    for (i, b) in x.bytes().enumerate() {
        // a leading `=` is escaped so that a field can never start with the separator `=>`
        if (0x21..=0x7e).contains(&b) && b != b'%' && b != b'~' && b != b';' && !(i == 0 && b == b'=') { o.push(b as char); } else { o.push_str(&format!("%{:02X}", b)); }
    }
    if o.is_empty() { s("~") } else { o }
}
pub fn dec(x: &str) -> String {
    if x == "~" { return String::new(); }
    dec_raw(x)
}
pub fn dec_raw(x: &str) -> String {
    let b = x.as_bytes();
    let mut out = Vec::new();
    let mut i = 0;
    while i < b.len() {
        if b[i] == b'%' { out.push(u8::from_str_radix(&x[i + 1..i + 3], 16).unwrap()); i += 3; } else { out.push(b[i]); i += 1; }
    }
    String::from_utf8(out).expect("utf8")
}
pub fn enc_name(x: &str) -> String {
    let mut o = String::new();
    for b in x.bytes() {
        if b.is_ascii_alphanumeric() || b == b'_' { o.push(b as char); } else { o.push_str(&format!("%{:02X}", b)); }
    }
    o
}
pub fn sexp(e: &BooleanExpression) -> String {
    match e {
        Const(true) => s("c1"),
        Const(false) => s("c0"),
        Variable(n) => format!("v({})", enc_name(n)),
        Not(a) => format!("not({})", sexp(a)),
        And(a, b) => format!("and({},{})", sexp(a), sexp(b)),
        Or(a, b) => format!("or({},{})", sexp(a), sexp(b)),
        Xor(a, b) => format!("xor({},{})", sexp(a), sexp(b)),
        Imp(a, b) => format!("imp({},{})", sexp(a), sexp(b)),
        Iff(a, b) => format!("iff({},{})", sexp(a), sexp(b)),
        Cond(a, b, c) => format!("ite({},{},{})", sexp(a), sexp(b), sexp(c)),
    }
}
/// parser of the S-expression form (harness-side, trusted plumbing)
pub fn unsexp(x: &str) -> BooleanExpression {
    fn go(b: &[u8], i: &mut usize) -> BooleanExpression {
        let st = *i;
        while *i < b.len() && b[*i] != b'(' && b[*i] != b',' && b[*i] != b')' { *i += 1; }
        let head = std::str::from_utf8(&b[st..*i]).unwrap().to_string();
        if head == "c1" { return Const(true); }
        if head == "c0" { return Const(false); }
        assert!(b[*i] == b'(', "sexp");
        *i += 1;
        if head == "v" {
            let st = *i;
            while b[*i] != b')' { *i += 1; }
            let name = dec_raw(std::str::from_utf8(&b[st..*i]).unwrap());
            *i += 1;
            return Variable(name);
        }
        let mut args = vec![];
        loop {
            args.push(go(b, i));
            if b[*i] == b',' { *i += 1; continue; }
            assert!(b[*i] == b')');
            *i += 1;
            break;
        }
        let mut it = args.into_iter();
        let mut nx = || Box::new(it.next().unwrap());
        match head.as_str() {
            "not" => Not(nx()),
            "and" => And(nx(), nx()),
            "or" => Or(nx(), nx()),
            "xor" => Xor(nx(), nx()),
            "imp" => Imp(nx(), nx()),
            "iff" => Iff(nx(), nx()),
            "ite" => Cond(nx(), nx(), nx()),
            _ => panic!("sexp head {}", head),
        }
    }
    let mut i = 0;
    go(x.as_bytes(), &mut i)
}


/// characters whose LOW BYTE is one of the 11 reserved characters or a whitespace/control byte, in several
/// planes; only valid scalars that are not whitespace (std's `char::is_whitespace`) are returned
pub fn low_byte_chars() -> Vec<char> {
    let mut lows: Vec<u32> = "!&|^=<>()?:".chars().map(|c| c as u32).collect();
    lows.extend_from_slice(&[0x09, 0x0a, 0x0b, 0x0c, 0x0d, 0x20, 0x85, 0xa0, 0x00, 0x1c, 0x1f, 0x7f]);
    let mut out = vec![];
    for base in [0x100u32, 0x200, 0x1f00, 0xff00, 0x10000, 0x1f600, 0xe0100, 0x10ff00] {
        for lb in &lows {
            if let Some(c) = char::from_u32(base + lb) { if !c.is_whitespace() { out.push(c); } }
        }
    }
    out
}
