//! Correspondence harness: drives the real library (path dependency on /repo, rebuilt from the
//! working tree on every run) and writes one observation per line for the Lean driver.
//! usage: harness gen <PROP> <quick|thorough> <seed> <out-file>
//!        harness replay <case line…>   (re-runs one case, prints the fresh observation line)
mod common;
mod c01;

use common::*;

fn main() {
    std::panic::set_hook(Box::new(|_| {})); // panics are outcomes, not noise
    let args: Vec<String> = std::env::args().collect();
    if args.len() >= 6 && args[1] == "gen" {
        let tier = if args[3] == "thorough" { Tier::Thorough } else { Tier::Quick };
        let seed: u64 = args[4].parse().expect("seed");
        let cap: u64 = std::env::var("VERIF_CASE_CAP").ok().and_then(|s| s.parse().ok()).unwrap_or(u64::MAX);
        let mut out = Out::new(&args[5], cap);
        let mut rng = Rng64(seed ^ 0x5DEECE66D);
        // minimised past failures run first
        if let Ok(path) = std::env::var("VERIF_CORPUS") {
            if let Ok(text) = std::fs::read_to_string(&path) {
                for line in text.lines() {
                    let line = line.trim();
                    if line.is_empty() || line.starts_with('#') { continue; }
                    let inputs: Vec<String> = line.split(" =>").next().unwrap().split(' ').map(|s| s.to_string()).collect();
                    replay(&inputs, &mut out);
                }
            }
        }
        dispatch(&args[2], tier, &mut rng, &mut out);
        let n = out.finish();
        println!("cases {}", n);
    } else if args.len() >= 3 && args[1] == "replay" {
        // the case line is given as one argument; only the inputs (before `=>`) are used
        let line = args[2..].join(" ");
        let inputs: Vec<String> = line.split(" =>").next().unwrap().split(' ').map(|s| s.to_string()).collect();
        let mut out = Out::new("/dev/stdout", u64::MAX);
        replay(&inputs, &mut out);
        out.finish();
    } else {
        eprintln!("usage: harness gen <PROP> <quick|thorough> <seed> <out-file> | harness replay <line>");
        std::process::exit(2);
    }
}

fn dispatch(prop: &str, tier: Tier, rng: &mut Rng64, out: &mut Out) {
    match prop {
        "C01" => c01::gen(tier, rng, out),
        _ => { eprintln!("unknown property {}", prop); std::process::exit(2); }
    }
}

fn replay(inputs: &[String], out: &mut Out) {
    let key = inputs[0].as_str();
    let args = &inputs[1..];
    let prop = &key[..3];
    match prop {
        "C01" => c01::run(key, args, out),
        _ => { eprintln!("unknown key {}", key); std::process::exit(2); }
    }
}
