//! Shared by c12.rs / c13.rs: scripted `Read`/`Write` implementations (the REAL std helper loops
//! `read_exact`, `read_to_string`, `write_all`, `write_fmt` run against them), hex fields, raw triples.
#![allow(dead_code)]
use biodivine_lib_bdd::*;
use std::io::{self, ErrorKind, Read, Write};

#[derive(Clone, Copy, Debug, PartialEq, Eq)]
pub enum Ev { Give(usize), Intr, Fail }

/// `g3.i.g1.e` = give at most 3 bytes, Interrupted, give at most 1, hard error; `~` = empty script
pub fn parse_script(s: &str) -> Vec<Ev> {
    if s == "~" || s.is_empty() { return vec![]; }
    s.split('.').map(|t| match t {
        "i" => Ev::Intr,
        "e" => Ev::Fail,
        _ => Ev::Give(t[1..].parse().expect("script event")),
    }).collect()
}
pub fn fmt_script(s: &[Ev]) -> String {
    if s.is_empty() { return "~".to_string(); }
    s.iter().map(|e| match e { Ev::Give(k) => format!("g{}", k), Ev::Intr => "i".to_string(), Ev::Fail => "e".to_string() }).collect::<Vec<_>>().join(".")
}

/// A reader that follows a script; after the script is exhausted it hands out everything asked for.
/// Only `read` is implemented, so `read_exact`/`read_to_string`/`read_buf` are std's defaults.
pub struct SReader { pub data: Vec<u8>, pub pos: usize, pub script: Vec<Ev>, pub sp: usize, pub wants: Vec<usize> }
impl SReader {
    pub fn new(data: &[u8], script: &[Ev]) -> SReader { SReader { data: data.to_vec(), pos: 0, script: script.to_vec(), sp: 0, wants: vec![] } }
}
impl Read for SReader {
    fn read(&mut self, buf: &mut [u8]) -> io::Result<usize> {
        self.wants.push(buf.len());
        let rem = self.data.len() - self.pos;
        let n = if self.sp < self.script.len() {
            let ev = self.script[self.sp];
            self.sp += 1;
            match ev {
                Ev::Give(k) => k.min(buf.len()).min(rem),
                Ev::Intr => return Err(io::Error::new(ErrorKind::Interrupted, "scripted interruption")),
                Ev::Fail => return Err(io::Error::new(ErrorKind::Other, "scripted failure")),
            }
        } else { buf.len().min(rem) };
        buf[..n].copy_from_slice(&self.data[self.pos..self.pos + n]);
        self.pos += n;
        Ok(n)
    }
}

/// A writer that follows a script (partial writes, interruptions, a hard error); only `write`/`flush`.
pub struct SWriter { pub out: Vec<u8>, pub script: Vec<Ev>, pub sp: usize, pub flushes: usize }
impl SWriter {
    pub fn new(script: &[Ev]) -> SWriter { SWriter { out: vec![], script: script.to_vec(), sp: 0, flushes: 0 } }
}
impl Write for SWriter {
    fn write(&mut self, buf: &[u8]) -> io::Result<usize> {
        let n = if self.sp < self.script.len() {
            let ev = self.script[self.sp];
            self.sp += 1;
            match ev {
                Ev::Give(k) => k.min(buf.len()),
                Ev::Intr => return Err(io::Error::new(ErrorKind::Interrupted, "scripted interruption")),
                Ev::Fail => return Err(io::Error::new(ErrorKind::Other, "scripted failure")),
            }
        } else { buf.len() };
        self.out.extend_from_slice(&buf[..n]);
        Ok(n)
    }
    fn flush(&mut self) -> io::Result<()> { self.flushes += 1; Ok(()) }
}

pub fn hex(bytes: &[u8]) -> String {
    if bytes.is_empty() { return "~".to_string(); }
    let mut s = String::with_capacity(bytes.len() * 2);
    for b in bytes { s.push_str(&format!("{:02x}", b)); }
    s
}
pub fn unhex(s: &str) -> Vec<u8> {
    if s == "~" { return vec![]; }
    let c: Vec<u8> = s.bytes().collect();
    (0..c.len() / 2).map(|i| u8::from_str_radix(std::str::from_utf8(&c[2 * i..2 * i + 2]).unwrap(), 16).unwrap()).collect()
}
pub fn fnv(bytes: &[u8]) -> u64 {
    let mut h: u64 = 0xcbf29ce484222325;
    for b in bytes { h ^= *b as u64; h = h.wrapping_mul(0x100000001b3); }
    h
}
pub fn fmt_list(v: &[usize]) -> String {
    if v.is_empty() { "~".to_string() } else { v.iter().map(|x| x.to_string()).collect::<Vec<_>>().join(",") }
}

/// the harness's own reader of its own text form (never the library's): `|v,l,h|…|`
pub fn parse_triples(s: &str) -> Vec<(u64, u64, u64)> {
    s.split('|').filter(|p| !p.is_empty()).map(|p| {
        let f: Vec<u64> = p.split(',').map(|x| x.parse().expect("triple field")).collect();
        assert!(f.len() == 3);
        (f[0], f[1], f[2])
    }).collect()
}
pub fn fmt_triples64(t: &[(u64, u64, u64)]) -> String {
    let mut s = String::from("|");
    for (v, l, h) in t { s.push_str(&format!("{},{},{}|", v, l, h)); }
    s
}
pub fn nodes_of(t: &[(u64, u64, u64)]) -> Vec<BddNode> {
    t.iter().map(|(v, l, h)| BddNode::mk_node(BddVariable::from_index(*v as usize), BddPointer::from_index(*l as usize), BddPointer::from_index(*h as usize))).collect()
}
pub fn triples_of(b: &Bdd) -> Vec<(u64, u64, u64)> {
    b.clone().to_nodes().iter().map(|n| (n.var.to_index() as u64, n.low_link.to_index() as u64, n.high_link.to_index() as u64)).collect()
}
/// A `Bdd` value with exactly these nodes. There is no unchecked public constructor, so this goes
/// through `from_nodes` (checked) or, for arrays it refuses, through the text reader; the caller
/// verifies with `triples_of` that nothing was altered.
pub fn bdd_exact(t: &[(u64, u64, u64)]) -> Option<Bdd> {
    let b = match Bdd::from_nodes(&nodes_of(t)) {
        Ok(b) => b,
        Err(_) => Bdd::read_as_string(&mut fmt_triples64(t).as_bytes()).ok()?,
    };
    if triples_of(&b) == t { Some(b) } else { None }
}

/// a text produced by the library as ONE field of a case line: verbatim if it is non-empty printable ASCII without
/// blanks (the normal case), otherwise `x:` + hex (a writer that lays its text out in lines must not break the line protocol)
pub fn text_field(t: &str) -> String {
    if !t.is_empty() && t.bytes().all(|b| b > 0x20 && b < 0x7f) && !t.starts_with("x:") { t.to_string() } else { format!("x:{}", hex(t.as_bytes())) }
}
