//! Shared helpers of the correspondence harness: PRNG, case writer, oracle builder, formatting.
#![allow(dead_code)]
use biodivine_lib_bdd::*;
use std::collections::HashMap;
use std::fs::File;
use std::io::{BufWriter, Write};
use std::panic::{catch_unwind, AssertUnwindSafe};

/// SplitMix64: every random choice of the harness derives from one state (VERIF_SEED).
#[derive(Clone)]
pub struct Rng64(pub u64);
impl Rng64 {
    pub fn next(&mut self) -> u64 {
        self.0 = self.0.wrapping_add(0x9E3779B97F4A7C15);
        let mut z = self.0;
        z = (z ^ (z >> 30)).wrapping_mul(0xBF58476D1CE4E5B9);
        z = (z ^ (z >> 27)).wrapping_mul(0x94D049BB133111EB);
        z ^ (z >> 31)
    }
    pub fn below(&mut self, n: u64) -> u64 {
        if n == 0 { 0 } else { self.next() % n }
    }
    pub fn bool(&mut self) -> bool {
        self.next() & 1 == 1
    }
    pub fn chance(&mut self, num: u64, den: u64) -> bool {
        self.below(den) < num
    }
    pub fn pick<'a, T>(&mut self, xs: &'a [T]) -> &'a T {
        &xs[self.below(xs.len() as u64) as usize]
    }
}

/// `rand::RngCore` fed from a recorded list of coin flips, so that the Lean model can be given
/// the very same flips. `gen_bool(0.5)` in rand 0.8 draws one `u64` and compares it with 2^63:
/// we return `0` for `true` and `u64::MAX` for `false`.
pub struct CoinRng {
    pub flips: Vec<bool>,
    pub pos: usize,
}
impl CoinRng {
    pub fn new(flips: Vec<bool>) -> CoinRng { CoinRng { flips, pos: 0 } }
    fn coin(&mut self) -> bool {
        let b = if self.pos < self.flips.len() { self.flips[self.pos] } else { false };
        self.pos += 1;
        b
    }
}
impl rand::RngCore for CoinRng {
    fn next_u32(&mut self) -> u32 { if self.coin() { 0 } else { u32::MAX } }
    fn next_u64(&mut self) -> u64 { if self.coin() { 0 } else { u64::MAX } }
    fn fill_bytes(&mut self, dest: &mut [u8]) {
        let v = if self.coin() { 0u8 } else { 0xFF };
        for d in dest.iter_mut() { *d = v; }
    }
    fn try_fill_bytes(&mut self, dest: &mut [u8]) -> Result<(), rand::Error> {
        self.fill_bytes(dest);
        Ok(())
    }
}

#[derive(Clone, Copy, PartialEq, Eq)]
pub enum Tier { Quick, Thorough }

pub struct Out {
    w: BufWriter<File>,
    pub count: u64,
    pub cap: u64,
}

/// The case being executed right now (set by `Out::begin`, cleared by `Out::case`). A watchdog
/// thread turns a case that runs longer than VERIF_CASE_TIMEOUT seconds (default 120) into the
/// outcome `hang`: it writes the inputs to `<case file>.hang` and ends the process with status 3,
/// so that a change which makes the library loop forever is reported with its input instead of
/// hanging the check.
static CURRENT: std::sync::Mutex<Option<(String, std::time::Instant)>> = std::sync::Mutex::new(None);

pub fn start_watchdog(case_file: &str) {
    let hang_file = format!("{}.hang", case_file);
    let _ = std::fs::remove_file(&hang_file);
    let limit: u64 = std::env::var("VERIF_CASE_TIMEOUT").ok().and_then(|s| s.parse().ok()).unwrap_or(120);
    std::thread::spawn(move || loop {
        std::thread::sleep(std::time::Duration::from_millis(500));
        let cur = CURRENT.lock().map(|g| g.clone()).unwrap_or(None);
        if let Some((line, since)) = cur {
            if since.elapsed().as_secs() >= limit {
                let _ = std::fs::write(&hang_file, format!("{}\n", line));
                std::process::exit(3);
            }
        }
    });
}
impl Out {
    pub fn new(path: &str, cap: u64) -> Out {
        Out { w: BufWriter::new(File::create(path).expect("cannot create case file")), count: 0, cap }
    }
    /// announces the case that is about to be executed (first statement of every `run`)
    pub fn begin(&mut self, key: &str, inputs: &[String]) {
        let mut line = String::from(key);
        for i in inputs { line.push(' '); line.push_str(if i.is_empty() { "~" } else { i }); }
        if let Ok(mut g) = CURRENT.lock() { *g = Some((line, std::time::Instant::now())); }
    }
    /// one case = one line: `<key> <inputs…> => <observed…>`
    pub fn case(&mut self, key: &str, inputs: &[String], observed: &[String]) {
        if let Ok(mut g) = CURRENT.lock() { *g = None; }
        let mut line = String::from(key);
        for i in inputs { line.push(' '); line.push_str(if i.is_empty() { "~" } else { i }); }
        line.push_str(" =>");
        for o in observed { line.push(' '); line.push_str(if o.is_empty() { "~" } else { o }); }
        debug_assert!(!line.contains('\n'));
        writeln!(self.w, "{}", line).unwrap();
        self.count += 1;
    }
    pub fn full(&self) -> bool { self.count >= self.cap }
    pub fn finish(mut self) -> u64 { self.w.flush().unwrap(); self.count }
}

/// run `f`, mapping a panic to `None`
pub fn catch<T>(f: impl FnOnce() -> T) -> Option<T> {
    catch_unwind(AssertUnwindSafe(f)).ok()
}

pub fn var(i: usize) -> BddVariable { BddVariable::from_index(i) }

/// text form written by the harness itself (not through the library's serializer)
pub fn fmt_bdd(b: &Bdd) -> String {
    let mut s = String::from("|");
    for n in b.clone().to_nodes() {
        s.push_str(&format!("{},{},{}|", n.var.to_index(), n.low_link.to_index(), n.high_link.to_index()));
    }
    s
}
pub fn fmt_opt_bdd(b: &Option<Bdd>) -> String {
    match b { Some(b) => fmt_bdd(b), None => "none".to_string() }
}
pub fn fmt_res_bdd(b: &Option<Bdd>) -> String {
    match b { Some(b) => fmt_bdd(b), None => "panic".to_string() }
}
pub fn fmt_optvar(v: Option<usize>) -> String {
    match v { Some(v) => v.to_string(), None => "-".to_string() }
}
pub fn fmt_bools(v: &[bool]) -> String {
    if v.is_empty() { "~".to_string() } else { v.iter().map(|b| if *b { '1' } else { '0' }).collect() }
}
pub fn fmt_valuation(v: &BddValuation) -> String { fmt_bools(&v.clone().vector()) }
pub fn fmt_partial(p: &BddPartialValuation, n: usize) -> String {
    // `01-` string over n variables; variables >= n that are set are appended as `;idx=val`
    let mut s: String = (0..n).map(|i| match p.get_value(var(i)) { Some(true) => '1', Some(false) => '0', None => '-' }).collect();
    if s.is_empty() { s.push('~'); }
    for (v, b) in p.to_values() {
        if v.to_index() >= n { s.push_str(&format!(";{}={}", v.to_index(), if b { 1 } else { 0 })); }
    }
    s
}
pub fn fmt_usizes(v: &[usize]) -> String {
    if v.is_empty() { "~".to_string() } else { v.iter().map(|x| x.to_string()).collect::<Vec<_>>().join(",") }
}

/// raw node triples -> Bdd without any check (through the crate's own text reader would go
/// through code under test; `from_nodes` is also code under test but does not alter the data)
pub fn bdd_from_triples(nodes: &[(usize, usize, usize)]) -> Bdd {
    let data: Vec<BddNode> = nodes.iter().map(|(v, l, h)| BddNode::mk_node(var(*v), BddPointer::from_index(*l), BddPointer::from_index(*h))).collect();
    match Bdd::from_nodes(&data) {
        Ok(b) => b,
        Err(_) => Bdd::from_string(&fmt_triples(nodes)),
    }
}
pub fn fmt_triples(nodes: &[(usize, usize, usize)]) -> String {
    let mut s = String::from("|");
    for (v, l, h) in nodes { s.push_str(&format!("{},{},{}|", v, l, h)); }
    s
}

/// Truth tables: `tt[i]` is the value at the valuation whose variable k has value bit (n-1-k) of i
/// (variable 0 is the most significant bit).
pub type TT = Vec<bool>;
pub fn tt_from_index(n: usize, t: u64) -> TT { (0..(1usize << n)).map(|i| (t >> i) & 1 == 1).collect() }
pub fn val_of_index(n: usize, i: usize) -> Vec<bool> { (0..n).map(|k| (i >> (n - 1 - k)) & 1 == 1).collect() }

/// Oracle builder, independent of the library: reduced ordered diagram of a truth table laid out
/// in DFS post-order taking the HIGH child first.
pub fn canon_triples(n: usize, tt: &[bool]) -> Vec<(usize, usize, usize)> {
    fn go(n: usize, k: usize, tt: &[bool], nodes: &mut Vec<(usize, usize, usize)>, idx: &mut HashMap<(usize, usize, usize), usize>) -> usize {
        if tt.iter().all(|b| !*b) { return 0; }
        if tt.iter().all(|b| *b) { return 1; }
        let half = tt.len() / 2;
        let hi = go(n, k + 1, &tt[half..], nodes, idx);
        let lo = go(n, k + 1, &tt[..half], nodes, idx);
        if hi == lo { return lo; }
        let key = (k, lo, hi);
        if let Some(i) = idx.get(&key) { return *i; }
        nodes.push(key);
        idx.insert(key, nodes.len() - 1);
        nodes.len() - 1
    }
    let mut nodes = vec![(n, 0, 0), (n, 1, 1)];
    let mut idx = HashMap::new();
    let r = go(n, 0, tt, &mut nodes, &mut idx);
    if r == 0 { nodes.truncate(1); }
    nodes
}
pub fn bdd_of_tt(n: usize, tt: &[bool]) -> Bdd { bdd_from_triples(&canon_triples(n, tt)) }

/// truth table of a Bdd by the library's own `eval_in` (used by generators only, never as the oracle)
pub fn tt_of_bdd(b: &Bdd) -> TT {
    let n = b.num_vars() as usize;
    (0..(1usize << n)).map(|i| b.eval_in(&BddValuation::new(val_of_index(n, i)))).collect()
}

/// Random truth table with a density class (uniform tables rarely share sub-diagrams).
pub fn random_tt(rng: &mut Rng64, n: usize) -> TT {
    let size = 1usize << n;
    match rng.below(6) {
        0 => (0..size).map(|_| rng.bool()).collect(),
        1 => (0..size).map(|_| rng.chance(1, 8)).collect(),
        2 => (0..size).map(|_| rng.chance(7, 8)).collect(),
        3 => {
            // function of a random subset of variables (skips levels)
            let mask: usize = (rng.next() as usize) & (size - 1) & ((1usize << n) - 1);
            let keep: usize = rng.next() as usize & ((1 << n) - 1);
            let _ = mask;
            let inner: Vec<bool> = (0..size).map(|_| rng.bool()).collect();
            (0..size).map(|i| inner[i & keep]).collect()
        }
        4 => {
            // threshold / parity style
            let k = rng.below(n as u64 + 1) as u32;
            let parity = rng.bool();
            (0..size).map(|i| if parity { (i.count_ones() % 2 == 1) ^ (k % 2 == 0) } else { (i as u32).count_ones() >= k }).collect()
        }
        _ => {
            // combination of two cubes
            let m1 = rng.next() as usize & (size - 1); let v1 = rng.next() as usize & m1;
            let m2 = rng.next() as usize & (size - 1); let v2 = rng.next() as usize & m2;
            let neg = rng.bool();
            (0..size).map(|i| ((i & m1) == v1 || (i & m2) == v2) ^ neg).collect()
        }
    }
}
pub fn random_bdd(rng: &mut Rng64, n: usize) -> Bdd { let tt = random_tt(rng, n); bdd_of_tt(n, &tt) }

/// A valid but non-canonical diagram with the same function: duplicated nodes, a redundant test,
/// unreachable nodes, non-post-order numbering.
pub fn noncanon_variant(rng: &mut Rng64, b: &Bdd) -> Bdd {
    let n = b.num_vars() as usize;
    let mut nodes: Vec<(usize, usize, usize)> = b.clone().to_nodes().iter().map(|x| (x.var.to_index(), x.low_link.to_index(), x.high_link.to_index())).collect();
    if nodes.len() < 3 { return b.clone(); }
    let root = nodes.len() - 1;
    match rng.below(4) {
        0 => {
            // duplicate an inner node and redirect the root's low link to the copy if it pointed there
            let i = 2 + rng.below((nodes.len() - 2) as u64) as usize;
            let copy = nodes[i];
            let r = nodes.pop().unwrap();
            nodes.push(copy);
            let ci = nodes.len() - 1;
            let r2 = (r.0, if r.1 == i { ci } else { r.1 }, r.2);
            nodes.push(r2);
        }
        1 => {
            // unreachable garbage node before the root
            let r = nodes.pop().unwrap();
            let v = rng.below(n as u64) as usize;
            nodes.push((v, 0, 1));
            nodes.push(r);
        }
        2 => {
            // redundant test: a node above the terminals with both links equal, used by nobody's semantics
            let r = nodes[root];
            if r.0 > 0 {
                nodes.push((r.0 - 1, root, root));
            }
        }
        _ => {
            // reverse the numbering of inner nodes except the root (breaks post-order, keeps levels)
            let inner = nodes.len() - 3;
            if inner >= 2 {
                let perm = |i: usize| if i < 2 || i == root { i } else { 2 + (inner - 1 - (i - 2)) };
                let mut out = nodes.clone();
                for i in 2..root { out[perm(i)] = (nodes[i].0, perm(nodes[i].1), perm(nodes[i].2)); }
                out[root] = (nodes[root].0, perm(nodes[root].1), perm(nodes[root].2));
                nodes = out;
            }
        }
    }
    bdd_from_triples(&nodes)
}

/// partial operator tables as 9 characters over `T`, `F`, `-`: index 3*l + r with None=0, false=1, true=2
pub fn table_fn(table: &str) -> impl Fn(Option<bool>, Option<bool>) -> Option<bool> + Clone {
    let t: Vec<char> = table.chars().collect();
    move |l, r| {
        let ix = |x: Option<bool>| match x { None => 0, Some(false) => 1, Some(true) => 2 };
        match t[3 * ix(l) + ix(r)] { 'T' => Some(true), 'F' => Some(false), _ => None }
    }
}
/// 27 characters, index 9*a + 3*b + c
pub fn table3_fn(table: &str) -> impl Fn(Option<bool>, Option<bool>, Option<bool>) -> Option<bool> + Clone {
    let t: Vec<char> = table.chars().collect();
    move |a, b, c| {
        let ix = |x: Option<bool>| match x { None => 0, Some(false) => 1, Some(true) => 2 };
        match t[9 * ix(a) + 3 * ix(b) + ix(c)] { 'T' => Some(true), 'F' => Some(false), _ => None }
    }
}
fn opts() -> [Option<bool>; 3] { [None, Some(false), Some(true)] }
fn completions(x: Option<bool>) -> Vec<bool> { match x { Some(b) => vec![b], None => vec![false, true] } }
/// connective c: 4 bits, bit (2*a + b) is the value at (a, b)
pub fn conn2(c: u32, a: bool, b: bool) -> bool { (c >> (2 * (a as u32) + (b as u32))) & 1 == 1 }
pub fn conn3(c: u32, a: bool, b: bool, d: bool) -> bool { (c >> (4 * (a as u32) + 2 * (b as u32) + (d as u32))) & 1 == 1 }
/// the fully eager table (answers whenever all completions agree) and the fully lazy one
pub fn eager_table2(c: u32) -> String {
    let mut s = String::new();
    for l in opts() { for r in opts() {
        let vals: Vec<bool> = completions(l).iter().flat_map(|a| completions(r).into_iter().map(move |b| conn2(c, *a, b))).collect();
        s.push(if vals.iter().all(|v| *v) { 'T' } else if vals.iter().all(|v| !*v) { 'F' } else { '-' });
    } }
    s
}
pub fn lazy_table2(c: u32) -> String {
    let mut s = String::new();
    for l in opts() { for r in opts() {
        s.push(match (l, r) { (Some(a), Some(b)) => if conn2(c, a, b) { 'T' } else { 'F' }, _ => '-' });
    } }
    s
}
/// a random consistent table between lazy and eager
pub fn random_table2(rng: &mut Rng64, c: u32) -> String {
    let e: Vec<char> = eager_table2(c).chars().collect();
    let l: Vec<char> = lazy_table2(c).chars().collect();
    (0..9).map(|i| if l[i] != '-' { l[i] } else if rng.bool() { e[i] } else { '-' }).collect()
}
pub fn eager_table3(c: u32) -> String {
    let mut s = String::new();
    for x in opts() { for y in opts() { for z in opts() {
        let mut vals = vec![];
        for a in completions(x) { for b in completions(y) { for d in completions(z) { vals.push(conn3(c, a, b, d)); } } }
        s.push(if vals.iter().all(|v| *v) { 'T' } else if vals.iter().all(|v| !*v) { 'F' } else { '-' });
    } } }
    s
}
pub fn lazy_table3(c: u32) -> String {
    let mut s = String::new();
    for x in opts() { for y in opts() { for z in opts() {
        s.push(match (x, y, z) { (Some(a), Some(b), Some(d)) => if conn3(c, a, b, d) { 'T' } else { 'F' }, _ => '-' });
    } } }
    s
}
pub fn random_table3(rng: &mut Rng64, c: u32) -> String {
    let e: Vec<char> = eager_table3(c).chars().collect();
    let l: Vec<char> = lazy_table3(c).chars().collect();
    (0..27).map(|i| if l[i] != '-' { l[i] } else if rng.bool() { e[i] } else { '-' }).collect()
}
/// the table of a Rust closure, sampled on all 9 inputs (ties the built-in tables to the generated Lean ones)
pub fn sample_table2(f: impl Fn(Option<bool>, Option<bool>) -> Option<bool>) -> String {
    let mut s = String::new();
    for l in opts() { for r in opts() { s.push(match f(l, r) { Some(true) => 'T', Some(false) => 'F', None => '-' }); } }
    s
}

/// Entry point shared by the per-property binaries `src/bin/cNN.rs`.
/// usage: cNN gen <quick|thorough> <seed> <out-file>      (env VERIF_CORPUS, VERIF_CASE_CAP)
///        cNN replay <case line…>                          (re-runs one case, prints the fresh line)
pub fn harness_main(gen: fn(Tier, &mut Rng64, &mut Out), run: fn(&str, &[String], &mut Out)) {
    std::panic::set_hook(Box::new(|_| {})); // panics are outcomes, not noise
    let args: Vec<String> = std::env::args().collect();
    if args.len() >= 5 && args[1] == "gen" {
        let tier = if args[2] == "thorough" { Tier::Thorough } else { Tier::Quick };
        let seed: u64 = args[3].parse().expect("seed");
        let cap: u64 = std::env::var("VERIF_CASE_CAP").ok().and_then(|s| s.parse().ok()).unwrap_or(u64::MAX);
        let mut out = Out::new(&args[4], cap);
        start_watchdog(&args[4]);
        let mut rng = Rng64(seed ^ 0x5DEECE66D);
        // minimised past failures run first
        if let Ok(path) = std::env::var("VERIF_CORPUS") {
            if let Ok(text) = std::fs::read_to_string(&path) {
                for line in text.lines() {
                    let line = line.trim();
                    if line.is_empty() || line.starts_with('#') { continue; }
                    let inputs = split_inputs(line);
                    run(&inputs[0], &inputs[1..], &mut out);
                }
            }
        }
        gen(tier, &mut rng, &mut out);
        let n = out.finish();
        println!("cases {}", n);
    } else if args.len() >= 3 && args[1] == "replay" {
        let line = args[2..].join(" ");
        let inputs = split_inputs(&line);
        let mut out = Out::new("/dev/stdout", u64::MAX);
        run(&inputs[0], &inputs[1..], &mut out);
        out.finish();
    } else {
        eprintln!("usage: gen <quick|thorough> <seed> <out-file> | replay <case line>");
        std::process::exit(2);
    }
}
/// the input part of a case line (everything before ` =>`), split into fields
pub fn split_inputs(line: &str) -> Vec<String> {
    line.split(" =>").next().unwrap().split(' ').filter(|s| !s.is_empty()).map(|s| s.to_string()).collect()
}
