//! C15: expressions, the `bdd!` macro and Bdd-to-expression export denote the same function.
#[path = "../common.rs"]
mod common;
#[path = "../exprio.rs"]
mod exprio;
use biodivine_lib_bdd::boolean_expression::BooleanExpression;
use biodivine_lib_bdd::boolean_expression::BooleanExpression::*;
use biodivine_lib_bdd::*;
use common::*;
use exprio::*;
use std::convert::TryFrom;

/// names field: percent-encoded names joined by `,`; `~` = no variable
fn names_field(names: &[String]) -> String {
    if names.is_empty() { s("~") } else { names.iter().map(|n| enc_name(n)).collect::<Vec<_>>().join(",") }
}
fn parse_names(x: &str) -> Vec<String> {
    if x == "~" { vec![] } else { x.split(',').map(dec_raw).collect() }
}
/// `BddVariableSet::new` under `catch`: legal names must be accepted; a panic is the observation `newpanic`
fn var_set_or(names: &[String], key: &str, a: &[String], arity: usize, out: &mut Out) -> Option<BddVariableSet> {
    match catch(|| var_set(names)) {
        Some(v) => Some(v),
        None => { let mut obs = vec![s("newpanic")]; while obs.len() < arity { obs.push(s("-")); } out.case(key, a, &obs); None }
    }
}
fn var_set(names: &[String]) -> BddVariableSet {
    let refs: Vec<&str> = names.iter().map(|x| x.as_str()).collect();
    BddVariableSet::new(&refs)
}

/// the fixed list of macro invocations next to the equivalent method chains:
/// (meaning as an S-expression over a, b, c; value of the macro form; value of the method chain)
fn macro_case(idx: usize) -> Option<(&'static str, Bdd, Bdd)> {
    let mut builder = BddVariableSetBuilder::new();
    let [a, b, c] = builder.make(&["a", "b", "c"]);
    let vars = builder.build();
    let (ba, bb, bc) = (vars.mk_var(a), vars.mk_var(b), vars.mk_var(c));
    let (ra, rb, rc) = (&ba, &bb, &bc);
    let _ = (ra, rb, rc);
    Some(match idx {
        // ---- with a variable set: BddVariable, &str and Bdd atoms
        0 => ("v(a)", bdd!(vars, a), vars.mk_var(a)),
        1 => ("v(b)", bdd!(vars, "b"), vars.mk_var_by_name("b")),
        2 => ("not(v(a))", bdd!(vars, !a), vars.mk_var(a).not()),
        3 => ("and(v(a),v(b))", bdd!(vars, a & b), vars.mk_var(a).and(&vars.mk_var(b))),
        4 => ("or(v(a),v(b))", bdd!(vars, a | b), vars.mk_var(a).or(&vars.mk_var(b))),
        5 => ("iff(v(a),v(b))", bdd!(vars, a <=> b), vars.mk_var(a).iff(&vars.mk_var(b))),
        6 => ("imp(v(a),v(b))", bdd!(vars, a => b), vars.mk_var(a).imp(&vars.mk_var(b))),
        7 => ("xor(v(a),v(b))", bdd!(vars, a ^ b), vars.mk_var(a).xor(&vars.mk_var(b))),
        8 => ("imp(v(b),v(a))", bdd!(vars, b => a), vars.mk_var(b).imp(&vars.mk_var(a))),
        9 => ("not(v(c))", bdd!(vars, !"c"), vars.mk_var_by_name("c").not()),
        10 => ("and(v(a),v(c))", bdd!(vars, "a" & "c"), vars.mk_var_by_name("a").and(&vars.mk_var_by_name("c"))),
        11 => ("or(and(v(a),v(b)),v(c))", bdd!(vars, (a & b) | c), vars.mk_var(a).and(&vars.mk_var(b)).or(&vars.mk_var(c))),
        12 => ("and(v(a),or(v(b),v(c)))", bdd!(vars, a & (b | c)), vars.mk_var(a).and(&vars.mk_var(b).or(&vars.mk_var(c)))),
        13 => ("imp(not(v(a)),xor(v(b),v(c)))", bdd!(vars, (!a) => ("b" ^ c)), vars.mk_var(a).not().imp(&vars.mk_var(b).xor(&vars.mk_var(c)))),
        14 => ("and(v(a),imp(not(v(b)),xor(v(c),v(a))))", bdd!(vars, a & ((!"b") => ("c" ^ a))),
               vars.mk_var(a).and(&vars.mk_var(b).not().imp(&vars.mk_var(c).xor(&vars.mk_var(a))))),
        15 => ("and(or(v(b),xor(v(a),v(c))),v(a))", bdd!(vars, (b | ("a" ^ c)) & "a"),
               vars.mk_var(b).or(&vars.mk_var(a).xor(&vars.mk_var(c))).and(&vars.mk_var(a))),
        16 => ("v(a)", bdd!(vars, ((a))), vars.mk_var(a)),
        17 => ("not(not(v(a)))", bdd!(vars, !(!a)), vars.mk_var(a).not().not()),
        18 => ("or(iff(v(a),not(v(b))),xor(v(c),v(a)))", bdd!(vars, (a <=> (!b)) | (c ^ a)),
               vars.mk_var(a).iff(&vars.mk_var(b).not()).or(&vars.mk_var(c).xor(&vars.mk_var(a)))),
        19 => ("or(iff(v(a),not(v(b))),xor(v(c),v(a)))", bdd!(vars, ("a" <=> (!"b")) | ("c" ^ "a")),
               vars.mk_var(a).iff(&vars.mk_var(b).not()).or(&vars.mk_var(c).xor(&vars.mk_var(a)))),
        20 => ("and(v(a),v(b))", bdd!(vars, ra & b), ba.and(&bb)),
        21 => ("iff(imp(v(a),v(b)),imp(not(v(b)),not(v(a))))", bdd!(vars, (a => b) <=> ((!b) => (!a))),
               vars.mk_var(a).imp(&vars.mk_var(b)).iff(&vars.mk_var(b).not().imp(&vars.mk_var(a).not()))),
        22 => ("xor(xor(v(a),v(b)),v(c))", bdd!(vars, (a ^ b) ^ c), vars.mk_var(a).xor(&vars.mk_var(b)).xor(&vars.mk_var(c))),
        23 => ("imp(v(a),imp(v(b),v(c)))", bdd!(vars, a => (b => c)), vars.mk_var(a).imp(&vars.mk_var(b).imp(&vars.mk_var(c)))),
        // ---- without a variable set: Bdd objects only
        24 => ("v(a)", { let x = ba.clone(); bdd!(x) }, ba.clone()),
        25 => ("not(v(a))", bdd!(!ba), ba.not()),
        26 => ("and(v(a),v(b))", bdd!(ba & bb), ba.and(&bb)),
        27 => ("or(v(a),v(b))", bdd!(ba | bb), ba.or(&bb)),
        28 => ("iff(v(a),v(b))", bdd!(ba <=> bb), ba.iff(&bb)),
        29 => ("imp(v(a),v(b))", bdd!(ba => bb), ba.imp(&bb)),
        30 => ("xor(v(a),v(b))", bdd!(ba ^ bb), ba.xor(&bb)),
        31 => ("imp(v(b),v(a))", bdd!(bb => ba), bb.imp(&ba)),
        32 => ("or(and(v(a),v(b)),v(c))", bdd!((ba & bb) | bc), ba.and(&bb).or(&bc)),
        33 => ("or(iff(v(a),not(v(b))),xor(v(c),v(a)))", bdd!((ba <=> (!bb)) | (bc ^ ba)), ba.iff(&bb.not()).or(&bc.xor(&ba))),
        34 => ("v(c)", { let x = bc.clone(); bdd!(((x))) }, bc.clone()),
        35 => ("not(and(v(a),not(v(b))))", bdd!(!(ba & (!bb))), ba.and(&bb.not()).not()),
        36 => ("and(imp(v(a),v(b)),imp(v(b),v(a)))", bdd!((ba => bb) & (bb => ba)), ba.imp(&bb).and(&bb.imp(&ba))),
        37 => ("iff(xor(v(a),v(b)),not(iff(v(a),v(b))))", bdd!((ba ^ bb) <=> (!(ba <=> bb))), ba.xor(&bb).iff(&ba.iff(&bb).not())),
        _ => return None,
    })
}
const MACRO_CASES: usize = 38;


// ------------------------------------------------------------------------------------------------
// expressions whose evaluation passes through Bdds with more than 2^16 nodes (pointers beyond 16 bits)

fn xv(i: usize) -> Box<BooleanExpression> { Box::new(Variable(format!("x_{}", i))) }
fn fold_right(mut items: Vec<BooleanExpression>, mk: fn(Box<BooleanExpression>, Box<BooleanExpression>) -> BooleanExpression) -> BooleanExpression {
    let mut acc = items.pop().unwrap();
    while let Some(x) = items.pop() { acc = mk(Box::new(x), Box::new(acc)); }
    acc
}
/// (number of variables, expression) of a family
fn big_family(family: &str, p: usize) -> (usize, BooleanExpression) {
    match family {
        // (x_0 & x_p) | (x_1 & x_{p+1}) | …   all first halves before all second halves: 2^(p+1) nodes
        "pairs" => (2 * p, fold_right((0..p).map(|i| And(xv(i), xv(p + i))).collect(), |a, b| Or(a, b))),
        // the CNF dual
        "cnf" => (2 * p, fold_right((0..p).map(|i| Or(xv(i), xv(p + i))).collect(), |a, b| And(a, b))),
        // multiplexer, data inputs x_0..x_{p-1} BEFORE the k address bits, as a sum of products; then <=> z, ^ x_0
        "muxsop" => {
            let k = (0..).find(|k| (1usize << k) >= p).unwrap();
            let terms: Vec<BooleanExpression> = (0..p).map(|i| {
                let mut lits: Vec<BooleanExpression> = (0..k).map(|j| if (i >> j) & 1 == 1 { *xv(p + j) } else { Not(xv(p + j)) }).collect();
                lits.push(*xv(i));
                fold_right(lits, |a, b| And(a, b))
            }).collect();
            let m = fold_right(terms, |a, b| Or(a, b));
            (p + k + 1, Xor(Box::new(Iff(Box::new(m), xv(p + k))), xv(0)))
        }
        // the same multiplexer as nested conditionals (most significant address bit outermost), then ^ z
        "muxcond" => {
            let k = (0..).find(|k| (1usize << k) >= p).unwrap();
            fn go(lo: usize, bit: usize, p: usize) -> BooleanExpression {
                if bit == 0 { return if lo < p { *xv(lo) } else { Const(false) }; }
                let half = 1usize << (bit - 1);
                Cond(xv(p + bit - 1), Box::new(go(lo + half, bit - 1, p)), Box::new(go(lo, bit - 1, p)))
            }
            (p + k + 1, Xor(Box::new(go(0, k, p)), xv(p + k)))
        }
        // equality of two p-bit vectors, first vector before the second: x_i <=> x_{p+i}
        "equal" => (2 * p, fold_right((0..p).map(|i| Iff(xv(i), xv(p + i))).collect(), |a, b| And(a, b))),
        _ => panic!("family {}", family),
    }
}
/// deterministic printer with the fewest parentheses the documented precedence allows
fn tight_print(e: &BooleanExpression, ctx: u32, o: &mut String) {
    let lvl = match e { Iff(..) => 6, Imp(..) => 5, Cond(..) => 4, Or(..) => 3, And(..) => 2, Xor(..) => 1, _ => 0 };
    let paren = lvl > ctx;
    if paren { o.push('('); }
    match e {
        Const(b) => o.push_str(if *b { "true" } else { "false" }),
        Variable(n) => o.push_str(n),
        Not(a) => { o.push('!'); tight_print(a, 0, o); }
        Iff(l, r) => { tight_print(l, 5, o); o.push_str(" <=> "); tight_print(r, 6, o); }
        Imp(l, r) => { tight_print(l, 4, o); o.push_str(" => "); tight_print(r, 5, o); }
        Cond(p, q, r) => { tight_print(p, 3, o); o.push_str(" ? "); tight_print(q, 3, o); o.push_str(" : "); tight_print(r, 3, o); }
        Or(l, r) => { tight_print(l, 2, o); o.push_str(" | "); tight_print(r, 3, o); }
        And(l, r) => { tight_print(l, 1, o); o.push_str(" & "); tight_print(r, 2, o); }
        Xor(l, r) => { tight_print(l, 0, o); o.push_str(" ^ "); tight_print(r, 1, o); }
    }
    if paren { o.push(')'); }
}
/// the method chain: the harness's own walk over the tree calling the `Bdd` methods
fn chain(vars: &BddVariableSet, e: &BooleanExpression) -> Bdd {
    match e {
        Const(b) => if *b { vars.mk_true() } else { vars.mk_false() },
        Variable(n) => vars.mk_var_by_name(n),
        Not(a) => chain(vars, a).not(),
        And(l, r) => { let (a, b) = (chain(vars, l), chain(vars, r)); a.and(&b) }
        Or(l, r) => { let (a, b) = (chain(vars, l), chain(vars, r)); a.or(&b) }
        Xor(l, r) => { let (a, b) = (chain(vars, l), chain(vars, r)); a.xor(&b) }
        Imp(l, r) => { let (a, b) = (chain(vars, l), chain(vars, r)); a.imp(&b) }
        Iff(l, r) => { let (a, b) = (chain(vars, l), chain(vars, r)); a.iff(&b) }
        Cond(p, q, r) => { let (a, b, c) = (chain(vars, p), chain(vars, q), chain(vars, r)); Bdd::if_then_else(&a, &b, &c) }
    }
}
/// number of expression nodes `to_boolean_expression` keeps alive in its `results` vector (it clones
/// the sub-expressions of both children into every node): decides whether the export is affordable
fn export_cost(b: &Bdd) -> u64 {
    let nodes = b.clone().to_nodes();
    let mut size: Vec<u64> = vec![1, 1];
    let mut total: u64 = 0;
    for nd in nodes.iter().skip(2) {
        let (l, h) = (nd.low_link.to_index(), nd.high_link.to_index());
        let s = 4u64.saturating_add(if l < 2 { 0 } else { size[l] }).saturating_add(if h < 2 { 0 } else { size[h] });
        size.push(s);
        total = total.saturating_add(s);
    }
    total
}
fn same_or(b: &Option<Bdd>, reference: &Option<Bdd>) -> String {
    match (b, reference) {
        (None, _) => s("panic"),
        (Some(x), Some(r)) if x == r => s("="),
        (Some(x), _) => fmt_bdd(x),
    }
}

fn opt_bdd(r: Option<Option<Bdd>>) -> String {
    match r { None => s("panic"), Some(None) => s("none"), Some(Some(b)) => fmt_bdd(&b) }
}

pub fn run(key: &str, a: &[String], out: &mut Out) {
    out.begin(key, a);
    match key {
        // names tree => Bdd | none | panic        (safe_eval_expression)
        "C15.eval" => {
            let vars = match var_set_or(&parse_names(&a[0]), key, a, 2, out) { Some(v) => v, None => return };
            let e = unsexp(&a[1]);
            let r = catch(|| vars.safe_eval_expression(&e));
            // eval_expression = unwrap: panics exactly when safe_eval_expression is None
            let r2 = catch(|| vars.eval_expression(&e));
            out.case(key, a, &[opt_bdd(r), fmt_res_bdd(&r2)]);
        }
        // names string => Bdd | panic             (eval_expression_string)
        "C15.evals" => {
            let vars = match var_set_or(&parse_names(&a[0]), key, a, 1, out) { Some(v) => v, None => return };
            let x = dec(&a[1]);
            let r = catch(|| vars.eval_expression_string(&x));
            out.case(key, a, &[fmt_res_bdd(&r)]);
        }
        // names bdd => export, eval(export), eval(parse(print(export)))
        "C15.export" | "C15.exportbad" => {
            let vars = match var_set_or(&parse_names(&a[0]), key, a, 3, out) { Some(v) => v, None => return };
            let b = Bdd::from_string(&a[1]);
            match catch(|| b.to_boolean_expression(&vars)) {
                None => out.case(key, a, &[s("panic"), s("-"), s("-")]),
                Some(e) => {
                    let direct = catch(|| vars.safe_eval_expression(&e));
                    let printed = format!("{}", e);
                    let reparsed = catch(|| BooleanExpression::try_from(printed.as_str()).ok().and_then(|e2| vars.safe_eval_expression(&e2)));
                    out.case(key, a, &[sexp(&e), opt_bdd(direct), opt_bdd(reparsed)]);
                }
            }
        }
        // family p n text => Bdd of eval_expression_string(text); method chain; parse(print(parse(text))) evaluated;
        // export -> print -> parse -> eval of the result   (each `=` when identical to the first, `skip` when the
        // export would need more than 40 M expression nodes)
        "C15.big" => {
            let p: usize = a[1].parse().unwrap();
            let (n, e) = big_family(&a[0], p);
            assert_eq!(n.to_string(), a[2]);
            let text = dec(&a[3]);
            let vars = BddVariableSet::new_anonymous(n as u16);
            let first = catch(|| vars.eval_expression_string(&text));
            let second = catch(|| chain(&vars, &e));
            let third = catch(|| {
                let parsed = BooleanExpression::try_from(text.as_str()).unwrap();
                let reparsed = BooleanExpression::try_from(format!("{}", parsed).as_str()).unwrap();
                vars.eval_expression(&reparsed)
            });
            let fourth = match &first {
                Some(b) if export_cost(b) <= 40_000_000 => same_or(&catch(|| {
                    let ex = b.to_boolean_expression(&vars);
                    vars.eval_expression_string(&format!("{}", ex))
                }), &first),
                Some(_) => s("skip"),
                None => s("panic"),
            };
            out.case(key, a, &[fmt_res_bdd(&first), same_or(&second, &first), same_or(&third, &first), fourth]);
        }
        // idx meaning => equal? macro-value chain-value
        "C15.macro" => {
            let idx: usize = a[0].parse().unwrap();
            match catch(|| macro_case(idx)) {
                Some(Some((meaning, m, c))) => {
                    assert_eq!(meaning, a[1], "macro table out of sync with the case line");
                    out.case(key, a, &[s(if m == c { "1" } else { "0" }), fmt_bdd(&m), fmt_bdd(&c)]);
                }
                _ => out.case(key, a, &[s("panic"), s("-"), s("-")]),
            }
        }
        _ => panic!("unknown key {}", key),
    }
}

// ------------------------------------------------------------------------------------------------

fn build_trees(max: usize, leaves: &[BooleanExpression]) -> Vec<Vec<BooleanExpression>> {
    let mut memo: Vec<Vec<BooleanExpression>> = vec![vec![], leaves.to_vec()];
    for size in 2..=max {
        let mut cur = vec![];
        for x in &memo[size - 1] { cur.push(Not(Box::new(x.clone()))); }
        for ls in 1..size - 1 {
            let rs = size - 1 - ls;
            for l in &memo[ls] { for r in &memo[rs] {
                let (l, r) = (Box::new(l.clone()), Box::new(r.clone()));
                cur.push(And(l.clone(), r.clone())); cur.push(Or(l.clone(), r.clone())); cur.push(Xor(l.clone(), r.clone()));
                cur.push(Imp(l.clone(), r.clone())); cur.push(Iff(l, r));
            } }
        }
        for x in 1..size { for y in 1..size {
            if x + y + 1 >= size { continue; }
            let z = size - 1 - x - y;
            for p in &memo[x] { for q in &memo[y] { for r in &memo[z] {
                cur.push(Cond(Box::new(p.clone()), Box::new(q.clone()), Box::new(r.clone())));
            } } }
        } }
        memo.push(cur);
    }
    memo
}

fn random_tree(rng: &mut Rng64, depth: usize, names: &[String], unknown: bool) -> BooleanExpression {
    if depth == 0 || rng.chance(1, 6) {
        return match rng.below(10) {
            0 => Const(true),
            1 => Const(false),
            2 if unknown => Variable(s("zz")),
            _ => if names.is_empty() { Const(rng.bool()) } else { Variable(rng.pick(names).clone()) },
        };
    }
    let sub = |rng: &mut Rng64| Box::new(random_tree(rng, depth - 1, names, unknown));
    match rng.below(9) {
        0 | 1 => Not(sub(rng)),
        2 => And(sub(rng), sub(rng)),
        3 => Or(sub(rng), sub(rng)),
        4 => Xor(sub(rng), sub(rng)),
        5 => Imp(sub(rng), sub(rng)),
        6 => Iff(sub(rng), sub(rng)),
        _ => Cond(sub(rng), sub(rng), sub(rng)),
    }
}

fn anon(n: usize) -> Vec<String> { (0..n).map(|i| format!("x_{}", i)).collect() }
const FANCY: [&str; 8] = ["é", "v_1+{14}", "变量", "a.b", "x'", "0", "tru", "a,b"];
/// legal variable names that differ from the constants only by letter case or contain them: real
/// variables in the support of non-constant Bdds (only the exact lowercase `true`/`false` are constants)
const KEYWORDISH: [&str; 10] = ["TRUE", "True", "False", "FALSE", "tRuE", "fAlSe", "truex", "xtrue", "nottrue", "false_"];
fn kw(n: usize, shift: usize) -> Vec<String> { (0..n).map(|i| s(KEYWORDISH[(i + shift) % KEYWORDISH.len()])).collect() }

pub fn gen(tier: Tier, rng: &mut Rng64, out: &mut Out) {
    let thorough = tier == Tier::Thorough;
    // --- macro forms next to method chains
    for i in 0..MACRO_CASES {
        let meaning = macro_case(i).unwrap().0;
        run("C15.macro", &[i.to_string(), s(meaning)], out);
    }
    // --- evaluation through Bdds with more than 2^16 nodes (pointer values beyond 16 bits in the memo keys); the
    // cases are heavy for the driver, so they are spread over the file (one per section) to land in different shards
    let mut big: Vec<(&str, usize)> = vec![("pairs", 17), ("cnf", 17), ("muxsop", 16), ("pairs", 16), ("pairs", 10), ("equal", 8), ("muxcond", 8)];
    if thorough {
        big.extend_from_slice(&[("pairs", 18), ("cnf", 16), ("cnf", 18), ("muxcond", 16), ("muxsop", 17), ("muxcond", 19),
            ("equal", 16), ("equal", 11), ("muxsop", 8), ("cnf", 10)]);
    }
    big.reverse();
    fn emit_big(big: &mut Vec<(&str, usize)>, out: &mut Out) -> bool {
        match big.pop() {
            None => false,
            Some((family, p)) => {
                let (n, e) = big_family(family, p);
                let mut text = String::new();
                tight_print(&e, 6, &mut text);
                run("C15.big", &[s(family), p.to_string(), n.to_string(), enc(&text)], out);
                true
            }
        }
    }
    emit_big(&mut big, out);
    // --- all trees up to size 4 (quick) / 5 (thorough) over three known names, one unknown name, constants
    let abc: Vec<String> = vec![s("a"), s("b"), s("c")];
    let leaves = vec![Variable(s("a")), Variable(s("b")), Variable(s("c")), Variable(s("z")), Const(true), Const(false)];
    let all = build_trees(if thorough { 5 } else { 4 }, &leaves);
    for sz in 1..all.len() { for e in &all[sz] { run("C15.eval", &[names_field(&abc), sexp(e)], out); } }
    // size 5 sampled in the quick tier
    if !thorough {
        let five = build_trees(5, &leaves);
        for e in &five[5] { if rng.chance(1, 6) { run("C15.eval", &[names_field(&abc), sexp(e)], out); } }
    }
    emit_big(&mut big, out);
    // --- keyword-like variable names: every tree with <= 3 nodes over {TRUE, False, tRuE, true, false}, as a tree and as text
    let kw3 = kw(3, 0).into_iter().chain(vec![s("tRuE")]).collect::<Vec<_>>();   // TRUE, True, False, tRuE
    let kleaves = vec![Variable(s("TRUE")), Variable(s("False")), Variable(s("tRuE")), Const(true), Const(false)];
    let kall = build_trees(3, &kleaves);
    for sz in 1..kall.len() { for e in &kall[sz] {
        run("C15.eval", &[names_field(&kw3), sexp(e)], out);
        run("C15.evals", &[names_field(&kw3), enc(&format!("{}", e))], out);
    } }
    for k in KEYWORDISH {
        for pat in ["{}", "!{}", "{} & true", "{} | false", "{} => {}", "{} ^ true", "true ? {} : false", "({} <=> true)"] {
            run("C15.evals", &[names_field(&[s(k)]), enc(&pat.replace("{}", k))], out);
        }
    }
    emit_big(&mut big, out);
    // --- random larger trees over 0..7 variables, some with an unknown name; strings through eval_expression_string
    let rounds = if thorough { 200000 } else { 2500 };
    for i in 0..rounds {
        let n = (i % 8) as usize;
        let names: Vec<String> = if i % 5 == 0 && n <= FANCY.len() { FANCY[..n].iter().map(|x| s(x)).collect() }
            else if i % 5 == 1 { kw(n, i as usize / 5) } else { anon(n) };
        let e = random_tree(rng, 2 + (i % 6) as usize, &names, i % 7 == 0);
        run("C15.eval", &[names_field(&names), sexp(&e)], out);
        if i % 3 == 0 {
            let e2 = random_tree(rng, 1 + (i % 4) as usize, &names, i % 11 == 0);
            let mut text = format!("{}", e2);
            if i % 9 == 0 { text = text.replace("(", "").replace(")", ""); }   // precedence decides (or a parse error)
            if i % 31 == 0 { text.push_str(" &"); }
            run("C15.evals", &[names_field(&names), enc(&text)], out);
        }
    }
    emit_big(&mut big, out);
    // --- export: all functions over n <= 3, n = 4 all (thorough) / sampled (quick), random 5..7
    for n in 0..=3usize {
        let count = 1u64 << (1u64 << n);
        for t in 0..count {
            let b = bdd_of_tt(n, &tt_from_index(n, t));
            run("C15.export", &[names_field(&anon(n)), fmt_bdd(&b)], out);
            if n >= 1 { run("C15.export", &[names_field(&kw(n, (t % 7) as usize)), fmt_bdd(&b)], out); }
        }
    }
    emit_big(&mut big, out);
    let count4 = if thorough { 65536 } else { 3000 };
    for i in 0..count4 {
        let t = if thorough { i as u64 } else { rng.below(65536) };
        let b = bdd_of_tt(4, &tt_from_index(4, t));
        let names: Vec<String> = if i % 4 == 0 { FANCY[..4].iter().map(|x| s(x)).collect() } else if i % 4 == 1 { kw(4, i as usize / 4) } else { anon(4) };
        run("C15.export", &[names_field(&names), fmt_bdd(&b)], out);
    }
    for i in 0..(if thorough { 80000 } else { 1500 }) {
        let n = 5 + (i % 3) as usize;
        let b = random_bdd(rng, n);
        let names = if i % 3 == 0 { kw(n, i as usize) } else { anon(n) };
        run("C15.export", &[names_field(&names), fmt_bdd(&b)], out);
        // valid but non-canonical diagrams: the export still denotes the function (no structural claim)
        if i % 4 == 0 {
            let v = noncanon_variant(rng, &b);
            run("C15.export", &[names_field(&anon(n)), fmt_bdd(&v)], out);
        }
    }
    emit_big(&mut big, out);
    // --- name characters chosen by their LOW BYTE (reserved characters / whitespace bytes shifted into higher planes)
    // in first, middle and last position of real variable names: eval, eval of text, export round trips
    let lbc = low_byte_chars();
    for (ci, c) in lbc.iter().enumerate() {
        let names = vec![format!("{}ab", c), format!("a{}b", c), format!("ab{}", c)];
        let nf = names_field(&names);
        for pat in ["{1}", "{0}&{1}|!{2}", "{0}=>{1}<=>{2}", "({2})^{0}", "{1}?{0}:{2}", "!{2}"] {
            let text = pat.replace("{0}", &names[0]).replace("{1}", &names[1]).replace("{2}", &names[2]);
            run("C15.evals", &[nf.clone(), enc(&text)], out);
        }
        run("C15.eval", &[nf.clone(), sexp(&Cond(Box::new(Variable(names[1].clone())), Box::new(Variable(names[0].clone())), Box::new(Not(Box::new(Variable(names[2].clone()))))))], out);
        // every function over these three variables for a few characters, eight spread functions for the others
        let all = thorough || ci % 16 == 0;
        for t in 0..256u64 {
            if all || (t * 37 + ci as u64) % 32 == 0 { run("C15.export", &[nf.clone(), fmt_bdd(&bdd_of_tt(3, &tt_from_index(3, t)))], out); }
        }
        run("C15.export", &[names_field(&[format!("{}", c)]), fmt_bdd(&bdd_of_tt(1, &tt_from_index(1, 2)))], out);
    }
    while emit_big(&mut big, out) {}
    // --- malformed diagrams reaching the `panic!` arm / the indexing panics (model agreement only)
    for bad in ["|1,0,0|1,1,1|0,1,1|", "|1,0,0|1,1,1|0,0,0|", "|2,0,0|2,1,1|1,0,1|0,2,2|", "|2,0,0|2,1,1|1,0,1|0,1,3|",
                "|2,0,0|2,1,1|1,0,1|0,5,2|", "|3,0,0|3,1,1|2,0,1|1,2,2|0,3,1|", "|2,0,0|2,1,1|5,0,1|", "|2,0,0|2,1,1|1,1,0|0,0,0|"] {
        run("C15.exportbad", &[names_field(&anon(2)), s(bad)], out);
    }
    run("C15.exportbad", &[names_field(&anon(1)), s("|2,0,0|2,1,1|1,0,1|0,0,2|")], out);
}

fn main() { harness_main(gen, run) }
