//! C01: logical operators compute the pointwise function.
#[path = "../common.rs"]
mod common;
use common::*;
use biodivine_lib_bdd::*;

fn s(x: &str) -> String { x.to_string() }

/// Executes one case from its textual inputs and writes the observation. Every generator goes
/// through this function, so that `replay` re-runs exactly what `gen` ran.
pub fn run(key: &str, a: &[String], out: &mut Out) {
    out.begin(key, a);
    match key {
        "C01.bin" => {
            // n table L R => result result-with-lazy-table
            let (l, r) = (Bdd::from_string(&a[2]), Bdd::from_string(&a[3]));
            let conn: u32 = a[4].parse().unwrap();
            let res = catch(|| Bdd::binary_op(&l, &r, table_fn(&a[1])));
            let lazy = catch(|| Bdd::binary_op(&l, &r, table_fn(&lazy_table2(conn))));
            out.case(key, a, &[fmt_res_bdd(&res), fmt_res_bdd(&lazy)]);
        }
        "C01.named" => {
            // name L R => result, table sampled from the built-in function
            let (l, r) = (Bdd::from_string(&a[1]), Bdd::from_string(&a[2]));
            let (res, table) = match a[0].as_str() {
                "and" => (catch(|| l.and(&r)), sample_table2(op_function::and)),
                "or" => (catch(|| l.or(&r)), sample_table2(op_function::or)),
                "xor" => (catch(|| l.xor(&r)), sample_table2(op_function::xor)),
                "imp" => (catch(|| l.imp(&r)), sample_table2(op_function::imp)),
                "iff" => (catch(|| l.iff(&r)), sample_table2(op_function::iff)),
                "and_not" => (catch(|| l.and_not(&r)), sample_table2(op_function::and_not)),
                _ => panic!("bad name"),
            };
            out.case(key, a, &[fmt_res_bdd(&res), table]);
        }
        "C01.not" => {
            let l = Bdd::from_string(&a[0]);
            let res = catch(|| l.not());
            out.case(key, a, &[fmt_res_bdd(&res)]);
        }
        "C01.ite" => {
            let (x, y, z) = (Bdd::from_string(&a[0]), Bdd::from_string(&a[1]), Bdd::from_string(&a[2]));
            let res = catch(|| Bdd::if_then_else(&x, &y, &z));
            out.case(key, a, &[fmt_res_bdd(&res)]);
        }
        "C01.ter" => {
            // table27 conn A B C => result result-with-lazy-table
            let (x, y, z) = (Bdd::from_string(&a[2]), Bdd::from_string(&a[3]), Bdd::from_string(&a[4]));
            let conn: u32 = a[1].parse().unwrap();
            let res = catch(|| Bdd::ternary_op(&x, &y, &z, table3_fn(&a[0])));
            let lazy = catch(|| Bdd::ternary_op(&x, &y, &z, table3_fn(&lazy_table3(conn))));
            out.case(key, a, &[fmt_res_bdd(&res), fmt_res_bdd(&lazy)]);
        }
        "C01.eval" => {
            // L valuation => eval_in (ties the library's evaluator to the model's `evalF`)
            let l = Bdd::from_string(&a[0]);
            let v: Vec<bool> = if a[1] == "~" { vec![] } else { a[1].chars().map(|c| c == '1').collect() };
            let res = catch(|| l.eval_in(&BddValuation::new(v)));
            out.case(key, a, &[match res { Some(true) => s("1"), Some(false) => s("0"), None => s("panic") }]);
        }
        _ => panic!("unknown key {}", key),
    }
}

const NAMES: [&str; 6] = ["and", "or", "xor", "imp", "iff", "and_not"];

pub fn gen(tier: Tier, rng: &mut Rng64, out: &mut Out) {
    let thorough = tier == Tier::Thorough;
    // --- exhaustive small universes: all functions over n <= 2 (all pairs), n = 3 sampled/all
    for n in 0..=2usize {
        let count = 1u64 << (1u64 << n);
        for t1 in 0..count { for t2 in 0..count {
            let l = fmt_bdd(&bdd_of_tt(n, &tt_from_index(n, t1)));
            let r = fmt_bdd(&bdd_of_tt(n, &tt_from_index(n, t2)));
            for name in NAMES { run("C01.named", &[s(name), l.clone(), r.clone()], out); }
            for c in 0..16u32 {
                if thorough || rng.chance(1, 4) || n < 2 {
                    run("C01.bin", &[n.to_string(), eager_table2(c), l.clone(), r.clone(), c.to_string()], out);
                    run("C01.bin", &[n.to_string(), random_table2(rng, c), l.clone(), r.clone(), c.to_string()], out);
                }
            }
        } }
        for t1 in 0..count { run("C01.not", &[fmt_bdd(&bdd_of_tt(n, &tt_from_index(n, t1)))], out); }
    }
    // n = 3: all 256 functions; pairs: thorough = all 65 536 pairs x 16 connectives, quick = sample
    let all3: Vec<String> = (0..256u64).map(|t| fmt_bdd(&bdd_of_tt(3, &tt_from_index(3, t)))).collect();
    for l in &all3 { run("C01.not", &[l.clone()], out); }
    let pairs3: u64 = if thorough { 65536 } else { 3000 };
    for i in 0..pairs3 {
        let (a, b) = if thorough { ((i / 256) as usize, (i % 256) as usize) } else { (rng.below(256) as usize, rng.below(256) as usize) };
        let (l, r) = (all3[a].clone(), all3[b].clone());
        if thorough {
            for c in 0..16u32 {
                run("C01.bin", &[s("3"), eager_table2(c), l.clone(), r.clone(), c.to_string()], out);
                if rng.chance(1, 4) { run("C01.bin", &[s("3"), random_table2(rng, c), l.clone(), r.clone(), c.to_string()], out); }
            }
            if rng.chance(1, 8) { for name in NAMES { run("C01.named", &[s(name), l.clone(), r.clone()], out); } }
        } else {
            let c = rng.below(16) as u32;
            run("C01.bin", &[s("3"), eager_table2(c), l.clone(), r.clone(), c.to_string()], out);
            run("C01.bin", &[s("3"), random_table2(rng, c), l.clone(), r.clone(), c.to_string()], out);
            run("C01.named", &[s(*rng.pick(&NAMES)), l.clone(), r.clone()], out);
        }
    }
    // --- random larger operands (shared sub-diagrams, skipped levels), non-canonical operands
    let rounds = if thorough { 60000 } else { 2500 };
    for _ in 0..rounds {
        let n = 4 + rng.below(5) as usize;
        let mut l = random_bdd(rng, n);
        let mut r = random_bdd(rng, n);
        if rng.chance(1, 5) { l = noncanon_variant(rng, &l); }
        if rng.chance(1, 5) { r = noncanon_variant(rng, &r); }
        let (ls, rs) = (fmt_bdd(&l), fmt_bdd(&r));
        let c = rng.below(16) as u32;
        run("C01.bin", &[n.to_string(), random_table2(rng, c), ls.clone(), rs.clone(), c.to_string()], out);
        run("C01.named", &[s(*rng.pick(&NAMES)), ls.clone(), rs.clone()], out);
        if rng.chance(1, 4) { run("C01.not", &[ls.clone()], out); }
        if rng.chance(1, 3) {
            let z = fmt_bdd(&random_bdd(rng, n));
            run("C01.ite", &[ls.clone(), rs.clone(), z.clone()], out);
            let c3 = rng.below(256) as u32;
            let tab = match rng.below(3) { 0 => eager_table3(c3), 1 => lazy_table3(c3), _ => random_table3(rng, c3) };
            run("C01.ter", &[tab, c3.to_string(), ls.clone(), rs.clone(), z], out);
        }
        if rng.chance(1, 4) {
            let v: Vec<bool> = (0..n).map(|_| rng.bool()).collect();
            run("C01.eval", &[ls.clone(), fmt_bools(&v)], out);
        }
    }
    // --- ternary on small universes: all 256 connectives on sampled triples over n <= 3
    let triples = if thorough { 40 } else { 3 };
    for c3 in 0..256u32 {
        for _ in 0..triples {
            let n = rng.below(4) as usize;
            let count = 1u64 << (1u64 << n);
            let f = |rng: &mut Rng64| fmt_bdd(&bdd_of_tt(n, &tt_from_index(n, rng.below(count))));
            let (x, y, z) = (f(rng), f(rng), f(rng));
            run("C01.ter", &[eager_table3(c3), c3.to_string(), x.clone(), y.clone(), z.clone()], out);
            run("C01.ter", &[random_table3(rng, c3), c3.to_string(), x.clone(), y.clone(), z.clone()], out);
            if c3 % 16 == 0 { run("C01.ite", &[x, y, z], out); }
        }
    }
    // --- operands with more than 65 536 nodes (pointers that need a third byte): pseudo-random
    // functions over 20 variables against small and large partners
    let bigs = if thorough { 6 } else { 2 };
    for k in 0..bigs {
        let n = 20usize;
        let tt: Vec<bool> = (0..(1usize << n)).map(|_| rng.bool()).collect();
        let big = fmt_bdd(&bdd_of_tt(n, &tt));
        let small = if k % 2 == 0 {
            fmt_bdd(&bdd_of_tt(n, &(0..(1usize << n)).map(|i| i & 1 == 1).collect::<Vec<_>>())) // literal x19
        } else {
            let m: usize = rng.next() as usize & ((1 << n) - 1);
            fmt_bdd(&bdd_of_tt(n, &(0..(1usize << n)).map(|i| (i & m).count_ones() % 2 == 1).collect::<Vec<_>>()))
        };
        let name = NAMES[k % NAMES.len()];
        run("C01.named", &[s(name), big.clone(), small.clone()], out);
        run("C01.named", &[s(NAMES[(k + 2) % NAMES.len()]), small.clone(), big.clone()], out);
        if k == 0 { run("C01.not", &[big.clone()], out); }
        if k % 2 == 1 || thorough { run("C01.ite", &[small.clone(), big.clone(), small.clone()], out); }
    }
    // --- medium operands: three dense functions over 13 variables (~1 300 nodes each, product of the
    // sizes > 2^27) through if_then_else / ternary_op / binary operators
    let mediums = if thorough { 12 } else { 3 };
    for k in 0..mediums {
        let n = 13usize;
        let mk = |rng: &mut Rng64| { let tt: Vec<bool> = (0..(1usize << n)).map(|_| rng.bool()).collect(); fmt_bdd(&bdd_of_tt(n, &tt)) };
        let (x, y, z) = (mk(rng), mk(rng), mk(rng));
        run("C01.ite", &[x.clone(), y.clone(), z.clone()], out);
        let c3 = rng.below(256) as u32;
        run("C01.ter", &[if k % 2 == 0 { eager_table3(c3) } else { random_table3(rng, c3) }, c3.to_string(), x.clone(), y.clone(), z.clone()], out);
        run("C01.named", &[s(NAMES[k % NAMES.len()]), x.clone(), y.clone()], out);
    }
    // --- one operand with more than 2^21 nodes (thorough only: ~60 MB of text per line)
    if thorough {
        let n = 25usize;
        let tt: Vec<bool> = (0..(1usize << n)).map(|_| rng.bool()).collect();
        let huge = fmt_bdd(&bdd_of_tt(n, &tt));
        let lit = |k: usize| fmt_bdd(&bdd_of_tt(n, &(0..(1usize << n)).map(|i| (i >> (n - 1 - k)) & 1 == 1).collect::<Vec<_>>()));
        let (x0, x1) = (lit(0), lit(1));
        run("C01.ter", &[eager_table3(0x80), s("128"), x0.clone(), x1.clone(), huge.clone()], out);   // a & b & c, huge in position c
        run("C01.ter", &[lazy_table3(0xCA), s("202"), x0.clone(), huge.clone(), x1.clone()], out);    // ite, huge in position b
        run("C01.named", &[s("xor"), x1.clone(), huge.clone()], out);
    }
    // --- eval_in on all valuations of sampled small functions
    for _ in 0..(if thorough { 2000 } else { 100 }) {
        let n = rng.below(5) as usize;
        let b = fmt_bdd(&random_bdd(rng, n));
        for i in 0..(1usize << n) { run("C01.eval", &[b.clone(), fmt_bools(&val_of_index(n, i))], out); }
    }
}

fn main() { harness_main(gen, run) }
