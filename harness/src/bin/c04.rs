//! C04: fused variable flips act as input/output bit inversion.
//!
//! Case kinds (inputs => observed):
//!   C04.bin <table9> <conn> <L> <R> <fl> <fr> <fo>            => <fused> <separate>
//!   C04.ter <table27> <conn> <A> <B> <C> <fa> <fb> <fc> <fo>  => <fused> <separate>
//! `fused` is the result of `fused_binary_flip_op` / `fused_ternary_flip_op`; `separate` is the result of
//! performing every flip as its own library call (`flip x b := fused_binary_flip_op((b, x), (true, -), -, and)`),
//! then the plain operator, then the output flip. A panic is the outcome `panic`.
#[path = "../common.rs"]
mod common;
use common::*;
use biodivine_lib_bdd::*;

fn s(x: &str) -> String { x.to_string() }

fn parse_flip(x: &str) -> Option<usize> { if x == "-" { None } else { Some(x.parse().unwrap()) } }

/// must be called under `catch`: `BddVariable::from_index` itself is part of the observed behaviour
fn flip_var(f: Option<usize>) -> Option<BddVariable> { f.map(BddVariable::from_index) }

/// a single flip as a separate step
fn flip_sep(b: &Bdd, f: Option<usize>) -> Bdd {
    match f {
        None => b.clone(),
        Some(x) => Bdd::fused_binary_flip_op(
            (b, Some(BddVariable::from_index(x))),
            (&Bdd::from_string(&format!("|{0},0,0|{0},1,1|", b.num_vars())), None),
            None,
            op_function::and,
        ),
    }
}

pub fn run(key: &str, a: &[String], out: &mut Out) {
    out.begin(key, a);
    match key {
        "C04.bin" => {
            let (l, r) = (Bdd::from_string(&a[2]), Bdd::from_string(&a[3]));
            let (fl, fr, fo) = (parse_flip(&a[4]), parse_flip(&a[5]), parse_flip(&a[6]));
            let fused = catch(|| Bdd::fused_binary_flip_op((&l, flip_var(fl)), (&r, flip_var(fr)), flip_var(fo), table_fn(&a[0])));
            let sep = catch(|| {
                let l2 = flip_sep(&l, fl);
                let r2 = flip_sep(&r, fr);
                let g = Bdd::binary_op(&l2, &r2, table_fn(&a[0]));
                flip_sep(&g, fo)
            });
            out.case(key, a, &[fmt_res_bdd(&fused), fmt_res_bdd(&sep)]);
        }
        "C04.ter" => {
            let (x, y, z) = (Bdd::from_string(&a[2]), Bdd::from_string(&a[3]), Bdd::from_string(&a[4]));
            let (fa, fb, fc, fo) = (parse_flip(&a[5]), parse_flip(&a[6]), parse_flip(&a[7]), parse_flip(&a[8]));
            let fused = catch(|| Bdd::fused_ternary_flip_op((&x, flip_var(fa)), (&y, flip_var(fb)), (&z, flip_var(fc)), flip_var(fo), table3_fn(&a[0])));
            let sep = catch(|| {
                let x2 = flip_sep(&x, fa);
                let y2 = flip_sep(&y, fb);
                let z2 = flip_sep(&z, fc);
                let g = Bdd::ternary_op(&x2, &y2, &z2, table3_fn(&a[0]));
                flip_sep(&g, fo)
            });
            out.case(key, a, &[fmt_res_bdd(&fused), fmt_res_bdd(&sep)]);
        }
        "C04.binA" => {
            // <alias|clone> table conn A fl fr fo: both operands are the same function; `alias` passes the SAME
            // object twice (`&a, &a`), `clone` passes an equal copy
            let x = Bdd::from_string(&a[3]);
            let y = x.clone();
            let alias = a[0] == "alias";
            let (l, r): (&Bdd, &Bdd) = if alias { (&x, &x) } else { (&x, &y) };
            let (fl, fr, fo) = (parse_flip(&a[4]), parse_flip(&a[5]), parse_flip(&a[6]));
            let fused = catch(|| Bdd::fused_binary_flip_op((l, flip_var(fl)), (r, flip_var(fr)), flip_var(fo), table_fn(&a[1])));
            let sep = catch(|| {
                let l2 = flip_sep(l, fl);
                let r2 = flip_sep(r, fr);
                let g = Bdd::binary_op(&l2, &r2, table_fn(&a[1]));
                flip_sep(&g, fo)
            });
            out.case(key, a, &[fmt_res_bdd(&fused), fmt_res_bdd(&sep)]);
        }
        "C04.terA" => {
            // <alias|clone> <pattern> table conn A B fa fb fc fo: pattern over `a`/`b` says which operand positions
            // hold A (the same object under `alias`) and which one holds B (e.g. `aaa`, `aab`, `aba`, `baa`)
            let xa = Bdd::from_string(&a[4]);
            let xb = Bdd::from_string(&a[5]);
            let copies = [xa.clone(), xa.clone(), xa.clone()];
            let alias = a[0] == "alias";
            let pat: Vec<char> = a[1].chars().collect();
            let pick = |i: usize| -> &Bdd { if pat[i] == 'b' { &xb } else if alias { &xa } else { &copies[i] } };
            let (x, y, z) = (pick(0), pick(1), pick(2));
            let (fa, fb, fc, fo) = (parse_flip(&a[6]), parse_flip(&a[7]), parse_flip(&a[8]), parse_flip(&a[9]));
            let fused = catch(|| Bdd::fused_ternary_flip_op((x, flip_var(fa)), (y, flip_var(fb)), (z, flip_var(fc)), flip_var(fo), table3_fn(&a[2])));
            let sep = catch(|| {
                let x2 = flip_sep(x, fa);
                let y2 = flip_sep(y, fb);
                let z2 = flip_sep(z, fc);
                let g = Bdd::ternary_op(&x2, &y2, &z2, table3_fn(&a[2]));
                flip_sep(&g, fo)
            });
            out.case(key, a, &[fmt_res_bdd(&fused), fmt_res_bdd(&sep)]);
        }
        _ => panic!("unknown key {}", key),
    }
}

/// flip choices over n variables: none and every variable
fn flips(n: usize) -> Vec<Option<usize>> {
    let mut v = vec![None];
    for i in 0..n { v.push(Some(i)); }
    v
}

fn some_table2(rng: &mut Rng64, c: u32) -> String {
    match rng.below(3) { 0 => eager_table2(c), 1 => lazy_table2(c), _ => random_table2(rng, c) }
}
fn some_table3(rng: &mut Rng64, c: u32) -> String {
    match rng.below(3) { 0 => eager_table3(c), 1 => lazy_table3(c), _ => random_table3(rng, c) }
}

fn bin(table: String, c: u32, l: &str, r: &str, fl: Option<usize>, fr: Option<usize>, fo: Option<usize>, out: &mut Out) {
    run("C04.bin", &[table, c.to_string(), s(l), s(r), fmt_optvar(fl), fmt_optvar(fr), fmt_optvar(fo)], out);
}

/// value of variable k at truth-table index i over n variables (variable 0 = most significant bit)
fn bit(i: usize, k: usize, n: usize) -> bool { (i >> (n - 1 - k)) & 1 == 1 }

/// Operands with more than 65 536 nodes over 20 variables (task memo keys / pointers beyond 16 bits) and their
/// partners. `dense`: pseudo-random function (about 107 000 nodes); `mux`: 16-way multiplexer with the data
/// variables x0..x15 before the address variables x16..x19 (131 071 nodes); `small`: x18 & x19; `mid`: a
/// pseudo-random function of 13 of the variables (about 1 000 nodes).
struct Bigs { dense: String, mux: String, small: String, mid: String }

fn make_bigs(rng: &mut Rng64) -> Bigs {
    let n = 20usize;
    let size = 1usize << n;
    let dense = fmt_bdd(&bdd_of_tt(n, &(0..size).map(|_| rng.bool()).collect::<Vec<_>>()));
    let mux = fmt_bdd(&bdd_of_tt(n, &(0..size).map(|i| ((i >> 4) >> (i & 15)) & 1 == 1).collect::<Vec<_>>()));
    let small = fmt_bdd(&bdd_of_tt(n, &(0..size).map(|i| i & 3 == 3).collect::<Vec<_>>()));
    // 13 variables spread over the order: every variable except 2, 5, 8, 11, 14, 17, 19
    let keep: Vec<usize> = (0..n).filter(|k| !(k % 3 == 2 || *k == 19)).collect();
    let inner: Vec<bool> = (0..(1usize << keep.len())).map(|_| rng.bool()).collect();
    let mid = fmt_bdd(&bdd_of_tt(n, &(0..size).map(|i| {
        let mut j = 0usize;
        for k in &keep { j = (j << 1) | (bit(i, *k, n) as usize); }
        inner[j]
    }).collect::<Vec<_>>()));
    Bigs { dense, mux, small, mid }
}

/// the `slot`-th big case; returns false when there is none left for this tier
fn big_case(b: &Bigs, slot: usize, thorough: bool, rng: &mut Rng64, out: &mut Out) -> bool {
    let f = |x: usize| Some(x);
    let fixed = 8usize;
    if slot < fixed {
        match slot {
            // the right operand is the big one (the memo key packs the right pointer into the low bits)
            0 => bin(lazy_table2(8), 8, &b.small, &b.mux, None, f(17), f(18), out),
            1 => bin(eager_table2(8), 8, &b.small, &b.dense, f(18), f(5), f(19), out),
            2 => run("C04.ter", &[lazy_table3(0xCA), s("202"), b.dense.clone(), b.small.clone(), b.mid.clone(), fmt_optvar(f(3)), fmt_optvar(f(18)), s("-"), fmt_optvar(f(3))], out),
            3 => bin(eager_table2(6), 6, &b.mux, &b.small, f(0), f(19), f(0), out),
            4 => run("C04.ter", &[eager_table3(0xE8), s("232"), b.small.clone(), b.mux.clone(), b.mid.clone(), s("-"), fmt_optvar(f(16)), fmt_optvar(f(16)), fmt_optvar(f(19))], out),
            5 => { let t = random_table2(rng, 11); bin(t, 11, &b.dense, &b.mid, f(7), f(7), f(7), out) },
            6 => { let t = random_table3(rng, 0x96); run("C04.ter", &[t, s("150"), b.mid.clone(), b.small.clone(), b.dense.clone(), fmt_optvar(f(0)), s("-"), fmt_optvar(f(10)), s("-")], out) },
            _ => { let t = random_table2(rng, 4); bin(t, 4, &b.mid, &b.dense, f(1), None, f(12), out) },
        }
        return true;
    }
    if !thorough || slot >= fixed + 28 { return false; }
    // thorough: random tables and flips over the same shapes (right operand big twice as often)
    let n = 20usize;
    let fs = flips(n);
    let pf = |rng: &mut Rng64| if rng.chance(1, 4) { None } else { *rng.pick(&fs) };
    let big = if rng.bool() { &b.dense } else { &b.mux };
    let other = if rng.bool() { &b.small } else { &b.mid };
    match slot % 5 {
        0 | 1 => { let c = *rng.pick(&CONNS); bin(some_table2(rng, c), c, other, big, pf(rng), pf(rng), pf(rng), out) },
        2 => { let c = *rng.pick(&CONNS); bin(some_table2(rng, c), c, big, other, pf(rng), pf(rng), pf(rng), out) },
        _ => {
            let c3 = *rng.pick(&[0xCAu32, 0xE8, 0x96, 0x80, 0xFE, 0x1B]);
            let pos = rng.below(3);
            let ops: Vec<&String> = (0..3).map(|i| if i == pos { big } else if rng.bool() { &b.small } else { &b.mid }).collect();
            run("C04.ter", &[some_table3(rng, c3), c3.to_string(), ops[0].clone(), ops[1].clone(), ops[2].clone(),
                fmt_optvar(pf(rng)), fmt_optvar(pf(rng)), fmt_optvar(pf(rng)), fmt_optvar(pf(rng))], out);
        }
    }
    true
}

/// connectives used for the "several tables" sweeps: and, or, xor, imp, and_not, nand, a projection
const CONNS: [u32; 7] = [8, 14, 6, 11, 4, 7, 12];

pub fn gen(tier: Tier, rng: &mut Rng64, out: &mut Out) {
    let thorough = tier == Tier::Thorough;
    // --- operands with more than 65 536 nodes: 8 fixed cases (quick and thorough) + 28 random ones (thorough),
    //     emitted between the other sections (the runner shards the case file into contiguous chunks)
    let bigs = make_bigs(rng);
    let mut slot = 0usize;
    let mut emit_big = |rng: &mut Rng64, out: &mut Out| {
        let per_call = if thorough { 6 } else { 2 };
        for _ in 0..per_call { if big_case(&bigs, slot, thorough, rng, out) { slot += 1; } }
    };
    emit_big(rng, out);
    // --- n <= 2: all pairs x all flip choices (incl. one out-of-range value) x one random consistent table
    for n in 0..=2usize {
        let count = 1u64 << (1u64 << n);
        let mut fs = flips(n);
        fs.push(Some(n)); // out of range: panic
        for t1 in 0..count { for t2 in 0..count {
            let l = fmt_bdd(&bdd_of_tt(n, &tt_from_index(n, t1)));
            let r = fmt_bdd(&bdd_of_tt(n, &tt_from_index(n, t2)));
            for fl in &fs { for fr in &fs { for fo in &fs {
                let oor = [fl, fr, fo].iter().any(|f| **f == Some(n));
                if oor && !(thorough || rng.chance(1, 6)) { continue; }
                let c = rng.below(16) as u32;
                bin(some_table2(rng, c), c, &l, &r, *fl, *fr, *fo, out);
            } } }
        } }
    }
    emit_big(rng, out);
    // --- n = 3: pairs (sampled in quick, all in thorough) x tables x all 4^3 flip choices
    let all3: Vec<String> = (0..256u64).map(|t| fmt_bdd(&bdd_of_tt(3, &tt_from_index(3, t)))).collect();
    let fs3 = flips(3);
    if thorough {
        // every pair: 10 sampled flip configurations with a random table
        for a in 0..256usize { for b in 0..256usize {
            for _ in 0..10 {
                let c = rng.below(16) as u32;
                bin(some_table2(rng, c), c, &all3[a], &all3[b], *rng.pick(&fs3), *rng.pick(&fs3), *rng.pick(&fs3), out);
            }
        } }
    }
    let full_pairs = if thorough { 1500 } else { 40 };
    for _ in 0..full_pairs {
        let (l, r) = (rng.pick(&all3).clone(), rng.pick(&all3).clone());
        // all 64 flip choices, for several tables of several connectives
        let k = if thorough { 5 } else { 3 };
        for j in 0..k {
            let c = if j == 0 { rng.below(16) as u32 } else { *rng.pick(&CONNS) };
            let table = match j % 3 { 0 => eager_table2(c), 1 => lazy_table2(c), _ => random_table2(rng, c) };
            for fl in &fs3 { for fr in &fs3 { for fo in &fs3 {
                bin(table.clone(), c, &l, &r, *fl, *fr, *fo, out);
            } } }
        }
    }
    emit_big(rng, out);
    // --- flips on variables that neither operand mentions: operands over n = 4 depending on x1, x2 only
    let rounds = if thorough { 4000 } else { 150 };
    for _ in 0..rounds {
        let n = 4usize;
        let f = |rng: &mut Rng64| -> String {
            let inner: u64 = rng.below(16);
            let tt: Vec<bool> = (0..16usize).map(|i| (inner >> ((i >> 1) & 3)) & 1 == 1).collect();
            fmt_bdd(&bdd_of_tt(n, &tt))
        };
        let (l, r) = (f(rng), f(rng));
        let c = *rng.pick(&CONNS);
        let unused = [Some(0usize), Some(3usize)];
        bin(some_table2(rng, c), c, &l, &r, *rng.pick(&unused), *rng.pick(&unused), *rng.pick(&unused), out);
        bin(some_table2(rng, c), c, &l, &r, *rng.pick(&flips(n)), *rng.pick(&unused), *rng.pick(&flips(n)), out);
    }
    emit_big(rng, out);
    // --- random operands over 4..6 variables (shared sub-diagrams, skipped levels, non-canonical operands)
    let rounds = if thorough { 60000 } else { 2500 };
    for _ in 0..rounds {
        let n = 4 + rng.below(3) as usize;
        let mut l = random_bdd(rng, n);
        let mut r = random_bdd(rng, n);
        if rng.chance(1, 6) { l = noncanon_variant(rng, &l); }
        if rng.chance(1, 6) { r = noncanon_variant(rng, &r); }
        let (ls, rs) = (fmt_bdd(&l), fmt_bdd(&r));
        let fs = flips(n);
        let c = rng.below(16) as u32;
        let pickf = |rng: &mut Rng64| if rng.chance(1, 5) { None } else { *rng.pick(&fs) };
        let (fl, fr, fo) = (pickf(rng), pickf(rng), pickf(rng));
        bin(some_table2(rng, c), c, &ls, &rs, fl, fr, fo, out);
        if rng.chance(1, 4) {
            // equal flip variables everywhere
            let x = Some(rng.below(n as u64) as usize);
            bin(some_table2(rng, c), c, &ls, &rs, x, x, x, out);
        }
    }
    emit_big(rng, out);
    // --- panics: out-of-range flips (any position) and operands with different variable counts
    let rounds = if thorough { 3000 } else { 200 };
    for _ in 0..rounds {
        let n = 1 + rng.below(5) as usize;
        let (ls, rs) = (fmt_bdd(&random_bdd(rng, n)), fmt_bdd(&random_bdd(rng, n)));
        let bad = [Some(n), Some(n + 1), Some(n + 7), Some(65535usize)];
        let fs = flips(n);
        let pos = rng.below(3);
        let f = |rng: &mut Rng64, i: u64| if i == pos { *rng.pick(&bad) } else if rng.bool() { None } else { *rng.pick(&fs) };
        let (fl, fr, fo) = (f(rng, 0), f(rng, 1), f(rng, 2));
        let c = rng.below(16) as u32;
        bin(some_table2(rng, c), c, &ls, &rs, fl, fr, fo, out);
        if rng.chance(1, 4) {
            let m = n + 1 + rng.below(2) as usize;
            let other = fmt_bdd(&random_bdd(rng, m));
            // a flip that is in range for one operand only
            bin(some_table2(rng, c), c, &ls, &other, None, Some(n), None, out);
            bin(some_table2(rng, c), c, &other, &rs, *rng.pick(&fs), None, None, out);
        }
    }
    // --- ALIASING: both (all three / two of three) operands are the same function — once as the SAME object
    //     (`&a, &a`), once as equal clones — with all flip combinations (distinct, equal, absent) and all 16
    //     connectives; n <= 2 exhaustively, n = 3 sampled (thorough: all 256 functions), random operands over 4..6
    let modes = ["alias", "clone"];
    let bin_a = |mode: &str, table: String, c: u32, a: &str, fl: Option<usize>, fr: Option<usize>, fo: Option<usize>, out: &mut Out| {
        run("C04.binA", &[s(mode), table, c.to_string(), s(a), fmt_optvar(fl), fmt_optvar(fr), fmt_optvar(fo)], out);
    };
    for n in 1..=2usize {
        let count = 1u64 << (1u64 << n);
        let fs = flips(n);
        for t in 0..count {
            let a = fmt_bdd(&bdd_of_tt(n, &tt_from_index(n, t)));
            for fl in &fs { for fr in &fs { for fo in &fs { for c in 0..16u32 {
                let table = match rng.below(3) { 0 => eager_table2(c), 1 => lazy_table2(c), _ => random_table2(rng, c) };
                bin_a("alias", table.clone(), c, &a, *fl, *fr, *fo, out);
                if thorough || rng.chance(1, 4) { bin_a("clone", table, c, &a, *fl, *fr, *fo, out); }
            } } } }
        }
    }
    let fns3 = if thorough { 256 } else { 24 };
    for i in 0..fns3 {
        let a = if thorough { all3[i].clone() } else { rng.pick(&all3).clone() };
        for fl in &fs3 { for fr in &fs3 { for fo in &fs3 {
            let tables = if thorough { 16 } else { 2 };
            for j in 0..tables {
                let c = if thorough { j as u32 } else { rng.below(16) as u32 };
                let table = some_table2(rng, c);
                bin_a("alias", table.clone(), c, &a, *fl, *fr, *fo, out);
                if thorough || rng.chance(1, 4) { bin_a("clone", table, c, &a, *fl, *fr, *fo, out); }
            }
        } } }
    }
    for _ in 0..(if thorough { 20000 } else { 500 }) {
        let n = 4 + rng.below(3) as usize;
        let mut b = random_bdd(rng, n);
        if rng.chance(1, 8) { b = noncanon_variant(rng, &b); }
        let a = fmt_bdd(&b);
        let fs = flips(n);
        let c = rng.below(16) as u32;
        let table = some_table2(rng, c);
        let (fl, fr, fo) = (*rng.pick(&fs), *rng.pick(&fs), *rng.pick(&fs));
        for mode in modes { bin_a(mode, table.clone(), c, &a, fl, fr, fo, out); }
    }
    // ternary aliasing: all three / two of three operands the same object, a few dozen tables, sampled flips
    let pats = ["aaa", "aab", "aba", "baa"];
    let conns3: Vec<u32> = { let mut v = vec![0xCAu32, 0xE8, 0x96, 0x80, 0xFE, 0x1B, 0xAC, 0xD8, 0x69, 0x17, 0x7F, 0x01];
        for _ in 0..24 { v.push(rng.below(256) as u32); } v };
    for c3 in &conns3 {
        for _ in 0..(if thorough { 400 } else { 12 }) {
            let n = 1 + rng.below(3) as usize;
            let count = 1u64 << (1u64 << n);
            let a = fmt_bdd(&bdd_of_tt(n, &tt_from_index(n, rng.below(count))));
            let b = fmt_bdd(&bdd_of_tt(n, &tt_from_index(n, rng.below(count))));
            let fs = flips(n);
            let table = some_table3(rng, *c3);
            let pat = *rng.pick(&pats);
            let f: Vec<String> = (0..4).map(|_| fmt_optvar(*rng.pick(&fs))).collect();
            for mode in modes {
                run("C04.terA", &[s(mode), s(pat), table.clone(), c3.to_string(), a.clone(), b.clone(), f[0].clone(), f[1].clone(), f[2].clone(), f[3].clone()], out);
            }
        }
    }
    emit_big(rng, out);
    // --- ternary: small universes with sampled flip choices (4^4), random operands over 4..5 variables
    let rounds = if thorough { 120000 } else { 5000 };
    for i in 0..rounds {
        let n = if i % 5 == 4 { 4 + rng.below(2) as usize } else { rng.below(4) as usize };
        let f = |rng: &mut Rng64| -> String {
            if n <= 3 { let count = 1u64 << (1u64 << n); fmt_bdd(&bdd_of_tt(n, &tt_from_index(n, rng.below(count)))) }
            else { fmt_bdd(&random_bdd(rng, n)) }
        };
        let (x, y, z) = (f(rng), f(rng), f(rng));
        let mut fs = flips(n);
        if rng.chance(1, 12) { fs.push(Some(n)); } // sometimes out of range: panic
        let c3 = rng.below(256) as u32;
        run("C04.ter", &[some_table3(rng, c3), c3.to_string(), x, y, z,
            fmt_optvar(*rng.pick(&fs)), fmt_optvar(*rng.pick(&fs)), fmt_optvar(*rng.pick(&fs)), fmt_optvar(*rng.pick(&fs))], out);
    }
    // ternary: all 4^4 flip choices for a few triples over 3 variables
    let triples = if thorough { 60 } else { 3 };
    for _ in 0..triples {
        let (x, y, z) = (rng.pick(&all3).clone(), rng.pick(&all3).clone(), rng.pick(&all3).clone());
        let c3 = rng.below(256) as u32;
        let table = some_table3(rng, c3);
        for fa in &fs3 { for fb in &fs3 { for fc in &fs3 { for fo in &fs3 {
            run("C04.ter", &[table.clone(), c3.to_string(), x.clone(), y.clone(), z.clone(),
                fmt_optvar(*fa), fmt_optvar(*fb), fmt_optvar(*fc), fmt_optvar(*fo)], out);
        } } } }
    }
}

fn main() { harness_main(gen, run) }
