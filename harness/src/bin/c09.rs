//! C09: model counts and support sets are exact.
//!
//! Case kinds (inputs => observed):
//!   C09.cnt <bdd>      => exact clause f64bits support size_per_variable size npaths pcounts vcounts
//!        (npaths: items of sat_clauses() by an explicit next() loop; pcounts: `j:count()` after j next() calls;
//!         vcounts: `loop;j:count()…` for sat_valuations(); `-` when the count exceeds 2^17)
//!   C09.law <n> <a> <b> => |a| |b| |a or b| |a and b| |not a|        (or/and/not by the real library)
//!   C09.bad <bdd>      => exact clause        (malformed stream: `panic` is an outcome)
//!   C09.res <op> <f> <vars> <arg> => result exact clause f64bits support size_per_variable size
//!        (the counting functions applied to the RESULT of a library operation on f, computed here)
#[path = "../common.rs"]
mod common;
use common::*;
use biodivine_lib_bdd::*;

fn s(x: &str) -> String { x.to_string() }

fn fmt_support(b: &Bdd) -> String {
    let mut v: Vec<usize> = b.support_set().into_iter().map(|x| x.to_index()).collect();
    v.sort();
    fmt_usizes(&v)
}
fn fmt_spv(b: &Bdd) -> String {
    let mut v: Vec<(usize, usize)> = b.size_per_variable().into_iter().map(|(x, c)| (x.to_index(), c)).collect();
    v.sort();
    if v.is_empty() { s("~") } else { v.iter().map(|(x, c)| format!("{}:{}", x, c)).collect::<Vec<_>>().join(",") }
}
fn or_panic<T: ToString>(x: Option<T>) -> String { match x { Some(x) => x.to_string(), None => s("panic") } }

/// Executes one case from its textual inputs and writes the observation.
pub fn run(key: &str, a: &[String], out: &mut Out) {
    out.begin(key, a);
    match key {
        "C09.cnt" => {
            let b = Bdd::from_string(&a[0]);
            let exact = catch(|| b.exact_cardinality());
            let clause = catch(|| b.exact_clause_cardinality());
            let fl = catch(|| b.cardinality());
            let sup = catch(|| fmt_support(&b));
            let spv = catch(|| fmt_spv(&b));
            // the number of paths actually yielded by the iterator, when that is affordable
            let small = match &clause { Some(c) => c.bits() <= 17, None => false };
            // counted by an explicit `next()` loop - never by the iterator's own `count()` (an overridden
            // `count()` that answers from exact_clause_cardinality would make the comparison vacuous)
            let npaths = if small { or_panic(catch(|| { let mut it = b.sat_clauses(); let mut k = 0usize; while let Some(_) = it.next() { k += 1; } k })) } else { s("-") };
            // `count()` of a fresh iterator and after j explicit `next()` calls, j in {0, 1, 2, N-1, N}: `j:count` pairs
            let js = |n: usize| { let mut v = vec![0usize, 1, 2, n.saturating_sub(1), n]; v.retain(|j| *j <= n); v.dedup(); v };
            let pcounts = match npaths.parse::<usize>() {
                Ok(n) => catch(|| js(n).iter().map(|j| { let mut it = b.sat_clauses(); for _ in 0..*j { it.next(); } format!("{}:{}", j, it.count()) }).collect::<Vec<_>>().join(",")).unwrap_or(s("panic")),
                Err(_) => s("-"),
            };
            // the same for sat_valuations against exact_cardinality, when that is small
            let vsmall = match &exact { Some(c) => c.bits() <= 17, None => false } && npaths != "panic";
            let vcounts = if vsmall {
                catch(|| {
                    let mut it = b.sat_valuations(); let mut n = 0usize; while let Some(_) = it.next() { n += 1; }
                    let rest = js(n).iter().map(|j| { let mut it = b.sat_valuations(); for _ in 0..*j { it.next(); } format!("{}:{}", j, it.count()) }).collect::<Vec<_>>().join(",");
                    format!("{};{}", n, rest)
                }).unwrap_or(s("panic"))
            } else { s("-") };
            out.case(key, a, &[
                or_panic(exact), or_panic(clause),
                match fl { Some(f) => format!("{:016x}", f.to_bits()), None => s("panic") },
                sup.unwrap_or(s("panic")), spv.unwrap_or(s("panic")),
                b.size().to_string(), npaths, pcounts, vcounts,
            ]);
        }
        "C09.law" => {
            let (x, y) = (Bdd::from_string(&a[1]), Bdd::from_string(&a[2]));
            let ca = catch(|| x.exact_cardinality());
            let cb = catch(|| y.exact_cardinality());
            let cor = catch(|| x.or(&y).exact_cardinality());
            let cand = catch(|| x.and(&y).exact_cardinality());
            let cnot = catch(|| x.not().exact_cardinality());
            out.case(key, a, &[or_panic(ca), or_panic(cb), or_panic(cor), or_panic(cand), or_panic(cnot)]);
        }
        "C09.res" => {
            let f = Bdd::from_string(&a[1]);
            let vars: Vec<BddVariable> = if a[2] == "~" { vec![] } else { a[2].split(',').map(|x| var(x.parse().unwrap())).collect() };
            let bits: Vec<bool> = if a[3] == "~" || a[3].starts_with('|') { vec![] } else { a[3].chars().map(|c| c == '1').collect() };
            let lits: Vec<(BddVariable, bool)> = vars.iter().cloned().zip(bits.iter().cloned()).collect();
            let res = catch(|| match a[0].as_str() {
                "exists" => f.exists(&vars),
                "for_all" => f.for_all(&vars),
                "project" => f.project(&vars),
                "var_exists" => f.var_exists(vars[0]),
                "var_for_all" => f.var_for_all(vars[0]),
                "restrict" => f.restrict(&lits),
                "var_restrict" => f.var_restrict(vars[0], bits[0]),
                "select" => f.select(&lits),
                "pick" => f.pick(&vars),
                "var_pick" => f.var_pick(vars[0]),
                "substitute" => f.substitute(vars[0], &Bdd::from_string(&a[3])),
                "and_not" => f.and_not(&Bdd::from_string(&a[3])),
                "not" => f.not(),
                _ => panic!("bad op"),
            });
            match res {
                None => out.case(key, a, &[s("panic")]),
                Some(b) => {
                    let exact = catch(|| b.exact_cardinality());
                    let clause = catch(|| b.exact_clause_cardinality());
                    let fl = catch(|| b.cardinality());
                    let sup = catch(|| fmt_support(&b));
                    let spv = catch(|| fmt_spv(&b));
                    out.case(key, a, &[fmt_bdd(&b), or_panic(exact), or_panic(clause),
                        match fl { Some(f) => format!("{:016x}", f.to_bits()), None => s("panic") },
                        sup.unwrap_or(s("panic")), spv.unwrap_or(s("panic")), b.size().to_string()]);
                }
            }
        }
        "C09.bad" => {
            let b = Bdd::from_string(&a[0]);
            let exact = catch(|| b.exact_cardinality());
            let clause = catch(|| b.exact_clause_cardinality());
            out.case(key, a, &[or_panic(exact), or_panic(clause)]);
        }
        _ => panic!("unknown key {}", key),
    }
}

/// `m` distinct sorted positions below `n`, with several gap shapes
fn gap_positions(rng: &mut Rng64, n: usize, m: usize) -> Vec<usize> {
    let m = m.min(n);
    let mut pos: Vec<usize> = Vec::new();
    let shape = rng.below(5);
    while pos.len() < m {
        let p = match shape {
            0 => rng.below(n as u64) as usize,                                  // uniform
            1 => rng.below((m as u64 + 3).min(n as u64)) as usize,              // packed at the top
            2 => n - 1 - rng.below((m as u64 + 3).min(n as u64)) as usize,      // packed at the bottom
            3 => if rng.bool() { rng.below(4.min(n as u64)) as usize } else { n - 1 - rng.below(4.min(n as u64)) as usize }, // both ends: one huge gap
            _ => { let step = (n / (m + 1)).max(1); ((pos.len() + 1) * step + rng.below(3) as usize).min(n - 1) } // evenly spread
        };
        if !pos.contains(&p) { pos.push(p); } else if shape != 0 { let q = rng.below(n as u64) as usize; if !pos.contains(&q) { pos.push(q); } }
    }
    pos.sort();
    pos
}

/// canonical diagram of `tt` (a function of `pos.len()` variables) placed on the levels `pos` of `n` variables
fn gap_triples(n: usize, pos: &[usize], tt: &[bool]) -> Vec<(usize, usize, usize)> {
    let m = pos.len();
    canon_triples(m, tt).into_iter().map(|(v, l, h)| (if v == m { n } else { pos[v] }, l, h)).collect()
}

fn random_gap(rng: &mut Rng64, n: usize, max_m: usize) -> Vec<(usize, usize, usize)> {
    let m = (rng.below(max_m as u64 + 1) as usize).min(n);
    let pos = gap_positions(rng, n, m);
    let tt = random_tt(rng, m);
    gap_triples(n, &pos, &tt)
}

/// the single valuation `bits` as a chain (what `Bdd::from(BddValuation)` builds)
fn valuation_triples(bits: &[bool]) -> Vec<(usize, usize, usize)> {
    let n = bits.len();
    let mut nodes = vec![(n, 0, 0), (n, 1, 1)];
    for i in (0..n).rev() {
        let r = nodes.len() - 1;
        nodes.push(if bits[i] { (i, 0, r) } else { (i, r, 0) });
    }
    nodes
}

/// a conjunction of literals on the listed levels
fn cube_triples(n: usize, lits: &[(usize, bool)]) -> Vec<(usize, usize, usize)> {
    let mut nodes = vec![(n, 0, 0), (n, 1, 1)];
    for (v, b) in lits.iter().rev() {
        let r = nodes.len() - 1;
        nodes.push(if *b { (*v, 0, r) } else { (*v, r, 0) });
    }
    nodes
}

/// a random level-ordered diagram that is valid but not reduced: `k` decision nodes on random levels of `n`
/// variables (deepest first, so children precede parents and the root is last), children drawn among the
/// deeper nodes (`near`: among the six nearest) or the terminals (zero with probability ~ pz/8)
fn random_dag(rng: &mut Rng64, n: usize, k: usize, pz: u64, near: bool) -> Vec<(usize, usize, usize)> {
    let mut levels: Vec<usize> = (0..k).map(|_| rng.below(n as u64) as usize).collect();
    levels.sort(); levels.reverse();
    let mut nodes = vec![(n, 0, 0), (n, 1, 1)];
    for i in 0..k {
        let lv = levels[i];
        let mut c = 0; while c < i && levels[c] > lv { c += 1; }
        let mut pick = |rng: &mut Rng64| -> usize {
            if c == 0 || rng.below(8) < pz { if rng.below(8) < pz { 0 } else { 1 } }
            else if near { let w = c.min(6); 2 + c - 1 - rng.below(w as u64) as usize }
            else { 2 + rng.below(c as u64) as usize }
        };
        let l = pick(rng); let h = pick(rng);
        nodes.push((lv, l, h));
    }
    nodes
}

/// `cnt` for a diagram the generator claims to be valid: `Bdd::from_nodes` (the validating constructor) must accept it
fn cnt_valid(t: &[(usize, usize, usize)], out: &mut Out) {
    let data: Vec<BddNode> = t.iter().map(|(v, l, h)| BddNode::mk_node(var(*v), BddPointer::from_index(*l), BddPointer::from_index(*h))).collect();
    assert!(Bdd::from_nodes(&data).is_ok(), "generator produced an invalid diagram: {}", fmt_triples(t));
    cnt(t, out)
}

fn cnt(t: &[(usize, usize, usize)], out: &mut Out) { run("C09.cnt", &[fmt_triples(t)], out) }

/// the same diagram with its inner decision nodes renumbered by a random permutation (the root stays
/// last): valid, reduced, but NOT in post-order — a node may precede its children
fn permute_inner(rng: &mut Rng64, t: &[(usize, usize, usize)]) -> Vec<(usize, usize, usize)> {
    let len = t.len();
    if len < 5 { return t.to_vec(); }
    let root = len - 1;
    let mut perm: Vec<usize> = (0..len).collect();
    for i in (3..root).rev() { let j = 2 + rng.below((i - 1) as u64) as usize; perm.swap(i, j); }
    let mut out = t.to_vec();
    for i in 2..len { out[perm[i]] = (t[i].0, perm[t[i].1], perm[t[i].2]); }
    out
}

/// `x_a | (x_{a+1} & … & x_{b-1})`-style diagrams over `n` variables: one very short and one very long
/// path to the 1-terminal, so the exact count has set bits more than 53 binary places apart
fn short_long_triples(rng: &mut Rng64, n: usize) -> Vec<(usize, usize, usize)> {
    // the long cube on levels `first+1 .. n` (random polarities, some levels skipped), the short literal on `first`
    let first = rng.below(3.min(n as u64 - 1)) as usize;
    let mut nodes = vec![(n, 0, 0), (n, 1, 1)];
    let mut levels: Vec<usize> = (first + 1..n).filter(|_| !rng.chance(1, 10)).collect();
    if levels.is_empty() { levels.push(n - 1); }
    for v in levels.iter().rev() {
        let r = nodes.len() - 1;
        nodes.push(if rng.bool() { (*v, 0, r) } else { (*v, r, 0) });
    }
    let r = nodes.len() - 1;
    nodes.push(if rng.bool() { (first, r, 1) } else { (first, 1, r) });
    nodes
}

pub fn gen(tier: Tier, rng: &mut Rng64, out: &mut Out) {
    let thorough = tier == Tier::Thorough;
    // --- U-exh: all functions over n <= 3, n = 4 all (thorough) / sampled (quick)
    for n in 0..=3usize {
        for t in 0..(1u64 << (1u64 << n)) { cnt(&canon_triples(n, &tt_from_index(n, t)), out); }
    }
    if thorough {
        for t in 0..65536u64 { cnt(&canon_triples(4, &tt_from_index(4, t)), out); }
    } else {
        for _ in 0..4000 { cnt(&canon_triples(4, &tt_from_index(4, rng.below(65536))), out); }
    }
    // --- laws on the small exhaustive universes
    for n in 0..=2usize {
        let c = 1u64 << (1u64 << n);
        for t1 in 0..c { for t2 in 0..c {
            run("C09.law", &[n.to_string(), fmt_triples(&canon_triples(n, &tt_from_index(n, t1))), fmt_triples(&canon_triples(n, &tt_from_index(n, t2)))], out);
        } }
    }
    // --- fixed structured large diagrams
    for n in [1usize, 2, 64, 65, 1023, 1024, 1025, 1026, 2000, 2049, 5000] {
        // single valuations (the fixed defect F6 lives at n >= 1025), literals, far-apart cubes
        let bits: Vec<bool> = (0..n).map(|_| rng.bool()).collect();
        cnt(&valuation_triples(&bits), out);
        cnt(&valuation_triples(&vec![false; n]), out);
        cnt(&valuation_triples(&vec![true; n]), out);
        for v in [0, n / 2, n - 1] {
            cnt(&cube_triples(n, &[(v, true)]), out);
            cnt(&cube_triples(n, &[(v, false)]), out);
        }
        if n >= 2 {
            cnt(&cube_triples(n, &[(0, true), (n - 1, false)]), out);
            cnt(&cube_triples(n, &[(0, false), (n - 1, true)]), out);
        }
        // the first k variables fixed, the remaining n-k free: count 2^(n-k), representable iff n-k < 1024
        for k in [1usize, 5, 76, 77, 200] {
            if k < n {
                let lits: Vec<(usize, bool)> = (0..k).map(|i| (i, rng.bool())).collect();
                cnt(&cube_triples(n, &lits), out);
                let lits: Vec<(usize, bool)> = (n - k..n).map(|i| (i, rng.bool())).collect();
                cnt(&cube_triples(n, &lits), out);
            }
        }
        cnt(&[(n, 0, 0)], out);
        cnt(&[(n, 0, 0), (n, 1, 1)], out);
    }
    // --- variable counts around the f64 mantissa / u64 boundary, counts with bits > 53 places apart
    //     (e.g. x0 | (x1 & … & x_{n-1}): 2^(n-1) + 1); also used as operands of the laws
    for n in 50..=70usize {
        for _ in 0..(if thorough { 40 } else { 6 }) {
            let t = short_long_triples(rng, n);
            cnt(&t, out);
            cnt(&permute_inner(rng, &t), out);
            let u = short_long_triples(rng, n);
            run("C09.law", &[n.to_string(), fmt_triples(&t), fmt_triples(&u)], out);
            let g = random_gap(rng, n, 5);
            run("C09.law", &[n.to_string(), fmt_triples(&t), fmt_triples(&g)], out);
        }
        // the plain form: x0 | (x1 & … & x_{n-1})
        let mut lits: Vec<(usize, usize, usize)> = vec![(n, 0, 0), (n, 1, 1)];
        for v in (1..n).rev() { let r = lits.len() - 1; lits.push((v, 0, r)); }
        let r = lits.len() - 1; lits.push((0, r, 1));
        cnt(&lits, out);
    }
    // --- valid, reduced, but not in post-order (inner nodes renumbered at random): the counting code is a
    //     stack DFS, not a forward pass, and must not care
    for _ in 0..(if thorough { 30000 } else { 2500 }) {
        let t = match rng.below(3) {
            0 => canon_triples(4, &tt_from_index(4, rng.below(65536))),
            1 => { let n = 5 + rng.below(4) as usize; let tt = random_tt(rng, n); canon_triples(n, &tt) }
            _ => { let n = 10 + rng.below(3000) as usize; random_gap(rng, n, 7) }
        };
        cnt(&permute_inner(rng, &t), out);
    }
    // --- U-gap: few-node diagrams over 10 … 5 000 variables with arbitrary level gaps
    let rounds = if thorough { 60000 } else { 3500 };
    for i in 0..rounds {
        let n = match i % 6 {
            0 => 10 + rng.below(30) as usize,
            1 => 40 + rng.below(200) as usize,
            2 => 900 + rng.below(300) as usize,          // around the f64 exponent limit
            3 => 1025 + rng.below(1100) as usize,
            4 => 2049 + rng.below(2952) as usize,
            _ => 5000,
        };
        let t = random_gap(rng, n, if i % 7 == 0 { 8 } else { 5 });
        cnt(&t, out);
    }
    // --- valid but non-canonical diagrams (counts must still be exact; support need not be)
    for _ in 0..(if thorough { 20000 } else { 1200 }) {
        let n = 1 + rng.below(7) as usize;
        let b = random_bdd(rng, n);
        let nc = noncanon_variant(rng, &b);
        run("C09.cnt", &[fmt_bdd(&nc)], out);
    }
    // --- random dense diagrams over 5..9 variables
    for _ in 0..(if thorough { 20000 } else { 1200 }) {
        let n = 5 + rng.below(5) as usize;
        run("C09.cnt", &[fmt_bdd(&random_bdd(rng, n))], out);
    }
    // --- laws at n in {0, 1, 7, 64, 65, 1000, 4000} (and 3 for the exhaustive-ish small case)
    let per_n = if thorough { 8000 } else { 450 };
    for n in [0usize, 1, 3, 7, 64, 65, 1000, 4000] {
        for _ in 0..per_n {
            let (ta, tb) = if n <= 7 {
                let (x, y) = (random_tt(rng, n), random_tt(rng, n));
                (canon_triples(n, &x), canon_triples(n, &y))
            } else {
                // operands on overlapping level sets drawn from a common pool
                let pool = gap_positions(rng, n, 9);
                let pick = |rng: &mut Rng64| { let mut p: Vec<usize> = pool.iter().cloned().filter(|_| rng.chance(3, 5)).collect(); p.truncate(6); p };
                let (pa, pb) = (pick(rng), pick(rng));
                let (x, y) = (random_tt(rng, pa.len()), random_tt(rng, pb.len()));
                (gap_triples(n, &pa, &x), gap_triples(n, &pb, &y))
            };
            run("C09.law", &[n.to_string(), fmt_triples(&ta), fmt_triples(&tb)], out);
        }
    }
    // --- the floating-point clause (cardinality(): binary64 model compared bit for bit) --------------------
    // non-canonical roots accepted by from_nodes/validate, root variable on both sides of 1024 (2.0.powi(v)
    // overflows from v = 1024 on): unsatisfiable (the F11 defect: 0.0 * inf), tautology-like, unsatisfiable
    // through redundant inner nodes, count-1 single paths, the same below a redundant root test
    {
        let ns: &[usize] = if thorough { &[1000, 1023, 1024, 1025, 1026, 1077, 1100, 2000, 2098, 2099, 5000] } else { &[1023, 1024, 1025, 1077, 2000, 5000] };
        for &n in ns {
            let vs: Vec<usize> = if thorough { vec![0, 1, 52, 53, 1000 % n, 1022 % n, 1023 % n, 1024 % n, 1025 % n, 1076 % n, n / 2, n - 2, n - 1] }
                                 else { vec![0, 53, 1023 % n, 1024 % n, 1025 % n, n - 1] };
            for &v in &vs {
                cnt_valid(&[(n, 0, 0), (n, 1, 1), (v, 0, 0)], out);
                cnt_valid(&[(n, 0, 0), (n, 1, 1), (v, 1, 1)], out);
                if v + 1 < n {
                    cnt_valid(&[(n, 0, 0), (n, 1, 1), (n - 1, 0, 0), (v, 2, 2)], out);
                    cnt_valid(&[(n, 0, 0), (n, 1, 1), (n - 1, 0, 0), (v, 0, 2)], out);
                    cnt_valid(&[(n, 0, 0), (n, 1, 1), (n - 1, 0, 0), (n - 1, 0, 1), (v, 2, 2)], out);
                }
                // single path from level v on (count 1 before the root offset 2^v)
                let bits: Vec<bool> = (0..n).map(|_| rng.bool()).collect();
                let mut nodes = vec![(n, 0, 0), (n, 1, 1)];
                for i in (v..n).rev() { let r = nodes.len() - 1; nodes.push(if bits[i] { (i, 0, r) } else { (i, r, 0) }); }
                if thorough || nodes.len() < 1200 { cnt_valid(&nodes, out); }
                if v > 0 && (thorough || nodes.len() < 1200) { let r = nodes.len() - 1; nodes.push((v - 1, r, r)); cnt_valid(&nodes, out); }
            }
        }
    }
    // ties and near-ties of the rounding: x0 | (x1 & … & x_{n-5} & g(last four variables)): count 2^(n-1) + #g,
    // n - 1 = 53 … 59, so the low bits of the count fall on, just below and just above half an ulp
    for n in 54..=60usize {
        for t in 0..65536u64 {
            let keep = if thorough { t % 61 == (n as u64) % 61 || t <= 300 } else { t % 2048 == (n as u64 * 37) % 2048 || (t < 64 && t % 2 == (n as u64) % 2) };
            if !keep { continue; }
            let g = canon_triples(4, &tt_from_index(4, t));
            if g.len() < 2 { continue; }
            let mut nodes: Vec<(usize, usize, usize)> = g.iter().map(|(v, l, h)| (if *v == 4 { n } else { n - 4 + *v }, *l, *h)).collect();
            for v in (1..n - 4).rev() { let r = nodes.len() - 1; nodes.push((v, 0, r)); }
            let r = nodes.len() - 1; nodes.push((0, r, 1));
            cnt(&nodes, out);
        }
    }
    // the overflow threshold 2^1024 - 2^970: x_a | … | x_{a+k-1} over n variables has 2^n - 2^(n-k) models
    // (largest finite double at n = 1024, k = 53; a tie that rounds to +inf at k = 54)
    for n in [1023usize, 1024, 1025, 1026, 1030, 1077] {
        for k in 1..=60usize {
            if !thorough && !(k <= 2 || (50..=56).contains(&k)) { continue; }
            for a in [0usize, 1, 2, 7] {
                if !thorough && a != 0 && a != 7 { continue; }
                let mut nodes = vec![(n, 0, 0), (n, 1, 1)];
                for v in (a..a + k).rev() { let r = nodes.len() - 1; nodes.push((v, if r == 1 { 0 } else { r }, 1)); }
                cnt(&nodes, out);
            }
        }
    }
    // random valid, NOT reduced diagrams (many nodes per path, shared sub-diagrams, zero branches): many rounding
    // steps, counts with more than 53 significant bits; up to 5 000 variables
    for i in 0..(if thorough { 6000 } else { 320 }) {
        let n = match i % 6 {
            0 => 54 + rng.below(60) as usize,
            1 => 100 + rng.below(400) as usize,
            2 => 950 + rng.below(200) as usize,
            3 => 1025 + rng.below(1200) as usize,
            4 => 60 + rng.below(40) as usize,
            _ => 2100 + rng.below(2900) as usize,
        };
        let k = 2 + rng.below(if i % 10 == 0 { 400 } else { 60 }) as usize;
        let pz = rng.below(5);
        let near = rng.bool();
        cnt_valid(&random_dag(rng, n, k, pz, near), out);
    }
    // --- counting functions on RESULTS of library operations (a result with dead or redundant nodes would make
    //     support_set / size_per_variable report variables the function does not depend on)
    {
        let res = |op: &str, f: &String, vars: &[usize], arg: String, out: &mut Out| run("C09.res", &[s(op), f.clone(), fmt_usizes(vars), arg], out);
        // the smallest witness of a dead-node result: f = (x0 & (x1 | (x2 & x3))) | (!x0 & x4), exists x1
        let wit: Vec<bool> = (0..32usize).map(|i| { let x = |k: usize| (i >> (4 - k)) & 1 == 1; (x(0) && (x(1) || (x(2) && x(3)))) || (!x(0) && x(4)) }).collect();
        let wf = fmt_triples(&canon_triples(5, &wit));
        for v in 0..5usize { for op in ["exists", "for_all", "var_exists", "var_for_all", "project", "var_pick"] { res(op, &wf, &[v], s("~"), out); } }
        for _ in 0..(if thorough { 4000 } else { 220 }) {
            let n = 4 + rng.below(3) as usize;
            let f = fmt_bdd(&random_bdd(rng, n));
            for v in 0..n {
                res("var_exists", &f, &[v], s("~"), out);
                res("var_for_all", &f, &[v], s("~"), out);
                res("exists", &f, &[v], s("~"), out);
                res("for_all", &f, &[v], s("~"), out);
                if rng.chance(1, 3) { res("var_pick", &f, &[v], s("~"), out); }
                if rng.chance(1, 3) { let b = rng.bool(); res("var_restrict", &f, &[v], fmt_bools(&[b]), out); }
            }
            // several variables at once, in random order
            for _ in 0..3 {
                let mut vs: Vec<usize> = (0..n).filter(|_| rng.chance(2, 5)).collect();
                for i in (1..vs.len()).rev() { let j = rng.below(i as u64 + 1) as usize; vs.swap(i, j); }
                if vs.is_empty() { continue; }
                let bits: Vec<bool> = vs.iter().map(|_| rng.bool()).collect();
                res(*rng.pick(&["exists", "for_all", "project", "pick"]), &f, &vs, s("~"), out);
                res(*rng.pick(&["restrict", "select"]), &f, &vs, fmt_bools(&bits), out);
            }
            let g = fmt_bdd(&random_bdd(rng, n));
            res("substitute", &f, &[rng.below(n as u64) as usize], g.clone(), out);
            res("and_not", &f, &[], g, out);
            if rng.chance(1, 4) { res("not", &f, &[], s("~"), out); }
        }
    }
    // --- laws with an operand of more than 65 536 nodes (both operand orders): x18 & x19 and others against
    //     dense pseudo-random functions of 20 variables (~107 000 nodes)
    for k in 0..(if thorough { 8 } else { 2 }) {
        let n = 20usize;
        let tt: Vec<bool> = (0..(1usize << n)).map(|_| rng.bool()).collect();
        let big = fmt_triples(&canon_triples(n, &tt));
        let small = match k % 4 {
            0 => fmt_triples(&cube_triples(n, &[(18, true), (19, true)])),
            1 => fmt_triples(&cube_triples(n, &[(0, true), (19, false)])),
            2 => { let pos = [3usize, 11, 17, 19]; let t = random_tt(rng, 4); fmt_triples(&gap_triples(n, &pos, &t)) }
            _ => fmt_triples(&cube_triples(n, &[(19, true)])),
        };
        run("C09.law", &[n.to_string(), small.clone(), big.clone()], out);
        // the big operand alone through exact_cardinality, exact_clause_cardinality, cardinality, support_set, size_per_variable
        if k == 0 || thorough { run("C09.cnt", &[big.clone()], out); }
        run("C09.law", &[n.to_string(), big, small], out);
    }
    // --- malformed stream (kept apart): a reachable link outside the array is an index panic; garbage
    //     that the root does not reach is never looked at. Diagrams whose variables do not increase along
    //     a link are NOT generated: the u16 subtraction wraps in this (release) build and panics in a
    //     checked build, the model's outcome for them is `panic`.
    for _ in 0..(if thorough { 4000 } else { 300 }) {
        let n = 2 + rng.below(5) as usize;
        let b = random_bdd(rng, n);
        let mut nodes: Vec<(usize, usize, usize)> = b.clone().to_nodes().iter().map(|x| (x.var.to_index(), x.low_link.to_index(), x.high_link.to_index())).collect();
        if nodes.len() < 3 { continue; }
        let len = nodes.len();
        match rng.below(3) {
            0 => { // break a link of a random decision node (reachable: the diagram is canonical)
                let i = 2 + rng.below((len - 2) as u64) as usize;
                let far = len + rng.below(5) as usize;
                if rng.bool() { nodes[i].1 = far } else { nodes[i].2 = far }
            }
            1 => { // unreachable garbage with wild links, inserted before the root
                let r = nodes.pop().unwrap();
                nodes.push((rng.below(n as u64) as usize, len + 7, 0));
                nodes.push(r);
            }
            _ => { // unreachable garbage whose variable order is wrong
                let r = nodes.pop().unwrap();
                nodes.push((n - 1, 2, 2));
                nodes.push(r);
            }
        }
        run("C09.bad", &[fmt_triples(&nodes)], out);
    }
}

fn main() { harness_main(gen, run) }
