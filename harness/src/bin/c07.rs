//! C07: substitution equals syntactic replacement of a variable by a function.
//!
//!   C07.sub <f> <g> <x>  =>  <bdd>|panic        f.substitute(x, g)
#[path = "../common.rs"]
mod common;
use biodivine_lib_bdd::*;
use common::*;

fn s(x: &str) -> String { x.to_string() }

pub fn run(key: &str, a: &[String], out: &mut Out) {
    out.begin(key, a);
    match key {
        "C07.sub" => {
            let (f, g) = (Bdd::from_string(&a[0]), Bdd::from_string(&a[1]));
            let x: usize = a[2].parse().unwrap();
            let res = catch(|| f.substitute(var(x), &g));
            out.case(key, a, &[fmt_res_bdd(&res)]);
        }
        _ => panic!("unknown key {}", key),
    }
}

/// function of the variables in `sub` (strictly increasing), lifted to n variables; `must` are forced
/// to be essential by xor-ing them in
fn lifted_tt(rng: &mut Rng64, n: usize, sub: &[usize], must: &[usize]) -> TT {
    let k = sub.len();
    let inner = random_tt(rng, k);
    (0..(1usize << n)).map(|i| {
        let v = val_of_index(n, i);
        let mut j = 0usize;
        for x in sub { j = (j << 1) | (v[*x] as usize); }
        let mut r = inner[j];
        for m in must { r ^= v[*m]; }
        r
    }).collect()
}
fn random_subset(rng: &mut Rng64, n: usize) -> Vec<usize> {
    (0..n).filter(|_| rng.bool()).collect()
}

pub fn gen(tier: Tier, rng: &mut Rng64, out: &mut Out) {
    let thorough = tier == Tier::Thorough;
    // ---------------- all (f, g, x) over n <= 2 variables; n = 3: all 196 608 (thorough) / ~15 000 sampled (quick)
    for n in 0..=3usize {
        let count = 1u64 << (1u64 << n);
        let funcs: Vec<String> = (0..count).map(|t| fmt_bdd(&bdd_of_tt(n, &tt_from_index(n, t)))).collect();
        if n < 3 || thorough {
            for f in &funcs { for g in &funcs { for x in 0..n {
                run("C07.sub", &[f.clone(), g.clone(), x.to_string()], out);
            } } }
            // a variable id that is not a variable of the set: `self` is returned unchanged
            for f in &funcs { if rng.chance(1, 8) { run("C07.sub", &[f.clone(), rng.pick(&funcs).clone(), n.to_string()], out); } }
        } else {
            for _ in 0..15000 {
                let f = rng.pick(&funcs).clone();
                let g = rng.pick(&funcs).clone();
                run("C07.sub", &[f, g, rng.below(3).to_string()], out);
            }
        }
    }
    // ---------------- 4-5 variables (6 in thorough): g depends on x and on variables above / below x
    // that f does not mention; uniformly random pairs; non-canonical operands
    let rounds = if thorough { 120000 } else { 6000 };
    for _ in 0..rounds {
        let n = 4 + rng.below(if thorough { 3 } else { 2 }) as usize;
        let x = rng.below(n as u64) as usize;
        let (mut f, mut g);
        match rng.below(4) {
            0 => { f = random_bdd(rng, n); g = random_bdd(rng, n); }
            _ => {
                // f mentions x and a random subset S; g mentions x (mostly) and a subset T with T \ S non-empty
                let mut sf = random_subset(rng, n);
                if !sf.contains(&x) { sf.push(x); sf.sort(); }
                let mut sg = random_subset(rng, n);
                let clash = rng.chance(3, 4);
                if clash && !sg.contains(&x) { sg.push(x); }
                if !clash { sg.retain(|y| *y != x); }
                let outside: Vec<usize> = (0..n).filter(|y| !sf.contains(y)).collect();
                let mut must_g: Vec<usize> = if clash { vec![x] } else { vec![] };
                if !outside.is_empty() {
                    let y = *rng.pick(&outside);
                    if !sg.contains(&y) { sg.push(y); }
                    must_g.push(y);
                    // an adjacent outsider if there is one (the region the fixed defect lived in)
                    for z in [x + 1, x.wrapping_sub(1)] {
                        if z < n && outside.contains(&z) && rng.bool() { if !sg.contains(&z) { sg.push(z); } must_g.push(z); }
                    }
                }
                sg.sort(); must_g.sort(); must_g.dedup();
                f = bdd_of_tt(n, &lifted_tt(rng, n, &sf, &[x]));
                g = bdd_of_tt(n, &lifted_tt(rng, n, &sg, &must_g));
            }
        }
        if rng.chance(1, 8) { f = noncanon_variant(rng, &f); }
        if rng.chance(1, 8) { g = noncanon_variant(rng, &g); }
        run("C07.sub", &[fmt_bdd(&f), fmt_bdd(&g), x.to_string()], out);
    }
    // ---------------- structured families over 4 variables: g in {x, !x, x ^ y, x & y, x | y, y} for every y, every f of
    // a sampled set, every x
    let n = 4usize;
    let samples = if thorough { 600 } else { 40 };
    for _ in 0..samples {
        let f = fmt_bdd(&random_bdd(rng, n));
        for x in 0..n {
            let lit = |k: usize| -> TT { (0..(1usize << n)).map(|i| val_of_index(n, i)[k]).collect() };
            let tx = lit(x);
            let mut gs: Vec<TT> = vec![tx.clone(), tx.iter().map(|b| !b).collect()];
            for y in 0..n { if y != x {
                let ty = lit(y);
                gs.push(tx.iter().zip(&ty).map(|(a, b)| a ^ b).collect());
                gs.push(tx.iter().zip(&ty).map(|(a, b)| *a && *b).collect());
                gs.push(tx.iter().zip(&ty).map(|(a, b)| *a || *b).collect());
                gs.push(ty);
            } }
            for g in gs { run("C07.sub", &[f.clone(), fmt_bdd(&bdd_of_tt(n, &g)), x.to_string()], out); }
        }
    }
    let _ = s;
}

fn main() { harness_main(gen, run) }
