//! C07: substitution equals syntactic replacement of a variable by a function.
//!
//!   C07.sub <f> <g> <x>  =>  <bdd>|panic        f.substitute(x, g)
//!
//! Streams: boundary (few nodes embedded in 300 … 65 535 variables), exhaustive n <= 3, sampled families over
//! 4-6 variables, structured g.
#[path = "../common.rs"]
mod common;
use biodivine_lib_bdd::*;
use common::*;

fn s(x: &str) -> String { x.to_string() }

pub fn run(key: &str, a: &[String], out: &mut Out) {
    out.begin(key, a);
    match key {
        "C07.sub" => {
            let (f, g) = (Bdd::from_string(&a[0]), Bdd::from_string(&a[1]));
            let x: usize = a[2].parse().unwrap();
            let res = catch(|| f.substitute(var(x), &g));
            out.case(key, a, &[fmt_res_bdd(&res)]);
        }
        _ => panic!("unknown key {}", key),
    }
}

/// function of the variables in `sub` (strictly increasing), lifted to n variables; `must` are forced
/// to be essential by xor-ing them in
fn lifted_tt(rng: &mut Rng64, n: usize, sub: &[usize], must: &[usize]) -> TT {
    let k = sub.len();
    let inner = random_tt(rng, k);
    (0..(1usize << n)).map(|i| {
        let v = val_of_index(n, i);
        let mut j = 0usize;
        for x in sub { j = (j << 1) | (v[*x] as usize); }
        let mut r = inner[j];
        for m in must { r ^= v[*m]; }
        r
    }).collect()
}
/// the canonical diagram of a truth table over `pos.len()` variables, embedded in a space of `n` variables:
/// local variable i is placed at position `pos[i]` (strictly increasing), the terminals carry `n`
fn embedded(n: usize, pos: &[usize], tt: &[bool]) -> Bdd {
    let k = pos.len();
    let nodes: Vec<(usize, usize, usize)> = canon_triples(k, tt).iter().enumerate()
        .map(|(i, (v, l, h))| if i < 2 { (n, *l, *h) } else { (pos[*v], *l, *h) }).collect();
    bdd_from_triples(&nodes)
}
/// truth table over `pos` of a Boolean formula given as a closure on the values at `pos`
fn tt_over(k: usize, f: impl Fn(&[bool]) -> bool) -> TT { (0..(1usize << k)).map(|i| f(&val_of_index(k, i))).collect() }

/// Boundary stream: few-node functions embedded in variable spaces at the top of the `u16` range (the clash
/// path needs `num_vars + 1`) and a few mid-range ones. Lines stay short: only node triples are printed.
fn boundary(thorough: bool, rng: &mut Rng64, out: &mut Out) {
    let spaces: Vec<usize> = if thorough { vec![7, 300, 4000, 32767, 32768, 65531, 65532, 65533, 65534, 65535] }
                             else { vec![300, 4000, 65532, 65533, 65534, 65535] };
    for n in spaces {
        // position sets (strictly increasing, all < n): bottom, top, straddling, x as the last variable
        let mut sets: Vec<Vec<usize>> = vec![
            vec![0, 1, 2], vec![n - 3, n - 2, n - 1], vec![0, 1, n - 1], vec![0, n - 2, n - 1],
            vec![1, n / 2, n - 1], vec![n - 1], vec![0], vec![n - 2, n - 1], vec![0, n - 1],
        ];
        if thorough {
            sets.push(vec![0, 1, 2, 3]); sets.push(vec![n - 4, n - 3, n - 2, n - 1]); sets.push(vec![0, 2, n - 3, n - 1]);
            sets.push(vec![n / 2 - 1, n / 2, n / 2 + 1]); sets.push(vec![n - 3, n - 1]); sets.push(vec![1, n - 2]);
        }
        for pos in &sets {
            let k = pos.len();
            for xi in 0..k {
                let x = pos[xi];
                // f: depends on x (parity of everything; x and-ed / or-ed with the rest; random with x xor-ed in)
                let mut fs: Vec<TT> = vec![
                    tt_over(k, |v| v.iter().fold(false, |a, b| a ^ b)),
                    tt_over(k, |v| v.iter().all(|b| *b)),
                    tt_over(k, |v| !v[xi] || v.iter().enumerate().any(|(i, b)| i != xi && *b)),
                ];
                let rounds = if thorough { 6 } else { 2 };
                for _ in 0..rounds { let r = random_tt(rng, k); fs.push(tt_over(k, |v| { let mut j = 0; for b in v { j = (j << 1) | (*b as usize); } r[j] ^ v[xi] })); }
                // g over the same positions: clash (depends on x) and safe (does not)
                let mut gs: Vec<(Vec<usize>, TT)> = vec![
                    (pos.clone(), tt_over(k, |v| v[xi])),                                   // g = x
                    (pos.clone(), tt_over(k, |v| !v[xi])),                                  // g = !x
                    (pos.clone(), tt_over(k, |v| v.iter().fold(true, |a, b| a ^ b))),        // parity, clash
                    (pos.clone(), tt_over(k, |v| v.iter().enumerate().any(|(i, b)| i != xi && *b))), // safe (or of the others)
                    (pos.clone(), tt_over(k, |_| true)), (pos.clone(), tt_over(k, |_| false)),
                ];
                // g over foreign positions next to x / at the ends of the space (variables f does not mention)
                let mut foreign: Vec<usize> = vec![];
                for y in [x.wrapping_sub(1), x + 1, 0, n - 1, n - 2] { if y < n && !pos.contains(&y) && !foreign.contains(&y) { foreign.push(y); } }
                for y in foreign {
                    let mut q = vec![x, y]; q.sort();
                    let (ix, iy) = if x < y { (0, 1) } else { (1, 0) };
                    gs.push((q.clone(), tt_over(2, |v| v[ix] ^ v[iy])));   // clash, foreign variable
                    gs.push((q.clone(), tt_over(2, |v| v[ix] && !v[iy])));
                    gs.push((vec![y], tt_over(1, |v| v[0])));              // safe, foreign variable
                }
                for _ in 0..rounds { gs.push((pos.clone(), random_tt(rng, k))); }
                for f in &fs {
                    let fb = fmt_bdd(&embedded(n, pos, f));
                    for (q, g) in &gs {
                        if !thorough && rng.chance(1, 2) { continue; }
                        run("C07.sub", &[fb.clone(), fmt_bdd(&embedded(n, q, g)), x.to_string()], out);
                    }
                }
                // a variable that f does not mention (unchanged path), incl. the last variable of the space
                let fb = fmt_bdd(&embedded(n, pos, &fs[0]));
                for y in [n - 1, n / 2, 0] { if !pos.contains(&y) {
                    run("C07.sub", &[fb.clone(), fmt_bdd(&embedded(n, &[y], &tt_over(1, |v| v[0]))), y.to_string()], out);
                } }
            }
        }
    }
}

/// Operands with more than 65 536 nodes (pointers that need a third byte, memo keys beyond 16 bits): a dense
/// pseudo-random function over 20 variables (~107 000 nodes) against small partners, on the safe and on the
/// clash path, and a small f against a big g.
fn bigs(thorough: bool, rng: &mut Rng64, out: &mut Out) {
    let rounds = if thorough { 4 } else { 1 };
    for k in 0..rounds {
        let n = 20usize;
        let size = 1usize << n;
        let bit = |i: usize, v: usize| (i >> (n - 1 - v)) & 1 == 1;
        let big = fmt_bdd(&bdd_of_tt(n, &(0..size).map(|_| rng.bool()).collect::<Vec<_>>()));
        let x = [10usize, 0, 19, 7][k % 4];
        let y = (x + 1 + rng.below(n as u64 - 1) as usize) % n;
        let z = (x + n - 1) % n;
        // big f, small g: safe (g = y, g = y & !z) and clash (g = x ^ y, g = !x)
        let g_safe = fmt_bdd(&bdd_of_tt(n, &(0..size).map(|i| bit(i, y) && !(z != y && bit(i, z))).collect::<Vec<_>>()));
        let g_clash = fmt_bdd(&bdd_of_tt(n, &(0..size).map(|i| bit(i, x) ^ bit(i, y)).collect::<Vec<_>>()));
        run("C07.sub", &[big.clone(), g_safe, x.to_string()], out);
        run("C07.sub", &[big.clone(), g_clash, x.to_string()], out);
        // small f (mentions x), big g (mentions every variable: clash path)
        let f_small = fmt_bdd(&bdd_of_tt(n, &(0..size).map(|i| bit(i, x) ^ (bit(i, y) && bit(i, z))).collect::<Vec<_>>()));
        run("C07.sub", &[f_small.clone(), big.clone(), x.to_string()], out);
        if thorough {
            let g_not = fmt_bdd(&bdd_of_tt(n, &(0..size).map(|i| !bit(i, x)).collect::<Vec<_>>()));
            run("C07.sub", &[big.clone(), g_not, x.to_string()], out);
            // small f, big g that does not depend on x (safe path with a big operand): 21 variables
            let n1 = 21usize;
            let size1 = 1usize << n1;
            let bit1 = |i: usize, v: usize| (i >> (n1 - 1 - v)) & 1 == 1;
            let inner: Vec<bool> = (0..(size1 / 2)).map(|_| rng.bool()).collect();
            let drop_x = |i: usize| { let hi = i >> (n1 - x); let lo = i & ((1usize << (n1 - 1 - x)) - 1); (hi << (n1 - 1 - x)) | lo };
            let g_big_safe = fmt_bdd(&bdd_of_tt(n1, &(0..size1).map(|i| inner[drop_x(i)]).collect::<Vec<_>>()));
            let f1 = fmt_bdd(&bdd_of_tt(n1, &(0..size1).map(|i| bit1(i, x) ^ bit1(i, y)).collect::<Vec<_>>()));
            run("C07.sub", &[f1, g_big_safe, x.to_string()], out);
        }
    }
}

fn random_subset(rng: &mut Rng64, n: usize) -> Vec<usize> {
    (0..n).filter(|_| rng.bool()).collect()
}

pub fn gen(tier: Tier, rng: &mut Rng64, out: &mut Out) {
    let thorough = tier == Tier::Thorough;
    // ---------------- few-node operands at the top of the u16 variable range (and mid-range)
    boundary(thorough, rng, out);
    // ---------------- all (f, g, x) over n <= 2 variables; n = 3: all 196 608 (thorough) / ~15 000 sampled (quick)
    for n in 0..=3usize {
        let count = 1u64 << (1u64 << n);
        let funcs: Vec<String> = (0..count).map(|t| fmt_bdd(&bdd_of_tt(n, &tt_from_index(n, t)))).collect();
        if n < 3 || thorough {
            for f in &funcs { for g in &funcs { for x in 0..n {
                run("C07.sub", &[f.clone(), g.clone(), x.to_string()], out);
            } } }
            // a variable id that is not a variable of the set: `self` is returned unchanged
            for f in &funcs { if rng.chance(1, 8) { run("C07.sub", &[f.clone(), rng.pick(&funcs).clone(), n.to_string()], out); } }
        } else {
            for _ in 0..15000 {
                let f = rng.pick(&funcs).clone();
                let g = rng.pick(&funcs).clone();
                run("C07.sub", &[f, g, rng.below(3).to_string()], out);
            }
        }
    }
    // ---------------- 4-5 variables (6 in thorough): g depends on x and on variables above / below x
    // that f does not mention; uniformly random pairs; non-canonical operands
    let rounds = if thorough { 120000 } else { 6000 };
    for _ in 0..rounds {
        let n = 4 + rng.below(if thorough { 3 } else { 2 }) as usize;
        let x = rng.below(n as u64) as usize;
        let (mut f, mut g);
        match rng.below(4) {
            0 => { f = random_bdd(rng, n); g = random_bdd(rng, n); }
            _ => {
                // f mentions x and a random subset S; g mentions x (mostly) and a subset T with T \ S non-empty
                let mut sf = random_subset(rng, n);
                if !sf.contains(&x) { sf.push(x); sf.sort(); }
                let mut sg = random_subset(rng, n);
                let clash = rng.chance(3, 4);
                if clash && !sg.contains(&x) { sg.push(x); }
                if !clash { sg.retain(|y| *y != x); }
                let outside: Vec<usize> = (0..n).filter(|y| !sf.contains(y)).collect();
                let mut must_g: Vec<usize> = if clash { vec![x] } else { vec![] };
                if !outside.is_empty() {
                    let y = *rng.pick(&outside);
                    if !sg.contains(&y) { sg.push(y); }
                    must_g.push(y);
                    // an adjacent outsider if there is one (the region the fixed defect lived in)
                    for z in [x + 1, x.wrapping_sub(1)] {
                        if z < n && outside.contains(&z) && rng.bool() { if !sg.contains(&z) { sg.push(z); } must_g.push(z); }
                    }
                }
                sg.sort(); must_g.sort(); must_g.dedup();
                f = bdd_of_tt(n, &lifted_tt(rng, n, &sf, &[x]));
                g = bdd_of_tt(n, &lifted_tt(rng, n, &sg, &must_g));
            }
        }
        if rng.chance(1, 8) { f = noncanon_variant(rng, &f); }
        if rng.chance(1, 8) { g = noncanon_variant(rng, &g); }
        run("C07.sub", &[fmt_bdd(&f), fmt_bdd(&g), x.to_string()], out);
    }
    // ---------------- structured families over 4 variables: g in {x, !x, x ^ y, x & y, x | y, y} for every y, every f of
    // a sampled set, every x
    let n = 4usize;
    let samples = if thorough { 600 } else { 40 };
    for _ in 0..samples {
        let f = fmt_bdd(&random_bdd(rng, n));
        for x in 0..n {
            let lit = |k: usize| -> TT { (0..(1usize << n)).map(|i| val_of_index(n, i)[k]).collect() };
            let tx = lit(x);
            let mut gs: Vec<TT> = vec![tx.clone(), tx.iter().map(|b| !b).collect()];
            for y in 0..n { if y != x {
                let ty = lit(y);
                gs.push(tx.iter().zip(&ty).map(|(a, b)| a ^ b).collect());
                gs.push(tx.iter().zip(&ty).map(|(a, b)| *a && *b).collect());
                gs.push(tx.iter().zip(&ty).map(|(a, b)| *a || *b).collect());
                gs.push(ty);
            } }
            for g in gs { run("C07.sub", &[f.clone(), fmt_bdd(&bdd_of_tt(n, &g)), x.to_string()], out); }
        }
    }
    // ---------------- operands with more than 65 536 nodes
    bigs(thorough, rng, out);
    let _ = s;
}

fn main() { harness_main(gen, run) }
