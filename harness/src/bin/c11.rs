//! C11: witness and clause selectors return real, extremal members.
//!
//! `C11.sel <bdd> => sat_witness first_valuation last_valuation most_positive most_negative
//!                   first_clause last_clause most_fixed most_free necessary_clause is_clause is_valuation`
//! `C11.rand <bdd> <flips> => random_valuation random_clause`   (each call gets a fresh `CoinRng` over the same flips)
//! `C11.nc <bdd> => …` / `C11.ncrand <bdd> <flips> => …`        same observations on a valid but NON-canonical diagram
//!                   (model correspondence only: the property is about canonical diagrams)
//! An `Option` result is printed as the value or `none`, a panic as `panic`.
#[path = "../common.rs"]
mod common;
use common::*;
use biodivine_lib_bdd::*;
use rand::Rng;

fn s(x: &str) -> String { x.to_string() }

fn show_val(r: Option<Option<BddValuation>>) -> String {
    match r { None => s("panic"), Some(None) => s("none"), Some(Some(v)) => fmt_valuation(&v) }
}
fn show_clause(r: Option<Option<BddPartialValuation>>, n: usize) -> String {
    match r { None => s("panic"), Some(None) => s("none"), Some(Some(c)) => fmt_partial(&c, n) }
}
fn show_bool(r: Option<bool>) -> String {
    match r { None => s("panic"), Some(true) => s("1"), Some(false) => s("0") }
}
fn parse_flips(x: &str) -> Vec<bool> { if x == "~" { vec![] } else { x.chars().map(|c| c == '1').collect() } }

pub fn run(key: &str, a: &[String], out: &mut Out) {
    out.begin(key, a);
    match key {
        "C11.sel" | "C11.nc" => {
            let b = Bdd::from_string(&a[0]);
            let n = b.num_vars() as usize;
            let obs = vec![
                show_val(catch(|| b.sat_witness())),
                show_val(catch(|| b.first_valuation())),
                show_val(catch(|| b.last_valuation())),
                show_val(catch(|| b.most_positive_valuation())),
                show_val(catch(|| b.most_negative_valuation())),
                show_clause(catch(|| b.first_clause()), n),
                show_clause(catch(|| b.last_clause()), n),
                show_clause(catch(|| b.most_fixed_clause()), n),
                show_clause(catch(|| b.most_free_clause()), n),
                show_clause(catch(|| b.necessary_clause()), n),
                show_bool(catch(|| b.is_clause())),
                show_bool(catch(|| b.is_valuation())),
            ];
            out.case(key, a, &obs);
        }
        "C11.rand" | "C11.ncrand" => {
            let b = Bdd::from_string(&a[0]);
            let n = b.num_vars() as usize;
            let flips = parse_flips(&a[1]);
            let rv = catch(|| { let mut r = CoinRng::new(flips.clone()); b.random_valuation(&mut r) });
            let rc = catch(|| { let mut r = CoinRng::new(flips.clone()); b.random_clause(&mut r) });
            out.case(key, a, &[show_val(rv), show_clause(rc, n)]);
        }
        _ => panic!("unknown key {}", key),
    }
}

/// a few-node diagram over `n` variables: the canonical diagram of a function of `k` variables whose
/// levels are spread over `0..n` (arbitrary gaps above the root, between nodes and above the terminals)
fn gap_bdd(rng: &mut Rng64, n: usize, k: usize) -> String {
    let tt = random_tt(rng, k);
    let mut levels: Vec<usize> = Vec::new();
    while levels.len() < k {
        let l = rng.below(n as u64) as usize;
        if !levels.contains(&l) { levels.push(l); }
    }
    levels.sort();
    let t = canon_triples(k, &tt);
    let mapped: Vec<(usize, usize, usize)> = t.iter().enumerate()
        .map(|(i, (v, l, h))| if i < 2 { (n, *l, *h) } else { (levels[*v], *l, *h) }).collect();
    fmt_triples(&mapped)
}

fn flips_for(rng: &mut Rng64, n: usize) -> String {
    let len = match rng.below(8) { 0 => 0, 1 => rng.below(n as u64 + 1) as usize, _ => n + rng.below(3) as usize };
    let v: Vec<bool> = match rng.below(6) {
        0 => vec![true; len],
        1 => vec![false; len],
        _ => (0..len).map(|_| rng.bool()).collect(),
    };
    fmt_bools(&v)
}

pub fn gen(tier: Tier, rng: &mut Rng64, out: &mut Out) {
    let thorough = tier == Tier::Thorough;
    // the coin generator really yields the recorded booleans for the one call the selectors use
    {
        let pattern = [true, false, false, true, true, false];
        let mut r = CoinRng::new(pattern.to_vec());
        for p in pattern { assert_eq!(r.gen_bool(0.5), p, "CoinRng does not reproduce gen_bool(0.5)"); }
        assert!(!r.gen_bool(0.5), "an exhausted CoinRng must yield false");
    }
    // --- constants over 0..3 variables and a few large variable counts
    for n in [0usize, 1, 2, 3, 17, 60] {
        for c in [false, true] {
            let b = fmt_triples(&canon_triples(0, &[c]).iter().map(|(_, l, h)| (n, *l, *h)).collect::<Vec<_>>());
            run("C11.sel", &[b.clone()], out);
            for f in ["~", "1", "0", "10110"] { run("C11.rand", &[b.clone(), s(f)], out); }
        }
    }
    // --- exhaustive small universes: all functions over n <= 3, every flip list of length n
    for n in 0..=3usize {
        let count = 1u64 << (1u64 << n);
        for t in 0..count {
            let b = fmt_bdd(&bdd_of_tt(n, &tt_from_index(n, t)));
            run("C11.sel", &[b.clone()], out);
            for f in 0..(1usize << n) { run("C11.rand", &[b.clone(), fmt_bools(&val_of_index(n, f))], out); }
            run("C11.rand", &[b.clone(), s("~")], out);
        }
    }
    // --- n = 4: all 65 536 functions (thorough) or a sample (quick)
    let n4: u64 = if thorough { 65536 } else { 3000 };
    for i in 0..n4 {
        let t = if thorough { i } else { rng.below(65536) };
        let b = fmt_bdd(&bdd_of_tt(4, &tt_from_index(4, t)));
        run("C11.sel", &[b.clone()], out);
        let k = if thorough { 2 } else { 1 };
        for _ in 0..k { run("C11.rand", &[b.clone(), flips_for(rng, 4)], out); }
    }
    // --- random functions over 5..8 variables (density classes, structured families)
    let rounds = if thorough { 150000 } else { 2500 };
    for _ in 0..rounds {
        let n = 5 + rng.below(4) as usize;
        let b = fmt_bdd(&random_bdd(rng, n));
        run("C11.sel", &[b.clone()], out);
        for _ in 0..2 { run("C11.rand", &[b.clone(), flips_for(rng, n)], out); }
    }
    // --- larger random functions (9..10 variables: diagrams of up to a few hundred nodes)
    let rounds = if thorough { 10000 } else { 100 };
    for _ in 0..rounds {
        let n = 9 + rng.below(2) as usize;
        let b = fmt_bdd(&random_bdd(rng, n));
        run("C11.sel", &[b.clone()], out);
        run("C11.rand", &[b.clone(), flips_for(rng, n)], out);
    }
    // --- single cubes and single valuations (and near misses) over 1..10 variables
    let rounds = if thorough { 30000 } else { 600 };
    for _ in 0..rounds {
        let n = 1 + rng.below(10) as usize;
        let size = 1usize << n;
        let mask = if rng.chance(1, 2) { size - 1 } else { rng.next() as usize & (size - 1) };
        let val = rng.next() as usize & mask;
        let mut tt: Vec<bool> = (0..size).map(|i| i & mask == val).collect();
        if rng.chance(1, 3) { let j = rng.below(size as u64) as usize; tt[j] = !tt[j]; }
        let b = fmt_bdd(&bdd_of_tt(n, &tt));
        run("C11.sel", &[b.clone()], out);
        run("C11.rand", &[b.clone(), flips_for(rng, n)], out);
    }
    // --- few-node diagrams over 10..60 variables with level gaps
    let rounds = if thorough { 150000 } else { 3000 };
    for i in 0..rounds {
        // the first third stays at n <= 12 so that the brute-force predicate applies
        let n = if i % 3 == 0 { 10 + rng.below(3) as usize } else { 10 + rng.below(51) as usize };
        let k = 1 + rng.below(6) as usize;
        let b = gap_bdd(rng, n, k);
        run("C11.sel", &[b.clone()], out);
        run("C11.rand", &[b.clone(), flips_for(rng, n)], out);
    }
    // --- valid but non-canonical diagrams: correspondence of the model only (panics included)
    let rounds = if thorough { 20000 } else { 1500 };
    for _ in 0..rounds {
        let n = 2 + rng.below(6) as usize;
        let b = random_bdd(rng, n);
        let v = fmt_bdd(&noncanon_variant(rng, &b));
        run("C11.nc", &[v.clone()], out);
        run("C11.ncrand", &[v.clone(), flips_for(rng, n)], out);
    }
}

fn main() { harness_main(gen, run) }
