//! C11: witness and clause selectors return real, extremal members.
//!
//! `C11.sel <bdd> => sat_witness first_valuation last_valuation most_positive most_negative
//!                   first_clause last_clause most_fixed most_free necessary_clause is_clause is_valuation`
//! `C11.rand <bdd> <flips> => random_valuation random_clause`   (each call gets a fresh `CoinRng` over the same flips)
//! `C11.nc <bdd> => …` / `C11.ncrand <bdd> <flips> => …`        same observations on a valid but NON-canonical diagram
//!                   (model correspondence only: the property is about canonical diagrams)
//! `C11.op <n> <op> <args…> => <result> <the twelve observations of C11.sel on the result>`
//! `C11.oprand <n> <op> <args…> <flips> => <result> random_valuation random_clause`
//!                   the operand of the selectors is the RESULT of a library operation computed here by the real library
//!                   (`apply_op`; replay recomputes it); `<n>` is the variable count the result must have; the result is
//!                   printed with `fmt_bdd`, `oppanic` if the operation itself panicked (then nothing else is observed)
//! `C11.wide <bdd> => <the twelve observations of C11.sel>` / `C11.widerand <bdd> <flips> => random_valuation random_clause`
//!                   very wide diagrams (1 000 … 65 533 variables); valuations, clauses and flips are run-length encoded
//!                   (`1x3,0x32766`, `-x5,0x1`); `necessary_clause` is quadratic in the Rust code (nodes x variables): it is
//!                   run when (nodes x variables) <= NEC_BUDGET and printed as `skipped` otherwise
//! An `Option` result is printed as the value or `none`, a panic as `panic`.
#[path = "../common.rs"]
mod common;
use common::*;
use biodivine_lib_bdd::*;
use rand::Rng;

fn s(x: &str) -> String { x.to_string() }

fn show_val(r: Option<Option<BddValuation>>) -> String {
    match r { None => s("panic"), Some(None) => s("none"), Some(Some(v)) => fmt_valuation(&v) }
}
fn show_clause(r: Option<Option<BddPartialValuation>>, n: usize) -> String {
    match r { None => s("panic"), Some(None) => s("none"), Some(Some(c)) => fmt_partial(&c, n) }
}
fn show_bool(r: Option<bool>) -> String {
    match r { None => s("panic"), Some(true) => s("1"), Some(false) => s("0") }
}
fn parse_flips(x: &str) -> Vec<bool> { if x == "~" { vec![] } else { x.chars().map(|c| c == '1').collect() } }

fn observe_sel(b: &Bdd, n: usize) -> Vec<String> {
    vec![
        show_val(catch(|| b.sat_witness())),
        show_val(catch(|| b.first_valuation())),
        show_val(catch(|| b.last_valuation())),
        show_val(catch(|| b.most_positive_valuation())),
        show_val(catch(|| b.most_negative_valuation())),
        show_clause(catch(|| b.first_clause()), n),
        show_clause(catch(|| b.last_clause()), n),
        show_clause(catch(|| b.most_fixed_clause()), n),
        show_clause(catch(|| b.most_free_clause()), n),
        show_clause(catch(|| b.necessary_clause()), n),
        show_bool(catch(|| b.is_clause())),
        show_bool(catch(|| b.is_valuation())),
    ]
}
fn observe_rand(b: &Bdd, n: usize, flips: &[bool]) -> Vec<String> {
    let rv = catch(|| { let mut r = CoinRng::new(flips.to_vec()); b.random_valuation(&mut r) });
    let rc = catch(|| { let mut r = CoinRng::new(flips.to_vec()); b.random_clause(&mut r) });
    vec![show_val(rv), show_clause(rc, n)]
}

fn parse_vars(x: &str) -> Vec<BddVariable> {
    if x == "~" { vec![] } else { x.split(',').map(|t| var(t.parse().unwrap())).collect() }
}
/// `0=1,2=0`
fn parse_lits(x: &str) -> Vec<(BddVariable, bool)> {
    if x == "~" { vec![] } else {
        x.split(',').map(|t| { let mut p = t.split('='); (var(p.next().unwrap().parse().unwrap()), p.next().unwrap() == "1") }).collect()
    }
}
/// `0>1,1>2`
fn parse_perm(x: &str) -> std::collections::HashMap<BddVariable, BddVariable> {
    let mut m = std::collections::HashMap::new();
    if x != "~" {
        for t in x.split(',') { let mut p = t.split('>'); m.insert(var(p.next().unwrap().parse().unwrap()), var(p.next().unwrap().parse().unwrap())); }
    }
    m
}

/// The library operation whose RESULT the selectors are run on. Operands are oracle-built text forms.
fn apply_op(op: &str, a: &[String]) -> Bdd {
    let bdd = |i: usize| Bdd::from_string(&a[i]);
    match op {
        "subst" => bdd(0).substitute(var(a[1].parse().unwrap()), &bdd(2)),
        "setnv" => {
            // a clone goes through `set_num_vars` once per listed value
            let mut b = bdd(0);
            for m in a[1].split(',') { unsafe { b.set_num_vars(m.parse().unwrap()); } }
            b
        }
        "rename" => { let mut b = bdd(0); unsafe { b.rename_variable(var(a[1].parse().unwrap()), var(a[2].parse().unwrap())); } b }
        "renames" => { let mut b = bdd(0); unsafe { b.rename_variables(&parse_perm(&a[1])); } b }
        "exists" => bdd(0).exists(&parse_vars(&a[1])),
        "forall" => bdd(0).for_all(&parse_vars(&a[1])),
        "varexists" => bdd(0).var_exists(var(a[1].parse().unwrap())),
        "varforall" => bdd(0).var_for_all(var(a[1].parse().unwrap())),
        "restrict" => bdd(0).restrict(&parse_lits(&a[1])),
        "select" => bdd(0).select(&parse_lits(&a[1])),
        "pick" => bdd(0).pick(&parse_vars(&a[1])),
        "not" => bdd(0).not(),
        "and" => bdd(0).and(&bdd(1)),
        "or" => bdd(0).or(&bdd(1)),
        "xor" => bdd(0).xor(&bdd(1)),
        "imp" => bdd(0).imp(&bdd(1)),
        "iff" => bdd(0).iff(&bdd(1)),
        "and_not" => bdd(0).and_not(&bdd(1)),
        "ite" => Bdd::if_then_else(&bdd(0), &bdd(1), &bdd(2)),
        "fromval" => Bdd::from(BddValuation::new(parse_flips(&a[0]))),
        "exactlyk" => BddVariableSet::new_anonymous(a[0].parse().unwrap()).mk_sat_exactly_k(a[1].parse().unwrap(), &parse_vars(&a[2])),
        "uptok" => BddVariableSet::new_anonymous(a[0].parse().unwrap()).mk_sat_up_to_k(a[1].parse().unwrap(), &parse_vars(&a[2])),
        _ => panic!("unknown op {}", op),
    }
}

pub fn run(key: &str, a: &[String], out: &mut Out) {
    out.begin(key, a);
    match key {
        "C11.sel" | "C11.nc" => {
            let b = Bdd::from_string(&a[0]);
            let n = b.num_vars() as usize;
            out.case(key, a, &observe_sel(&b, n));
        }
        "C11.rand" | "C11.ncrand" => {
            let b = Bdd::from_string(&a[0]);
            let n = b.num_vars() as usize;
            out.case(key, a, &observe_rand(&b, n, &parse_flips(&a[1])));
        }
        "C11.op" => {
            let n: usize = a[0].parse().unwrap();
            match catch(|| apply_op(&a[1], &a[2..])) {
                None => out.case(key, a, &[s("oppanic")]),
                Some(b) => {
                    let mut obs = vec![fmt_bdd(&b)];
                    obs.extend(observe_sel(&b, n));
                    out.case(key, a, &obs);
                }
            }
        }
        "C11.oprand" => {
            let n: usize = a[0].parse().unwrap();
            let flips = parse_flips(&a[a.len() - 1]);
            match catch(|| apply_op(&a[1], &a[2..a.len() - 1])) {
                None => out.case(key, a, &[s("oppanic")]),
                Some(b) => {
                    let mut obs = vec![fmt_bdd(&b)];
                    obs.extend(observe_rand(&b, n, &flips));
                    out.case(key, a, &obs);
                }
            }
        }
        "C11.wide" => {
            let b = Bdd::from_string(&a[0]);
            let n = b.num_vars() as usize;
            out.case(key, a, &observe_wide(&b, n));
        }
        "C11.widerand" => {
            let b = Bdd::from_string(&a[0]);
            let n = b.num_vars() as usize;
            let flips = unrle_bools(&a[1]);
            let rv = catch(|| { let mut r = CoinRng::new(flips.clone()); b.random_valuation(&mut r) });
            let rc = catch(|| { let mut r = CoinRng::new(flips.clone()); b.random_clause(&mut r) });
            out.case(key, a, &[show_val_rle(rv), show_clause_rle(rc, n)]);
        }
        _ => panic!("unknown key {}", key),
    }
}

/// a few-node diagram over `n` variables: the canonical diagram of a function of `k` variables whose
/// levels are spread over `0..n` (arbitrary gaps above the root, between nodes and above the terminals)
fn gap_bdd(rng: &mut Rng64, n: usize, k: usize) -> String {
    let tt = random_tt(rng, k);
    let mut levels: Vec<usize> = Vec::new();
    while levels.len() < k {
        let l = rng.below(n as u64) as usize;
        if !levels.contains(&l) { levels.push(l); }
    }
    levels.sort();
    let t = canon_triples(k, &tt);
    let mapped: Vec<(usize, usize, usize)> = t.iter().enumerate()
        .map(|(i, (v, l, h))| if i < 2 { (n, *l, *h) } else { (levels[*v], *l, *h) }).collect();
    fmt_triples(&mapped)
}

fn flips_for(rng: &mut Rng64, n: usize) -> String {
    let len = match rng.below(8) { 0 => 0, 1 => rng.below(n as u64 + 1) as usize, _ => n + rng.below(3) as usize };
    let v: Vec<bool> = match rng.below(6) {
        0 => vec![true; len],
        1 => vec![false; len],
        _ => (0..len).map(|_| rng.bool()).collect(),
    };
    fmt_bools(&v)
}

// ------------------------------------------------------------------------------------------------
// very wide diagrams

/// `necessary_clause` scans the node list once per non-free variable: skip it above this many (nodes x variables)
const NEC_BUDGET: u64 = 60_000_000;

fn rle<T: PartialEq + Copy>(xs: &[T], sym: impl Fn(T) -> char) -> String {
    if xs.is_empty() { return s("~"); }
    let mut out = String::new();
    let mut i = 0;
    while i < xs.len() {
        let mut j = i;
        while j < xs.len() && xs[j] == xs[i] { j += 1; }
        if !out.is_empty() { out.push(','); }
        out.push(sym(xs[i])); out.push('x'); out.push_str(&(j - i).to_string());
        i = j;
    }
    out
}
fn rle_bools(v: &[bool]) -> String { rle(v, |b| if b { '1' } else { '0' }) }
fn unrle_bools(x: &str) -> Vec<bool> {
    let mut v = vec![];
    if x == "~" { return v; }
    for run in x.split(',') {
        let b = run.starts_with('1');
        let k: usize = run[2..].parse().unwrap();
        v.extend(std::iter::repeat(b).take(k));
    }
    v
}
fn show_val_rle(r: Option<Option<BddValuation>>) -> String {
    match r { None => s("panic"), Some(None) => s("none"), Some(Some(v)) => rle_bools(&v.vector()) }
}
fn show_clause_rle(r: Option<Option<BddPartialValuation>>, n: usize) -> String {
    match r {
        None => s("panic"), Some(None) => s("none"),
        Some(Some(c)) => {
            let mut cells: Vec<Option<bool>> = vec![None; n];
            let mut extra = String::new();
            for (v, b) in c.to_values() {
                if v.to_index() < n { cells[v.to_index()] = Some(b); } else { extra.push_str(&format!(";{}={}", v.to_index(), if b { 1 } else { 0 })); }
            }
            rle(&cells, |c| match c { Some(true) => '1', Some(false) => '0', None => '-' }) + &extra
        }
    }
}
fn observe_wide(b: &Bdd, n: usize) -> Vec<String> {
    let nec = if (b.size() as u64).saturating_sub(2) * (n as u64) <= NEC_BUDGET { show_clause_rle(catch(|| b.necessary_clause()), n) } else { s("skipped") };
    vec![
        show_val_rle(catch(|| b.sat_witness())),
        show_val_rle(catch(|| b.first_valuation())),
        show_val_rle(catch(|| b.last_valuation())),
        show_val_rle(catch(|| b.most_positive_valuation())),
        show_val_rle(catch(|| b.most_negative_valuation())),
        show_clause_rle(catch(|| b.first_clause()), n),
        show_clause_rle(catch(|| b.last_clause()), n),
        show_clause_rle(catch(|| b.most_fixed_clause()), n),
        show_clause_rle(catch(|| b.most_free_clause()), n),
        nec,
        show_bool(catch(|| b.is_clause())),
        show_bool(catch(|| b.is_valuation())),
    ]
}

/// Oracle builder for wide diagrams (independent of the library): a unique table with the two reduction rules,
/// chains of forced literals built bottom-up, a small multi-leaf decision structure on top, and the final
/// renumbering into the canonical layout (DFS post-order, high child first, reachable nodes only).
struct Mk { n: usize, nodes: Vec<(usize, usize, usize)>, uniq: std::collections::HashMap<(usize, usize, usize), usize> }
impl Mk {
    fn new(n: usize) -> Mk { Mk { n, nodes: vec![(n, 0, 0), (n, 1, 1)], uniq: std::collections::HashMap::new() } }
    fn mk(&mut self, v: usize, lo: usize, hi: usize) -> usize {
        if lo == hi { return lo; }
        if let Some(i) = self.uniq.get(&(v, lo, hi)) { return *i; }
        self.nodes.push((v, lo, hi));
        self.uniq.insert((v, lo, hi), self.nodes.len() - 1);
        self.nodes.len() - 1
    }
    /// conjunction of the literals `lits` (increasing levels, all above the top level of `tail`) with `tail`
    fn run(&mut self, lits: &[(usize, bool)], tail: usize) -> usize {
        let mut p = tail;
        for (v, pol) in lits.iter().rev() { p = if *pol { self.mk(*v, 0, p) } else { self.mk(*v, p, 0) }; }
        p
    }
    /// decision structure over `levels` (increasing, all below the top levels of the leaves); `leaves[i]` is the
    /// pointer reached under assignment number i (variable 0 most significant)
    fn top(&mut self, levels: &[usize], leaves: &[usize]) -> usize {
        if levels.is_empty() { return leaves[0]; }
        let half = leaves.len() / 2;
        let hi = self.top(&levels[1..], &leaves[half..]);
        let lo = self.top(&levels[1..], &leaves[..half]);
        self.mk(levels[0], lo, hi)
    }
    fn canon_text(&self, root: usize) -> String {
        let n = self.n;
        if root == 0 { return fmt_triples(&[(n, 0, 0)]); }
        let mut id: Vec<usize> = vec![usize::MAX; self.nodes.len()];
        id[0] = 0; id[1] = 1;
        let mut res: Vec<(usize, usize, usize)> = vec![(n, 0, 0), (n, 1, 1)];
        let mut stack: Vec<(usize, u8)> = vec![(root, 0)];
        while let Some((p, st)) = stack.pop() {
            if id[p] != usize::MAX { continue; }
            let (v, lo, hi) = self.nodes[p];
            match st {
                0 => { stack.push((p, 1)); if id[hi] == usize::MAX { stack.push((hi, 0)); } }
                1 => { stack.push((p, 2)); if id[lo] == usize::MAX { stack.push((lo, 0)); } }
                _ => { res.push((v, id[lo], id[hi])); id[p] = res.len() - 1; }
            }
        }
        fmt_triples(&res)
    }
}

const WIDE_NS: [usize; 6] = [1000, 32767, 32768, 32769, 40000, 65533];

/// literals on the levels `from..from+len` with a polarity pattern
fn lits_run(rng: &mut Rng64, from: usize, len: usize) -> Vec<(usize, bool)> {
    let kind = rng.below(5);
    let block = 1 + rng.below(5000) as usize;
    (0..len).map(|i| (from + i, match kind { 0 => true, 1 => false, 2 => (i / block) % 2 == 0, 3 => (i / block) % 2 == 1, _ => i + 1 != len })).collect()
}
fn pick_len(rng: &mut Rng64, max: usize) -> usize {
    let c = [32767usize, 32768, 32769, 32770, max, max.saturating_sub(1), 1 + rng.below(max.max(1) as u64) as usize, 1 + rng.below(40) as usize];
    (*rng.pick(&c)).min(max).max(1)
}

/// one wide diagram of the given shape over `n` variables
fn wide_shape(rng: &mut Rng64, n: usize, shape: u64) -> String {
    let mut m = Mk::new(n);
    let root = match shape {
        0 => {
            // a cube with a few literals (often on the first / last level)
            let mut lv: Vec<usize> = (0..1 + rng.below(6)).map(|_| rng.below(n as u64) as usize).collect();
            if rng.bool() { lv.push(0); }
            if rng.bool() { lv.push(n - 1); }
            lv.sort(); lv.dedup();
            let lits: Vec<(usize, bool)> = lv.iter().map(|v| (*v, rng.bool())).collect();
            m.run(&lits, 1)
        }
        1 => {
            // a long cube: one contiguous run, sometimes all variables (a single valuation)
            let len = pick_len(rng, n);
            let from = if rng.bool() { 0 } else { rng.below((n - len) as u64 + 1) as usize };
            let lits = lits_run(rng, from, len);
            m.run(&lits, 1)
        }
        2 => {
            // literal OR long cube (and the mirrored / negated variants): x_a ? 1 : run, x_a ? run : 1, with a short cube instead of 1
            let a = if rng.chance(2, 3) { 0 } else { rng.below(8.min(n as u64 - 1)) as usize };
            let len = pick_len(rng, n - a - 1);
            let from = if rng.chance(2, 3) { a + 1 } else { a + 1 + rng.below((n - a - 1 - len) as u64 + 1) as usize };
            let lits = lits_run(rng, from, len);
            let long = m.run(&lits, 1);
            let other = if rng.chance(2, 3) { 1 } else { let q = from + rng.below(len as u64) as usize; m.run(&[(q, rng.bool())], 1) };
            if rng.bool() { m.mk(a, long, other) } else { m.mk(a, other, long) }
        }
        3 => {
            // 2-3 term DNF of short cubes over <= 8 support levels
            let k = 2 + rng.below(7) as usize;
            let mut levels: Vec<usize> = vec![];
            while levels.len() < k { let l = rng.below(n as u64) as usize; if !levels.contains(&l) { levels.push(l); } }
            levels.sort();
            let terms: Vec<(usize, usize)> = (0..2 + rng.below(2)).map(|_| { let mask = rng.next() as usize & ((1 << k) - 1); (mask, rng.next() as usize & mask) }).collect();
            let leaves: Vec<usize> = (0..1usize << k).map(|i| if terms.iter().any(|(mk_, v)| i & mk_ == *v) { 1 } else { 0 }).collect();
            m.top(&levels, &leaves)
        }
        4 => {
            // x_a ? runA : runB with long runs of different length and polarity (branch scores far apart)
            let a = rng.below(4.min(n as u64 - 1)) as usize;
            let la = pick_len(rng, n - a - 1);
            let lb = pick_len(rng, n - a - 1);
            let fa = a + 1 + rng.below((n - a - 1 - la) as u64 + 1) as usize;
            let fb = a + 1 + rng.below((n - a - 1 - lb) as u64 + 1) as usize;
            let (ra, rb) = (lits_run(rng, fa, la), lits_run(rng, fb, lb));
            let (pa, pb) = (m.run(&ra, 1), m.run(&rb, 1));
            m.mk(a, pb, pa)
        }
        5 => {
            // forced prefix run, a small decision structure, up to two suffix runs as leaves
            let k = 1 + rng.below(5) as usize;
            let pre = if rng.bool() { 0 } else { pick_len(rng, (n - k) / 3) };
            let mid_from = pre + rng.below(20.min((n - pre - k) as u64 / 2 + 1)) as usize;
            let levels: Vec<usize> = (0..k).map(|i| mid_from + 2 * i).collect();
            let below = levels[k - 1] + 1;
            let room = n - below;
            let mut leafs: Vec<usize> = vec![0, 1];
            for _ in 0..2 {
                if room >= 1 {
                    let len = pick_len(rng, room);
                    let from = below + rng.below((room - len) as u64 + 1) as usize;
                    let lits = lits_run(rng, from, len);
                    leafs.push(m.run(&lits, 1));
                }
            }
            let leaves: Vec<usize> = (0..1usize << k).map(|_| *rng.pick(&leafs)).collect();
            let mid = m.top(&levels, &leaves);
            let plits = lits_run(rng, 0, pre);
            m.run(&plits, mid)
        }
        _ => {
            // a random function of <= 10 support variables spread over the levels
            let k = 1 + rng.below(10) as usize;
            let mut levels: Vec<usize> = vec![];
            while levels.len() < k { let l = rng.below(n as u64) as usize; if !levels.contains(&l) { levels.push(l); } }
            levels.sort();
            let tt = random_tt(rng, k);
            let leaves: Vec<usize> = tt.iter().map(|b| if *b { 1 } else { 0 }).collect();
            m.top(&levels, &leaves)
        }
    };
    m.canon_text(root)
}

/// coin flips for a wide diagram: runs of random lengths (short and long), run-length encoded
fn wide_flips(rng: &mut Rng64, n: usize) -> String {
    let total = match rng.below(6) { 0 => 0, 1 => rng.below(n as u64) as usize, _ => n + rng.below(3) as usize };
    let mut v: Vec<bool> = Vec::with_capacity(total);
    let mut b = rng.bool();
    while v.len() < total {
        let k = match rng.below(4) { 0 => 1, 1 => 1 + rng.below(8) as usize, 2 => 1 + rng.below(1000) as usize, _ => 1 + rng.below(40000) as usize };
        for _ in 0..k.min(total - v.len()) { v.push(b); }
        b = !b;
    }
    rle_bools(&v)
}

/// the inputs of the wide stream (generated up front so that they can be interleaved with the cheap cases:
/// the runner cuts the case file into contiguous shards)
fn wide_inputs(thorough: bool, rng: &mut Rng64) -> Vec<(String, String)> {
    let mut v = vec![];
    // the boundary shape: x_0 | (!x_1 & ... & !x_L) and its dual, L around 2^15, over every width that can hold it
    for n in [32769usize, 40000, 65533] {
        for l in [32767usize, 32768, 32769] {
            if l + 1 > n { continue; }
            for neg in [true, false] {
                let mut m = Mk::new(n);
                let lits: Vec<(usize, bool)> = (1..=l).map(|i| (i, !neg)).collect();
                let long = m.run(&lits, 1);
                let root = if neg { m.mk(0, long, 1) } else { m.mk(0, 1, long) };
                if thorough || n != 40000 { v.push((m.canon_text(root), wide_flips(rng, n))); }
            }
        }
    }
    let per = if thorough { 8 } else { 3 };
    for n in WIDE_NS { for shape in 0..7u64 { for _ in 0..per {
        v.push((wide_shape(rng, n, shape), wide_flips(rng, n)));
    } } }
    v
}
fn emit_wide(q: &mut Vec<(String, String)>, k: usize, out: &mut Out) {
    for _ in 0..k {
        if let Some((b, f)) = q.pop() {
            run("C11.wide", &[b.clone()], out);
            run("C11.widerand", &[b, f], out);
        }
    }
}

/// number of variables of a text-form diagram
fn n_of(b: &str) -> usize { b.trim_matches('|').split(',').next().unwrap().parse().unwrap() }

/// a function over `n` variables: any of the 2^(2^n) for n <= 3 (uniformly), a structured random one above
fn some_fn(rng: &mut Rng64, n: usize) -> String {
    if n <= 3 { fmt_bdd(&bdd_of_tt(n, &tt_from_index(n, rng.below(1u64 << (1u64 << n))))) } else { fmt_bdd(&random_bdd(rng, n)) }
}
/// a single cube (possibly a single valuation, possibly the tautology) over `n` variables
fn some_cube(rng: &mut Rng64, n: usize) -> String {
    let size = 1usize << n;
    let mask = match rng.below(3) { 0 => size - 1, _ => rng.next() as usize & (size - 1) };
    let val = rng.next() as usize & mask;
    let tt: Vec<bool> = (0..size).map(|i| i & mask == val).collect();
    fmt_bdd(&bdd_of_tt(n, &tt))
}
/// a small function of one or two variables (literal, negated literal, x op y) over `n` variables
fn some_small(rng: &mut Rng64, n: usize, x: usize) -> String {
    let y = rng.below(n as u64) as usize;
    let size = 1usize << n;
    let bit = |i: usize, k: usize| (i >> (n - 1 - k)) & 1 == 1;
    let kind = rng.below(7);
    let tt: Vec<bool> = (0..size).map(|i| match kind {
        0 => bit(i, x), 1 => !bit(i, x), 2 => bit(i, x) || !bit(i, y), 3 => bit(i, x) && bit(i, y),
        4 => bit(i, x) != bit(i, y), 5 => !bit(i, y), _ => !bit(i, x) || bit(i, y) }).collect();
    fmt_bdd(&bdd_of_tt(n, &tt))
}
fn some_vars(rng: &mut Rng64, n: usize) -> String {
    let v: Vec<usize> = (0..n).filter(|_| rng.chance(1, 3)).collect();
    fmt_usizes(&v)
}
fn some_lits(rng: &mut Rng64, n: usize) -> String {
    let mut v: Vec<String> = vec![];
    for i in 0..n { if rng.chance(1, 3) { v.push(format!("{}={}", i, if rng.bool() { 1 } else { 0 })); } }
    if v.is_empty() { s("~") } else { v.join(",") }
}
/// one operation case: all deterministic selectors on the result, and (mostly) the random ones too
fn op_case(rng: &mut Rng64, out: &mut Out, n: usize, op: &str, args: &[String]) {
    let mut a = vec![n.to_string(), s(op)];
    a.extend(args.iter().cloned());
    run("C11.op", &a, out);
    if rng.chance(2, 3) {
        a.push(flips_for(rng, n));
        run("C11.oprand", &a, out);
    }
}

/// the stream whose operands are RESULTS of library operations (terminals of such results are where
/// `set_num_vars` / `rename_variables` write)
fn gen_ops(thorough: bool, rng: &mut Rng64, out: &mut Out) {
    // --- substitute, both paths. Exhaustive for n <= 2 (n = 3 too in thorough), sampled above
    for n in 1..=(if thorough { 3usize } else { 2 }) {
        let count = 1u64 << (1u64 << n);
        for tf in 0..count { for x in 0..n { for tg in 0..count {
            let f = fmt_bdd(&bdd_of_tt(n, &tt_from_index(n, tf)));
            let g = fmt_bdd(&bdd_of_tt(n, &tt_from_index(n, tg)));
            if n < 3 { op_case(rng, out, n, "subst", &[f, x.to_string(), g]); }
            else { run("C11.op", &[n.to_string(), s("subst"), f, x.to_string(), g], out); }
        } } }
    }
    for _ in 0..(if thorough { 0 } else { 2500 }) {
        let x = rng.below(3) as usize;
        let (f, g) = (some_fn(rng, 3), some_fn(rng, 3));
        op_case(rng, out, 3, "subst", &[f, x.to_string(), g]);
    }
    for _ in 0..(if thorough { 20000 } else { 800 }) {
        let n = 4 + rng.below(3) as usize;
        let x = rng.below(n as u64) as usize;
        let (f, g) = (some_fn(rng, n), if rng.chance(1, 2) { some_fn(rng, n) } else { some_small(rng, n, x) });
        op_case(rng, out, n, "subst", &[f, x.to_string(), g]);
    }
    // cubes / single valuations with literal-like substituted functions: results that are tautologies,
    // single valuations and cubes, mostly through the proxy-variable path
    for _ in 0..(if thorough { 20000 } else { 1200 }) {
        let n = 1 + rng.below(6) as usize;
        let x = rng.below(n as u64) as usize;
        let f = if rng.chance(3, 4) { some_cube(rng, n) } else { some_small(rng, n, x) };
        let g = some_small(rng, n, x);
        op_case(rng, out, n, "subst", &[f, x.to_string(), g]);
    }
    // --- set_num_vars on a clone: up, up then down, down (the function ignores the trailing variables)
    for _ in 0..(if thorough { 15000 } else { 900 }) {
        let k = rng.below(5) as usize;            // variables the function may use
        let extra = rng.below(4) as usize;        // unused trailing variables of the operand
        let n = k + extra;
        let inner = match rng.below(3) { 0 => some_cube(rng, k), _ => some_fn(rng, k) };
        // re-declare over n variables: same nodes, terminals carry n
        let t: Vec<String> = inner.trim_matches('|').split('|').enumerate().map(|(i, nd)| {
            let p: Vec<&str> = nd.split(',').collect();
            if i < 2 { format!("{},{},{}", n, p[1], p[2]) } else { nd.to_string() } }).collect();
        let f = format!("|{}|", t.join("|"));
        let used = f.trim_matches('|').split('|').skip(2).map(|nd| nd.split(',').next().unwrap().parse::<usize>().unwrap() + 1).max().unwrap_or(0);
        let pick = |rng: &mut Rng64| used + rng.below(8) as usize;
        let chain: Vec<usize> = match rng.below(4) {
            0 => vec![n + 1 + rng.below(3) as usize],
            1 => { let up = n + 1 + rng.below(3) as usize; vec![up, n] }
            2 => vec![used + rng.below((n - used) as u64 + 1) as usize],
            _ => vec![pick(rng), pick(rng), pick(rng)],
        };
        let last = *chain.last().unwrap();
        op_case(rng, out, last, "setnv", &[f, fmt_usizes(&chain)]);
    }
    // --- rename_variable / rename_variables (only admissible renamings are generated)
    for _ in 0..(if thorough { 10000 } else { 600 }) {
        let n = 2 + rng.below(5) as usize;
        let f = some_fn(rng, n);
        let b = Bdd::from_string(&f);
        let support: Vec<usize> = { let mut v: Vec<usize> = b.support_set().iter().map(|x| x.to_index()).collect(); v.sort(); v };
        let (old, new) = (rng.below(n as u64) as usize, rng.below(n as u64) as usize);
        let (lo, hi) = (old.min(new), old.max(new));
        let ok = !support.iter().any(|v| *v > lo && *v < hi) && (old == new || !support.contains(&new));
        if ok { op_case(rng, out, n, "rename", &[f.clone(), old.to_string(), new.to_string()]); }
        // the shift used by `substitute`: every variable >= x moves up by one (the last one must be unused)
        if !support.contains(&(n - 1)) {
            let x = rng.below(n as u64) as usize;
            let mut perm: Vec<String> = (x..n - 1).map(|i| format!("{}>{}", i, i + 1)).collect();
            // a key equal to the variable count names the terminals' stored variable: it must be ignored
            if rng.chance(1, 3) { perm.push(format!("{}>{}", n, rng.below(n as u64))); }
            op_case(rng, out, n, "renames", &[f.clone(), if perm.is_empty() { s("~") } else { perm.join(",") }]);
        }
        // and its inverse (variable x must be unused)
        let x = rng.below(n as u64) as usize;
        if !support.contains(&x) {
            let perm: Vec<String> = (x + 1..n).map(|i| format!("{}>{}", i, i - 1)).collect();
            op_case(rng, out, n, "renames", &[f, if perm.is_empty() { s("~") } else { perm.join(",") }]);
        }
    }
    // --- projections, restrictions, picks
    for _ in 0..(if thorough { 8000 } else { 400 }) {
        let n = 1 + rng.below(6) as usize;
        let f = some_fn(rng, n);
        let x = rng.below(n as u64) as usize;
        let (v1, v2, v3, l1, l2) = (some_vars(rng, n), some_vars(rng, n), some_vars(rng, n), some_lits(rng, n), some_lits(rng, n));
        let q = if rng.bool() { "varexists" } else { "varforall" };
        op_case(rng, out, n, "exists", &[f.clone(), v1]);
        op_case(rng, out, n, "forall", &[f.clone(), v2]);
        op_case(rng, out, n, q, &[f.clone(), x.to_string()]);
        op_case(rng, out, n, "restrict", &[f.clone(), l1]);
        op_case(rng, out, n, "select", &[f.clone(), l2]);
        op_case(rng, out, n, "pick", &[f, v3]);
    }
    // --- Boolean operators
    for _ in 0..(if thorough { 8000 } else { 400 }) {
        let n = rng.below(7) as usize;
        let (f, g, h) = (some_fn(rng, n), if rng.chance(1, 3) { some_cube(rng, n) } else { some_fn(rng, n) }, some_fn(rng, n));
        op_case(rng, out, n, "not", &[f.clone()]);
        let name = *rng.pick(&["and", "or", "xor", "imp", "iff", "and_not"]);
        op_case(rng, out, n, name, &[f.clone(), g.clone()]);
        let name2 = if rng.bool() { "and" } else { "or" };
        op_case(rng, out, n, name2, &[f.clone(), g.clone()]);
        if rng.chance(1, 3) { op_case(rng, out, n, "ite", &[f, g, h]); }
    }
    // --- Bdd::from(valuation): all valuations of <= 4 variables, random ones up to 12
    for n in 0..=4usize { for i in 0..(1usize << n) { op_case(rng, out, n, "fromval", &[fmt_bools(&val_of_index(n, i))]); } }
    for _ in 0..(if thorough { 3000 } else { 150 }) {
        let n = 5 + rng.below(8) as usize;
        let v: Vec<bool> = (0..n).map(|_| rng.bool()).collect();
        op_case(rng, out, n, "fromval", &[fmt_bools(&v)]);
    }
    // --- threshold functions
    for _ in 0..(if thorough { 4000 } else { 250 }) {
        let n = 1 + rng.below(7) as usize;
        let vars = some_vars(rng, n);
        let k = rng.below(n as u64 + 2) as usize;
        let name = if rng.chance(2, 3) { "exactlyk" } else { "uptok" };
        op_case(rng, out, n, name, &[n.to_string(), k.to_string(), vars]);
    }
}

pub fn gen(tier: Tier, rng: &mut Rng64, out: &mut Out) {
    let thorough = tier == Tier::Thorough;
    // the coin generator really yields the recorded booleans for the one call the selectors use
    {
        let pattern = [true, false, false, true, true, false];
        let mut r = CoinRng::new(pattern.to_vec());
        for p in pattern { assert_eq!(r.gen_bool(0.5), p, "CoinRng does not reproduce gen_bool(0.5)"); }
        assert!(!r.gen_bool(0.5), "an exhausted CoinRng must yield false");
    }
    // --- very wide diagrams: generated now, emitted in small groups between the cheap cases below
    let mut wq = wide_inputs(thorough, rng);
    let n4: u64 = if thorough { 65536 } else { 3000 };
    let (r58, rgap, rnc): (u64, u64, u64) = if thorough { (150000, 150000, 20000) } else { (2500, 3000, 1500) };
    let wstep = ((n4 + r58 + rgap + rnc) / (wq.len() as u64 + 1)).max(1);
    // --- constants over 0..3 variables and a few large variable counts
    for n in [0usize, 1, 2, 3, 17, 60] {
        for c in [false, true] {
            let b = fmt_triples(&canon_triples(0, &[c]).iter().map(|(_, l, h)| (n, *l, *h)).collect::<Vec<_>>());
            run("C11.sel", &[b.clone()], out);
            for f in ["~", "1", "0", "10110"] { run("C11.rand", &[b.clone(), s(f)], out); }
        }
    }
    // --- exhaustive small universes: all functions over n <= 3, every flip list of length n
    for n in 0..=3usize {
        let count = 1u64 << (1u64 << n);
        for t in 0..count {
            let b = fmt_bdd(&bdd_of_tt(n, &tt_from_index(n, t)));
            run("C11.sel", &[b.clone()], out);
            for f in 0..(1usize << n) { run("C11.rand", &[b.clone(), fmt_bools(&val_of_index(n, f))], out); }
            run("C11.rand", &[b.clone(), s("~")], out);
        }
    }
    // --- operands that are results of library operations
    gen_ops(thorough, rng, out);
    // --- n = 4: all 65 536 functions (thorough) or a sample (quick)
    for i in 0..n4 {
        if i % wstep == 0 { emit_wide(&mut wq, 1, out); }
        let t = if thorough { i } else { rng.below(65536) };
        let b = fmt_bdd(&bdd_of_tt(4, &tt_from_index(4, t)));
        run("C11.sel", &[b.clone()], out);
        let k = if thorough { 2 } else { 1 };
        for _ in 0..k { run("C11.rand", &[b.clone(), flips_for(rng, 4)], out); }
    }
    // --- random functions over 5..8 variables (density classes, structured families)
    for i in 0..r58 {
        if i % wstep == 0 { emit_wide(&mut wq, 1, out); }
        let n = 5 + rng.below(4) as usize;
        let b = fmt_bdd(&random_bdd(rng, n));
        run("C11.sel", &[b.clone()], out);
        for _ in 0..2 { run("C11.rand", &[b.clone(), flips_for(rng, n)], out); }
    }
    // --- larger random functions (9..10 variables: diagrams of up to a few hundred nodes)
    let rounds = if thorough { 10000 } else { 100 };
    for _ in 0..rounds {
        let n = 9 + rng.below(2) as usize;
        let b = fmt_bdd(&random_bdd(rng, n));
        run("C11.sel", &[b.clone()], out);
        run("C11.rand", &[b.clone(), flips_for(rng, n)], out);
    }
    // --- single cubes and single valuations (and near misses) over 1..10 variables
    let rounds = if thorough { 30000 } else { 600 };
    for _ in 0..rounds {
        let n = 1 + rng.below(10) as usize;
        let size = 1usize << n;
        let mask = if rng.chance(1, 2) { size - 1 } else { rng.next() as usize & (size - 1) };
        let val = rng.next() as usize & mask;
        let mut tt: Vec<bool> = (0..size).map(|i| i & mask == val).collect();
        if rng.chance(1, 3) { let j = rng.below(size as u64) as usize; tt[j] = !tt[j]; }
        let b = fmt_bdd(&bdd_of_tt(n, &tt));
        run("C11.sel", &[b.clone()], out);
        run("C11.rand", &[b.clone(), flips_for(rng, n)], out);
    }
    // --- few-node diagrams over 10..60 variables with level gaps
    for i in 0..rgap {
        if i % wstep == 0 { emit_wide(&mut wq, 1, out); }
        // the first third stays at n <= 12 so that the brute-force predicate applies
        let n = if i % 3 == 0 { 10 + rng.below(3) as usize } else { 10 + rng.below(51) as usize };
        let k = 1 + rng.below(6) as usize;
        let b = gap_bdd(rng, n, k);
        run("C11.sel", &[b.clone()], out);
        run("C11.rand", &[b.clone(), flips_for(rng, n)], out);
    }
    // --- valid but non-canonical diagrams: correspondence of the model only (panics included)
    for i in 0..rnc {
        if i % wstep == 0 { emit_wide(&mut wq, 1, out); }
        let n = 2 + rng.below(6) as usize;
        let b = random_bdd(rng, n);
        let v = fmt_bdd(&noncanon_variant(rng, &b));
        run("C11.nc", &[v.clone()], out);
        run("C11.ncrand", &[v.clone(), flips_for(rng, n)], out);
    }
    let rest = wq.len();
    emit_wide(&mut wq, rest, out);
}

fn main() { harness_main(gen, run) }
