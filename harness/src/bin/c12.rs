//! C12: text, binary and node-list serialisation round-trip under any I/O chunking.
//!
//! Case kinds (inputs => observed):
//!   C12.mem    <bdd>                       => <to_string (x:hex if it contains blanks)> <hex to_bytes> <rt_text> <rt_bytes> <rt_nodes>   (1 / 0 / err / panic)
//!   C12.wtext  <bdd> <script>              => <ok|err|panic> <hex of what reached the sink> <events consumed> <flushes> <sink of an ok call read back == b>
//!   C12.wbytes <bdd> <script>              => same
//!   C12.rtext  <orig bdd|~> <hex> <script> => <ok|err|panic> <bdd|~> <events consumed> <sizes asked by std, one per read call> <data is the library's own form of orig>
//!   C12.rbytes <orig bdd|~> <hex> <script> => same
//!   C12.huge   <par|cnt> <p1> <p2> <wscript> <rscript> <failpos> => <size> <built> then for bytes and for text:
//!              <ok|panic>:<len>:<fnv of to_bytes/to_string>  <kind>:<equal>:<nodes>:<fnv of re-read nodes> (from_bytes/from_string)
//!              <kind>:<len>:<fnv of the sink> (chunked writer)  <kind>:<equal>:<nodes>:<fnv> (chunked reader over the sink); <eeee>
//!   C12.big    <n> <k> <seed>              => <size> <bytes len> <text len> <flags>   (all comparisons byte-exact inside Rust)
//!   C12.wschars                            => every code point with char::is_whitespace
//!   C12.parse  <u16|u32> <hex of the str>  => ok:<value> | err
#[path = "../common.rs"]
mod common;
#[path = "../serial_io.rs"]
mod serial_io;
use biodivine_lib_bdd::*;
use common::*;
use serial_io::*;
use std::io::{Read, Write};

fn s(x: &str) -> String { x.to_string() }
fn kind<T, E>(r: &Option<Result<T, E>>) -> &'static str {
    match r { None => "panic", Some(Ok(_)) => "ok", Some(Err(_)) => "err" }
}
fn flag(b: bool) -> String { s(if b { "1" } else { "0" }) }

/// Every case is executed under a guard: a panic of the harness itself (only possible in the unguarded
/// construction of a value through the library's own constructors) is the observation `harness-panic`,
/// never the death of the generator.
pub fn run(key: &str, a: &[String], out: &mut Out) {
    out.begin(key, a);
    if catch(|| run_inner(key, a, &mut *out)).is_none() { out.case(key, a, &[s("harness-panic")]); }
}
/// the library refuses (or alters) the harness's own normal text form / node list of the value
fn build(key: &str, a: &[String], text: &str, out: &mut Out) -> Option<Bdd> {
    match catch(|| bdd_exact(&parse_triples(text))).flatten() {
        Some(b) => Some(b),
        None => { out.case(key, a, &[s("unbuildable")]); None }
    }
}
fn run_inner(key: &str, a: &[String], out: &mut Out) {
    match key {
        "C12.mem" => {
            let b = match build(key, a, &a[0], out) { Some(b) => b, None => return };
            let text = catch(|| b.to_string());
            let bytes = catch(|| b.to_bytes());
            let rt_text = match &text { None => s("panic"), Some(x) => match catch(|| Bdd::from_string(x)) { None => s("panic"), Some(b2) => flag(b2 == b) } };
            let rt_bytes = match &bytes { None => s("panic"), Some(x) => match catch(|| Bdd::from_bytes(&mut &x[..])) { None => s("panic"), Some(b2) => flag(b2 == b) } };
            let rt_nodes = match catch(|| Bdd::from_nodes(&b.clone().to_nodes())) { None => s("panic"), Some(Err(_)) => s("err"), Some(Ok(b2)) => flag(b2 == b) };
            out.case(key, a, &[text.map(|x| text_field(&x)).unwrap_or(s("panic")), bytes.map(|x| hex(&x)).unwrap_or(s("panic")), rt_text, rt_bytes, rt_nodes]);
        }
        "C12.wtext" | "C12.wbytes" => {
            let b = match build(key, a, &a[0], out) { Some(b) => b, None => return };
            let mut w = SWriter::new(&parse_script(&a[1]));
            let r = catch(|| { let dw: &mut dyn Write = &mut w; if key == "C12.wtext" { b.write_as_string(dw) } else { b.write_as_bytes(dw) } });
            // what reached the sink of a successful call, read back by the library's own plain reader
            let rt = if matches!(r, Some(Ok(_))) {
                let sink = w.out.clone();
                match catch(|| { let mut sl: &[u8] = &sink; let dr: &mut dyn Read = &mut sl; if key == "C12.wtext" { Bdd::read_as_string(dr).ok() } else { Bdd::read_as_bytes(dr).ok() } }) {
                    None => s("panic"), Some(None) => s("err"), Some(Some(b2)) => flag(b2 == b),
                }
            } else { s("-") };
            out.case(key, a, &[s(kind(&r)), hex(&w.out), w.sp.to_string(), w.flushes.to_string(), rt]);
        }
        "C12.rtext" | "C12.rbytes" => {
            let data = unhex(&a[1]);
            let mut rd = SReader::new(&data, &parse_script(&a[2]));
            let (k, res) = if key == "C12.rtext" {
                let r = catch(|| { let dr: &mut dyn Read = &mut rd; Bdd::read_as_string(dr) });
                (kind(&r), r.and_then(|x| x.ok()))
            } else {
                let r = catch(|| { let dr: &mut dyn Read = &mut rd; Bdd::read_as_bytes(dr) });
                (kind(&r), r.and_then(|x| x.ok()))
            };
            // is the data what the library's own writer produces for `orig` (text: modulo whitespace)? Only then is the
            // case an instance of "reading back what write_* produced".
            let libform = if a[0] == "~" { s("-") } else {
                match catch(|| bdd_exact(&parse_triples(&a[0]))).flatten() {
                    None => s("0"),
                    Some(b) => {
                        if key == "C12.rbytes" { flag(catch(|| b.to_bytes()).map(|x| x == data).unwrap_or(false)) }
                        else {
                            let strip = |t: &str| -> String { t.chars().filter(|c| !c.is_whitespace()).collect() };
                            match (std::str::from_utf8(&data), catch(|| b.to_string())) { (Ok(d), Some(t)) => flag(strip(d) == strip(&t)), _ => s("0") }
                        }
                    }
                }
            };
            out.case(key, a, &[s(k), res.map(|b| fmt_bdd(&b)).unwrap_or(s("~")), rd.sp.to_string(), fmt_list(&rd.wants), libform]);
        }
        "C12.big" => {
            let (n, k, seed): (usize, usize, u64) = (a[0].parse().unwrap(), a[1].parse().unwrap(), a[2].parse().unwrap());
            let t = counter_triples(n, k);
            let b = match catch(|| Bdd::from_nodes(&nodes_of(&t)).ok()).flatten() { Some(b) => b, None => { out.case(key, a, &[s("unbuildable")]); return } };
            let mut rng = Rng64(seed);
            let bytes = b.to_bytes();
            let text = b.to_string().into_bytes();
            let mut flags = String::new();
            let mut push = |x: bool| flags.push(if x { '1' } else { '0' });
            // byte-exact expected encodings by the harness's own encoders
            let exp_bytes = encode_triples(&t);
            push(bytes == exp_bytes);
            push(text == fmt_triples64(&t).into_bytes());
            push(catch(|| Bdd::from_bytes(&mut &bytes[..])).map(|x| x == b).unwrap_or(false));
            push(catch(|| Bdd::from_string(std::str::from_utf8(&text).unwrap())).map(|x| x == b).unwrap_or(false));
            push(catch(|| Bdd::from_nodes(&b.clone().to_nodes())).and_then(|x| x.ok()).map(|x| x == b).unwrap_or(false));
            // chunked readers / writers (big pieces, interruptions, no failure)
            for data_is_text in [false, true] {
                let data = if data_is_text { &text } else { &bytes };
                let sc = random_script(&mut rng, data.len(), 40, true, None);
                let mut rd = SReader::new(data, &sc);
                let r = catch(|| { let dr: &mut dyn Read = &mut rd; if data_is_text { Bdd::read_as_string(dr).ok() } else { Bdd::read_as_bytes(dr).ok() } });
                push(r.flatten().map(|x| x == b).unwrap_or(false));
                let sc = random_script(&mut rng, data.len(), 40, true, None);
                let mut w = SWriter::new(&sc);
                let r = catch(|| { let dw: &mut dyn Write = &mut w; if data_is_text { b.write_as_string(dw).is_ok() } else { b.write_as_bytes(dw).is_ok() } });
                push(r == Some(true) && &w.out == data);
                // a hard error somewhere in the middle is returned as Err
                let pos = 1 + rng.below(20) as usize;
                let sc = random_script(&mut rng, data.len(), 40, true, Some(pos));
                let mut rd = SReader::new(data, &sc);
                let r = catch(|| { let dr: &mut dyn Read = &mut rd; if data_is_text { Bdd::read_as_string(dr).is_err() } else { Bdd::read_as_bytes(dr).is_err() } });
                push(r == Some(true));
                let mut w = SWriter::new(&sc);
                let r = catch(|| { let dw: &mut dyn Write = &mut w; if data_is_text { b.write_as_string(dw).is_err() } else { b.write_as_bytes(dw).is_err() } });
                push(r == Some(true));
            }
            out.case(key, a, &[t.len().to_string(), bytes.len().to_string(), text.len().to_string(), flags]);
        }
        "C12.huge" => {
            // family p1 p2 wscript rscript failpos => size built B Br Bw Brc T Tr Tw Trc E
            let t = family_triples(&a[0], a[1].parse().unwrap(), a[2].parse().unwrap());
            let b = match catch(|| Bdd::from_nodes(&nodes_of(&t)).ok()).flatten() { Some(b) => b, None => { out.case(key, a, &[s("unbuildable")]); return } };
            let (wsc, rsc, failpos) = (parse_script(&a[3]), parse_script(&a[4]), a[5].parse::<usize>().unwrap());
            let mut obs = vec![t.len().to_string(), flag(triples_of(&b) == t)];
            let reread = |r: Option<Option<Bdd>>| -> String {
                match r {
                    None => s("panic:0:0:0"),
                    Some(None) => s("err:0:0:0"),
                    Some(Some(b2)) => { let t2 = triples_of(&b2); format!("ok:{}:{}:{:016x}", if b2 == b { 1 } else { 0 }, t2.len(), fnv(&encode_triples(&t2))) }
                }
            };
            let written = |k: &str, data: &[u8]| format!("{}:{}:{:016x}", k, data.len(), fnv(data));
            for is_text in [false, true] {
                // in memory: to_bytes / to_string, from_bytes / from_string (these unwrap: an error is a panic)
                let plain: Option<Vec<u8>> = catch(|| if is_text { b.to_string().into_bytes() } else { b.to_bytes() });
                obs.push(match &plain { Some(d) => written("ok", d), None => s("panic:0:0") });
                let empty: Vec<u8> = vec![];
                let pd: &Vec<u8> = plain.as_ref().unwrap_or(&empty);
                obs.push(reread(catch(|| Some(if is_text { Bdd::from_string(std::str::from_utf8(pd).unwrap_or("")) } else { Bdd::from_bytes(&mut &pd[..]) }))));
                // through a chunked writer and, what reached the sink, through a chunked reader
                let mut w = SWriter::new(&wsc);
                let wr = catch(|| { let dw: &mut dyn Write = &mut w; if is_text { b.write_as_string(dw).is_ok() } else { b.write_as_bytes(dw).is_ok() } });
                obs.push(written(match wr { Some(true) => "ok", Some(false) => "err", None => "panic" }, &w.out));
                let mut rd = SReader::new(&w.out, &rsc);
                obs.push(reread(catch(|| { let dr: &mut dyn Read = &mut rd; if is_text { Bdd::read_as_string(dr).ok() } else { Bdd::read_as_bytes(dr).ok() } })));
            }
            // a hard error as event number `failpos` of the same scripts is returned as Err by all four
            let mut e = String::new();
            let with_fail = |sc: &[Ev]| { let mut v: Vec<Ev> = sc.iter().take(failpos).cloned().collect(); v.push(Ev::Fail); v };
            for is_text in [false, true] {
                let data: Vec<u8> = if is_text { fmt_triples64(&t).into_bytes() } else { encode_triples(&t) };
                let mut rd = SReader::new(&data, &with_fail(&rsc));
                let r = catch(|| { let dr: &mut dyn Read = &mut rd; if is_text { Bdd::read_as_string(dr).is_ok() } else { Bdd::read_as_bytes(dr).is_ok() } });
                e.push(match r { Some(false) => 'e', Some(true) => 'o', None => 'p' });
                let mut w = SWriter::new(&with_fail(&wsc));
                let r = catch(|| { let dw: &mut dyn Write = &mut w; if is_text { b.write_as_string(dw).is_ok() } else { b.write_as_bytes(dw).is_ok() } });
                e.push(match r { Some(false) => 'e', Some(true) => 'o', None => 'p' });
            }
            obs.push(e);
            out.case(key, a, &obs);
        }
        "C12.wschars" => {
            let v: Vec<usize> = (0..=0x10FFFFu32).filter_map(char::from_u32).filter(|c| c.is_whitespace()).map(|c| c as usize).collect();
            out.case(key, a, &[fmt_list(&v)]);
        }
        "C12.parse" => {
            let bytes = unhex(&a[1]);
            let st = String::from_utf8(bytes).expect("C12.parse takes UTF-8");
            let r = if a[0] == "u16" { catch(|| st.parse::<u16>().map(|x| x as u64).ok()) } else { catch(|| st.parse::<u32>().map(|x| x as u64).ok()) };
            out.case(key, a, &[match r { None => s("panic"), Some(None) => s("err"), Some(Some(v)) => format!("ok:{}", v) }]);
        }
        _ => panic!("unknown key {}", key),
    }
}

/// Big diagrams built by the harness itself from a few parameters (the Lean driver builds the same arrays):
///   par n e : parity of n variables, 2n + 1 nodes, preceded by e unreachable copies of `(n-1, 0, 1)`
///   cnt n k : "exactly k of n" counter diagram
fn family_triples(fam: &str, p1: usize, p2: usize) -> Vec<(u64, u64, u64)> {
    if fam == "cnt" { return counter_triples(p1, p2); }
    let (n, extra) = (p1, p2);
    let mut t: Vec<(u64, u64, u64)> = vec![(n as u64, 0, 0), (n as u64, 1, 1)];
    for _ in 0..extra { t.push((n as u64 - 1, 0, 1)); }
    let (mut ev, mut od) = (0u64, 0u64);
    for i in (0..n).rev() {
        let (ne, no) = if i == n - 1 { ((i as u64, 0, 1), (i as u64, 1, 0)) } else { ((i as u64, ev, od), (i as u64, od, ev)) };
        t.push(ne); ev = t.len() as u64 - 1;
        if i > 0 { t.push(no); od = t.len() as u64 - 1; }
    }
    t
}

/// "exactly k of n" as a layered counter diagram (valid by level, not necessarily reduced): built by the
/// harness itself so that diagrams with more than 65 536 nodes are cheap.
fn counter_triples(n: usize, k: usize) -> Vec<(u64, u64, u64)> {
    use std::collections::HashMap;
    let mut t: Vec<(u64, u64, u64)> = vec![(n as u64, 0, 0), (n as u64, 1, 1)];
    let mut idx: HashMap<(usize, usize), u64> = HashMap::new();
    // state (i, c): deciding variable i having seen c ones; feasible iff c <= k and k - c <= n - i
    for i in (0..n).rev() {
        for c in 0..=k.min(i) {
            if k - c > n - i { continue; }
            let child = |c2: usize, idx: &HashMap<(usize, usize), u64>| -> u64 {
                if c2 > k || k - c2 > n - (i + 1) { 0 } else if i + 1 == n { if c2 == k { 1 } else { 0 } } else { idx[&(i + 1, c2)] }
            };
            let (lo, hi) = (child(c, &idx), child(c + 1, &idx));
            t.push((i as u64, lo, hi));
            idx.insert((i, c), t.len() as u64 - 1);
        }
    }
    t
}

/// the harness's own binary encoder: u16 + u32 + u32, little endian
fn encode_triples(t: &[(u64, u64, u64)]) -> Vec<u8> {
    let mut o = Vec::with_capacity(t.len() * 10);
    for (v, l, h) in t { o.extend_from_slice(&(*v as u16).to_le_bytes()); o.extend_from_slice(&(*l as u32).to_le_bytes()); o.extend_from_slice(&(*h as u32).to_le_bytes()); }
    o
}

/// all compositions of `len` into pieces of size 1..=3, as scripts
fn compositions(len: usize) -> Vec<Vec<Ev>> {
    fn go(rem: usize, cur: &mut Vec<Ev>, out: &mut Vec<Vec<Ev>>) {
        if rem == 0 { out.push(cur.clone()); return; }
        for p in 1..=3.min(rem) { cur.push(Ev::Give(p)); go(rem - p, cur, out); cur.pop(); }
    }
    let mut out = vec![];
    go(len, &mut vec![], &mut out);
    out
}
fn count_compositions(len: usize) -> u64 {
    let mut c = vec![1u64, 1, 2];
    for i in 3..=len { let x = c[i - 1].saturating_add(c[i - 2]).saturating_add(c[i - 3]); c.push(x); }
    c[len]
}
/// a random script for `len` bytes: about `events` give-events (pieces of random size covering the data),
/// interruptions sprinkled in, optionally a hard error as event number `fail_at`
fn random_script(rng: &mut Rng64, len: usize, events: usize, interrupts: bool, fail_at: Option<usize>) -> Vec<Ev> {
    let mut sc = vec![];
    let avg = (len / events.max(1)).max(1);
    let mut covered = 0usize;
    while covered < len && sc.len() < 4 * events {
        if interrupts && rng.chance(1, 6) { sc.push(Ev::Intr); continue; }
        let k = 1 + rng.below(2 * avg as u64) as usize;
        sc.push(Ev::Give(k));
        covered += k;
    }
    if let Some(p) = fail_at { let p = p.min(sc.len()); sc.truncate(p); sc.push(Ev::Fail); }
    sc
}
fn small_script(rng: &mut Rng64, len: usize, fault: u64) -> Vec<Ev> {
    // pieces 1..=3 covering `len` bytes; fault: 0 none, 1 interruptions, 2 one hard error, 3 one give-0
    let mut sc = vec![];
    let mut covered = 0;
    while covered < len {
        if fault == 1 && rng.chance(1, 4) { sc.push(Ev::Intr); continue; }
        let k = 1 + rng.below(3) as usize;
        sc.push(Ev::Give(k));
        covered += k;
    }
    if fault == 1 && rng.bool() { sc.push(Ev::Intr); }
    if fault >= 2 {
        let p = rng.below(sc.len() as u64 + 1) as usize;
        sc.insert(p, if fault == 2 { Ev::Fail } else { Ev::Give(0) });
    }
    sc
}

const WS: [u32; 25] = [0x09, 0x0A, 0x0B, 0x0C, 0x0D, 0x20, 0x85, 0xA0, 0x1680, 0x2000, 0x2001, 0x2002, 0x2003, 0x2004, 0x2005, 0x2006,
    0x2007, 0x2008, 0x2009, 0x200A, 0x2028, 0x2029, 0x202F, 0x205F, 0x3000];
/// the harness's own text form with whitespace inserted around separators (and, with `anywhere`, between digits)
fn with_whitespace(rng: &mut Rng64, text: &str, anywhere: bool) -> String {
    let chars: Vec<char> = text.chars().collect();
    let mut o = String::new();
    let ws = |rng: &mut Rng64, o: &mut String| { for _ in 0..(1 + rng.below(2)) { o.push(char::from_u32(*rng.pick(&WS)).unwrap()); } };
    if rng.bool() { ws(rng, &mut o); }
    for (i, c) in chars.iter().enumerate() {
        let sep = *c == '|' || *c == ',';
        let prev_sep = i > 0 && (chars[i - 1] == '|' || chars[i - 1] == ',');
        if (sep || prev_sep || anywhere) && rng.chance(1, 3) { ws(rng, &mut o); }
        o.push(*c);
    }
    if rng.bool() { ws(rng, &mut o); }
    o
}

struct Budget { exhaustive_cap: u64, random_per: u64 }

/// all reader/writer cases for one value
fn cases_for(text: &str, rng: &mut Rng64, out: &mut Out, bud: &Budget, faults: bool) {
    let tbytes = text.as_bytes().to_vec();
    let bbytes = encode_triples(&parse_triples(text));
    let orig = s(text);
    run("C12.mem", &[orig.clone()], out);
    for (rk, wk, data) in [("C12.rtext", "C12.wtext", &tbytes), ("C12.rbytes", "C12.wbytes", &bbytes)] {
        let h = hex(data);
        run(rk, &[orig.clone(), h.clone(), s("~")], out);
        run(wk, &[orig.clone(), s("~")], out);
        let len = data.len();
        if len > 0 && count_compositions(len) <= bud.exhaustive_cap {
            for sc in compositions(len) {
                let f = fmt_script(&sc);
                run(rk, &[orig.clone(), h.clone(), f.clone()], out);
                run(wk, &[orig.clone(), f], out);
            }
        } else {
            for _ in 0..bud.random_per {
                run(rk, &[orig.clone(), h.clone(), fmt_script(&small_script(rng, len, 0))], out);
                run(wk, &[orig.clone(), fmt_script(&small_script(rng, len, 0))], out);
            }
        }
        if faults {
            // Interrupted / hard error / give-0 at every position of a base chunking
            for base_piece in [1usize, 2] {
                let base: Vec<Ev> = (0..((len + base_piece - 1) / base_piece)).map(|_| Ev::Give(base_piece)).collect();
                for (ev, step) in [(Ev::Intr, 1usize), (Ev::Fail, 1), (Ev::Give(0), 2)] {
                    let mut p = 0;
                    while p <= base.len() {
                        let mut sc = base.clone();
                        sc.insert(p, ev);
                        let f = fmt_script(&sc);
                        run(rk, &[orig.clone(), h.clone(), f.clone()], out);
                        run(wk, &[orig.clone(), f], out);
                        p += step * (if len > 40 { 1 + len / 40 } else { 1 });
                    }
                }
            }
        } else {
            for fault in 1..=3 {
                run(rk, &[orig.clone(), h.clone(), fmt_script(&small_script(rng, len, fault))], out);
                run(wk, &[orig.clone(), fmt_script(&small_script(rng, len, fault))], out);
            }
        }
    }
    // whitespace around separators, ASCII and non-ASCII, delivered in small pieces (cuts inside UTF-8 sequences)
    for i in 0..bud.random_per.min(4) {
        let w = with_whitespace(rng, text, i == 3);
        let wb = w.as_bytes();
        run("C12.rtext", &[orig.clone(), hex(wb), s("~")], out);
        let fault = rng.below(3);
        run("C12.rtext", &[orig.clone(), hex(wb), fmt_script(&small_script(rng, wb.len(), fault))], out);
    }
}

pub fn gen(tier: Tier, rng: &mut Rng64, out: &mut Out) {
    let thorough = tier == Tier::Thorough;
    run("C12.wschars", &[], out);
    // --- big diagrams first: line wrapping / buffering / pointer-width boundaries (4 095…4 098, 8 193, 65 535…65 538 nodes,
    //     > 65 536 nodes with links >= 65 536). Both round trips with the real library, digests in the observation.
    let mut huge: Vec<(&str, usize, usize)> = vec![("par", 2047, 0), ("par", 2047, 1), ("par", 2048, 0), ("par", 2048, 1), ("par", 4096, 0),
        ("par", 127, 0), ("par", 128, 0), ("par", 32767, 0), ("par", 32767, 1), ("par", 32767, 2), ("par", 32767, 3), ("par", 33000, 0), ("cnt", 530, 260), ("cnt", 60, 30)];
    if thorough { huge.extend_from_slice(&[("par", 8192, 0), ("par", 16384, 1), ("par", 40000, 5), ("par", 65000, 0), ("cnt", 600, 300), ("cnt", 1200, 90), ("cnt", 800, 400)]); }
    for (fam, p1, p2) in huge {
        for round in 0..(if thorough { 3 } else { 1 }) {
            let size_guess = if fam == "par" { 2 * p1 + 1 + p2 } else { (p2 + 1) * (p1 - p2 + 1) } * 12;
            let wsc = if round == 2 { vec![] } else { random_script(rng, size_guess, 24, true, None) };
            let rsc = if round == 2 { vec![] } else { random_script(rng, size_guess, 24, true, None) };
            let failpos = rng.below(4) as usize; // consumed by all four directions whatever the buffer sizes std chooses
            run("C12.huge", &[s(fam), p1.to_string(), p2.to_string(), fmt_script(&wsc), fmt_script(&rsc), failpos.to_string()], out);
        }
    }
    // --- the decimal grammar of str::parse::<u16/u32>
    let toks = ["", "+", "-", "+5", "-5", "++5", "+-5", "5+", "05", "0005", "+0", "-0", "0", "7", "65535", "65536", "+65535", "065535",
        "4294967295", "4294967296", "+4294967295", "42949672950", "000000000000000000000000004294967295", "18446744073709551615",
        "18446744073709551616", "99999999999999999999999999", " 5", "5 ", "1_0", "0x10", "1e3", "١", "５", "1٣", "a", "1a", ",", "|", "12345", "99999", "100000", "655350", "6553", "1.0"];
    for t in toks { for ty in ["u16", "u32"] { run("C12.parse", &[s(ty), hex(t.as_bytes())], out); } }
    for _ in 0..(if thorough { 20000 } else { 600 }) {
        let len = rng.below(13) as usize;
        let alphabet = ['0', '1', '2', '4', '5', '6', '9', '9', '3', '+', '-', ' ', 'a'];
        let st: String = (0..len).map(|_| { let m = if rng.chance(9, 10) { 9 } else { 13 }; alphabet[rng.below(m) as usize] }).collect();
        run("C12.parse", &[s(*rng.pick(&["u16", "u32"])), hex(st.as_bytes())], out);
    }
    // --- every function over n <= 3 variables; exhaustive chunkings for the short ones
    let small = Budget { exhaustive_cap: if thorough { 30000 } else { 300 }, random_per: if thorough { 12 } else { 4 } };
    run("C12.mem", &[s("|")], out);
    for n in 0..=3usize {
        let count = 1u64 << (1u64 << n);
        for t in 0..count {
            let text = fmt_triples(&canon_triples(n, &tt_from_index(n, t)));
            let faults = n <= 2 || thorough || t % 16 == 5;
            cases_for(&text, rng, out, &small, faults);
        }
    }
    // --- random functions, non-canonical variants
    let rnd = Budget { exhaustive_cap: 0, random_per: if thorough { 6 } else { 2 } };
    for _ in 0..(if thorough { 10000 } else { 150 }) {
        let n = 4 + rng.below(5) as usize;
        let mut b = random_bdd(rng, n);
        if rng.chance(1, 3) { b = noncanon_variant(rng, &b); }
        cases_for(&fmt_bdd(&b), rng, out, &rnd, false);
    }
    // --- few-node diagrams with 16-bit variables (up to 65 534) and level gaps
    for _ in 0..(if thorough { 6000 } else { 120 }) {
        let nv: u64 = *rng.pick(&[65535u64, 65534, 65535, 40000, 300, 257, 256]);
        let depth = 1 + rng.below(5);
        let mut vars: Vec<u64> = (0..depth).map(|_| match rng.below(4) { 0 => nv - 1 - rng.below(3.min(nv - 1)), 1 => rng.below(nv), 2 => 255 + rng.below(3), _ => rng.below(1000.min(nv)) }).collect();
        vars.sort(); vars.dedup(); vars.reverse();
        let mut t = vec![(nv, 0, 0), (nv, 1, 1)];
        for v in vars {
            let top = t.len() as u64 - 1;
            let other = rng.below(t.len() as u64);
            t.push(if rng.bool() { (v, top, other) } else { (v, other, top) });
        }
        cases_for(&fmt_triples64(&t), rng, out, &rnd, false);
    }
    // --- arbitrary node arrays (values only the text reader produces): full-range fields
    for _ in 0..(if thorough { 6000 } else { 120 }) {
        let len = 1 + rng.below(4);
        let big = |rng: &mut Rng64, max: u64| -> u64 { match rng.below(4) { 0 => max, 1 => max - rng.below(3), 2 => rng.below(max + 1), _ => rng.below(300) } };
        let t: Vec<(u64, u64, u64)> = (0..len).map(|_| (big(rng, 65535), big(rng, 4294967295), big(rng, 4294967295))).collect();
        cases_for(&fmt_triples64(&t), rng, out, &rnd, false);
    }
    // --- diagrams with more than 256 nodes (2-byte pointers) through the full pipeline
    let mids: &[(usize, usize)] = if thorough { &[(50, 25), (40, 7), (64, 32), (30, 15)] } else { &[(36, 18)] };
    for (n, k) in mids {
        let b = match catch(|| { let set = BddVariableSet::new_anonymous(*n as u16); set.mk_sat_exactly_k(*k, &set.variables()) }) { Some(b) => b, None => continue };
        let text = fmt_bdd(&b);
        let (tb, bb) = (text.as_bytes().to_vec(), encode_triples(&triples_of(&b)));
        run("C12.mem", &[text.clone()], out);
        for (rk, wk, data) in [("C12.rtext", "C12.wtext", &tb), ("C12.rbytes", "C12.wbytes", &bb)] {
            for fail in [None, Some(7usize), None] {
                let sc = fmt_script(&random_script(rng, data.len(), 30, true, fail));
                run(rk, &[text.clone(), hex(data), sc.clone()], out);
                run(wk, &[text.clone(), sc], out);
            }
        }
    }
    // --- the 4 096-node boundary through the full pipeline (the model replays the scripts event by event)
    for (n, extra) in [(2047usize, 1usize), (2048, 0)] {
        let t = family_triples("par", n, extra);
        let text = fmt_triples64(&t);
        let (tb, bb) = (text.as_bytes().to_vec(), encode_triples(&t));
        run("C12.mem", &[text.clone()], out);
        for (rk, wk, data) in [("C12.rtext", "C12.wtext", &tb), ("C12.rbytes", "C12.wbytes", &bb)] {
            for fail in [None, Some(9usize)] {
                let sc = fmt_script(&random_script(rng, data.len(), 20, true, fail));
                run(rk, &[text.clone(), hex(data), sc.clone()], out);
                run(wk, &[text.clone(), sc], out);
            }
        }
    }
    // --- more than 65 536 nodes (3-byte pointers): comparisons inside Rust
    let bigs: &[(usize, usize)] = if thorough { &[(600, 300), (520, 260), (1200, 90), (800, 400)] } else { &[(530, 260), (60, 30)] };
    for (n, k) in bigs { run("C12.big", &[n.to_string(), k.to_string(), rng.next().to_string()], out); }
}

fn main() { harness_main(gen, run) }
