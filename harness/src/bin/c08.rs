//! C08: enumeration yields exactly the satisfying valuations and paths, once each.
//!
//! Sequences are printed as `<count>:<item>,<item>,…` (an empty valuation / clause is `~`), so that the
//! empty sequence `0:` and the sequence holding one empty valuation `1:~` differ.
#![allow(deprecated)]
#[path = "../common.rs"]
mod common;
use biodivine_lib_bdd::*;
use common::*;

fn s(x: &str) -> String { x.to_string() }

fn seq(items: Vec<String>) -> String {
    format!("{}:{}", items.len(), items.join(","))
}
fn fmt_vals(v: &Option<Vec<BddValuation>>) -> String {
    match v { Some(v) => seq(v.iter().map(fmt_valuation).collect()), None => s("panic") }
}
fn fmt_clauses(v: &Option<Vec<BddPartialValuation>>, n: usize) -> String {
    match v { Some(v) => seq(v.iter().map(|c| fmt_partial(c, n)).collect()), None => s("panic") }
}
/// `01-` string (any length, `~` = empty) -> partial valuation; position i of the string is variable i
fn parse_partial(text: &str) -> BddPartialValuation {
    let mut vals = vec![];
    if text != "~" {
        for (i, c) in text.chars().enumerate() {
            match c { '0' => vals.push((var(i), false)), '1' => vals.push((var(i), true)), _ => {} }
        }
    }
    BddPartialValuation::from_values(&vals)
}

/// A clause built by a HISTORY of operations on an empty `BddPartialValuation`, so that the backing vector
/// has exactly the shape the history produces (trailing unset cells, cells beyond num_vars …):
/// `sK=b` set_value(xK, b), `uK` unset_value(xK), `iK=b` / `iK=-` index assignment `clause[xK] = Some(b) / None`;
/// operations are separated by `.`, the empty history is `~`.
fn build_history(text: &str) -> BddPartialValuation {
    let mut c = BddPartialValuation::empty();
    if text == "~" { return c; }
    for op in text.split('.') {
        let (kind, rest) = op.split_at(1);
        let (k, val) = match rest.split_once('=') { Some((k, v)) => (k, Some(v)), None => (rest, None) };
        let v = var(k.parse::<usize>().unwrap());
        match (kind, val) {
            ("s", Some(b)) => c.set_value(v, b == "1"),
            ("u", None) => c.unset_value(v),
            ("i", Some("-")) => c[v] = None,
            ("i", Some(b)) => c[v] = Some(b == "1"),
            _ => panic!("bad history op {}", op),
        }
    }
    c
}
/// every clause (as returned, not rebuilt) fed to `ValuationsOfClauseIterator::new(clause, n)`:
/// `<count>/<clause>><valuations>/<clause>><valuations>…`
fn fmt_clause_vals(clauses: &Option<Vec<BddPartialValuation>>, n: usize) -> String {
    match clauses {
        None => s("panic"),
        Some(cs) => {
            let mut out = format!("{}", cs.len());
            for c in cs {
                let vals = catch(|| ValuationsOfClauseIterator::new(c.clone(), n as u16).collect::<Vec<_>>());
                out.push_str(&format!("/{}>{}", fmt_partial(c, n), fmt_vals(&vals)));
            }
            out
        }
    }
}


// ------------------------------------------------------------------------------------------------
// Iterator protocol: `next()` j times, then ONE provided/adaptor method, on every iterator type.

/// what a kind of iterator supports beyond `Iterator`
struct ProtoOps<I, T> {
    fmt: Box<dyn Fn(&T) -> String>,
    min: Option<fn(I) -> Option<T>>,
    max: Option<fn(I) -> Option<T>>,
    clone: Option<fn(&I) -> I>,
    back: Option<fn(I) -> Bdd>,
}
fn opt_item<T>(x: Option<T>, f: &dyn Fn(&T) -> String) -> String {
    match x { Some(v) => format!("some:{}", f(&v)), None => s("none") }
}
/// observed: all (fresh collect), result of the method, remaining items afterwards (if the iterator
/// survives the method), three further `next()` after exhaustion (`N` = None), the Bdd given back (owned kinds)
fn proto_case<I: Iterator<Item = T>, T>(mk: &dyn Fn() -> I, j: usize, method: &str, k: usize, ops: &ProtoOps<I, T>) -> Vec<String> {
    let f = &ops.fmt;
    let all = catch(|| mk().collect::<Vec<T>>());
    let all_s = match &all { Some(v) => seq(v.iter().map(|x| f(x)).collect()), None => s("panic") };
    let r = catch(|| {
        let mut it = mk();
        for _ in 0..j { it.next(); }
        let (res, rem): (String, Option<I>) = match method {
            "count" => (it.count().to_string(), None),
            "last" => (opt_item(it.last(), f), None),
            "nth" => { let x = it.nth(k); (opt_item(x, f), Some(it)) }
            "size_hint" => {
                let (lo, hi) = it.size_hint();
                (format!("{}/{}", lo, hi.map(|h| h.to_string()).unwrap_or(s("-"))), Some(it))
            }
            "collect" => (seq(it.collect::<Vec<T>>().iter().map(|x| f(x)).collect()), None),
            "take" => { let v: Vec<T> = it.by_ref().take(k).collect(); (seq(v.iter().map(|x| f(x)).collect()), Some(it)) }
            "fold" => (seq(it.fold(Vec::new(), |mut acc, x| { acc.push(f(&x)); acc })), None),
            "min" => match ops.min { Some(m) => (opt_item(m(it), f), None), None => (s("n/a"), None) },
            "max" => match ops.max { Some(m) => (opt_item(m(it), f), None), None => (s("n/a"), None) },
            "clone" => match ops.clone {
                Some(c) => {
                    let it2 = c(&it);
                    let a: Vec<String> = it.map(|x| f(&x)).collect();
                    let b: Vec<String> = it2.map(|x| f(&x)).collect();
                    (format!("{}/{}", seq(a), seq(b)), None)
                }
                None => (s("n/a"), None),
            },
            "skip" => (seq(it.skip(k).map(|x| f(&x)).collect()), None),
            "step_by" => (seq(it.step_by(k).map(|x| f(&x)).collect()), None),
            "next" => (s("-"), Some(it)),
            _ => panic!("unknown method {}", method),
        };
        match rem {
            Some(mut it) => {
                let mut rest = vec![];
                while let Some(x) = it.next() { rest.push(f(&x)); }
                let fused: String = (0..3).map(|_| if it.next().is_none() { 'N' } else { 'S' }).collect();
                let back = match ops.back { Some(b) => fmt_bdd(&b(it)), None => s("-") };
                vec![res, seq(rest), fused, back]
            }
            None => vec![res, s("-"), s("-"), s("-")],
        }
    });
    let mut o = vec![all_s];
    o.extend(r.unwrap_or(vec![s("panic"), s("panic"), s("panic"), s("panic")]));
    o
}
fn val_ops<I: Iterator<Item = BddValuation>>(clone: Option<fn(&I) -> I>, back: Option<fn(I) -> Bdd>) -> ProtoOps<I, BddValuation> {
    ProtoOps { fmt: Box::new(|v: &BddValuation| fmt_valuation(v)), min: Some(|it: I| it.min()), max: Some(|it: I| it.max()), clone, back }
}
fn clause_ops<I: Iterator<Item = BddPartialValuation>>(n: usize, back: Option<fn(I) -> Bdd>) -> ProtoOps<I, BddPartialValuation> {
    ProtoOps { fmt: Box::new(move |c: &BddPartialValuation| fmt_partial(c, n)), min: None, max: None, clone: None, back }
}
/// kinds: pc sat_clauses, pv sat_valuations, oc into_sat_clauses, ov into_sat_valuations (source = Bdd);
/// cv ValuationsOfClauseIterator::new (source = `clause@num_vars`), uv new_unconstrained, bv
/// BddValuationIterator::new (source = num_vars), ev empty (source `~`)
fn run_proto(kind: &str, src: &str, j: usize, method: &str, k: usize) -> Vec<String> {
    match kind {
        "pc" => { let b = Bdd::from_string(src); let n = b.num_vars() as usize;
                  proto_case(&|| b.sat_clauses(), j, method, k, &clause_ops(n, None)) }
        "pv" => { let b = Bdd::from_string(src);
                  proto_case(&|| b.sat_valuations(), j, method, k, &val_ops(None, None)) }
        "oc" => { let b = Bdd::from_string(src); let n = b.num_vars() as usize;
                  proto_case(&|| b.clone().into_sat_clauses(), j, method, k, &clause_ops(n, Some(|it: OwnedBddPathIterator| Bdd::from(it)))) }
        "ov" => { let b = Bdd::from_string(src);
                  proto_case(&|| b.clone().into_sat_valuations(), j, method, k, &val_ops(None, Some(|it: OwnedBddSatisfyingValuations| Bdd::from(it)))) }
        "cv" => { let (c, n) = src.split_once('@').unwrap(); let clause = parse_partial(c); let n: u16 = n.parse().unwrap();
                  proto_case(&|| ValuationsOfClauseIterator::new(clause.clone(), n), j, method, k, &val_ops(Some(|it: &ValuationsOfClauseIterator| it.clone()), None)) }
        "uv" => { let n: u16 = src.parse().unwrap();
                  proto_case(&|| ValuationsOfClauseIterator::new_unconstrained(n), j, method, k, &val_ops(Some(|it: &ValuationsOfClauseIterator| it.clone()), None)) }
        "bv" => { let n: u16 = src.parse().unwrap();
                  proto_case(&|| BddValuationIterator::new(n), j, method, k, &val_ops(None, None)) }
        "ev" => proto_case(&|| ValuationsOfClauseIterator::empty(), j, method, k, &val_ops(Some(|it: &ValuationsOfClauseIterator| it.clone()), None)),
        _ => panic!("unknown iterator kind {}", kind),
    }
}
/// number of items of a fresh iterator (None if it panics)
fn proto_len(kind: &str, src: &str) -> Option<usize> {
    let o = run_proto(kind, src, 0, "count", 0);
    o[1].parse().ok()
}
const PROTO_METHODS: [(&str, usize); 16] = [("count", 0), ("last", 0), ("nth", 0), ("nth", 1), ("nth", usize::MAX), ("size_hint", 0),
    ("collect", 0), ("take", 1), ("take", 2), ("fold", 0), ("min", 0), ("max", 0), ("clone", 0), ("skip", 1), ("step_by", 2), ("next", 0)];
fn proto_applicable(kind: &str, method: &str) -> bool {
    match method { "min" | "max" => kind != "pc" && kind != "oc", "clone" => kind == "cv" || kind == "uv" || kind == "ev", _ => true }
}
fn proto_splits(n: usize) -> Vec<usize> {
    if n <= 4 { (0..=n + 1).collect() } else { vec![0, 1, 2, n - 1, n, n + 1] }
}
/// every split point x every method for one iterator
fn proto_all(kind: &str, src: &str, out: &mut Out) {
    let Some(n) = proto_len(kind, src) else { return };
    for j in proto_splits(n) {
        for (m, k) in PROTO_METHODS {
            if !proto_applicable(kind, m) { continue; }
            let k = if k == usize::MAX { n } else { k };
            run("C08.proto", &[s(kind), s(src), j.to_string(), s(m), k.to_string()], out);
        }
    }
}
/// `count` random (split point, method) pairs for one iterator
fn proto_some(kind: &str, src: &str, count: usize, rng: &mut Rng64, out: &mut Out) {
    let Some(n) = proto_len(kind, src) else { return };
    for _ in 0..count {
        let j = *rng.pick(&proto_splits(n));
        let (m, k) = loop { let (m, k) = *rng.pick(&PROTO_METHODS); if proto_applicable(kind, m) { break (m, k); } };
        let k = if k == usize::MAX { n } else { k };
        run("C08.proto", &[s(kind), s(src), j.to_string(), s(m), k.to_string()], out);
    }
}

/// Executes one case from its textual inputs and writes the observation.
pub fn run(key: &str, a: &[String], out: &mut Out) {
    out.begin(key, a);
    match key {
        "C08.vals" => {
            // B => sat_valuations (borrowed)
            let b = Bdd::from_string(&a[0]);
            let res = catch(|| b.sat_valuations().collect::<Vec<_>>());
            out.case(key, a, &[fmt_vals(&res)]);
        }
        "C08.clauses" => {
            // B => sat_clauses to_dnf
            let b = Bdd::from_string(&a[0]);
            let n = b.num_vars() as usize;
            let it = catch(|| b.sat_clauses().collect::<Vec<_>>());
            let dnf = catch(|| b.to_dnf());
            out.case(key, a, &[fmt_clauses(&it, n), fmt_clauses(&dnf, n)]);
        }
        "C08.owned" => {
            // B k => into_sat_valuations into_sat_clauses Bdd::from(valuation iterator after k items)
            //        Bdd::from(path iterator after k items) items-taken-v items-taken-c
            let b = Bdd::from_string(&a[0]);
            let n = b.num_vars() as usize;
            let k: usize = a[1].parse().unwrap();
            let vals = catch(|| b.clone().into_sat_valuations().collect::<Vec<_>>());
            let cls = catch(|| OwnedBddPathIterator::from(b.clone()).collect::<Vec<_>>());
            let back_v = catch(|| {
                let mut it = OwnedBddSatisfyingValuations::from(b.clone());
                let mut taken = vec![];
                for _ in 0..k { match it.next() { Some(v) => taken.push(v), None => break } }
                (Bdd::from(it), taken)
            });
            let back_c = catch(|| {
                let mut it = b.clone().into_sat_clauses();
                let mut taken = vec![];
                for _ in 0..k { match it.next() { Some(v) => taken.push(v), None => break } }
                (Bdd::from(it), taken)
            });
            let (bv, tv) = match back_v { Some((x, t)) => (fmt_bdd(&x), fmt_vals(&Some(t))), None => (s("panic"), s("panic")) };
            let (bc, tc) = match back_c { Some((x, t)) => (fmt_bdd(&x), fmt_clauses(&Some(t), n)), None => (s("panic"), s("panic")) };
            out.case(key, a, &[fmt_vals(&vals), fmt_clauses(&cls, n), bv, bc, tv, tc]);
        }
        "C08.cvals" => {
            // clause num_vars => ValuationsOfClauseIterator::new(clause, num_vars).collect()
            let n: u16 = a[1].parse().unwrap();
            let clause = parse_partial(&a[0]);
            let res = catch(|| ValuationsOfClauseIterator::new(clause.clone(), n).collect::<Vec<_>>());
            out.case(key, a, &[fmt_vals(&res)]);
        }
        "C08.hvals" => {
            // history num_vars => ValuationsOfClauseIterator::new(clause built by the history, num_vars)
            //                     and the clause as seen through get_value over max(num_vars, 6) positions
            let n: u16 = a[1].parse().unwrap();
            let clause = build_history(&a[0]);
            let res = catch(|| ValuationsOfClauseIterator::new(clause.clone(), n).collect::<Vec<_>>());
            out.case(key, a, &[fmt_vals(&res), fmt_partial(&clause, (n as usize).max(6))]);
        }
        "C08.dnfvals" => {
            // B => every clause of to_dnf() / of sat_clauses(), as returned, fed to ValuationsOfClauseIterator::new
            let b = Bdd::from_string(&a[0]);
            let n = b.num_vars() as usize;
            let dnf = catch(|| b.to_dnf());
            let it = catch(|| b.sat_clauses().collect::<Vec<_>>());
            out.case(key, a, &[fmt_clause_vals(&dnf, n), fmt_clause_vals(&it, n)]);
        }
        "C08.uvals" => {
            // num_vars => new_unconstrained(n) BddValuationIterator::new(n) empty()
            let n: u16 = a[0].parse().unwrap();
            let u = catch(|| ValuationsOfClauseIterator::new_unconstrained(n).collect::<Vec<_>>());
            let d = catch(|| BddValuationIterator::new(n).collect::<Vec<_>>());
            let e = catch(|| ValuationsOfClauseIterator::empty().collect::<Vec<_>>());
            out.case(key, a, &[fmt_vals(&u), fmt_vals(&d), fmt_vals(&e)]);
        }
        "C08.proto" => {
            // kind source j method k => all result rest fused back   (see `proto_case`)
            let o = run_proto(&a[0], &a[1], a[2].parse().unwrap(), &a[3], a[4].parse().unwrap());
            out.case(key, a, &o);
        }
        "C08.card" => {
            // B j => exact_cardinality, sat_valuations() after j next() .count(), exact_clause_cardinality,
            //        sat_clauses() after j next() .count()
            let b = Bdd::from_string(&a[0]);
            let j: usize = a[1].parse().unwrap();
            let ec = catch(|| b.exact_cardinality().to_string()).unwrap_or(s("panic"));
            let ecc = catch(|| b.exact_clause_cardinality().to_string()).unwrap_or(s("panic"));
            let cv = catch(|| { let mut it = b.sat_valuations(); for _ in 0..j { it.next(); } it.count().to_string() }).unwrap_or(s("panic"));
            let cc = catch(|| { let mut it = b.sat_clauses(); for _ in 0..j { it.next(); } it.count().to_string() }).unwrap_or(s("panic"));
            out.case(key, a, &[ec, cv, ecc, cc]);
        }
        _ => panic!("unknown key {}", key),
    }
}

/// A canonical few-node diagram over `n` in 10..=40 variables with level gaps and at most 2^12
/// satisfying valuations: (cube over the leading variables) & g & (cube over the trailing variables),
/// where g is a random non-constant function of k <= 4 variables and u <= 12 - k variables (anywhere,
/// also between the levels of g) are not tested at all.
fn gap_bdd(rng: &mut Rng64) -> Vec<(usize, usize, usize)> {
    let n = 10 + rng.below(31) as usize;
    let k = 1 + rng.below(4) as usize;
    let u = rng.below((12 - k).min(n - k - 2) as u64 + 1) as usize;
    // choose the u untested variables
    let mut vars: Vec<usize> = (0..n).collect();
    for _ in 0..u { let i = rng.below(vars.len() as u64) as usize; vars.remove(i); }
    let m = vars.len(); // tested variables, sorted
    let start = rng.below((m - k) as u64 + 1) as usize;
    let (top, rest) = vars.split_at(start);
    let (gv, bottom) = rest.split_at(k);
    // a non-constant g
    let g = loop {
        let tt = random_tt(rng, k);
        if tt.iter().any(|b| *b) && !tt.iter().all(|b| *b) { break canon_triples(k, &tt); }
    };
    let mut nodes = vec![(n, 0, 0), (n, 1, 1)];
    // bottom chain, deepest first
    let mut one = 1usize;
    for v in bottom.iter().rev() {
        let pol = rng.bool();
        nodes.push(if pol { (*v, 0, one) } else { (*v, one, 0) });
        one = nodes.len() - 1;
    }
    let shift = nodes.len() - 2;
    let map = |p: usize| if p == 0 { 0 } else if p == 1 { one } else { p + shift };
    for (v, l, h) in g.iter().skip(2) { nodes.push((gv[*v], map(*l), map(*h))); }
    let mut r = nodes.len() - 1;
    for v in top.iter().rev() {
        let pol = rng.bool();
        nodes.push(if pol { (*v, 0, r) } else { (*v, r, 0) });
        r = nodes.len() - 1;
    }
    nodes
}

/// iterator-protocol and cardinality cross-check cases for one (canonical) diagram: a few random ones
fn proto_kinds(b: &str, rng: &mut Rng64, out: &mut Out) {
    let kind = *rng.pick(&["pc", "pv", "oc", "ov"]);
    proto_some(kind, b, 3, rng, out);
    let j = *rng.pick(&[0usize, 0, 1, 2, 3, 7, 100000]);
    run("C08.card", &[s(b), j.to_string()], out);
}

fn all_kinds(b: &str, rng: &mut Rng64, out: &mut Out) {
    run("C08.vals", &[s(b)], out);
    run("C08.clauses", &[s(b)], out);
    run("C08.dnfvals", &[s(b)], out);
    let k = *rng.pick(&[0usize, 1, 2, 3, 5, 100000]);
    run("C08.owned", &[s(b), k.to_string()], out);
}

pub fn gen(tier: Tier, rng: &mut Rng64, out: &mut Out) {
    let thorough = tier == Tier::Thorough;
    // --- 0-variable and constant diagrams
    for n in [0usize, 1, 2, 3, 5, 10] {
        for b in [fmt_triples(&[(n, 0, 0)]), fmt_triples(&[(n, 0, 0), (n, 1, 1)])] {
            for k in [0usize, 1, 100000] { run("C08.owned", &[b.clone(), k.to_string()], out); }
            run("C08.vals", &[b.clone()], out);
            run("C08.clauses", &[b.clone()], out);
            run("C08.dnfvals", &[b.clone()], out);
        }
    }
    // --- iterator protocol, exhaustively (every split point x every method) on every iterator type:
    //     constants, all functions over <= 2 variables, a sample (thorough: all) over 3 variables,
    //     all clauses over <= 3 positions, unconstrained/deprecated/empty iterators
    for n in [0usize, 1, 3] {
        for b in [fmt_triples(&[(n, 0, 0)]), fmt_triples(&[(n, 0, 0), (n, 1, 1)])] {
            for kind in ["pc", "pv", "oc", "ov"] { proto_all(kind, &b, out); }
            for j in [0usize, 1, 100000] { run("C08.card", &[b.clone(), j.to_string()], out); }
        }
    }
    for n in 1..=2usize {
        for t in 0..(1u64 << (1u64 << n)) {
            let b = fmt_bdd(&bdd_of_tt(n, &tt_from_index(n, t)));
            for kind in ["pc", "pv", "oc", "ov"] { proto_all(kind, &b, out); }
            for j in 0..=5usize { run("C08.card", &[b.clone(), j.to_string()], out); }
        }
    }
    for n in 0..=3u16 { proto_all("uv", &n.to_string(), out); proto_all("bv", &n.to_string(), out); }
    proto_all("ev", "~", out);
    for m in 0..=3usize {
        for code in 0..3usize.pow(m as u32) {
            let mut c = code;
            let text: String = (0..m).map(|_| { let d = c % 3; c /= 3; ['0', '1', '-'][d] }).collect();
            proto_all("cv", &format!("{}@{}", if text.is_empty() { s("~") } else { text }, m), out);
        }
    }
    for t in 0..256u64 {
        if thorough || rng.chance(1, 8) {
            let b = fmt_bdd(&bdd_of_tt(3, &tt_from_index(3, t)));
            for kind in ["pc", "pv", "oc", "ov"] { proto_all(kind, &b, out); }
        }
    }
    // --- clause iterators: all clauses over m <= 4 positions, num_vars 0..=4 (also clauses that are
    //     longer than num_vars: a `1` beyond num_vars panics in `new`, a `0` or `-` is ignored)
    for n in 0..=6u16 { run("C08.uvals", &[n.to_string()], out); }
    for m in 0..=4usize {
        for code in 0..3usize.pow(m as u32) {
            let mut c = code;
            let text: String = (0..m).map(|_| { let d = c % 3; c /= 3; ['0', '1', '-'][d] }).collect();
            for n in 0..=4usize { run("C08.cvals", &[text.clone(), n.to_string()], out); }
        }
    }
    for _ in 0..(if thorough { 10000 } else { 300 }) {
        let n = 5 + rng.below(if thorough { 12 } else { 8 }) as usize;
        // at most 10 free positions
        let free = rng.below(11.min(n as u64 + 1)) as usize;
        let mut text: Vec<char> = (0..n).map(|_| if rng.bool() { '1' } else { '0' }).collect();
        for _ in 0..free { let i = rng.below(n as u64) as usize; text[i] = '-'; }
        let extra = if rng.chance(1, 6) { *rng.pick(&["0", "-", "1", "-0", "01"]) } else { "" };
        let mut t: String = text.into_iter().collect();
        t.push_str(extra);
        run("C08.cvals", &[t, n.to_string()], out);
    }
    // --- clause iterators on clauses built by a history of set / unset / index-assignment operations
    //     (the backing vector gets trailing unset cells, also beyond num_vars): all histories of length
    //     <= 2 over x0..x4 (thorough: length 3 over the set/unset operations), num_vars 0..=4
    let mut ops: Vec<String> = vec![];
    for k in 0..=4usize {
        for o in [format!("s{}=0", k), format!("s{}=1", k), format!("u{}", k), format!("i{}=0", k), format!("i{}=1", k), format!("i{}=-", k)] { ops.push(o); }
    }
    let su: Vec<String> = ops.iter().filter(|o| !o.starts_with('i')).cloned().collect();
    let mut histories: Vec<String> = vec![s("~")];
    for o in &ops { histories.push(o.clone()); }
    for o1 in &ops { for o2 in &ops { histories.push(format!("{}.{}", o1, o2)); } }
    if thorough {
        for o1 in &su { for o2 in &su { for o3 in &su { histories.push(format!("{}.{}.{}", o1, o2, o3)); } } }
    }
    for h in &histories { for n in 0..=4usize { run("C08.hvals", &[h.clone(), n.to_string()], out); } }
    for _ in 0..(if thorough { 20000 } else { 1500 }) {
        // longer random histories over up to 8 variables: mostly a fixed prefix, then unsets of the last variables
        let n = rng.below(9) as usize;
        let len = 1 + rng.below(7) as usize;
        let h: Vec<String> = (0..len).map(|_| {
            let k = rng.below(n as u64 + 3) as usize;
            match rng.below(6) { 0 | 1 => format!("s{}={}", k, rng.below(2)), 2 => format!("u{}", k), 3 => format!("i{}=-", k), 4 => format!("i{}={}", k, rng.below(2)), _ => format!("u{}", (n + rng.below(3) as usize).saturating_sub(1)) }
        }).collect();
        run("C08.hvals", &[h.join("."), n.to_string()], out);
    }
    // --- exhaustive small universes
    for n in 0..=3usize {
        for t in 0..(1u64 << (1u64 << n)) {
            let b = fmt_bdd(&bdd_of_tt(n, &tt_from_index(n, t)));
            all_kinds(&b, rng, out);
            proto_kinds(&b, rng, out);
        }
    }
    if thorough {
        for t in 0..65536u64 { let b = fmt_bdd(&bdd_of_tt(4, &tt_from_index(4, t))); all_kinds(&b, rng, out); proto_kinds(&b, rng, out); }
    } else {
        for _ in 0..1500 { let b = fmt_bdd(&bdd_of_tt(4, &tt_from_index(4, rng.below(65536)))); all_kinds(&b, rng, out); proto_kinds(&b, rng, out); }
    }
    // --- random functions over 5..=8 variables (shared sub-diagrams, skipped levels)
    for _ in 0..(if thorough { 60000 } else { 1500 }) {
        let n = 5 + rng.below(4) as usize;
        let b = fmt_bdd(&random_bdd(rng, n));
        all_kinds(&b, rng, out);
        proto_kinds(&b, rng, out);
    }
    // --- few-node diagrams over 10..=40 variables with level gaps, <= 2^12 satisfying valuations
    for _ in 0..(if thorough { 5000 } else { 120 }) {
        let b = fmt_triples(&gap_bdd(rng));
        all_kinds(&b, rng, out);
        proto_kinds(&b, rng, out);
    }
    // --- valid but non-canonical diagrams (duplicated nodes, garbage, redundant test, renumbering);
    //     a redundant test makes the path iterator panic by design ("The BDD is not canonical.")
    for _ in 0..(if thorough { 10000 } else { 400 }) {
        let n = 2 + rng.below(5) as usize;
        let b0 = random_bdd(rng, n);
        let b = fmt_bdd(&noncanon_variant(rng, &b0));
        all_kinds(&b, rng, out);
    }
}

fn main() { harness_main(gen, run) }
