//! C10: normal-form construction (mk_dnf, mk_cnf, clause constructors) and extraction (to_dnf, to_cnf,
//! to_optimized_dnf) preserve the function.
//!
//! Text forms: a clause is the raw `Vec<Option<bool>>` as a string over `0`, `1`, `-` (`~` = empty vector; the
//! length of the string IS the length of the vector, so trailing `-` are significant for `PartialEq`); a clause
//! list is `c1/c2/…`, the empty list is `.`. Observed clause lists are printed with `fmt_partial` over the
//! `num_vars` variables of the context (variables beyond are appended as `;idx=val`).
#[path = "../common.rs"]
mod common;
use biodivine_lib_bdd::*;
use common::*;

fn s(x: &str) -> String { x.to_string() }

/// builds the vector exactly: `set_value`/`unset_value` on the last position fixes the length
fn parse_clause(t: &str) -> BddPartialValuation {
    let mut p = BddPartialValuation::empty();
    if t == "~" { return p; }
    let cs: Vec<char> = t.chars().collect();
    let last = cs.len() - 1;
    p.set_value(var(last), false);
    p.unset_value(var(last));
    for (i, c) in cs.iter().enumerate() {
        match c { '1' => p.set_value(var(i), true), '0' => p.set_value(var(i), false), _ => {} }
    }
    p
}
fn parse_clauses(t: &str) -> Vec<BddPartialValuation> {
    if t == "." { return vec![]; }
    t.split('/').map(parse_clause).collect()
}
fn fmt_clauses(cs: &[BddPartialValuation], n: usize) -> String {
    if cs.is_empty() { return s("."); }
    cs.iter().map(|c| fmt_partial(c, n)).collect::<Vec<_>>().join("/")
}
fn fmt_res_clauses(cs: &Option<Vec<BddPartialValuation>>, n: usize) -> String {
    match cs { Some(cs) => fmt_clauses(cs, n), None => s("panic") }
}

pub fn run(key: &str, a: &[String], out: &mut Out) {
    out.begin(key, a);
    match key {
        "C10.dnf" | "C10.cnf" => {
            // n clauses => Bdd | panic
            let n: u16 = a[0].parse().unwrap();
            let ctx = BddVariableSet::new_anonymous(n);
            let cs = parse_clauses(&a[1]);
            let res = if key == "C10.dnf" { catch(|| ctx.mk_dnf(&cs)) } else { catch(|| ctx.mk_cnf(&cs)) };
            out.case(key, a, &[fmt_res_bdd(&res)]);
        }
        "C10.conj" | "C10.disj" => {
            // n clause => Bdd | panic
            let n: u16 = a[0].parse().unwrap();
            let ctx = BddVariableSet::new_anonymous(n);
            let c = parse_clause(&a[1]);
            let res = if key == "C10.conj" { catch(|| ctx.mk_conjunctive_clause(&c)) } else { catch(|| ctx.mk_disjunctive_clause(&c)) };
            out.case(key, a, &[fmt_res_bdd(&res)]);
        }
        "C10.ext" => {
            // Bdd => to_dnf to_cnf mk_dnf(to_dnf) mk_cnf(to_cnf)
            let b = Bdd::from_string(&a[0]);
            let n = b.num_vars();
            let ctx = BddVariableSet::new_anonymous(n);
            let dnf = catch(|| b.to_dnf());
            let cnf = catch(|| b.to_cnf());
            let rd = match &dnf { Some(d) => catch(|| ctx.mk_dnf(d)), None => None };
            let rc = match &cnf { Some(c) => catch(|| ctx.mk_cnf(c)), None => None };
            out.case(key, a, &[fmt_res_clauses(&dnf, n as usize), fmt_res_clauses(&cnf, n as usize), fmt_res_bdd(&rd), fmt_res_bdd(&rc)]);
        }
        "C10.opt" => {
            // Bdd => to_optimized_dnf mk_dnf(to_optimized_dnf)
            let b = Bdd::from_string(&a[0]);
            let n = b.num_vars();
            let ctx = BddVariableSet::new_anonymous(n);
            let dnf = catch(|| b.to_optimized_dnf());
            let rd = match &dnf { Some(d) => catch(|| ctx.mk_dnf(d)), None => None };
            out.case(key, a, &[fmt_res_clauses(&dnf, n as usize), fmt_res_bdd(&rd)]);
        }
        _ => panic!("unknown key {}", key),
    }
}

/// clause number `i < 3^n` over n variables, as a string of length n
fn clause_of_index(n: usize, mut i: usize) -> String {
    if n == 0 { return s("~"); }
    let mut t = String::new();
    for _ in 0..n { t.push(['-', '0', '1'][i % 3]); i /= 3; }
    t
}
fn pow3(n: usize) -> usize { (0..n).fold(1, |a, _| a * 3) }

/// random clause over n variables with the given probability (out of 8) of fixing a variable
fn random_clause(rng: &mut Rng64, n: usize, dens: u64) -> String {
    if n == 0 { return s("~"); }
    (0..n).map(|_| if rng.chance(dens, 8) { if rng.bool() { '1' } else { '0' } } else { '-' }).collect()
}
/// the same clause with another vector length (trailing `-` dropped or added): equal under `PartialEq`
fn relength(rng: &mut Rng64, c: &str) -> String {
    let mut t: String = if c == "~" { String::new() } else { c.to_string() };
    if rng.bool() { while t.ends_with('-') { t.pop(); } } else { for _ in 0..rng.below(3) { t.push('-'); } }
    if t.is_empty() { s("~") } else { t }
}
fn both(n: usize, list: &str, out: &mut Out) {
    run("C10.dnf", &[n.to_string(), s(list)], out);
    run("C10.cnf", &[n.to_string(), s(list)], out);
}

pub fn gen(tier: Tier, rng: &mut Rng64, out: &mut Out) {
    let thorough = tier == Tier::Thorough;

    // --- single-clause constructors: all 3^n clauses, n <= 4, plus other vector lengths
    for n in 0..=4usize {
        for i in 0..pow3(n) {
            let c = clause_of_index(n, i);
            for key in ["C10.conj", "C10.disj"] {
                run(key, &[n.to_string(), c.clone()], out);
                let c2 = relength(rng, &c);
                if c2 != c { run(key, &[n.to_string(), c2], out); }
            }
        }
    }
    // malformed stream for the constructors: a fixed variable >= num_vars (documented panic)
    for n in 0..=3usize {
        for extra in 1..=2usize {
            for i in 0..pow3(n + extra) {
                let c = clause_of_index(n + extra, i);
                if thorough || rng.chance(1, 3) {
                    run("C10.conj", &[n.to_string(), c.clone()], out);
                    run("C10.disj", &[n.to_string(), c], out);
                }
            }
        }
    }

    // --- mk_dnf / mk_cnf: the empty list and all ordered lists of <= 3 clauses over n <= 3 variables
    for n in 0..=3usize {
        both(n, ".", out);
        let m = pow3(n);
        let all: Vec<String> = (0..m).map(|i| clause_of_index(n, i)).collect();
        for a in &all { both(n, a, out); }
        for a in &all { for b in &all { both(n, &format!("{}/{}", a, b), out); } }
        if n < 3 || thorough {
            for a in &all { for b in &all { for c in &all { both(n, &format!("{}/{}/{}", a, b, c), out); } } }
        } else {
            for _ in 0..2500 {
                let (a, b, c) = (rng.pick(&all).clone(), rng.pick(&all).clone(), rng.pick(&all).clone());
                both(n, &format!("{}/{}/{}", a, b, c), out);
            }
        }
    }
    // duplicates whose vectors have different lengths (equal under PartialEq), n <= 3
    for n in 1..=3usize {
        for i in 0..pow3(n) {
            let c = clause_of_index(n, i);
            let d = relength(rng, &c);
            let e = relength(rng, &c);
            both(n, &format!("{}/{}", c, d), out);
            both(n, &format!("{}/{}/{}", d, c, e), out);
        }
    }
    // --- random lists of up to 12 clauses over <= 8 variables: duplicates, complements, overlaps
    let rounds = if thorough { 40000 } else { 2500 };
    for _ in 0..rounds {
        let n = 1 + rng.below(8) as usize;
        let len = rng.below(13) as usize;
        let dens = 1 + rng.below(8);
        let mut cs: Vec<String> = Vec::new();
        for _ in 0..len {
            let choice = rng.below(8);
            if !cs.is_empty() && choice == 0 {
                let c = rng.pick(&cs).clone();
                cs.push(relength(rng, &c));                      // duplicate (maybe another vector length)
            } else if !cs.is_empty() && choice == 1 {
                // complementary clause: flip one fixed literal of an earlier clause
                let mut c: Vec<char> = rng.pick(&cs).chars().collect();
                let fixed: Vec<usize> = (0..c.len()).filter(|i| c[*i] == '0' || c[*i] == '1').collect();
                if !fixed.is_empty() { let i = *rng.pick(&fixed); c[i] = if c[i] == '0' { '1' } else { '0' }; }
                cs.push(c.into_iter().collect());
            } else if !cs.is_empty() && choice == 2 {
                // overlapping clause: drop or add a literal
                let mut c: Vec<char> = rng.pick(&cs).chars().collect();
                if c[0] != '~' { let i = rng.below(c.len().min(n) as u64) as usize; c[i] = *rng.pick(&['-', '0', '1']); }
                cs.push(c.into_iter().collect());
            } else {
                cs.push(random_clause(rng, n, dens));
            }
        }
        let list = if cs.is_empty() { s(".") } else { cs.join("/") };
        both(n, &list, out);
    }
    // the two regression shapes of the repository tests (`bad_mk_dnf`, `bad_mk_dnf_2`), scaled down
    {
        let n = 12usize;
        let cs: Vec<String> = (0..6).map(|i| (0..n).map(|k| if k == 2 * i || k == 2 * i + 1 { '1' } else { '-' }).collect()).collect();
        both(n, &cs.join("/"), out);
        both(3, "10/10", out);
    }
    // malformed stream: clauses that mention variables >= num_vars.
    // mk_cnf asserts the range in mk_disjunctive_clause. mk_dnf has no such assertion: it goes through
    // mk_partial_valuation and returns a diagram with variables >= num_vars, and `or` on such operands may not
    // terminate (observed: `C10.dnf 2 -0-0/1-` allocates without bound), so mk_dnf is only run on lists that
    // never reach `or`: a single clause, or clauses that fix no variable below num_vars (they end in the
    // duplicate check of line 20).
    let rounds = if thorough { 4000 } else { 400 };
    for _ in 0..rounds {
        let n = rng.below(4) as usize;
        let len = 1 + rng.below(4) as usize;
        let dens = 2 + rng.below(6);
        let cs: Vec<String> = (0..len).map(|_| { let extra = rng.below(3) as usize; random_clause(rng, n + extra, dens) }).collect();
        run("C10.cnf", &[n.to_string(), cs.join("/")], out);
        // (a list of >= 2 clauses is split, and `or`-ed with `false`, as soon as one clause fixes a variable
        // below num_vars, so those lists fix none)
        let base: String = if n == 0 { String::new() } else if len == 1 { random_clause(rng, n, dens) } else { "-".repeat(n) };
        let ext: Vec<String> = (0..len).map(|_| {
            let extra = rng.below(3) as usize;
            let tail: String = (0..extra).map(|_| *rng.pick(&['-', '-', '0', '1'])).collect();
            let c = format!("{}{}", base, tail);
            if c.is_empty() { s("~") } else { c }
        }).collect();
        both(n, &ext.join("/"), out);
    }

    // --- extraction and rebuild: all functions over <= 3 variables, over 4 (thorough: all; quick: sample)
    for n in 0..=3usize {
        for t in 0..(1u64 << (1u64 << n)) {
            let b = fmt_bdd(&bdd_of_tt(n, &tt_from_index(n, t)));
            run("C10.ext", &[b.clone()], out);
            run("C10.opt", &[b], out);
        }
    }
    if thorough {
        for t in 0..65536u64 {
            let b = fmt_bdd(&bdd_of_tt(4, &tt_from_index(4, t)));
            run("C10.ext", &[b.clone()], out);
            run("C10.opt", &[b], out);
        }
    } else {
        for _ in 0..1500 {
            let b = fmt_bdd(&bdd_of_tt(4, &tt_from_index(4, rng.below(65536))));
            run("C10.ext", &[b.clone()], out);
            if rng.chance(1, 2) { run("C10.opt", &[b], out); }
        }
    }
    // random functions over 5..7 variables
    let rounds = if thorough { 20000 } else { 1200 };
    for _ in 0..rounds {
        let n = 5 + rng.below(3) as usize;
        let b = random_bdd(rng, n);
        let bs = fmt_bdd(&b);
        run("C10.ext", &[bs.clone()], out);
        if rng.chance(1, 3) { run("C10.opt", &[bs], out); }
        // valid but non-canonical operand: the extractions are still semantic, the rebuild is canonical
        if rng.chance(1, 6) { run("C10.ext", &[fmt_bdd(&noncanon_variant(rng, &b))], out); }
    }
    // few-node diagrams over many variables with level gaps (clauses of conjunctions/disjunctions)
    for _ in 0..(if thorough { 2000 } else { 200 }) {
        let n = 8 + rng.below(5) as usize;
        let ctx = BddVariableSet::new_anonymous(n as u16);
        let c1 = parse_clause(&random_clause(rng, n, 2));
        let c2 = parse_clause(&random_clause(rng, n, 2));
        // operands built by the library here (sizes beyond the oracle builder's truth tables are not needed: n <= 12)
        let tt: Vec<bool> = (0..(1usize << n)).map(|i| {
            let v = val_of_index(n, i);
            let sat = |c: &BddPartialValuation| c.to_values().iter().all(|(x, b)| v[x.to_index()] == *b);
            sat(&c1) != sat(&c2)
        }).collect();
        let _ = ctx;
        let b = fmt_bdd(&bdd_of_tt(n, &tt));
        run("C10.ext", &[b.clone()], out);
        run("C10.opt", &[b], out);
    }
}

fn main() { harness_main(gen, run) }
