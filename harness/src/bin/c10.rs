//! C10: normal-form construction (mk_dnf, mk_cnf, clause constructors) and extraction (to_dnf, to_cnf,
//! to_optimized_dnf) preserve the function.
//!
//! Text forms: a clause is the raw `Vec<Option<bool>>` as a string over `0`, `1`, `-` (`~` = empty vector; the
//! length of the string IS the length of the vector, so trailing `-` are significant for `PartialEq`); a clause
//! list is `c1/c2/…`, the empty list is `.`. Observed clause lists are printed with `fmt_partial` over the
//! `num_vars` variables of the context (variables beyond are appended as `;idx=val`).
//! `C10.ext` / `C10.opt` also report a `bits` field: the library's own verdicts (clauses are implicants / are
//! implied, rebuild == operand), so that wide operands (50 … 2000 variables, no truth table) carry a predicate too.
#[path = "../common.rs"]
mod common;
use biodivine_lib_bdd::*;
use common::*;

fn s(x: &str) -> String { x.to_string() }

/// builds the vector exactly: `set_value`/`unset_value` on the last position fixes the length
fn parse_clause(t: &str) -> BddPartialValuation {
    let mut p = BddPartialValuation::empty();
    if t == "~" { return p; }
    let cs: Vec<char> = t.chars().collect();
    let last = cs.len() - 1;
    p.set_value(var(last), false);
    p.unset_value(var(last));
    for (i, c) in cs.iter().enumerate() {
        match c { '1' => p.set_value(var(i), true), '0' => p.set_value(var(i), false), _ => {} }
    }
    p
}
fn parse_clauses(t: &str) -> Vec<BddPartialValuation> {
    if t == "." { return vec![]; }
    t.split('/').map(parse_clause).collect()
}
fn fmt_clauses(cs: &[BddPartialValuation], n: usize) -> String {
    if cs.is_empty() { return s("."); }
    cs.iter().map(|c| fmt_partial(c, n)).collect::<Vec<_>>().join("/")
}
fn fmt_res_clauses(cs: &Option<Vec<BddPartialValuation>>, n: usize) -> String {
    match cs { Some(cs) => fmt_clauses(cs, n), None => s("panic") }
}

/// `1`/`0` per check, `p` if the check could not be computed (an earlier step or the check itself panicked)
fn fmt_bits(bits: &[Option<bool>]) -> String {
    bits.iter().map(|b| match b { Some(true) => '1', Some(false) => '0', None => 'p' }).collect()
}
/// every clause of the DNF is an implicant of `b`, decided by the library: `clause => b` is the tautology
fn lib_implicants(ctx: &BddVariableSet, b: &Bdd, dnf: &Option<Vec<BddPartialValuation>>) -> Option<bool> {
    match dnf { Some(cs) => catch(|| cs.iter().all(|c| ctx.mk_conjunctive_clause(c).imp(b).is_true())), None => None }
}

/// Oracle builder for wide diagrams (no truth table): the reduced ordered diagram of a DISJUNCTION OF CUBES,
/// by Shannon expansion on the smallest mentioned variable, HIGH cofactor first, with a unique table — the same
/// layout as `canon_triples`. A cube is a list of (variable, value) with strictly increasing variables.
fn canon_of_cubes(n: usize, cubes: &[Vec<(usize, bool)>]) -> Vec<(usize, usize, usize)> {
    use std::collections::HashMap;
    type Cubes = Vec<Vec<(usize, bool)>>;
    fn norm(mut c: Cubes) -> Cubes { c.sort(); c.dedup(); c }
    fn go(cubes: Cubes, nodes: &mut Vec<(usize, usize, usize)>, idx: &mut HashMap<(usize, usize, usize), usize>, memo: &mut HashMap<Cubes, usize>) -> usize {
        if cubes.is_empty() { return 0; }
        if cubes.iter().any(|c| c.is_empty()) { return 1; }
        if let Some(r) = memo.get(&cubes) { return *r; }
        let k = cubes.iter().map(|c| c[0].0).min().unwrap();
        let cof = |val: bool| -> Cubes {
            norm(cubes.iter().filter_map(|c| if c[0].0 == k { if c[0].1 == val { Some(c[1..].to_vec()) } else { None } } else { Some(c.clone()) }).collect())
        };
        let hi = go(cof(true), nodes, idx, memo);
        let lo = go(cof(false), nodes, idx, memo);
        let r = if hi == lo { lo } else {
            let key = (k, lo, hi);
            if let Some(i) = idx.get(&key) { *i } else { nodes.push(key); idx.insert(key, nodes.len() - 1); nodes.len() - 1 }
        };
        memo.insert(cubes, r);
        r
    }
    let mut nodes = vec![(n, 0, 0), (n, 1, 1)];
    let (mut idx, mut memo) = (HashMap::new(), HashMap::new());
    let r = go(norm(cubes.to_vec()), &mut nodes, &mut idx, &mut memo);
    if r == 0 { nodes.truncate(1); }
    nodes
}
/// complement of a canonical diagram: swap the terminals (the decision nodes and their order stay as they are)
fn complement_triples(n: usize, nodes: &[(usize, usize, usize)]) -> Vec<(usize, usize, usize)> {
    if nodes.len() == 1 { return vec![(n, 0, 0), (n, 1, 1)]; }
    if nodes.len() == 2 { return vec![(n, 0, 0)]; }
    let sw = |p: usize| if p == 0 { 1 } else if p == 1 { 0 } else { p };
    nodes.iter().enumerate().map(|(i, (v, l, h))| if i < 2 { (*v, *l, *h) } else { (*v, sw(*l), sw(*h)) }).collect()
}
fn cube(lits: &[(usize, bool)]) -> Vec<(usize, bool)> { let mut c = lits.to_vec(); c.sort(); c.dedup_by_key(|l| l.0); c }

/// One wide diagram: a small core (xor / majority / and-or / literal) on `k <= 3` variables OR-ed with one or two
/// long cubes over (most of) the variables, core variables included; optionally complemented. The satisfying
/// counts are `core * 2^(n-k) + 2^(free variables of the cube)`: they differ in their LOW bits only, far below
/// what a 53-bit mantissa can tell apart once n > 53.
fn wide_function(rng: &mut Rng64, n: usize, max_cube: usize) -> Vec<(usize, usize, usize)> {
    // positions of the core variables: the low ones (natural) or anywhere (permuted)
    let mut pos: Vec<usize> = if rng.bool() { vec![0, 1, 2] } else {
        let mut p = vec![]; while p.len() < 3 { let x = rng.below(n as u64) as usize; if !p.contains(&x) { p.push(x); } } p
    };
    if rng.chance(1, 4) { pos.rotate_left(1); }
    let (a, b, c) = (pos[0], pos[1], pos[2]);
    let mut cubes: Vec<Vec<(usize, bool)>> = match rng.below(6) {
        0 => vec![cube(&[(a, true), (b, false)]), cube(&[(a, false), (b, true)])],                                  // a xor b
        1 => vec![cube(&[(a, true), (b, true)]), cube(&[(a, true), (c, true)]), cube(&[(b, true), (c, true)])],      // majority
        2 => vec![cube(&[(a, true), (b, false), (c, false)]), cube(&[(a, false), (b, true), (c, false)]),
                  cube(&[(a, false), (b, false), (c, true)]), cube(&[(a, true), (b, true), (c, true)])],            // a xor b xor c
        3 => vec![cube(&[(a, true), (b, true)]), cube(&[(c, false)])],                                               // a & b | !c
        4 => vec![cube(&[(a, rng.bool())])],                                                                         // literal
        _ => vec![],                                                                                                 // no core: cubes only
    };
    // one long cube — density: all variables, nine in ten, half; polarity mostly positive — and sometimes a
    // second, short one (two long cubes would make the number of paths, hence of clauses, quadratic)
    {
        let dens = *rng.pick(&[10u64, 10, 9, 5]);
        let mut members: Vec<usize> = (0..n).filter(|_| rng.chance(dens, 10)).collect();
        while members.len() > max_cube { let i = rng.below(members.len() as u64) as usize; members.remove(i); }
        let lits: Vec<(usize, bool)> = members.into_iter().map(|x| (x, !rng.chance(1, 6))).collect();
        cubes.push(cube(&lits));
    }
    if rng.chance(1, 3) {
        let lits: Vec<(usize, bool)> = (0..(1 + rng.below(3))).map(|_| (rng.below(n as u64) as usize, rng.bool())).collect();
        cubes.push(cube(&lits));
    }
    let nodes = canon_of_cubes(n, &cubes);
    if rng.chance(1, 4) { complement_triples(n, &nodes) } else { nodes }
}
/// the family of the float-shortcut counterexample: (x1 ^ x2) | (x0 & !x1 & !x2 & x3 & … & x_{n-1})
fn wide_xor_cube(n: usize) -> Vec<(usize, usize, usize)> {
    let mut long = vec![(0, true), (1, false), (2, false)];
    for i in 3..n { long.push((i, true)); }
    canon_of_cubes(n, &[cube(&[(1, true), (2, false)]), cube(&[(1, false), (2, true)]), long])
}
fn run_wide(nodes: &[(usize, usize, usize)], out: &mut Out) {
    let b = fmt_triples(nodes);
    run("C10.ext", &[b.clone()], out);
    run("C10.opt", &[b], out);
}
/// Wide stream, handed out a few cases at a time from inside the other generators so that the (slower) wide
/// cases are spread over the whole case file and hence over all driver shards.
struct Wide { queue: Vec<Vec<(usize, usize, usize)>> }
impl Wide {
    fn new(tier: Tier, rng: &mut Rng64) -> Wide {
        let thorough = tier == Tier::Thorough;
        let mut q = vec![];
        for n in [53usize, 54, 55, 56, 57, 58, 60, 64, 70, 80, 90, 100, 120] { q.push(wide_xor_cube(n)); }
        for _ in 0..(if thorough { 1500 } else { 170 }) {
            let n = match rng.below(8) { 0 => 50 + rng.below(5), 1..=5 => 54 + rng.below(30), 6 => 84 + rng.below(20), _ => 104 + rng.below(27) } as usize;
            q.push(wide_function(rng, n, n));
        }
        // very wide, few nodes, large level gaps; interleaved with the others (they are the slowest to replay)
        let mut vw = vec![];
        for _ in 0..(if thorough { 200 } else { 20 }) {
            let n = match rng.below(4) { 0 | 1 => 200 + rng.below(400), 2 => 600 + rng.below(600), _ => 1200 + rng.below(801) } as usize;
            let mc = 12 + rng.below(30) as usize;
            vw.push(wide_function(rng, n, mc));
        }
        let step = (q.len() / (vw.len() + 1)).max(1);
        for (i, w) in vw.into_iter().enumerate() { let at = ((i + 1) * step + i).min(q.len()); q.insert(at, w); }
        q.reverse();
        Wide { queue: q }
    }
    fn tick(&mut self, out: &mut Out) { if let Some(w) = self.queue.pop() { run_wide(&w, out); } }
    fn drain(&mut self, out: &mut Out) { while let Some(w) = self.queue.pop() { run_wide(&w, out); } }
}

pub fn run(key: &str, a: &[String], out: &mut Out) {
    out.begin(key, a);
    match key {
        "C10.dnf" | "C10.cnf" => {
            // n clauses => Bdd | panic
            let n: u16 = a[0].parse().unwrap();
            let ctx = BddVariableSet::new_anonymous(n);
            let cs = parse_clauses(&a[1]);
            let res = if key == "C10.dnf" { catch(|| ctx.mk_dnf(&cs)) } else { catch(|| ctx.mk_cnf(&cs)) };
            out.case(key, a, &[fmt_res_bdd(&res)]);
        }
        "C10.conj" | "C10.disj" => {
            // n clause => Bdd | panic
            let n: u16 = a[0].parse().unwrap();
            let ctx = BddVariableSet::new_anonymous(n);
            let c = parse_clause(&a[1]);
            let res = if key == "C10.conj" { catch(|| ctx.mk_conjunctive_clause(&c)) } else { catch(|| ctx.mk_disjunctive_clause(&c)) };
            out.case(key, a, &[fmt_res_bdd(&res)]);
        }
        "C10.ext" => {
            // Bdd => to_dnf to_cnf mk_dnf(to_dnf) mk_cnf(to_cnf) bits
            // bits (computed with the library itself, usable without a truth table on wide diagrams):
            //   every DNF clause implies b | b implies every CNF clause | mk_dnf(to_dnf b) == b | mk_cnf(to_cnf b) == b
            let b = Bdd::from_string(&a[0]);
            let n = b.num_vars();
            let ctx = BddVariableSet::new_anonymous(n);
            let dnf = catch(|| b.to_dnf());
            let cnf = catch(|| b.to_cnf());
            let rd = match &dnf { Some(d) => catch(|| ctx.mk_dnf(d)), None => None };
            let rc = match &cnf { Some(c) => catch(|| ctx.mk_cnf(c)), None => None };
            let bits = [
                lib_implicants(&ctx, &b, &dnf),
                match &cnf { Some(cs) => catch(|| cs.iter().all(|c| b.imp(&ctx.mk_disjunctive_clause(c)).is_true())), None => None },
                rd.as_ref().map(|r| *r == b),
                rc.as_ref().map(|r| *r == b),
            ];
            out.case(key, a, &[fmt_res_clauses(&dnf, n as usize), fmt_res_clauses(&cnf, n as usize), fmt_res_bdd(&rd), fmt_res_bdd(&rc), fmt_bits(&bits)]);
        }
        "C10.opt" => {
            // Bdd => to_optimized_dnf mk_dnf(to_optimized_dnf) bits
            // bits: every clause implies b | mk_dnf(to_optimized_dnf b) == b
            let b = Bdd::from_string(&a[0]);
            let n = b.num_vars();
            let ctx = BddVariableSet::new_anonymous(n);
            let dnf = catch(|| b.to_optimized_dnf());
            let rd = match &dnf { Some(d) => catch(|| ctx.mk_dnf(d)), None => None };
            let bits = [lib_implicants(&ctx, &b, &dnf), rd.as_ref().map(|r| *r == b)];
            out.case(key, a, &[fmt_res_clauses(&dnf, n as usize), fmt_res_bdd(&rd), fmt_bits(&bits)]);
        }
        _ => panic!("unknown key {}", key),
    }
}

/// clause number `i < 3^n` over n variables, as a string of length n
fn clause_of_index(n: usize, mut i: usize) -> String {
    if n == 0 { return s("~"); }
    let mut t = String::new();
    for _ in 0..n { t.push(['-', '0', '1'][i % 3]); i /= 3; }
    t
}
fn pow3(n: usize) -> usize { (0..n).fold(1, |a, _| a * 3) }

/// random clause over n variables with the given probability (out of 8) of fixing a variable
fn random_clause(rng: &mut Rng64, n: usize, dens: u64) -> String {
    if n == 0 { return s("~"); }
    (0..n).map(|_| if rng.chance(dens, 8) { if rng.bool() { '1' } else { '0' } } else { '-' }).collect()
}
/// the same clause with another vector length (trailing `-` dropped or added): equal under `PartialEq`
fn relength(rng: &mut Rng64, c: &str) -> String {
    let mut t: String = if c == "~" { String::new() } else { c.to_string() };
    if rng.bool() { while t.ends_with('-') { t.pop(); } } else { for _ in 0..rng.below(3) { t.push('-'); } }
    if t.is_empty() { s("~") } else { t }
}
fn both(n: usize, list: &str, out: &mut Out) {
    run("C10.dnf", &[n.to_string(), s(list)], out);
    run("C10.cnf", &[n.to_string(), s(list)], out);
}

pub fn gen(tier: Tier, rng: &mut Rng64, out: &mut Out) {
    let thorough = tier == Tier::Thorough;
    // the wide stream has its own generator state, so that adding to it does not move the other streams
    let mut wrng = Rng64(rng.next() ^ 0xC10);
    let mut wide = Wide::new(tier, &mut wrng);

    // --- single-clause constructors: all 3^n clauses, n <= 4, plus other vector lengths
    for n in 0..=4usize {
        for i in 0..pow3(n) {
            if i % 3 == 0 { wide.tick(out); }
            let c = clause_of_index(n, i);
            for key in ["C10.conj", "C10.disj"] {
                run(key, &[n.to_string(), c.clone()], out);
                let c2 = relength(rng, &c);
                if c2 != c { run(key, &[n.to_string(), c2], out); }
            }
        }
    }
    // malformed stream for the constructors: a fixed variable >= num_vars (documented panic)
    for n in 0..=3usize {
        for extra in 1..=2usize {
            for i in 0..pow3(n + extra) {
                let c = clause_of_index(n + extra, i);
                if thorough || rng.chance(1, 3) {
                    run("C10.conj", &[n.to_string(), c.clone()], out);
                    run("C10.disj", &[n.to_string(), c], out);
                }
            }
        }
    }

    // --- mk_dnf / mk_cnf: the empty list and all ordered lists of <= 3 clauses over n <= 3 variables
    for n in 0..=3usize {
        both(n, ".", out);
        let m = pow3(n);
        let all: Vec<String> = (0..m).map(|i| clause_of_index(n, i)).collect();
        for a in &all { both(n, a, out); }
        for a in &all { wide.tick(out); for b in &all { both(n, &format!("{}/{}", a, b), out); } }
        if n < 3 || thorough {
            for a in &all { for b in &all { for c in &all { both(n, &format!("{}/{}/{}", a, b, c), out); } } }
        } else {
            for i in 0..2500 {
                if i % 40 == 0 { wide.tick(out); }
                let (a, b, c) = (rng.pick(&all).clone(), rng.pick(&all).clone(), rng.pick(&all).clone());
                both(n, &format!("{}/{}/{}", a, b, c), out);
            }
        }
    }
    // duplicates whose vectors have different lengths (equal under PartialEq), n <= 3
    for n in 1..=3usize {
        for i in 0..pow3(n) {
            let c = clause_of_index(n, i);
            let d = relength(rng, &c);
            let e = relength(rng, &c);
            both(n, &format!("{}/{}", c, d), out);
            both(n, &format!("{}/{}/{}", d, c, e), out);
        }
    }
    // --- random lists of up to 12 clauses over <= 8 variables: duplicates, complements, overlaps
    let rounds = if thorough { 40000 } else { 2500 };
    for i in 0..rounds {
        if i % (if thorough { 25 } else { 30 }) == 0 { wide.tick(out); }
        let n = 1 + rng.below(8) as usize;
        let len = rng.below(13) as usize;
        let dens = 1 + rng.below(8);
        let mut cs: Vec<String> = Vec::new();
        for _ in 0..len {
            let choice = rng.below(8);
            if !cs.is_empty() && choice == 0 {
                let c = rng.pick(&cs).clone();
                cs.push(relength(rng, &c));                      // duplicate (maybe another vector length)
            } else if !cs.is_empty() && choice == 1 {
                // complementary clause: flip one fixed literal of an earlier clause
                let mut c: Vec<char> = rng.pick(&cs).chars().collect();
                let fixed: Vec<usize> = (0..c.len()).filter(|i| c[*i] == '0' || c[*i] == '1').collect();
                if !fixed.is_empty() { let i = *rng.pick(&fixed); c[i] = if c[i] == '0' { '1' } else { '0' }; }
                cs.push(c.into_iter().collect());
            } else if !cs.is_empty() && choice == 2 {
                // overlapping clause: drop or add a literal
                let mut c: Vec<char> = rng.pick(&cs).chars().collect();
                if c[0] != '~' { let i = rng.below(c.len().min(n) as u64) as usize; c[i] = *rng.pick(&['-', '0', '1']); }
                cs.push(c.into_iter().collect());
            } else {
                cs.push(random_clause(rng, n, dens));
            }
        }
        let list = if cs.is_empty() { s(".") } else { cs.join("/") };
        both(n, &list, out);
    }
    // the two regression shapes of the repository tests (`bad_mk_dnf`, `bad_mk_dnf_2`), scaled down
    {
        let n = 12usize;
        let cs: Vec<String> = (0..6).map(|i| (0..n).map(|k| if k == 2 * i || k == 2 * i + 1 { '1' } else { '-' }).collect()).collect();
        both(n, &cs.join("/"), out);
        both(3, "10/10", out);
    }
    // malformed stream: clauses that mention variables >= num_vars.
    // mk_cnf asserts the range in mk_disjunctive_clause. mk_dnf has no such assertion: it goes through
    // mk_partial_valuation and returns a diagram with variables >= num_vars, and `or` on such operands may not
    // terminate (observed: `C10.dnf 2 -0-0/1-` allocates without bound), so mk_dnf is only run on lists that
    // never reach `or`: a single clause, or clauses that fix no variable below num_vars (they end in the
    // duplicate check of line 20).
    let rounds = if thorough { 4000 } else { 400 };
    for _ in 0..rounds {
        let n = rng.below(4) as usize;
        let len = 1 + rng.below(4) as usize;
        let dens = 2 + rng.below(6);
        let cs: Vec<String> = (0..len).map(|_| { let extra = rng.below(3) as usize; random_clause(rng, n + extra, dens) }).collect();
        run("C10.cnf", &[n.to_string(), cs.join("/")], out);
        // (a list of >= 2 clauses is split, and `or`-ed with `false`, as soon as one clause fixes a variable
        // below num_vars, so those lists fix none)
        let base: String = if n == 0 { String::new() } else if len == 1 { random_clause(rng, n, dens) } else { "-".repeat(n) };
        let ext: Vec<String> = (0..len).map(|_| {
            let extra = rng.below(3) as usize;
            let tail: String = (0..extra).map(|_| *rng.pick(&['-', '-', '0', '1'])).collect();
            let c = format!("{}{}", base, tail);
            if c.is_empty() { s("~") } else { c }
        }).collect();
        both(n, &ext.join("/"), out);
    }

    // --- extraction and rebuild: all functions over <= 3 variables, over 4 (thorough: all; quick: sample)
    for n in 0..=3usize {
        for t in 0..(1u64 << (1u64 << n)) {
            let b = fmt_bdd(&bdd_of_tt(n, &tt_from_index(n, t)));
            run("C10.ext", &[b.clone()], out);
            run("C10.opt", &[b], out);
        }
    }
    // valid but non-canonical variants (duplicated node, unreachable node, redundant test, other numbering) of
    // every function over <= 3 variables
    for n in 1..=3usize {
        for t in 0..(1u64 << (1u64 << n)) {
            let b = bdd_of_tt(n, &tt_from_index(n, t));
            for _ in 0..(if thorough { 4 } else { 1 }) {
                let nc = noncanon_variant(rng, &b);
                if nc != b { let s = fmt_bdd(&nc); run("C10.ext", &[s.clone()], out); run("C10.opt", &[s], out); }
            }
            // an unreachable node on each variable in turn: to_optimized_dnf must refuse exactly when the function
            // ignores that variable (support_set() is syntactic), to_dnf / to_cnf must not care
            let mut nodes: Vec<(usize, usize, usize)> = b.clone().to_nodes().iter().map(|x| (x.var.to_index(), x.low_link.to_index(), x.high_link.to_index())).collect();
            if nodes.len() >= 3 {
                let root = nodes.pop().unwrap();
                for x in 0..n {
                    let mut v = nodes.clone();
                    v.push((x, 0, 1));
                    v.push(root);
                    let s = fmt_triples(&v);
                    if thorough || x == (t as usize) % n { run("C10.ext", &[s.clone()], out); }
                    run("C10.opt", &[s], out);
                }
            }
        }
    }
    if thorough {
        for t in 0..65536u64 {
            if t % 200 == 0 { wide.tick(out); }
            let b = fmt_bdd(&bdd_of_tt(4, &tt_from_index(4, t)));
            run("C10.ext", &[b.clone()], out);
            run("C10.opt", &[b], out);
        }
    } else {
        for i in 0..1500 {
            if i % 25 == 0 { wide.tick(out); }
            let b = fmt_bdd(&bdd_of_tt(4, &tt_from_index(4, rng.below(65536))));
            run("C10.ext", &[b.clone()], out);
            if rng.chance(1, 2) { run("C10.opt", &[b], out); }
        }
    }
    // random functions over 5..7 variables
    let rounds = if thorough { 20000 } else { 1200 };
    for i in 0..rounds {
        if i % (if thorough { 100 } else { 40 }) == 0 { wide.tick(out); }
        let n = 5 + rng.below(3) as usize;
        let b = random_bdd(rng, n);
        let bs = fmt_bdd(&b);
        run("C10.ext", &[bs.clone()], out);
        if rng.chance(1, 3) { run("C10.opt", &[bs], out); }
        // valid but non-canonical operand: the extractions are still semantic, the rebuild is canonical
        if rng.chance(1, 6) {
            let nc = fmt_bdd(&noncanon_variant(rng, &b));
            run("C10.ext", &[nc.clone()], out);
            run("C10.opt", &[nc], out);   // refuses (panics) iff some node carries a variable the function ignores
        }
    }
    // few-node diagrams over many variables with level gaps (clauses of conjunctions/disjunctions)
    for _ in 0..(if thorough { 2000 } else { 200 }) {
        let n = 8 + rng.below(5) as usize;
        let ctx = BddVariableSet::new_anonymous(n as u16);
        let c1 = parse_clause(&random_clause(rng, n, 2));
        let c2 = parse_clause(&random_clause(rng, n, 2));
        // operands built by the library here (sizes beyond the oracle builder's truth tables are not needed: n <= 12)
        let tt: Vec<bool> = (0..(1usize << n)).map(|i| {
            let v = val_of_index(n, i);
            let sat = |c: &BddPartialValuation| c.to_values().iter().all(|(x, b)| v[x.to_index()] == *b);
            sat(&c1) != sat(&c2)
        }).collect();
        let _ = ctx;
        let b = fmt_bdd(&bdd_of_tt(n, &tt));
        run("C10.ext", &[b.clone()], out);
        run("C10.opt", &[b], out);
    }
    wide.drain(out);
}

fn main() { harness_main(gen, run) }
