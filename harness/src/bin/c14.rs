//! C14: the expression parser is total and implements the documented grammar; print/parse round trip.
//!
//! Strings travel percent-encoded (`enc`): printable ASCII except space, `%`, `~`, `;` is literal,
//! every other byte of the UTF-8 form is `%XX`. Expression trees travel as S-expressions without
//! spaces: `c1 c0 v(<name>) not(e) and(l,r) or(l,r) xor(l,r) imp(l,r) iff(l,r) ite(c,t,e)`, names
//! percent-encoded with everything except `[A-Za-z0-9_]` escaped.
#[path = "../common.rs"]
mod common;
#[path = "../exprio.rs"]
mod exprio;
use biodivine_lib_bdd::boolean_expression::BooleanExpression;
use biodivine_lib_bdd::boolean_expression::BooleanExpression::*;
use common::*;
use exprio::*;
use std::convert::TryFrom;


// ------------------------------------------------------------------------------------------------
// depth boundaries: raw strings and trees of a given nesting depth, built without recursion

pub const RAW_SHAPES: [&str; 14] = ["paren", "parenop", "rightand", "leftand", "flatand", "flatimp", "notchain", "notparen",
    "condright", "condleft", "condmid", "mixed", "unbalopen", "unbalclose"];
pub const TREE_SHAPES: [&str; 6] = ["t-right", "t-left", "t-not", "t-condelse", "t-condcond", "t-mixed"];

fn deep_string(shape: &str, d: usize) -> String {
    match shape {
        "paren" => format!("{}a{}", "(".repeat(d), ")".repeat(d)),
        "parenop" => format!("{}a & b{}", "(".repeat(d), ")".repeat(d)),
        "rightand" => format!("{}a{}", "(a & ".repeat(d), ")".repeat(d)),
        "leftand" => format!("{}a{}", "(".repeat(d), " & a)".repeat(d)),
        "flatand" => format!("a{}", " & a".repeat(d)),
        "flatimp" => format!("a{}", "=>b".repeat(d)),
        "notchain" => format!("{}a", "!".repeat(d)),
        "notparen" => format!("{}a{}", "!(".repeat(d), ")".repeat(d)),
        "condright" => format!("{}c{}", "(a ? b : ".repeat(d), ")".repeat(d)),
        "condleft" => format!("{}a{}", "(".repeat(d), " ? b : c)".repeat(d)),
        "condmid" => format!("{}b{}", "(a ? ".repeat(d), " : c)".repeat(d)),
        "mixed" => {
            let ops = ["=>", "<=>", "|", "^", "&"];
            let mut x = String::new();
            for i in 0..d { x.push_str("(a "); x.push_str(ops[i % 5]); x.push(' '); }
            x.push('a');
            x.push_str(&")".repeat(d));
            x
        }
        "unbalopen" => format!("{}a{}", "(".repeat(d), ")".repeat(d - 1)),
        "unbalclose" => format!("{}a{}", "(".repeat(d - 1), ")".repeat(d)),
        _ => panic!("shape {}", shape),
    }
}
fn deep_tree(shape: &str, d: usize) -> BooleanExpression {
    let va = || Box::new(Variable(s("a")));
    let mut acc = Variable(s("a"));
    for i in 0..d {
        acc = match shape {
            "t-right" => And(va(), Box::new(acc)),
            "t-left" => Or(Box::new(acc), va()),
            "t-not" => Not(Box::new(acc)),
            "t-condelse" => Cond(va(), Box::new(Variable(s("b"))), Box::new(acc)),
            "t-condcond" => Cond(Box::new(acc), va(), Box::new(Const(false))),
            "t-mixed" => match i % 6 {
                0 => Imp(va(), Box::new(acc)), 1 => Iff(Box::new(acc), va()), 2 => Xor(va(), Box::new(acc)),
                3 => Not(Box::new(acc)), 4 => Cond(va(), Box::new(acc), Box::new(Const(true))), _ => Or(Box::new(acc), va()),
            },
            _ => panic!("shape {}", shape),
        };
    }
    acc
}
/// a deep tree must not be dropped recursively by the harness itself
fn forget_tree(e: BooleanExpression) { std::mem::forget(e); }

fn outcome(x: &str) -> String {
    match catch(|| BooleanExpression::try_from(x)) {
        None => s("panic"),
        Some(Err(_)) => s("err"),
        Some(Ok(e)) => format!("ok {}", sexp(&e)),
    }
}
/// one character per outcome in batches: `e` err, `p` panic, `o<sexp>` ok
fn outcome_short(x: &str) -> String {
    match catch(|| BooleanExpression::try_from(x)) {
        None => s("p"),
        Some(Err(_)) => s("e"),
        Some(Ok(e)) => format!("o{}", sexp(&e)),
    }
}

pub const TOKENS: [&str; 14] = ["a", "b", "true", "false", "!", "&", "|", "^", "=>", "<=>", "?", ":", "(", ")"];

fn render(ids: &[usize]) -> String { ids.iter().map(|i| TOKENS[*i]).collect::<Vec<_>>().join(" ") }
fn ids_field(ids: &[usize]) -> String { if ids.is_empty() { s("~") } else { ids.iter().map(|i| format!("{:x}", i)).collect() } }
fn parse_ids(x: &str) -> Vec<usize> { if x == "~" { vec![] } else { x.chars().map(|c| c.to_digit(16).unwrap() as usize).collect() } }

pub fn run(key: &str, a: &[String], out: &mut Out) {
    out.begin(key, a);
    match key {
        // one string => ok <sexp> | err | panic
        "C14.tok" | "C14.chr" | "C14.rnd" => {
            let x = dec(&a[0]);
            let o = outcome(&x);
            out.case(key, a, &[o]);
        }
        // prefix (hex digits = token ids) k => outcomes of all 14^k completions, `;`-separated, in
        // lexicographic order of the completion (first added token most significant)
        "C14.tokb" => {
            let prefix = parse_ids(&a[0]);
            let k: u32 = a[1].parse().unwrap();
            let total = 14usize.pow(k);
            let mut res = String::new();
            let mut ids = prefix.clone();
            for j in 0..total {
                ids.truncate(prefix.len());
                let mut div = total / 14;
                for _ in 0..k { ids.push((j / div.max(1)) % 14); div /= 14; }
                if j > 0 { res.push(';'); }
                res.push_str(&outcome_short(&render(&ids)));
            }
            out.case(key, a, &[res]);
        }
        // code points start..start+count: class of parsing "a<cp>": w = Variable("a") (cp was skipped as
        // whitespace), i = Variable("a<cp>"), e = err, p = panic, o = any other Ok, - = not a scalar value
        "C14.wsb" | "C14.wsm" => {
            let middle = key == "C14.wsm";
            let start: u32 = a[0].parse().unwrap();
            let count: u32 = a[1].parse().unwrap();
            let mut res = String::new();
            for cp in start..start + count {
                res.push(match char::from_u32(cp) {
                    None => '-',
                    Some(c) => {
                        let x = if middle { format!("a{}b", c) } else { format!("a{}", c) };
                        match catch(|| BooleanExpression::try_from(x.as_str())) {
                            None => 'p',
                            Some(Err(_)) => 'e',
                            Some(Ok(Variable(n))) => if n == "a" { 'w' } else if n == x { 'i' } else { 'o' },
                            Some(Ok(_)) => 'o',
                        }
                    }
                });
            }
            out.case(key, a, &[res]);
        }
        // shape depth => input text, outcome — executed in a CHILD PROCESS (a native stack overflow kills the
        // child only and is recorded as the outcome `crash`)
        "C14.deep" => {
            let exe = std::env::current_exe().unwrap();
            let child = std::process::Command::new(exe).arg("replay").arg("C14.deepchild").arg(&a[0]).arg(&a[1]).output();
            let line = match &child { Ok(o) if o.status.success() => String::from_utf8_lossy(&o.stdout).to_string(), _ => String::new() };
            match line.trim_end().split_once(" => ") {
                Some((_, obs)) => { let fields: Vec<String> = obs.split(' ').map(|x| x.to_string()).collect(); out.case(key, a, &fields); }
                None => out.case(key, a, &[s("-"), s("crash")]),
            }
        }
        "C14.deepchild" => {
            let d: usize = a[1].parse().unwrap();
            if a[0].starts_with("t-") {
                let e = deep_tree(&a[0], d);
                let printed = format!("{}", e);
                forget_tree(e);
                let parsed = catch(|| BooleanExpression::try_from(printed.as_str()));
                let o = match &parsed { None => s("panic"), Some(Err(_)) => s("err"), Some(Ok(e2)) => format!("ok {}", sexp(e2)) };
                if let Some(Ok(e2)) = parsed { forget_tree(e2); }
                out.case(key, a, &[enc(&printed), o]);
            } else {
                let x = deep_string(&a[0], d);
                let parsed = catch(|| BooleanExpression::try_from(x.as_str()));
                let o = match &parsed { None => s("panic"), Some(Err(_)) => s("err"), Some(Ok(e2)) => format!("ok {}", sexp(e2)) };
                if let Some(Ok(e2)) = parsed { forget_tree(e2); }
                out.case(key, a, &[enc(&x), o]);
            }
        }
        // tree => printed form, outcome of parsing the printed form   (rtu: names are not parser-safe)
        "C14.rt" | "C14.rtu" => {
            let e = unsexp(&a[0]);
            match catch(|| format!("{}", e)) {
                None => out.case(key, a, &[s("panic"), s("-")]),
                Some(printed) => { let o = outcome(&printed); out.case(key, a, &[enc(&printed), o]); }
            }
        }
        _ => panic!("unknown key {}", key),
    }
}

// ------------------------------------------------------------------------------------------------
// generators

const SAFE_NAMES: [&str; 14] = ["a", "b", "x_0", "v_1+{14}", "tru", "truee", "falsey", "True", "é", "变量", "a.b", "x'", "0", "a,b"];
/// legal variable names that look like the constants or like operators spelled out: they must parse as
/// `Variable` with exactly that name (only the exact lowercase `true` / `false` are constants)
pub const KEYWORDISH: [&str; 40] = ["True", "TRUE", "tRuE", "truE", "False", "FALSE", "fAlSe", "falsE", "truex", "xtrue", "true_", "_true",
    "nottrue", "truetrue", "true1", "1true", "falsex", "xfalse", "false_", "notfalse", "truefalse", "tru", "rue", "fals", "alse",
    "t", "f", "T", "F", "1", "not", "and", "or", "xor", "imp", "iff", "ite", "if", "null", "ＴＲＵＥ"];
/// token alphabet of the second exhaustive token stream (keyword-like identifiers among operators)
const TOKENS2: [&str; 12] = ["True", "FALSE", "truex", "xtrue", "true", "false", "!", "&", "?", ":", "(", ")"];
const UNSAFE_NAMES: [&str; 12] = ["", "true", "false", "a b", "a&b", "(a)", "a\u{a0}b", "!a", "a?", "x:y", "a=>b", "\t"];

/// all trees with exactly `size` nodes over the given leaves, for size = 1..=max
fn build_trees(max: usize, leaves: &[BooleanExpression]) -> Vec<Vec<BooleanExpression>> {
    let mut memo: Vec<Vec<BooleanExpression>> = vec![vec![], leaves.to_vec()];
    for size in 2..=max {
        let mut cur = vec![];
        for x in &memo[size - 1] { cur.push(Not(Box::new(x.clone()))); }
        for ls in 1..size - 1 {
            let rs = size - 1 - ls;
            if rs < 1 { continue; }
            for l in &memo[ls] { for r in &memo[rs] {
                let (l, r) = (Box::new(l.clone()), Box::new(r.clone()));
                cur.push(And(l.clone(), r.clone())); cur.push(Or(l.clone(), r.clone())); cur.push(Xor(l.clone(), r.clone()));
                cur.push(Imp(l.clone(), r.clone())); cur.push(Iff(l, r));
            } }
        }
        for x in 1..size { for y in 1..size {
            if x + y + 1 >= size { continue; }
            let z = size - 1 - x - y;
            for p in &memo[x] { for q in &memo[y] { for r in &memo[z] {
                cur.push(Cond(Box::new(p.clone()), Box::new(q.clone()), Box::new(r.clone())));
            } } }
        } }
        memo.push(cur);
    }
    memo
}

pub fn random_tree(rng: &mut Rng64, depth: usize, names: &[&str]) -> BooleanExpression {
    if depth == 0 || rng.chance(1, 5) {
        return match rng.below(8) { 0 => Const(true), 1 => Const(false), _ => Variable(s(*rng.pick(names))) };
    }
    let sub = |rng: &mut Rng64| Box::new(random_tree(rng, depth - 1, names));
    match rng.below(9) {
        0 | 1 => Not(sub(rng)),
        2 => And(sub(rng), sub(rng)),
        3 => Or(sub(rng), sub(rng)),
        4 => Xor(sub(rng), sub(rng)),
        5 => Imp(sub(rng), sub(rng)),
        6 => Iff(sub(rng), sub(rng)),
        _ => Cond(sub(rng), sub(rng), sub(rng)),
    }
}

/// precedence-aware printer with random redundant parentheses and random spacing (generator only)
fn loose_print(rng: &mut Rng64, e: &BooleanExpression, ctx: u32, depth: &mut usize, o: &mut String) {
    // levels: 6 iff, 5 imp, 4 cond, 3 or, 2 and, 1 xor, 0 term
    let lvl = match e { Iff(..) => 6, Imp(..) => 5, Cond(..) => 4, Or(..) => 3, And(..) => 2, Xor(..) => 1, _ => 0 };
    let paren = lvl > ctx || (*depth < 40 && rng.chance(1, 6));
    let sp = |rng: &mut Rng64, o: &mut String| { match rng.below(6) { 0 => {}, 1 => o.push_str("  "), 2 => o.push('\t'), _ => o.push(' ') } };
    if paren { o.push('('); *depth += 1; sp(rng, o); }
    let c = if paren { 6 } else { ctx };
    let _ = c;
    match e {
        Const(b) => o.push_str(if *b { "true" } else { "false" }),
        Variable(n) => o.push_str(n),
        Not(a) => { o.push('!'); if rng.chance(1, 4) { o.push(' '); } loose_print(rng, a, 0, depth, o); }
        Iff(l, r) => { loose_print(rng, l, 5, depth, o); sp(rng, o); o.push_str("<=>"); sp(rng, o); loose_print(rng, r, 6, depth, o); }
        Imp(l, r) => { loose_print(rng, l, 4, depth, o); sp(rng, o); o.push_str("=>"); sp(rng, o); loose_print(rng, r, 5, depth, o); }
        Cond(p, q, r) => {
            loose_print(rng, p, 3, depth, o); o.push(' '); o.push('?'); sp(rng, o);
            loose_print(rng, q, 3, depth, o); o.push(' '); o.push(':'); sp(rng, o);
            loose_print(rng, r, 3, depth, o);
        }
        Or(l, r) => { loose_print(rng, l, 2, depth, o); sp(rng, o); o.push('|'); sp(rng, o); loose_print(rng, r, 3, depth, o); }
        And(l, r) => { loose_print(rng, l, 1, depth, o); sp(rng, o); o.push('&'); sp(rng, o); loose_print(rng, r, 2, depth, o); }
        Xor(l, r) => { loose_print(rng, l, 0, depth, o); sp(rng, o); o.push('^'); sp(rng, o); loose_print(rng, r, 1, depth, o); }
    }
    if paren { sp(rng, o); o.push(')'); *depth -= 1; }
}

const CHR_FIXED: [&str; 64] = [
    "", " ", "a<=>b", "a=b", "a<b", "a<=b", "<=", "<", "=", ">", "a>b", "a=>b", "a =>b", "a= >b", "a< =>b", "a<= >b",
    "(", ")", "()", "(())", "(a", "a)", "(a))", "((a)", "(a)(b)", "(a)b", "a(b)", "!(a)", "!()", "(!)", "!", "!!", "!!a", "! ! a",
    "a!", "a ! b", "a!b", "!a^b", "!a ^ b", "a ? b : c ? d : e", "a ? b : (c ? d : e)", "(a ? b : c) ? d : e", "a => b ? c : d",
    "a ? b : c => d", "a ? b => c : d", "a ? b", "a : b", ": ?", "a ? b : :", "a ? ? : b", "a : b ? c", "? :", "a ?: b", "a ? b : c : d",
    "true", "false", "truefalse", "true false", "!true", "a&true", "a\u{a0}&\u{2003}b", "a\u{200b}b", "变量 & é", "a & & b",
];

pub fn gen(tier: Tier, rng: &mut Rng64, out: &mut Out) {
    let thorough = tier == Tier::Thorough;
    // --- corpus-like fixed character strings first (shortest failing case stays small)
    for x in CHR_FIXED { run("C14.chr", &[enc(x)], out); }
    // --- all token strings up to length 4 as individual cases
    for len in 0..=4u32 {
        let total = 14usize.pow(len);
        for j in 0..total {
            let mut ids = vec![];
            let mut div = total / 14;
            for _ in 0..len { ids.push((j / div.max(1)) % 14); div /= 14; }
            run("C14.tok", &[enc(&render(&ids))], out);
        }
    }
    // --- all strings of <= 4 (quick) / 5 (thorough) tokens over the keyword-like alphabet
    for len in 1..=(if thorough { 5u32 } else { 4u32 }) {
        let total = 12usize.pow(len);
        for j in 0..total {
            let mut toks = vec![];
            let mut div = total / 12;
            for _ in 0..len { toks.push(TOKENS2[(j / div.max(1)) % 12]); div /= 12; }
            run("C14.tok", &[enc(&toks.join(" "))], out);
        }
    }
    // --- keyword-like identifiers at character level: alone, negated, grouped, glued to operators, in every operand position
    for k in KEYWORDISH {
        for pat in ["{}", " {} ", "!{}", "({})", "!({})", "{}&{}", "a&{}", "{}|true", "true^{}", "{}=>false", "{}<=>{}", "{} ? {} : {}",
                    "a ? {} : false", "{}{}", "{} {}", "{}!", "{}(", "(a & {}) | !{}"] {
            run("C14.chr", &[enc(&pat.replace("{}", k))], out);
        }
        run("C14.rt", &[sexp(&Variable(s(k)))], out);
        run("C14.rt", &[sexp(&And(Box::new(Variable(s(k))), Box::new(Not(Box::new(Variable(s(k)))))))], out);
        run("C14.rt", &[sexp(&Cond(Box::new(Variable(s(k))), Box::new(Const(true)), Box::new(Variable(s(k)))))], out);
    }
    // --- longer ones in batches of 14^3 completions per line: length 5 (quick), 5..7 (thorough).
    // Lengths 6 and 7 are interleaved with the random stream below so that the heavy lines are spread
    // evenly over the shards of the driver.
    let max_len = if thorough { 7 } else { 5 };
    let mut pending: Vec<String> = vec![];
    for len in 5..=max_len {
        let plen = len - 3;
        let total = 14usize.pow(plen);
        for j in 0..total {
            let mut ids = vec![];
            let mut div = total / 14;
            for _ in 0..plen { ids.push((j / div.max(1)) % 14); div /= 14; }
            if len == 5 { run("C14.tokb", &[ids_field(&ids), s("3")], out); } else { pending.push(ids_field(&ids)); }
        }
    }
    pending.reverse();
    // --- all character strings up to length 4 (quick) / 5 (thorough) over a tokenizer-level alphabet
    let chars: [char; 11] = ['a', ' ', '<', '=', '>', '(', ')', '!', '?', ':', '&'];
    let cmax = if thorough { 5 } else { 4 };
    for len in 1..=cmax {
        let total = 11usize.pow(len);
        for j in 0..total {
            let mut x = String::new();
            let mut div = total / 11;
            for _ in 0..len { x.push(chars[(j / div.max(1)) % 11]); div /= 11; }
            run("C14.chr", &[enc(&x)], out);
        }
    }
    // --- whitespace classification of every code point
    let step = 4096u32;
    let mut cp = 0u32;
    while cp < 0x110000 { run("C14.wsb", &[cp.to_string(), step.to_string()], out); cp += step; }
    // whitespace / non-ASCII inside expressions
    let specials: [u32; 40] = [0x9, 0xa, 0xb, 0xc, 0xd, 0x1c, 0x1f, 0x20, 0x85, 0xa0, 0x1680, 0x180e, 0x2000, 0x2005, 0x200a, 0x200b, 0x200c,
        0x2028, 0x2029, 0x202f, 0x205f, 0x2060, 0x3000, 0xfeff, 0xe9, 0x3b1, 0x4e2d, 0x1f600, 0x10ffff, 0x7f, 0x0, 0x8, 0xe, 0x84, 0x86, 0x9f, 0xa1, 0x167f, 0x1681, 0x2fff];
    for c in specials {
        let c = char::from_u32(c).unwrap();
        for pat in ["a{}b", "{}a", "a & b{}", "{}", "a{}&{}b", "({}a{})", "!{}a", "a ={}> b", "a{}=>{}b"] {
            run("C14.chr", &[enc(&pat.replace("{}", &c.to_string()))], out);
        }
    }
    // --- round trip: all trees up to size 5 (quick) / 6 (thorough) over the names a, b, True, FALSE and the constants
    let leaves = vec![Variable(s("a")), Variable(s("b")), Variable(s("True")), Variable(s("FALSE")), Const(true), Const(false)];
    let all = build_trees(if thorough { 6 } else { 5 }, &leaves);
    for sz in 1..all.len() { for e in &all[sz] { run("C14.rt", &[sexp(e)], out); } }
    // --- random trees to depth 8 over parser-safe names; and the same trees printed loosely, then mutated
    let rounds = if thorough { 150000 } else { 6000 };
    for i in 0..rounds {
        if i % 3 == 0 { if let Some(p) = pending.pop() { run("C14.tokb", &[p, s("3")], out); } }
        let depth = 1 + (i % 8) as usize;
        let e = if i % 2 == 0 { random_tree(rng, depth, &SAFE_NAMES) } else { random_tree(rng, depth, &KEYWORDISH) };
        run("C14.rt", &[sexp(&e)], out);
        let e2 = random_tree(rng, depth.min(6), &["a", "b", "c", "x_1", "é", "True", "FALSE", "truex", "xtrue", "tRuE"]);
        let mut o = String::new();
        let mut d = 0usize;
        loose_print(rng, &e2, 6, &mut d, &mut o);
        run("C14.rnd", &[enc(&o)], out);
        // token-level mutation: delete / duplicate / replace one character class
        if rng.chance(1, 2) {
            let mut cs: Vec<char> = o.chars().collect();
            if !cs.is_empty() {
                for _ in 0..1 + rng.below(2) {
                    let p = rng.below(cs.len() as u64) as usize;
                    match rng.below(4) {
                        0 => { cs.remove(p); }
                        1 => { let c = cs[p]; cs.insert(p, c); }
                        2 => { cs[p] = *rng.pick(&['(', ')', '!', '&', '|', '^', '?', ':', '=', '<', '>', ' ', 'a']); }
                        _ => { let c = *rng.pick(&['(', ')', '?', ':', '!']); cs.insert(p, c); }
                    }
                    if cs.is_empty() { break; }
                }
            }
            run("C14.rnd", &[enc(&cs.iter().collect::<String>())], out);
        }
        if i % 10 == 0 {
            let e3 = random_tree(rng, 3, &UNSAFE_NAMES);
            run("C14.rtu", &[sexp(&e3)], out);
        }
    }
    while let Some(p) = pending.pop() { run("C14.tokb", &[p, s("3")], out); }
    // --- depth boundaries (each case in a child process): u8 / i8 / u16-like limits of any nesting counter, and far beyond
    let mut depths: Vec<usize> = vec![60, 127, 128, 255, 256, 257, 300, 1000];
    if thorough { depths.extend_from_slice(&[511, 512, 2000, 3000, 4096, 5000]); }
    for d in &depths {
        for shape in RAW_SHAPES.iter().chain(TREE_SHAPES.iter()) { run("C14.deep", &[s(shape), d.to_string()], out); }
    }
    // --- identifier `a<c>b` for every code point: one Variable unless c is reserved or whitespace
    let mut cp = 0u32;
    while cp < 0x110000 { run("C14.wsm", &[cp.to_string(), step.to_string()], out); cp += step; }
    // --- name characters chosen by their LOW BYTE: reserved characters and whitespace/control bytes shifted into
    // higher planes must be ordinary name characters in first, middle and last position
    for c in low_byte_chars() {
        let names = [format!("{}ab", c), format!("a{}b", c), format!("ab{}", c), format!("{}", c)];
        for nm in &names {
            for pat in ["{}", "!{}", "{}&{}", "a|{}", "({})", "{}?{}:{}", "{}=>{}", "{}<=>{}", "{}^a", " {} ", "!({}&b)|{}"] {
                run("C14.chr", &[enc(&pat.replace("{}", nm))], out);
            }
            run("C14.rt", &[sexp(&Variable(nm.clone()))], out);
            run("C14.rt", &[sexp(&Iff(Box::new(Variable(nm.clone())), Box::new(Not(Box::new(Variable(nm.clone()))))))], out);
            run("C14.rt", &[sexp(&Cond(Box::new(Variable(nm.clone())), Box::new(Variable(s("a"))), Box::new(Variable(nm.clone()))))], out);
        }
    }
    // --- deep nesting (<= 50 levels)
    for depth in [10usize, 25, 50] {
        for inner in ["a", "a & b", "a ? b : c", "", "!a"] {
            let x = format!("{}{}{}", "(".repeat(depth), inner, ")".repeat(depth));
            run("C14.rnd", &[enc(&x)], out);
            let y = format!("{}{}{}", "!(".repeat(depth), inner, ")".repeat(depth));
            run("C14.rnd", &[enc(&y)], out);
            let z = format!("{}{}{}", "(a => ".repeat(depth), inner, ")".repeat(depth));
            run("C14.rnd", &[enc(&z)], out);
            let w = format!("{}{}{}", "(".repeat(depth), inner, ")".repeat(depth - 1));
            run("C14.rnd", &[enc(&w)], out);
        }
    }
}

fn main() { harness_main(gen, run) }
