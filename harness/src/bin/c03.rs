//! C03: quantification and nested apply equal operate-then-project.
//!
//! Case kinds (inputs => observed):
//!   C03.nested  n outerTable outerConn L R triggerMask innerTable innerConn => binary_op_nested result
//!               (trigger(v) = bit v of the mask; innerConn is 14 (or) or 8 (and), the inner table any
//!                table consistent with it, `or`/`and` stand for the library's own op_function)
//!   C03.exq     n outerTable outerConn L R vars1 vars2 => binary_op_with_exists on vars1, on vars2
//!   C03.allq    n outerTable outerConn L R vars1 vars2 => binary_op_with_for_all on vars1, on vars2
//!   C03.exists  L vars1 vars2 => exists(vars1) exists(vars2) project(vars1)
//!   C03.forall  L vars1 vars2 => for_all(vars1) for_all(vars2)
//!   C03.varex   L x => var_exists(x) var_project(x) [exists([x]) unless L is huge]
//!   C03.varall  L x => var_for_all(x) [for_all([x]) unless L is huge]
//!   C03.exqf / C03.allqf  n outerTable outerConn L R vars1 vars2 form => as exq / allq, `form` says how the two
//!               operands are passed: `sep` (two separately parsed objects), `alias` (L = R as text, the SAME
//!               object is passed twice: `(&a, &a)`), `clone` (L = R as text, `(&a, &a.clone())`)
//!   C03.nestl   n outerTable outerConn L R vars innerTable innerConn form => binary_op_nested with the trigger
//!               given as a variable LIST (exact membership, no mask), operands passed as `form` says
//!   C03.chain   n outerTable outerConn A B vars form => r = binary_op_with_exists(A, B), then
//!               binary_op_with_for_all(r, A) and binary_op_with_exists(r, r) (`alias`) / (r, r.clone()) (`clone`):
//!               the result of an operation fed back together with its own input
//! vars2 is a permutation of vars1 with duplicates (same set); both results must be identical.
#[path = "../common.rs"]
mod common;
use biodivine_lib_bdd::*;
use common::*;

fn s(x: &str) -> String { x.to_string() }

fn parse_vars(x: &str) -> Vec<BddVariable> {
    if x == "~" { vec![] } else { x.split(',').map(|v| var(v.parse::<usize>().unwrap())).collect() }
}

fn nested_with_inner(l: &Bdd, r: &Bdd, mask: u64, outer: &str, inner: &str) -> Option<Bdd> {
    let trigger = move |v: BddVariable| (mask >> (v.to_index() as u64 % 64)) & 1 == 1;
    match inner {
        "or" => catch(|| Bdd::binary_op_nested(l, r, trigger, table_fn(outer), op_function::or)),
        "and" => catch(|| Bdd::binary_op_nested(l, r, trigger, table_fn(outer), op_function::and)),
        t => catch(|| Bdd::binary_op_nested(l, r, trigger, table_fn(outer), table_fn(t))),
    }
}

/// runs `f` on the two operands, passed as `form` says (see the module comment)
fn with_pair<T>(l: &str, r: &str, form: &str, f: impl FnOnce(&Bdd, &Bdd) -> T) -> T {
    match form {
        "alias" => { assert!(l == r, "alias form needs equal operands"); let a = Bdd::from_string(l); f(&a, &a) }
        "clone" => { assert!(l == r, "clone form needs equal operands"); let a = Bdd::from_string(l); let b = a.clone(); f(&a, &b) }
        "sep" => { let a = Bdd::from_string(l); let b = Bdd::from_string(r); f(&a, &b) }
        _ => panic!("bad form {}", form),
    }
}

fn nested_with_list(l: &Bdd, r: &Bdd, vars: &[BddVariable], outer: &str, inner: &str) -> Option<Bdd> {
    let set: std::collections::HashSet<BddVariable> = vars.iter().cloned().collect();
    let trigger = move |v: BddVariable| set.contains(&v);
    match inner {
        "or" => catch(|| Bdd::binary_op_nested(l, r, trigger, table_fn(outer), op_function::or)),
        "and" => catch(|| Bdd::binary_op_nested(l, r, trigger, table_fn(outer), op_function::and)),
        t => catch(|| Bdd::binary_op_nested(l, r, trigger, table_fn(outer), table_fn(t))),
    }
}

/// operands above this size do not get the extra `exists([x])` / `for_all([x])` observation
const HUGE: usize = 20000;

#[allow(deprecated)]
pub fn run(key: &str, a: &[String], out: &mut Out) {
    out.begin(key, a);
    match key {
        "C03.nested" => {
            let (l, r) = (Bdd::from_string(&a[3]), Bdd::from_string(&a[4]));
            let mask: u64 = a[5].parse().unwrap();
            let res = nested_with_inner(&l, &r, mask, &a[1], &a[6]);
            out.case(key, a, &[fmt_res_bdd(&res)]);
        }
        "C03.exq" | "C03.allq" => {
            let (l, r) = (Bdd::from_string(&a[3]), Bdd::from_string(&a[4]));
            let (v1, v2) = (parse_vars(&a[5]), parse_vars(&a[6]));
            let f = |vs: &[BddVariable]| {
                if key == "C03.exq" {
                    catch(|| Bdd::binary_op_with_exists(&l, &r, table_fn(&a[1]), vs))
                } else {
                    catch(|| Bdd::binary_op_with_for_all(&l, &r, table_fn(&a[1]), vs))
                }
            };
            let (r1, r2) = (f(&v1), f(&v2));
            out.case(key, a, &[fmt_res_bdd(&r1), fmt_res_bdd(&r2)]);
        }
        "C03.exists" => {
            let l = Bdd::from_string(&a[0]);
            let (v1, v2) = (parse_vars(&a[1]), parse_vars(&a[2]));
            let r1 = catch(|| l.exists(&v1));
            let r2 = catch(|| l.exists(&v2));
            let r3 = catch(|| l.project(&v1));
            out.case(key, a, &[fmt_res_bdd(&r1), fmt_res_bdd(&r2), fmt_res_bdd(&r3)]);
        }
        "C03.forall" => {
            let l = Bdd::from_string(&a[0]);
            let (v1, v2) = (parse_vars(&a[1]), parse_vars(&a[2]));
            let r1 = catch(|| l.for_all(&v1));
            let r2 = catch(|| l.for_all(&v2));
            out.case(key, a, &[fmt_res_bdd(&r1), fmt_res_bdd(&r2)]);
        }
        "C03.varex" => {
            let l = Bdd::from_string(&a[0]);
            let x = var(a[1].parse::<usize>().unwrap());
            let r1 = catch(|| l.var_exists(x));
            let r2 = catch(|| l.var_project(x));
            if l.size() > HUGE {
                out.case(key, a, &[fmt_res_bdd(&r1), fmt_res_bdd(&r2)]);
            } else {
                let r3 = catch(|| l.exists(&[x]));
                out.case(key, a, &[fmt_res_bdd(&r1), fmt_res_bdd(&r2), fmt_res_bdd(&r3)]);
            }
        }
        "C03.varall" => {
            let l = Bdd::from_string(&a[0]);
            let x = var(a[1].parse::<usize>().unwrap());
            let r1 = catch(|| l.var_for_all(x));
            if l.size() > HUGE {
                out.case(key, a, &[fmt_res_bdd(&r1)]);
            } else {
                let r2 = catch(|| l.for_all(&[x]));
                out.case(key, a, &[fmt_res_bdd(&r1), fmt_res_bdd(&r2)]);
            }
        }
        "C03.exqf" | "C03.allqf" => {
            let (v1, v2) = (parse_vars(&a[5]), parse_vars(&a[6]));
            let ex = key == "C03.exqf";
            let (r1, r2) = with_pair(&a[3], &a[4], &a[7], |l, r| {
                let f = |vs: &[BddVariable]| {
                    if ex { catch(|| Bdd::binary_op_with_exists(l, r, table_fn(&a[1]), vs)) }
                    else { catch(|| Bdd::binary_op_with_for_all(l, r, table_fn(&a[1]), vs)) }
                };
                (f(&v1), f(&v2))
            });
            out.case(key, a, &[fmt_res_bdd(&r1), fmt_res_bdd(&r2)]);
        }
        "C03.nestl" => {
            let vs = parse_vars(&a[5]);
            let res = with_pair(&a[3], &a[4], &a[8], |l, r| nested_with_list(l, r, &vs, &a[1], &a[6]));
            out.case(key, a, &[fmt_res_bdd(&res)]);
        }
        "C03.chain" => {
            let (x, y) = (Bdd::from_string(&a[3]), Bdd::from_string(&a[4]));
            let vs = parse_vars(&a[5]);
            let r = catch(|| Bdd::binary_op_with_exists(&x, &y, table_fn(&a[1]), &vs));
            let (r2, r3) = match &r {
                Some(r) => {
                    let r2 = catch(|| Bdd::binary_op_with_for_all(r, &x, table_fn(&a[1]), &vs));
                    let r3 = if a[6] == "alias" {
                        catch(|| Bdd::binary_op_with_exists(r, r, table_fn(&a[1]), &vs))
                    } else {
                        let rc = r.clone();
                        catch(|| Bdd::binary_op_with_exists(r, &rc, table_fn(&a[1]), &vs))
                    };
                    (r2, r3)
                }
                None => (None, None),
            };
            out.case(key, a, &[fmt_res_bdd(&r), fmt_res_bdd(&r2), fmt_res_bdd(&r3)]);
        }
        _ => panic!("unknown key {}", key),
    }
}

/// the subset `mask` of {0..n-1} as a list in increasing order
fn subset(n: usize, mask: usize) -> Vec<usize> { (0..n).filter(|k| (mask >> k) & 1 == 1).collect() }

/// a list with the same set of elements: shuffled, with random duplicates
fn reorder(rng: &mut Rng64, xs: &[usize]) -> Vec<usize> {
    let mut v: Vec<usize> = xs.to_vec();
    if v.is_empty() { return v; }
    let dups = rng.below(3) as usize;
    for _ in 0..dups { let x = *rng.pick(xs); v.push(x); }
    for i in (1..v.len()).rev() { let j = rng.below(i as u64 + 1) as usize; v.swap(i, j); }
    v
}

/// outer tables: the six built-in connectives in eager form, a lazy one, a random one
fn outer_tables(rng: &mut Rng64) -> Vec<(String, u32)> {
    let mut t: Vec<(String, u32)> = [8u32, 14, 6, 11, 4, 9].iter().map(|c| (eager_table2(*c), *c)).collect();
    let c = rng.below(16) as u32;
    t.push((lazy_table2(c), c));
    let c = rng.below(16) as u32;
    t.push((random_table2(rng, c), c));
    t
}

fn inner_choice(rng: &mut Rng64) -> (String, u32) {
    match rng.below(6) {
        0 | 1 => (s("or"), 14),
        2 | 3 => (s("and"), 8),
        4 => (if rng.bool() { lazy_table2(14) } else { random_table2(rng, 14) }, 14),
        _ => (if rng.bool() { lazy_table2(8) } else { random_table2(rng, 8) }, 8),
    }
}

fn quant_pair(rng: &mut Rng64, n: usize, tab: &(String, u32), l: &str, r: &str, vs: &[usize], out: &mut Out, both: bool) {
    let v2 = reorder(rng, vs);
    let ins = [n.to_string(), tab.0.clone(), tab.1.to_string(), s(l), s(r), fmt_usizes(vs), fmt_usizes(&v2)];
    let ex = rng.bool();
    if both || ex { run("C03.exq", &ins, out); }
    if both || !ex { run("C03.allq", &ins, out); }
}

fn unary_all(rng: &mut Rng64, n: usize, l: &str, out: &mut Out, subsets: &[usize]) {
    for m in subsets {
        let vs = subset(n, *m);
        let v2 = reorder(rng, &vs);
        run("C03.exists", &[s(l), fmt_usizes(&vs), fmt_usizes(&v2)], out);
        let v3 = reorder(rng, &vs);
        run("C03.forall", &[s(l), fmt_usizes(&vs), fmt_usizes(&v3)], out);
    }
    for x in 0..n {
        run("C03.varex", &[s(l), x.to_string()], out);
        run("C03.varall", &[s(l), x.to_string()], out);
    }
}

/// argument of a prepared big-operand case: a literal field or a reference to a (big, small) operand pair
#[derive(Clone)]
enum A { Lit(String), Big(usize), Small(usize) }

/// emits the next prepared big-operand case, if any
fn emit_big(q: &mut Vec<(&'static str, Vec<A>)>, ops: &[(String, String)], out: &mut Out) -> bool {
    match q.pop() {
        Some((key, args)) => {
            let ins: Vec<String> = args.iter().map(|a| match a {
                A::Lit(x) => x.clone(), A::Big(k) => ops[*k].0.clone(), A::Small(k) => ops[*k].1.clone() }).collect();
            run(key, &ins, out);
            true
        }
        None => false,
    }
}

/// a diagram over `n` variables whose support is (a subset of) the increasing list `sup`: the canonical
/// diagram of the truth table `tt` over `sup.len()` variables with the variables renamed monotonically
fn wide_bdd(n: usize, sup: &[usize], tt: &[bool]) -> String {
    let k = sup.len();
    let nodes: Vec<(usize, usize, usize)> = canon_triples(k, tt).iter()
        .map(|(v, l, h)| (if *v == k { n } else { sup[*v] }, *l, *h)).collect();
    fmt_triples(&nodes)
}

/// a small function over k variables: cube, 2-3 term DNF, parity, random table
fn small_fn(rng: &mut Rng64, k: usize) -> TT {
    let size = 1usize << k;
    let cube = |rng: &mut Rng64| { let m = rng.next() as usize & (size - 1); let v = rng.next() as usize & m; (m | 1, v) };
    match rng.below(5) {
        0 => { let (m, v) = cube(rng); (0..size).map(|i| (i & m) == (v & m)).collect() }
        1 | 2 => {
            let terms: Vec<(usize, usize)> = (0..(2 + rng.below(2))).map(|_| cube(rng)).collect();
            (0..size).map(|i| terms.iter().any(|(m, v)| (i & m) == (v & m))).collect()
        }
        3 => { let m = (rng.next() as usize & (size - 1)) | 1 | (size >> 1); let neg = rng.bool();
               (0..size).map(|i| ((i & m).count_ones() % 2 == 1) ^ neg).collect() }
        _ => random_tt(rng, k),
    }
}

/// a support of at most `k` variables below `n` (n > 64): clusters around the word boundaries 64, 128, 256,
/// 1024, pairs congruent modulo 64 (v, v+64, v+128), first and last variable, random ones
fn wide_support(rng: &mut Rng64, n: usize, k: usize) -> Vec<usize> {
    let mut sup: Vec<usize> = vec![];
    let mut add = |v: usize, sup: &mut Vec<usize>| { if v < n && !sup.contains(&v) && sup.len() < k { sup.push(v); } };
    let base = rng.below(64) as usize;
    add(base, &mut sup);
    add(base + 64 * (1 + rng.below(2) as usize), &mut sup);
    if rng.bool() { add(base + 128 + 64 * rng.below(3) as usize, &mut sup); }
    for b in [64usize, 128, 256, 1024] {
        if b < n && rng.chance(2, 3) { add(b - 1 - rng.below(2) as usize, &mut sup); add(b + rng.below(2) as usize, &mut sup); }
    }
    if rng.bool() { add(n - 1, &mut sup); }
    if rng.bool() { add(0, &mut sup); }
    while sup.len() < k.min(4) || (sup.len() < k && rng.chance(2, 3)) {
        let v = match rng.below(3) {
            0 => rng.below(n as u64) as usize,
            1 => { let u = *rng.pick(&sup); (u + 64 * (1 + rng.below(4) as usize)) % n }   // congruent to a member
            _ => { let u = *rng.pick(&sup); if u > 0 { u - 1 } else { u + 1 } }
        };
        add(v, &mut sup);
    }
    sup.sort();
    sup
}

/// a variable list mixing present / absent / congruent-mod-64 variables, repeats, and (rarely) non-variables
fn wide_list(rng: &mut Rng64, n: usize, sup: &[usize]) -> Vec<usize> {
    let mut vs: Vec<usize> = vec![];
    let len = rng.below(5) as usize;
    for _ in 0..len {
        let u = *rng.pick(sup);
        let v = match rng.below(8) {
            0 | 1 | 2 => u,                                                       // a support variable
            3 => u % 64,                                                          // its residue modulo 64
            4 => (u + 64 * (1 + rng.below(3) as usize)) % n,                      // congruent, usually absent
            5 => if u >= 64 { u - 64 } else { u + 64 },                           // congruent neighbour word
            6 => rng.below(n as u64) as usize,                                    // anything
            _ => if rng.chance(1, 4) { n + rng.below(70) as usize } else { (u + 1) % n },  // not a variable / neighbour
        };
        if !vs.contains(&v) { vs.push(v); }
    }
    vs
}

/// the wide stream: few-node diagrams spread over many variables through every quantifier entry point
fn gen_wide(rng: &mut Rng64, out: &mut Out, pairs: usize) {
    for i in 0..pairs {
        let n = match i % 6 {
            0 => 65 + rng.below(8) as usize,           // just above one machine word
            1 | 2 => 65 + rng.below(236) as usize,      // 65 .. 300
            3 => 120 + rng.below(20) as usize,         // around 128
            4 => 1030 + rng.below(150) as usize,       // ~1 100
            _ => 39000 + rng.below(2000) as usize,     // ~40 000
        };
        let k = 6 + rng.below(5) as usize;
        let sup = wide_support(rng, n, k);
        let pick_sub = |rng: &mut Rng64| -> Vec<usize> {
            let mut sub: Vec<usize> = sup.iter().cloned().filter(|_| rng.chance(2, 3)).collect();
            if sub.is_empty() { sub.push(sup[0]); }
            if sub.len() > 7 { sub.truncate(7); }
            sub
        };
        let (sl, sr) = (pick_sub(rng), pick_sub(rng));
        let l = wide_bdd(n, &sl, &small_fn(rng, sl.len()));
        let r = wide_bdd(n, &sr, &small_fn(rng, sr.len()));
        // unary entry points on L
        for _ in 0..2 {
            let vs = wide_list(rng, n, &sup);
            run("C03.exists", &[l.clone(), fmt_usizes(&vs), fmt_usizes(&reorder(rng, &vs))], out);
            let vs = wide_list(rng, n, &sup);
            run("C03.forall", &[l.clone(), fmt_usizes(&vs), fmt_usizes(&reorder(rng, &vs))], out);
        }
        let mut xs: Vec<usize> = vec![*rng.pick(&sl), *rng.pick(&sup)];
        let u = *rng.pick(&sl);
        xs.push(u % 64);
        xs.push(if u >= 64 { u - 64 } else { (u + 64) % n });
        if rng.chance(1, 6) { xs.push(n + rng.below(3) as usize); }   // check_flip_bounds panics
        for x in xs {
            run("C03.varex", &[l.clone(), x.to_string()], out);
            run("C03.varall", &[l.clone(), x.to_string()], out);
        }
        // binary entry points
        let tabs = outer_tables(rng);
        for _ in 0..2 {
            let tab = rng.pick(&tabs).clone();
            let vs = wide_list(rng, n, &sup);
            quant_pair(rng, n, &tab, &l, &r, &vs, out, true);
            let vs = wide_list(rng, n, &sup);
            let inner = inner_choice(rng);
            let tab = rng.pick(&tabs).clone();
            run("C03.nestl", &[n.to_string(), tab.0, tab.1.to_string(), l.clone(), r.clone(), fmt_usizes(&vs), inner.0, inner.1.to_string(), s("sep")], out);
        }
        let tab = rng.pick(&tabs).clone();
        let vs = wide_list(rng, n, &sup);
        run("C03.chain", &[n.to_string(), tab.0, tab.1.to_string(), l.clone(), r.clone(), fmt_usizes(&vs), s(if rng.bool() { "alias" } else { "clone" })], out);
    }
}

/// the aliasing stream: the same operand on both sides of every binary entry point, once as the very same
/// object and once as a clone, for all 16 connectives (eager tables), inner or / and, several lists
fn gen_alias(rng: &mut Rng64, out: &mut Out, ops: &[(usize, String)]) {
    for (n, a) in ops {
        let n = *n;
        for c in 0..16u32 {
            let table = if rng.chance(1, 4) { random_table2(rng, c) } else { eager_table2(c) };
            let mut lists: Vec<Vec<usize>> = vec![vec![]];
            if n > 0 { lists.push(subset(n, 1 + rng.below((1u64 << n) - 1) as usize)); }
            for (j, vs) in lists.iter().enumerate() {
                let v2 = reorder(rng, vs);
                for form in ["alias", "clone"] {
                    let ins = [n.to_string(), table.clone(), c.to_string(), a.clone(), a.clone(), fmt_usizes(vs), fmt_usizes(&v2), s(form)];
                    // both quantifiers on the first list, a random one on the others
                    let ex = rng.bool();
                    if j == 0 || ex { run("C03.exqf", &ins, out); }
                    if j == 0 || !ex { run("C03.allqf", &ins, out); }
                }
                let inner = inner_choice(rng);
                for form in ["alias", "clone"] {
                    run("C03.nestl", &[n.to_string(), table.clone(), c.to_string(), a.clone(), a.clone(), fmt_usizes(vs), inner.0.clone(), inner.1.to_string(), s(form)], out);
                }
            }
            if rng.chance(1, 4) {
                let vs = if n > 0 { subset(n, rng.below(1 << n) as usize) } else { vec![] };
                for form in ["alias", "clone"] {
                    run("C03.chain", &[n.to_string(), table.clone(), c.to_string(), a.clone(), a.clone(), fmt_usizes(&vs), s(form)], out);
                }
            }
        }
    }
}

pub fn gen(tier: Tier, rng: &mut Rng64, out: &mut Out) {
    let thorough = tier == Tier::Thorough;
    // --- exhaustive: all pairs of functions over n <= 2, every outer table, every subset
    for n in 0..=2usize {
        let count = 1u64 << (1u64 << n);
        let all: Vec<String> = (0..count).map(|t| fmt_bdd(&bdd_of_tt(n, &tt_from_index(n, t)))).collect();
        for l in &all {
            let subsets: Vec<usize> = (0..(1usize << n)).collect();
            unary_all(rng, n, l, out, &subsets);
            // out-of-range variable: check_flip_bounds panics
            run("C03.varex", &[l.clone(), n.to_string()], out);
            run("C03.varall", &[l.clone(), (n + 1).to_string()], out);
            for r in &all {
                let tabs = outer_tables(rng);
                for tab in &tabs {
                    for m in 0..(1usize << n) {
                        if thorough || n < 2 || rng.chance(1, 2) {
                            quant_pair(rng, n, tab, l, r, &subset(n, m), out, thorough);
                        }
                    }
                    if thorough || rng.chance(1, 3) {
                        let inner = inner_choice(rng);
                        let mask = rng.below(1 << (n + 1));
                        run("C03.nested", &[n.to_string(), tab.0.clone(), tab.1.to_string(), l.clone(), r.clone(), mask.to_string(), inner.0, inner.1.to_string()], out);
                    }
                }
            }
        }
    }
    // --- aliasing: the same operand passed twice (`&a, &a`) and as a clone, all 16 connectives
    {
        let mut ops: Vec<(usize, String)> = vec![];
        for n in 0..=2usize {
            let count = 1u64 << (1u64 << n);
            for t in 0..count { ops.push((n, fmt_bdd(&bdd_of_tt(n, &tt_from_index(n, t))))); }
        }
        let k3 = if thorough { 256 } else { 16 };
        for j in 0..k3 {
            let t = if thorough { j as u64 } else { rng.below(256) };
            ops.push((3, fmt_bdd(&bdd_of_tt(3, &tt_from_index(3, t)))));
        }
        for _ in 0..(if thorough { 400 } else { 12 }) {
            let n = 4 + rng.below(3) as usize;
            ops.push((n, fmt_bdd(&random_bdd(rng, n))));
        }
        gen_alias(rng, out, &ops);
    }
    // --- wide: few-node diagrams over 65 .. 40 000 variables (word boundaries, congruent variables)
    gen_wide(rng, out, if thorough { 6000 } else { 150 });
    // --- operands with more than 65 536 nodes (pointers that do not fit 16 bits: memo keys, node indices):
    // a dense pseudo-random function over 20 variables (~107 000 nodes) through var_exists / var_for_all
    // on low / middle / high variables, exists / for_all over one or two variables, and
    // binary_op_with_exists / for_all against a small partner (a literal or a parity) on either side.
    // The cases are prepared here and emitted at regular intervals inside the two loops below, so that the
    // runner's contiguous shards each get a few of them (they cost ~1 s each in the Lean driver).
    let bigs = if thorough { 8 } else { 2 };
    let mut bigs_ops: Vec<(String, String)> = vec![];
    let mut bigq: Vec<(&'static str, Vec<A>)> = vec![];
    for k in 0..bigs {
        let n = 20usize;
        let tt: Vec<bool> = (0..(1usize << n)).map(|_| rng.bool()).collect();
        let big = fmt_bdd(&bdd_of_tt(n, &tt));
        let small = if k % 2 == 0 {
            fmt_bdd(&bdd_of_tt(n, &(0..(1usize << n)).map(|i| (i >> 3) & 1 == 1).collect::<Vec<_>>())) // literal x16
        } else {
            let m: usize = (rng.next() as usize & ((1 << n) - 1)) | (1 << 12) | (1 << 16); // parity incl. x7, x3
            fmt_bdd(&bdd_of_tt(n, &(0..(1usize << n)).map(|i| (i & m).count_ones() % 2 == 1).collect::<Vec<_>>()))
        };
        bigs_ops.push((big, small));
        let (b, sm) = (A::Big(k), A::Small(k));
        let l = |x: &str| A::Lit(s(x));
        let ex_vars: [usize; 3] = [k % 2, 9 + (k % 3), 19 - (k % 2)];
        let all_vars: [usize; 3] = [1 - (k % 2), 12 - (k % 3), 18 + (k % 2)];
        for x in ex_vars { bigq.push(("C03.varex", vec![b.clone(), A::Lit(x.to_string())])); }
        for x in all_vars { bigq.push(("C03.varall", vec![b.clone(), A::Lit(x.to_string())])); }
        let one = [rng.below(n as u64) as usize];
        let two = [3 + rng.below(4) as usize, 11 + rng.below(8) as usize];
        let (e, f): (&[usize], &[usize]) = if k % 2 == 0 { (&one, &two) } else { (&two, &one) };
        bigq.push(("C03.exists", vec![b.clone(), A::Lit(fmt_usizes(e)), A::Lit(fmt_usizes(&reorder(rng, e)))]));
        bigq.push(("C03.forall", vec![b.clone(), A::Lit(fmt_usizes(f)), A::Lit(fmt_usizes(&reorder(rng, f)))]));
        let and = eager_table2(8);
        let ins1 = vec![l("20"), A::Lit(and.clone()), l("8"), b.clone(), sm.clone(), l("3,7"), l("7,3,3")];
        let ins2 = vec![l("20"), A::Lit(and.clone()), l("8"), sm.clone(), b.clone(), l("3,7"), l("7,7,3")];
        if k % 2 == 0 {
            bigq.push(("C03.exq", ins1)); bigq.push(("C03.allq", ins2));
        } else {
            bigq.push(("C03.allq", ins1)); bigq.push(("C03.exq", ins2));
        }
        if thorough {
            let tabs = outer_tables(rng);
            let tab = rng.pick(&tabs).clone();
            bigq.push(("C03.exq", vec![l("20"), A::Lit(tab.0.clone()), A::Lit(tab.1.to_string()), sm.clone(), b.clone(), l("3,7"), l("3,7,3")]));
            bigq.push(("C03.nested", vec![l("20"), A::Lit(and.clone()), l("8"), sm.clone(), b.clone(),
                A::Lit(((1u64 << 3) | (1 << 7)).to_string()), l("or"), l("14")]));
        }
    }
    bigq.reverse();
    let big_half = (bigq.len() as u64 + 1) / 2;
    // --- n = 3: all 256 functions for the unary operations; pairs sampled (quick) / all (thorough)
    let all3: Vec<String> = (0..256u64).map(|t| fmt_bdd(&bdd_of_tt(3, &tt_from_index(3, t)))).collect();
    for (i, l) in all3.iter().enumerate() {
        if thorough || i % 4 == (rng.below(4) as usize) {
            let subsets: Vec<usize> = (0..8).collect();
            unary_all(rng, 3, l, out, &subsets);
        }
    }
    let pairs3: u64 = if thorough { 65536 } else { 800 };
    for i in 0..pairs3 {
        let (a, b) = if thorough { ((i / 256) as usize, (i % 256) as usize) } else { (rng.below(256) as usize, rng.below(256) as usize) };
        let (l, r) = (&all3[a], &all3[b]);
        if i % (pairs3 / big_half).max(1) == 0 && bigq.len() as u64 > big_half { emit_big(&mut bigq, &bigs_ops, out); }
        let tabs = outer_tables(rng);
        for m in 0..8usize {
            let tab = rng.pick(&tabs).clone();
            quant_pair(rng, 3, &tab, l, r, &subset(3, m), out, thorough);
            if thorough {
                let tab = rng.pick(&tabs).clone();
                quant_pair(rng, 3, &tab, l, r, &subset(3, m), out, true);
            }
        }
        let tab = rng.pick(&tabs).clone();
        let inner = inner_choice(rng);
        let mask = rng.below(16);
        run("C03.nested", &[s("3"), tab.0.clone(), tab.1.to_string(), l.clone(), r.clone(), mask.to_string(), inner.0, inner.1.to_string()], out);
        if thorough && i % 16 == 0 {
            for tab in &tabs { quant_pair(rng, 3, tab, l, r, &[0, 1, 2], out, true); }
        }
    }
    // --- random operands over 4..6 variables (quick) / 4..8 (thorough); non-canonical operands;
    //     random subsets, all-variables-quantified cases (inner-cache sharing), lists mentioning
    //     variables outside the Bdd, arbitrary trigger masks
    let rounds = if thorough { 120000 } else { 2000 };
    for i in 0..rounds {
        if i % (rounds / big_half).max(1) == 0 { emit_big(&mut bigq, &bigs_ops, out); }
        let n = 4 + rng.below(if thorough { 5 } else { 3 }) as usize;
        let mut l = random_bdd(rng, n);
        let mut r = if rng.chance(1, 6) { l.clone() } else { random_bdd(rng, n) };
        if rng.chance(1, 6) { l = noncanon_variant(rng, &l); }
        if rng.chance(1, 6) { r = noncanon_variant(rng, &r); }
        let (ls, rs) = (fmt_bdd(&l), fmt_bdd(&r));
        let tabs = outer_tables(rng);
        let tab = rng.pick(&tabs).clone();
        let mask = match rng.below(5) {
            0 => (1usize << n) - 1,                       // everything quantified
            1 => ((1usize << n) - 1) & !(1usize << rng.below(n as u64)), // all but one
            2 => 1usize << rng.below(n as u64),            // a single variable
            _ => rng.below(1 << n) as usize,
        };
        let mut vs = subset(n, mask);
        if rng.chance(1, 10) { vs.push(n + rng.below(3) as usize); }  // not a variable of the Bdd: harmless
        quant_pair(rng, n, &tab, &ls, &rs, &vs, out, false);
        let inner = inner_choice(rng);
        let tmask = if rng.chance(1, 4) { (1u64 << n) - 1 } else { rng.below(1 << (n + 1)) };
        let tab2 = rng.pick(&tabs).clone();
        run("C03.nested", &[n.to_string(), tab2.0, tab2.1.to_string(), ls.clone(), rs.clone(), tmask.to_string(), inner.0, inner.1.to_string()], out);
        let v2 = reorder(rng, &vs);
        if rng.bool() {
            run("C03.exists", &[ls.clone(), fmt_usizes(&vs), fmt_usizes(&v2)], out);
        } else {
            run("C03.forall", &[ls.clone(), fmt_usizes(&vs), fmt_usizes(&v2)], out);
        }
        let x = rng.below(n as u64) as usize;
        run(if rng.bool() { "C03.varex" } else { "C03.varall" }, &[rs.clone(), x.to_string()], out);
    }
    while emit_big(&mut bigq, &bigs_ops, out) {}
    // --- operands with different variable counts: nested_apply panics
    for _ in 0..(if thorough { 200 } else { 20 }) {
        let n = 1 + rng.below(4) as usize;
        let l = fmt_bdd(&random_bdd(rng, n));
        let r = fmt_bdd(&random_bdd(rng, n + 1));
        let tab = (eager_table2(8), 8u32);
        quant_pair(rng, n, &tab, &l, &r, &[0], out, true);
        run("C03.nested", &[n.to_string(), tab.0.clone(), s("8"), r.clone(), l.clone(), s("1"), s("or"), s("14")], out);
    }
}

fn main() { harness_main(gen, run) }
